//! impl driver for the "cache" stream (C05, C15).
#![allow(dead_code)]
#[path = "cache.rs"]
mod cache;
#[path = "util.rs"]
mod util;
#[path = "vmain.rs"]
mod vmain;

fn main() {
    vmain::run(|stream, toks| match stream {
        "cache" => cache::handle(toks),
        _ => "IMPL-EXN:unknown-stream".to_string(),
    });
}
