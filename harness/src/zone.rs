//! impl side of the "zone" stream (C02; merge part of C12).  Case and result
//! syntax: see /verif/ocaml/drv_zone.ml.
use super::util::*;
use dns_types::protocol::types::*;
use dns_types::zones::types::*;

fn soa_of_tok(s: &str) -> Option<SOA> {
    if s == "-" {
        return None;
    }
    match rdata_of_tok(RecordType::SOA, s) {
        RecordTypeWithData::SOA { mname, rname, serial, refresh, retry, expire, minimum } => {
            Some(SOA { mname, rname, serial, refresh, retry, expire, minimum })
        }
        _ => panic!("zone: soa token"),
    }
}

fn show_res(r: &ZoneResult) -> String {
    match r {
        ZoneResult::Answer { rrs } => {
            let mut v: Vec<ResourceRecord> = rrs.clone();
            // stable: the order inside a type group is Vec order and is compared
            v.sort_by_key(|r| u16::from(r.rtype_with_data.rtype()));
            format!("A{}", tok_of_rrs(&v))
        }
        ZoneResult::CNAME { cname, rr } => format!("C{}={}", name_tok(cname), tok_of_rr(rr)),
        ZoneResult::Delegation { ns_rrs } => format!(
            "D{}={}",
            ns_rrs.first().map_or("_".to_string(), |r| show_name(&r.name)),
            tok_of_rrs(ns_rrs)
        ),
        ZoneResult::NameError => "N".to_string(),
    }
}

fn show_dump(m: std::collections::HashMap<&DomainName, Vec<&ZoneRecord>>) -> String {
    if m.is_empty() {
        return "_".to_string();
    }
    let mut l: Vec<(String, Vec<&ZoneRecord>)> = m
        .into_iter()
        .map(|(n, mut zs)| {
            zs.sort_by_key(|z| u16::from(z.rtype_with_data.rtype()));
            (show_name(n), zs)
        })
        .collect();
    l.sort_by(|a, b| a.0.as_bytes().cmp(b.0.as_bytes()));
    l.iter()
        .map(|(n, zs)| {
            format!(
                "{}={}",
                n,
                zs.iter()
                    .map(|z| format!("{}:{}:{}", u16::from(z.rtype_with_data.rtype()), z.ttl, tok_of_rdata(&z.rtype_with_data)))
                    .collect::<Vec<_>>()
                    .join(";")
            )
        })
        .collect::<Vec<_>>()
        .join("+")
}

pub fn handle(toks: &[&str]) -> String {
    match toks {
        ["Z", apex_t, soa_t, ops_t, qs_t] => {
            let apex = name_of_tok(apex_t);
            let mut acc: Option<Zone> = None;
            let mut cur = Zone::new(apex.clone(), soa_of_tok(soa_t));
            let finish = |acc: &mut Option<Zone>, cur: Zone| match acc {
                None => *acc = Some(cur),
                Some(z) => z.merge(cur).expect("zone: merge apex mismatch"),
            };
            if *ops_t != "_" {
                for o in ops_t.split('|') {
                    let p: Vec<&str> = o.split('~').collect();
                    match p[..] {
                        ["I", rr_t] => {
                            let r = rr_of_tok(rr_t);
                            cur.insert(&r.name, r.rtype_with_data, r.ttl);
                        }
                        ["W", rr_t] => {
                            let r = rr_of_tok(rr_t);
                            cur.insert_wildcard(&r.name, r.rtype_with_data, r.ttl);
                        }
                        ["M", s] => {
                            let next = Zone::new(apex.clone(), soa_of_tok(s));
                            finish(&mut acc, std::mem::replace(&mut cur, next));
                        }
                        _ => panic!("zone: bad op"),
                    }
                }
            }
            finish(&mut acc, cur);
            let z = acc.unwrap();
            let mut results = Vec::new();
            if *qs_t != "_" {
                for q in qs_t.split('|') {
                    let p: Vec<&str> = q.split('~').collect();
                    assert!(p.len() == 2, "zone: bad query");
                    let name = name_of_tok(p[0]);
                    let qtype = QueryType::from(p[1].parse::<u16>().unwrap());
                    results.push(match z.resolve(&name, qtype) {
                        None => "X".to_string(),
                        Some(r) => show_res(&r),
                    });
                }
            }
            format!(
                "{}#R{}#W{}#S{}",
                results.join("|"),
                show_dump(z.all_records()),
                show_dump(z.all_wildcard_records()),
                match z.get_soa() {
                    Some(s) => tok_of_rdata(&s.to_rdata()),
                    None => "-".to_string(),
                }
            )
        }
        _ => panic!("zone: bad case"),
    }
}
