//! impl driver for the "resolver" stream (C07, C08, C18; network-mode clauses of C01/C10).
#![allow(dead_code)]
#[path = "msg.rs"]
mod msg;
#[path = "resolver.rs"]
mod resolver;
#[path = "util.rs"]
mod util;
#[path = "vmain.rs"]
mod vmain;

fn main() {
    vmain::run(|stream, toks| match stream {
        "resolver" => resolver::handle(toks),
        _ => "IMPL-EXN:unknown-stream".to_string(),
    });
}
