//! impl side of the "cache" stream (C05, C15).  Syntax: see /verif/ocaml/drv_cache.ml.
//!
//! Extra (impl only, used by the thorough tier of C15):
//!   cache C <desired_size> <threads> <ops_per_thread> <seed>
//! spawns the threads, each doing pseudo-random insert / insert_all / get /
//! get_without_checking_expiration / prune calls on clones of one SharedCache
//! while also moving the virtual clock, joins them and prints `<now>!<dump>` of
//! the quiescent state.
use super::util::*;
use dns_resolver::cache::{SharedCache, VerifDump};
use dns_resolver::verif::clock;
use dns_types::protocol::types::*;

fn show_queue(q: &[(DomainName, u128)]) -> String {
    let mut l: Vec<(String, u128)> = q.iter().map(|(k, p)| (name_tok(k), *p)).collect();
    l.sort_by(|a, b| a.0.cmp(&b.0));
    l.iter().map(|(k, p)| format!("{k}={p}")).collect::<Vec<_>>().join("&")
}

pub fn show_dump(d: &VerifDump) -> String {
    let mut parts: Vec<(String, String)> = d
        .partitions
        .iter()
        .map(|p| {
            let mut recs: Vec<(u16, String)> = p
                .records
                .iter()
                .map(|(t, ts)| {
                    (
                        u16::from(*t),
                        ts.iter()
                            .map(|(v, e)| format!("{}@{}", tok_of_rdata(v), e))
                            .collect::<Vec<_>>()
                            .join("&"),
                    )
                })
                .collect();
            recs.sort_by_key(|r| r.0);
            let recs = recs.iter().map(|(t, s)| format!("{t}={s}")).collect::<Vec<_>>().join("+");
            (
                name_tok(&p.key),
                format!("{}/{}/{}/{}", p.last_read_ns, p.next_expiry_ns, p.size, recs),
            )
        })
        .collect();
    parts.sort_by(|a, b| a.0.cmp(&b.0));
    let mut s = format!("S{}/{}", d.current_size, d.desired_size);
    for (k, p) in &parts {
        s.push_str(&format!("#N{k}/{p}"));
    }
    s.push_str(&format!("#A{}#E{}", show_queue(&d.access_priority), show_queue(&d.expiry_priority)));
    s
}

fn show_rrs(mut rrs: Vec<ResourceRecord>) -> String {
    // stable: keeps Vec order inside one record type
    rrs.sort_by_key(|r| u16::from(r.rtype_with_data.rtype()));
    format!("L{}", tok_of_rrs(&rrs))
}

fn history(desired: &str, ops: &str) -> String {
    clock::set_ns(0);
    let cache = SharedCache::with_desired_size(desired.parse().unwrap());
    let mut res: Vec<String> = Vec::new();
    for tok in ops.split('|') {
        let f: Vec<&str> = tok.split('~').collect();
        let out = match f[..] {
            ["T", dt] => {
                clock::advance_ns(dt.parse().unwrap());
                res.push(format!("T{}", clock::now_ns()));
                continue;
            }
            ["I", r] => {
                cache.insert(&rr_of_tok(r));
                "U".to_string()
            }
            ["A", rs] => {
                cache.insert_all(&rrs_of_tok(rs));
                "U".to_string()
            }
            ["G", n, qt] => show_rrs(cache.get(&name_of_tok(n), QueryType::from(qt.parse::<u16>().unwrap()))),
            ["R", n, qt] => show_rrs(
                cache.get_without_checking_expiration(&name_of_tok(n), QueryType::from(qt.parse::<u16>().unwrap())),
            ),
            ["P"] => {
                let (ov, cur, exp, pruned) = cache.prune();
                format!("P{},{cur},{exp},{pruned}", u8::from(ov))
            }
            _ => panic!("cache: bad op"),
        };
        res.push(format!("{out}!{}", show_dump(&cache.verif_dump())));
    }
    res.join("|")
}

// ---- concurrency supplement ----

struct Lcg(u64);
impl Lcg {
    fn next(&mut self) -> u64 {
        self.0 = self.0.wrapping_mul(6364136223846793005).wrapping_add(1442695040888963407);
        self.0 >> 33
    }
    fn below(&mut self, n: u64) -> u64 {
        self.next() % n
    }
}

fn conc_rr(g: &mut Lcg) -> ResourceRecord {
    let names = ["61.-", "62.-", "63.61.-", "64.-", "65.64.-"];
    let name = name_of_tok(names[g.below(5) as usize]);
    let ttl = [0u32, 1, 1, 2, 5, 300, u32::MAX][g.below(7) as usize];
    let v = g.below(3) as u32;
    let rtype_with_data = match g.below(4) {
        0 => RecordTypeWithData::A { address: std::net::Ipv4Addr::from(v) },
        1 => RecordTypeWithData::MX { preference: v as u16, exchange: name_of_tok("6d.-") },
        2 => RecordTypeWithData::NS { nsdname: name_of_tok(["6e.-", "6f.-", "70.-"][v as usize]) },
        _ => RecordTypeWithData::TXT { octets: bytes::Bytes::from(vec![v as u8]) },
    };
    ResourceRecord { name, rtype_with_data, rclass: RecordClass::IN, ttl }
}

fn concurrent(desired: &str, threads: &str, nops: &str, seed: &str) -> String {
    clock::set_ns(0);
    let cache = SharedCache::with_desired_size(desired.parse().unwrap());
    let threads: u64 = threads.parse().unwrap();
    let nops: u64 = nops.parse().unwrap();
    let seed: u64 = seed.parse().unwrap();
    let mut hs = Vec::new();
    for t in 0..threads {
        let c = cache.clone();
        hs.push(std::thread::spawn(move || {
            let mut g = Lcg(seed.wrapping_mul(0x9E37_79B9_7F4A_7C15).wrapping_add(t + 1));
            for _ in 0..nops {
                clock::advance_ns([1u64, 7, 1_000, 300_000_000, 999_999_999, 1_000_000_000][g.below(6) as usize]);
                match g.below(10) {
                    0..=3 => c.insert(&conc_rr(&mut g)),
                    4 => {
                        let n = g.below(5);
                        let rs: Vec<ResourceRecord> = (0..n).map(|_| conc_rr(&mut g)).collect();
                        c.insert_all(&rs);
                    }
                    5 | 6 => {
                        let r = conc_rr(&mut g);
                        let qt = if g.below(2) == 0 { QueryType::Wildcard } else { QueryType::Record(r.rtype_with_data.rtype()) };
                        let _ = c.get(&r.name, qt);
                    }
                    7 => {
                        let r = conc_rr(&mut g);
                        let _ = c.get_without_checking_expiration(&r.name, QueryType::Record(r.rtype_with_data.rtype()));
                    }
                    _ => {
                        let _ = c.prune();
                    }
                }
            }
        }));
    }
    for h in hs {
        h.join().expect("worker thread panicked");
    }
    format!("{}!{}", clock::now_ns(), show_dump(&cache.verif_dump()))
}

pub fn handle(toks: &[&str]) -> String {
    match toks {
        ["H", desired, ops] => history(desired, ops),
        ["C", desired, threads, nops, seed] => concurrent(desired, threads, nops, seed),
        _ => panic!("cache: bad case"),
    }
}
