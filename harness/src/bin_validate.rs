//! impl driver for the "validate" stream (C06).
#![allow(dead_code)]
#[path = "msg.rs"]
mod msg;
#[path = "util.rs"]
mod util;
#[path = "validate.rs"]
mod validate;
#[path = "vmain.rs"]
mod vmain;

fn main() {
    vmain::run(|stream, toks| match stream {
        "validate" => validate::handle(toks),
        _ => "IMPL-EXN:unknown-stream".to_string(),
    });
}
