//! Main loop of an impl driver that must survive (and pin down) crashes of the code under
//! test -- the loop of bin_zonefile.rs as a module (C17: hosts and config drivers).
//!
//! Every case runs in its own thread with a fixed stack (VERIF_CASE_STACK bytes, default
//! 2 MiB = the stack of a tokio worker / std thread, the smallest stack the configuration
//! loader and its parsers run on in resolved) and under a watchdog (VERIF_CASE_WATCHDOG
//! seconds, default 60): a panic prints "Panic", a hang prints "Hang" (the stuck thread is
//! left behind), a stack overflow kills the process, which the python side reports as
//! DRIVER-DIED for exactly that case because the output is flushed after every case.
use std::io::{BufRead, Write};
use std::panic::{catch_unwind, AssertUnwindSafe};
use std::sync::mpsc;
use std::time::Duration;

pub fn run(dispatch: fn(&str, &[&str]) -> String) {
    std::panic::set_hook(Box::new(|_| {}));
    let stack: usize = std::env::var("VERIF_CASE_STACK").ok().and_then(|s| s.parse().ok()).unwrap_or(2 << 20);
    let watchdog: u64 = std::env::var("VERIF_CASE_WATCHDOG").ok().and_then(|s| s.parse().ok()).unwrap_or(300);
    let stdin = std::io::stdin();
    let stdout = std::io::stdout();
    let mut out = stdout.lock();
    for line in stdin.lock().lines() {
        let line = line.unwrap();
        if line.is_empty() || line.starts_with('#') {
            continue;
        }
        let (tx, rx) = mpsc::channel::<String>();
        let th = std::thread::Builder::new().stack_size(stack).spawn(move || {
            let toks: Vec<&str> = line.split(' ').collect();
            let r = catch_unwind(AssertUnwindSafe(|| dispatch(toks[0], &toks[1..])));
            let _ = tx.send(match r {
                Ok(s) => s,
                Err(_) => "Panic".to_string(),
            });
        });
        let res = match th {
            Ok(_) => match rx.recv_timeout(Duration::from_secs(watchdog)) {
                Ok(s) => s,
                Err(mpsc::RecvTimeoutError::Timeout) => "Hang".to_string(),
                Err(mpsc::RecvTimeoutError::Disconnected) => "Panic".to_string(),
            },
            Err(_) => "IMPL-EXN:spawn".to_string(),
        };
        writeln!(out, "{res}").unwrap();
        out.flush().unwrap();
    }
}
