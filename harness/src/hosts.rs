//! impl side of the "hosts" stream (C14).  Case and result syntax: see
//! /verif/ocaml/drv_hosts.ml.
use super::util::*;
use dns_types::hosts::deserialise::Error;
use dns_types::hosts::types::*;
use dns_types::protocol::types::*;
use dns_types::zones::types::*;
use std::collections::HashMap;
use std::net::{IpAddr, Ipv4Addr, Ipv6Addr};
use std::str::FromStr;

fn hex4(a: &Ipv6Addr) -> String {
    a.segments().iter().map(|s| format!("{s:04x}")).collect::<Vec<_>>().join("")
}

fn show_ipv(a: &IpAddr) -> String {
    match a {
        IpAddr::V4(x) => format!("4:{}", u32::from(*x)),
        IpAddr::V6(x) => format!("6:{}", hex4(x)),
    }
}

fn show_map<V>(m: &HashMap<DomainName, V>, f: impl Fn(&V) -> String) -> String {
    if m.is_empty() {
        return "_".to_string();
    }
    let mut l: Vec<(String, String)> = m.iter().map(|(n, a)| (show_name(n), f(a))).collect();
    l.sort_by(|a, b| a.0.as_bytes().cmp(b.0.as_bytes()));
    l.iter().map(|(n, a)| format!("{n}={a}")).collect::<Vec<_>>().join(";")
}

fn show_hosts(h: &Hosts) -> String {
    format!(
        "v4={}|v6={}",
        show_map(&h.v4, |a: &Ipv4Addr| u32::from(*a).to_string()),
        show_map(&h.v6, hex4)
    )
}

fn show_herr(e: &Error) -> String {
    match e {
        Error::ExpectedAscii { octet } => format!("Err:ExpectedAscii:{}", *octet as u32),
        Error::CouldNotParseAddress { address } => format!("Err:CouldNotParseAddress:{}", tok_of_str(address)),
        Error::CouldNotParseName { name } => format!("Err:CouldNotParseName:{}", tok_of_str(name)),
    }
}

fn show_res(r: &ZoneResult) -> String {
    match r {
        ZoneResult::Answer { rrs } => {
            let mut v: Vec<ResourceRecord> = rrs.clone();
            v.sort_by_key(|r| u16::from(r.rtype_with_data.rtype()));
            format!("A{}", tok_of_rrs(&v))
        }
        ZoneResult::CNAME { cname, rr } => format!("C{}={}", name_tok(cname), tok_of_rr(rr)),
        ZoneResult::Delegation { ns_rrs } => format!(
            "D{}={}",
            ns_rrs.first().map_or("_".to_string(), |r| show_name(&r.name)),
            tok_of_rrs(ns_rrs)
        ),
        ZoneResult::NameError => "N".to_string(),
    }
}

fn show_dump(m: HashMap<&DomainName, Vec<&ZoneRecord>>) -> String {
    if m.is_empty() {
        return "_".to_string();
    }
    let mut l: Vec<(String, Vec<&ZoneRecord>)> = m
        .into_iter()
        .map(|(n, mut zs)| {
            zs.sort_by_key(|z| u16::from(z.rtype_with_data.rtype()));
            (show_name(n), zs)
        })
        .collect();
    l.sort_by(|a, b| a.0.as_bytes().cmp(b.0.as_bytes()));
    l.iter()
        .map(|(n, zs)| {
            format!(
                "{}={}",
                n,
                zs.iter()
                    .map(|z| format!("{}:{}:{}", u16::from(z.rtype_with_data.rtype()), z.ttl, tok_of_rdata(&z.rtype_with_data)))
                    .collect::<Vec<_>>()
                    .join(";")
            )
        })
        .collect::<Vec<_>>()
        .join("+")
}

fn show_back(z: &Zone) -> String {
    let t = match Hosts::try_from(z.clone()) {
        Ok(h) => format!("Ok:{}", show_hosts(&h)),
        Err(e) => format!("Err:{e:?}"),
    };
    format!("T{}#L{}", t, show_hosts(&Hosts::from_zone_lossy(z)))
}

fn sorted_keys(h: &Hosts) -> Vec<DomainName> {
    let mut ks: Vec<(String, DomainName)> =
        h.v4.keys().chain(h.v6.keys()).map(|n| (show_name(n), n.clone())).collect();
    ks.sort_by(|a, b| a.0.as_bytes().cmp(b.0.as_bytes()));
    ks.dedup_by(|a, b| a.0 == b.0);
    ks.into_iter().map(|x| x.1).collect()
}

pub fn handle(toks: &[&str]) -> String {
    match toks {
        ["IP", t] => match IpAddr::from_str(&str_of_nums(t)) {
            Err(_) => "None".to_string(),
            Ok(a) => format!("Some:{}/{}", show_ipv(&a), tok_of_str(&a.to_string())),
        },
        ["L", t] => {
            let s = str_of_nums(t);
            let ls: Vec<String> = s.lines().map(tok_of_str).collect();
            if ls.is_empty() {
                "-".to_string()
            } else {
                ls.join("|")
            }
        }
        ["P", t] => match Hosts::deserialise(&str_of_nums(t)) {
            Ok(h) => format!("Ok:{}", show_hosts(&h)),
            Err(e) => show_herr(&e),
        },
        ["S", t] => match Hosts::deserialise(&str_of_nums(t)) {
            Ok(h) => format!("Ok:{}", tok_of_str(&h.serialise())),
            Err(e) => show_herr(&e),
        },
        ["RT", t] => match Hosts::deserialise(&str_of_nums(t)) {
            Ok(h) => {
                let d = show_hosts(&h);
                match Hosts::deserialise(&h.serialise()) {
                    Ok(h2) if h2 == h => format!("Ok:same:{d}"),
                    Ok(h2) => format!("Ok:diff:{d}!Ok:{}", show_hosts(&h2)),
                    Err(e) => format!("Ok:diff:{d}!{}", show_herr(&e)),
                }
            }
            Err(e) => show_herr(&e),
        },
        ["Z", t] => match Hosts::deserialise(&str_of_nums(t)) {
            Ok(h) => {
                let z = Zone::from(h.clone());
                let mut qs = Vec::new();
                for n in sorted_keys(&h) {
                    for qt in [RecordType::A, RecordType::AAAA] {
                        qs.push(match z.resolve(&n, QueryType::Record(qt)) {
                            None => "X".to_string(),
                            Some(r) => show_res(&r),
                        });
                    }
                }
                format!(
                    "R{}#W{}#S{}#X{}#{}#Q{}",
                    show_dump(z.all_records()),
                    show_dump(z.all_wildcard_records()),
                    if z.get_soa().is_some() { "soa" } else { "-" },
                    show_name(z.get_apex()),
                    show_back(&z),
                    if qs.is_empty() { "_".to_string() } else { qs.join("|") }
                )
            }
            Err(e) => show_herr(&e),
        },
        ["ZX", t, ops_t] => match Hosts::deserialise(&str_of_nums(t)) {
            Ok(h) => {
                let mut z = Zone::from(h);
                if *ops_t != "_" {
                    for o in ops_t.split('|') {
                        let p: Vec<&str> = o.split('~').collect();
                        match p[..] {
                            ["I", rr_t] => {
                                let r = rr_of_tok(rr_t);
                                z.insert(&r.name, r.rtype_with_data, r.ttl);
                            }
                            ["W", rr_t] => {
                                let r = rr_of_tok(rr_t);
                                z.insert_wildcard(&r.name, r.rtype_with_data, r.ttl);
                            }
                            _ => panic!("hosts: bad op"),
                        }
                    }
                }
                show_back(&z)
            }
            Err(e) => show_herr(&e),
        },
        ["M", t1, t2] => match Hosts::deserialise(&str_of_nums(t1)) {
            Ok(mut a) => match Hosts::deserialise(&str_of_nums(t2)) {
                Ok(b) => {
                    a.merge(b);
                    format!("Ok:{}", show_hosts(&a))
                }
                Err(e) => show_herr(&e),
            },
            Err(e) => show_herr(&e),
        },
        _ => panic!("hosts: bad case"),
    }
}
