//! impl driver for the "zone" stream (C02; merge part of C12).
#![allow(dead_code)]
#[path = "util.rs"]
mod util;
#[path = "vmain.rs"]
mod vmain;
#[path = "zone.rs"]
mod zone;

fn main() {
    vmain::run(|stream, toks| match stream {
        "zone" => zone::handle(toks),
        _ => "IMPL-EXN:unknown-stream".to_string(),
    });
}
