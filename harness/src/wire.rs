//! impl side of the "wire" stream (C03, C04); see /verif/ocaml/drv_wire.ml.
use super::msg::*;
use super::util::*;
use dns_types::protocol::deserialise::Error as DErr;
use dns_types::protocol::serialise::Error as SErr;
use dns_types::protocol::types::*;

fn show_derr(e: DErr) -> String {
    let kind = format!("{e:?}");
    let kind = kind.split('(').next().unwrap().to_string();
    match e.id() {
        Some(id) => format!("Err:{kind}:{id}"),
        None => format!("Err:{kind}:-"),
    }
}

fn show_serr(e: SErr) -> String {
    match e {
        SErr::CounterTooLarge { counter, .. } => format!("Err:CounterTooLarge:{counter}"),
    }
}

fn show_decoded(r: Result<Message, DErr>) -> String {
    match r {
        Ok(m) => format!("Ok:{}#{}", tok_of_msg(&m), msg_lens(&m)),
        Err(e) => show_derr(e),
    }
}

pub fn handle(toks: &[&str]) -> String {
    match toks {
        ["DEC", h] => show_decoded(Message::from_octets(&bytes_of_hex(h))),
        ["STACK2M", h] => {
            // decode on a thread whose stack is as large as the server's worker
            // threads' (tokio's default: 2 MiB); an overflow aborts the process
            let bytes = bytes_of_hex(h);
            let t = std::thread::Builder::new()
                .stack_size(2 * 1024 * 1024)
                .spawn(move || show_decoded(Message::from_octets(&bytes)))
                .expect("spawn");
            match t.join() {
                Ok(s) => s,
                Err(_) => "Panic".to_string(),
            }
        }
        ["ENC", t] => match msg_of_tok(t).to_octets() {
            Ok(bs) => format!("Ok:{}", fast_hex_of_bytes(&bs)),
            Err(e) => show_serr(e),
        },
        ["RT", t] => {
            let m = msg_of_tok(t);
            match m.to_octets() {
                Ok(bs) => {
                    let r = Message::from_octets(&bs);
                    if r.as_ref() == Ok(&m) {
                        format!("eq:{}", bs.len())
                    } else {
                        format!("neq:{}:{}", bs.len(), show_decoded(r))
                    }
                }
                Err(e) => show_serr(e),
            }
        }
        ["REENC", h] => match Message::from_octets(&bytes_of_hex(h)) {
            Ok(m) => match m.to_octets() {
                Ok(bs) => {
                    let again = Message::from_octets(&bs);
                    let eq = again.as_ref() == Ok(&m);
                    let stable = match &again {
                        Ok(m2) => match m2.to_octets() {
                            Ok(bs2) => bs2 == bs,
                            Err(_) => false,
                        },
                        Err(_) => false,
                    };
                    format!(
                        "Ok:{}:{}:{}:{:08x}",
                        if eq { "eq" } else { "neq" },
                        if stable { "stable" } else { "unstable" },
                        bs.len(),
                        fnv32(&bs)
                    )
                }
                Err(e) => format!("Ok:{}", show_serr(e)),
            },
            Err(e) => show_derr(e),
        },
        _ => panic!("wire: bad case"),
    }
}
