//! impl side of the "name" stream (C16).
use super::util::*;
use dns_types::protocol::types::*;
use dns_types::zones::types::*;

pub fn handle(toks: &[&str]) -> String {
    match toks {
        ["LT", h] => match Label::try_from(&bytes_of_hex(h)[..]) {
            Ok(l) => format!("Some:{}", hex_of_bytes(l.octets())),
            Err(_) => "None".to_string(),
        },
        ["FL", ls] => show_opt(DomainName::from_labels(labels_of_tok(ls)), |n| show_name(&n)),
        ["DS", s] => show_opt(DomainName::from_dotted_string(&str_of_nums(s)), |n| show_name(&n)),
        ["DS2", s] => {
            let a = str_of_nums(s);
            let b: String = a
                .chars()
                .map(|c| {
                    if c.is_ascii_uppercase() {
                        c.to_ascii_lowercase()
                    } else if c.is_ascii_lowercase() {
                        c.to_ascii_uppercase()
                    } else {
                        c
                    }
                })
                .collect();
            format!(
                "{}|{}",
                show_opt(DomainName::from_dotted_string(&a), |n| show_name(&n)),
                show_opt(DomainName::from_dotted_string(&b), |n| show_name(&n))
            )
        }
        ["TD", n] => tok_of_str(&name_of_tok(n).to_dotted_string()),
        ["RD", o, s] => show_opt(
            DomainName::from_relative_dotted_string(&name_of_tok(o), &str_of_nums(s)),
            |n| show_name(&n),
        ),
        ["MS", n, o] => show_opt(name_of_tok(n).make_subdomain_of(&name_of_tok(o)), |n| show_name(&n)),
        ["SUB", a, b] => name_of_tok(a).is_subdomain_of(&name_of_tok(b)).to_string(),
        ["WN", h] => {
            let mut msg = vec![0u8, 0, 0, 0, 0, 1, 0, 0, 0, 0, 0, 0];
            let body = bytes_of_hex(h);
            msg.extend_from_slice(&body);
            msg.extend_from_slice(&[0, 1, 0, 1]);
            match Message::from_octets(&msg) {
                Ok(m) => {
                    let n = &m.questions[0].name;
                    format!("Ok:{}", show_name(n))
                }
                Err(e) => format!("Err:{}", format!("{e:?}").split('(').next().unwrap()),
            }
        }
        ["WNS", parts] => {
            let ps: Vec<&str> = parts.split(',').collect();
            let mut msg = vec![0u8, 0, 0, 0, (ps.len() >> 8) as u8, (ps.len() & 255) as u8, 0, 0, 0, 0, 0, 0];
            for h in &ps {
                msg.extend_from_slice(&bytes_of_hex(h));
                msg.extend_from_slice(&[0, 1, 0, 1]);
            }
            match Message::from_octets(&msg) {
                Ok(m) => format!(
                    "Ok:{}",
                    m.questions.iter().map(|q| show_name(&q.name)).collect::<Vec<_>>().join(",")
                ),
                Err(e) => format!("Err:{}", format!("{e:?}").split('(').next().unwrap()),
            }
        }
        ["ZG", apexes, n] => {
            let mut zs = Zones::new();
            for a in apexes.split(';') {
                zs.insert(Zone::new(name_of_tok(a), None));
            }
            show_opt(zs.get(&name_of_tok(n)), |z| show_name(z.get_apex()))
        }
        _ => panic!("name: bad case"),
    }
}
