//! impl driver for the "name" stream (C16).
#![allow(dead_code)]
#[path = "name.rs"]
mod name;
#[path = "util.rs"]
mod util;
#[path = "vmain.rs"]
mod vmain;

fn main() {
    vmain::run(|stream, toks| match stream {
        "name" => name::handle(toks),
        _ => "IMPL-EXN:unknown-stream".to_string(),
    });
}
