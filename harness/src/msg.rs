//! Token syntax for whole messages (see /verif/ocaml/vmsg.ml).
use super::util::*;
use dns_types::protocol::types::*;

fn flag(s: &str) -> bool {
    match s {
        "0" => false,
        "1" => true,
        _ => panic!("flag token"),
    }
}

pub fn header_of_tok(s: &str) -> Header {
    let p: Vec<&str> = s.split(',').collect();
    assert!(p.len() == 8, "header token");
    Header {
        id: p[0].parse().unwrap(),
        is_response: flag(p[1]),
        opcode: Opcode::from(p[2].parse::<u8>().unwrap()),
        is_authoritative: flag(p[3]),
        is_truncated: flag(p[4]),
        recursion_desired: flag(p[5]),
        recursion_available: flag(p[6]),
        rcode: Rcode::from(p[7].parse::<u8>().unwrap()),
    }
}

pub fn tok_of_header(h: &Header) -> String {
    let b = |x: bool| if x { 1 } else { 0 };
    format!(
        "{},{},{},{},{},{},{},{}",
        h.id,
        b(h.is_response),
        u8::from(h.opcode),
        b(h.is_authoritative),
        b(h.is_truncated),
        b(h.recursion_desired),
        b(h.recursion_available),
        u8::from(h.rcode)
    )
}

pub fn questions_of_tok(s: &str) -> Vec<Question> {
    if s == "_" {
        Vec::new()
    } else {
        s.split(';').map(question_of_tok).collect()
    }
}

pub fn tok_of_questions(l: &[Question]) -> String {
    if l.is_empty() {
        "_".to_string()
    } else {
        l.iter().map(tok_of_question).collect::<Vec<_>>().join(";")
    }
}

pub fn msg_of_tok(s: &str) -> Message {
    let p: Vec<&str> = s.split('|').collect();
    assert!(p.len() == 5, "message token");
    Message {
        header: header_of_tok(p[0]),
        questions: questions_of_tok(p[1]),
        answers: rrs_of_tok(p[2]),
        authority: rrs_of_tok(p[3]),
        additional: rrs_of_tok(p[4]),
    }
}

pub fn tok_of_msg(m: &Message) -> String {
    format!(
        "{}|{}|{}|{}|{}",
        tok_of_header(&m.header),
        tok_of_questions(&m.questions),
        tok_of_rrs(&m.answers),
        tok_of_rrs(&m.authority),
        tok_of_rrs(&m.additional)
    )
}

fn rdata_lens(d: &RecordTypeWithData) -> usize {
    match d {
        RecordTypeWithData::NS { nsdname: n }
        | RecordTypeWithData::MD { madname: n }
        | RecordTypeWithData::MF { madname: n }
        | RecordTypeWithData::CNAME { cname: n }
        | RecordTypeWithData::MB { madname: n }
        | RecordTypeWithData::MG { mdmname: n }
        | RecordTypeWithData::MR { newname: n }
        | RecordTypeWithData::PTR { ptrdname: n } => n.len,
        RecordTypeWithData::SOA { mname, rname, .. } => mname.len + rname.len,
        RecordTypeWithData::MINFO { rmailbx, emailbx } => rmailbx.len + emailbx.len,
        RecordTypeWithData::MX { exchange, .. } => exchange.len,
        RecordTypeWithData::SRV { target, .. } => target.len,
        _ => 0,
    }
}

/// Sum of the recorded `len` of every name in the message.
pub fn msg_lens(m: &Message) -> usize {
    let mut s = 0;
    for q in &m.questions {
        s += q.name.len;
    }
    for r in m.answers.iter().chain(m.authority.iter()).chain(m.additional.iter()) {
        s += r.name.len + rdata_lens(&r.rtype_with_data);
    }
    s
}

/// Linear-time hex (util::hex_of_bytes formats octet by octet).
pub fn fast_hex_of_bytes(b: &[u8]) -> String {
    if b.is_empty() {
        return "-".to_string();
    }
    const D: &[u8; 16] = b"0123456789abcdef";
    let mut s = Vec::with_capacity(2 * b.len());
    for x in b {
        s.push(D[(x >> 4) as usize]);
        s.push(D[(x & 15) as usize]);
    }
    String::from_utf8(s).unwrap()
}

/// FNV-1a, 32 bit.
pub fn fnv32(b: &[u8]) -> u32 {
    let mut h: u32 = 2166136261;
    for x in b {
        h = (h ^ u32::from(*x)).wrapping_mul(16777619);
    }
    h
}
