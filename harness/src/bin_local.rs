//! impl driver for the "local" stream (local part of C01 and C10).
#![allow(dead_code)]
#[path = "local.rs"]
mod local;
#[path = "util.rs"]
mod util;
#[path = "vmain.rs"]
mod vmain;

fn main() {
    vmain::run(|stream, toks| match stream {
        "local" => local::handle(toks),
        _ => "IMPL-EXN:unknown-stream".to_string(),
    });
}
