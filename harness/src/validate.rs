//! impl side of the "validate" stream (C06).  Syntax: see /verif/ocaml/drv_validate.ml.
//!
//! V and S call the reply filter (through the cfg(resolved_verif) wrapper) and
//! `get_nxdomain_nodata_soa`; Q runs the real `query_nameserver` on a paused
//! current-thread tokio runtime against the in-memory transport of
//! `dns_resolver::verif::net`, so the UDP-then-TCP logic, both time-outs, the
//! 512-octet receive buffer, the TCP length prefix and `response_matches_request`
//! all run unmodified.
use super::msg::*;
use super::util::*;
use dns_resolver::recursive::{verif_validate_nameserver_response, NameserverResponse};
use dns_resolver::util::nameserver::{get_nxdomain_nodata_soa, query_nameserver};
use dns_resolver::verif::net::{set_handler, Proto, Reply};
use dns_types::protocol::types::*;
use std::net::SocketAddr;
use std::time::Duration;

fn response_of(q: &Question, rcode: &str, an: &str, au: &str, ad: &str) -> Message {
    let mut r = Message::from_question(4660, q.clone()).make_response();
    r.header.rcode = Rcode::from(rcode.parse::<u8>().unwrap());
    r.answers = rrs_of_tok(an);
    r.authority = rrs_of_tok(au);
    r.additional = rrs_of_tok(ad);
    r
}

fn sorted_names(l: &[DomainName]) -> String {
    let mut v: Vec<String> = l.iter().map(name_tok).collect();
    v.sort();
    if v.is_empty() {
        "_".to_string()
    } else {
        v.join(";")
    }
}

fn show_nsresponse(r: &NameserverResponse) -> String {
    match r {
        NameserverResponse::Answer { rrs, soa_rr } => format!(
            "Answer|{}|{}",
            tok_of_rrs(rrs),
            match soa_rr {
                Some(s) => tok_of_rr(s),
                None => "-".to_string(),
            }
        ),
        NameserverResponse::CNAME { rrs, cname } => format!("Cname|{}|{}", tok_of_rrs(rrs), name_tok(cname)),
        NameserverResponse::Delegation { rrs, delegation } => format!(
            "Deleg|{}|{}|{}",
            tok_of_rrs(rrs),
            name_tok(&delegation.name),
            sorted_names(&delegation.hostnames)
        ),
    }
}

#[derive(Clone)]
enum ReplyBody {
    Raw(Vec<u8>),
    Msg(Message),
}

#[derive(Clone)]
struct Spec {
    delay_ms: u64,
    /// TCP only: declared length = octets sent + delta
    delta: i64,
    cut: i64,
    body: ReplyBody,
}

fn body_of_tok(s: &str) -> ReplyBody {
    if let Some(h) = s.strip_prefix('x') {
        ReplyBody::Raw(bytes_of_hex(h))
    } else {
        ReplyBody::Msg(msg_of_tok(s))
    }
}

/// The octets the peer sends for this spec, given the id of the request.
fn reply_bytes(spec: &Spec, request_id: u16) -> Option<Vec<u8>> {
    let whole = match &spec.body {
        ReplyBody::Raw(b) => b.clone(),
        ReplyBody::Msg(m) => {
            let mut m = m.clone();
            // the id field of the token is a delta
            m.header.id = request_id.wrapping_add(m.header.id);
            match m.to_octets() {
                Ok(b) => b.to_vec(),
                Err(_) => return None,
            }
        }
    };
    if spec.cut < 0 {
        Some(whole)
    } else {
        let n = (spec.cut as usize).min(whole.len());
        Some(whole[..n].to_vec())
    }
}

fn silent() -> Reply {
    Reply { bytes: None, delay: Duration::ZERO, close: false, refuse: false }
}

fn query(q: &Question, udp: &str, tcp: &str) -> String {
    let udp_spec: Option<Spec> = {
        let p: Vec<&str> = udp.split('~').collect();
        match p.as_slice() {
            ["none"] => None,
            [delay, cut, reply] => Some(Spec {
                delay_ms: delay.parse().unwrap(),
                delta: 0,
                cut: cut.parse().unwrap(),
                body: body_of_tok(reply),
            }),
            _ => panic!("udp spec"),
        }
    };
    let mut tcp_refuse = false;
    let tcp_spec: Option<Spec> = {
        let p: Vec<&str> = tcp.split('~').collect();
        match p.as_slice() {
            ["none"] => None,
            ["refuse"] => {
                tcp_refuse = true;
                None
            }
            [delay, delta, cut, reply] => Some(Spec {
                delay_ms: delay.parse().unwrap(),
                delta: delta.parse().unwrap(),
                cut: cut.parse().unwrap(),
                body: body_of_tok(reply),
            }),
            _ => panic!("tcp spec"),
        }
    };

    let request_id = std::sync::Arc::new(std::sync::Mutex::new(None::<u16>));
    let rid = request_id.clone();
    set_handler(Some(Box::new(move |proto, _addr, request: &[u8]| {
        if request.is_empty() {
            // the TCP connection attempt itself
            return Reply { bytes: None, delay: Duration::ZERO, close: false, refuse: tcp_refuse };
        }
        // the peer reads the request to learn its id
        let id = match Message::from_octets(request) {
            Ok(m) => m.header.id,
            Err(_) => return silent(),
        };
        *rid.lock().unwrap() = Some(id);
        match proto {
            Proto::Udp => match &udp_spec {
                None => silent(),
                Some(spec) => match reply_bytes(spec, id) {
                    None => silent(),
                    Some(b) => Reply {
                        bytes: Some(b),
                        delay: Duration::from_millis(spec.delay_ms),
                        close: false,
                        refuse: false,
                    },
                },
            },
            Proto::Tcp => match &tcp_spec {
                None => silent(),
                Some(spec) => match reply_bytes(spec, id) {
                    None => silent(),
                    Some(b) => {
                        let declared = (b.len() as i64 + spec.delta) as u16;
                        let mut stream = declared.to_be_bytes().to_vec();
                        stream.extend_from_slice(&b);
                        Reply {
                            bytes: Some(stream),
                            delay: Duration::from_millis(spec.delay_ms),
                            close: true,
                            refuse: false,
                        }
                    }
                },
            },
        }
    })));

    let rt = tokio::runtime::Builder::new_current_thread()
        .enable_time()
        .start_paused(true)
        .build()
        .unwrap();
    let addr: SocketAddr = "192.0.2.1:53".parse().unwrap();
    let res = rt.block_on(query_nameserver(addr, q.clone(), false));
    set_handler(None);
    let id = request_id.lock().unwrap().unwrap_or(0);
    match res {
        None => "None".to_string(),
        Some(mut m) => {
            m.header.id = m.header.id.wrapping_sub(id);
            format!("Some:{}", tok_of_msg(&m))
        }
    }
}

pub fn handle(toks: &[&str]) -> String {
    match toks {
        ["V", q, mc, rcode, an, au, ad] => {
            let q = question_of_tok(q);
            let resp = response_of(&q, rcode, an, au, ad);
            match verif_validate_nameserver_response(&q, &resp, mc.parse().unwrap()) {
                None => "None".to_string(),
                Some(r) => show_nsresponse(&r),
            }
        }
        ["S", q, mc, rcode, an, au, ad] => {
            let q = question_of_tok(q);
            let resp = response_of(&q, rcode, an, au, ad);
            show_opt(get_nxdomain_nodata_soa(&q, &resp, mc.parse().unwrap()), tok_of_rr)
        }
        ["Q", q, udp, tcp] => query(&question_of_tok(q), udp, tcp),
        _ => panic!("validate: bad case"),
    }
}
