//! impl driver for the "config" stream (C12, C19).
#![allow(dead_code)]
#[path = "config.rs"]
mod config;
#[path = "util.rs"]
mod util;
#[path = "vmain.rs"]
mod vmain;

fn main() {
    vmain::run(|stream, toks| match stream {
        "config" => config::handle(toks),
        _ => "IMPL-EXN:unknown-stream".to_string(),
    });
}
