//! impl driver for the "config" stream (C12, C19, and the loader part of C17).
//!
//! With VERIF_CASE_STACK set (C17) every case runs in its own thread with that stack under a
//! watchdog, flushed per case (vthread.rs: Panic / Hang / driver death are reported for exactly
//! the case that caused them); without it the generic vmain loop is used (C12, C19).
#![allow(dead_code)]
#[path = "config.rs"]
mod config;
#[path = "util.rs"]
mod util;
#[path = "vmain.rs"]
mod vmain;
#[path = "vthread.rs"]
mod vthread;

fn dispatch(stream: &str, toks: &[&str]) -> String {
    match stream {
        "config" => config::handle(toks),
        _ => "IMPL-EXN:unknown-stream".to_string(),
    }
}

fn main() {
    if std::env::var_os("VERIF_CASE_STACK").is_some() {
        vthread::run(dispatch);
    } else {
        vmain::run(dispatch);
    }
}
