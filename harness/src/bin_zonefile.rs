//! impl driver for the "zonefile" stream (C11, C13, C17).
//!
//! Unlike the generic vmain loop, every case runs in its own thread with a fixed stack
//! (VERIF_ZF_STACK bytes, default 2 MiB = the stack of a tokio worker / std thread, the
//! smallest stack the parser runs on in resolved) and under a watchdog (VERIF_ZF_WATCHDOG
//! seconds, default 60): a panic prints "Panic", a hang prints "Hang" (the stuck thread is
//! left behind), a stack overflow kills the process, which the python side reports as
//! DRIVER-DIED for exactly that case because the output is flushed after every case.
#![allow(dead_code)]
#[path = "util.rs"]
mod util;
#[path = "zonefile.rs"]
mod zonefile;

use std::io::{BufRead, Write};
use std::panic::{catch_unwind, AssertUnwindSafe};
use std::sync::mpsc;
use std::time::Duration;

fn main() {
    std::panic::set_hook(Box::new(|_| {}));
    let stack: usize = std::env::var("VERIF_ZF_STACK").ok().and_then(|s| s.parse().ok()).unwrap_or(2 << 20);
    let watchdog: u64 = std::env::var("VERIF_ZF_WATCHDOG").ok().and_then(|s| s.parse().ok()).unwrap_or(300);
    let stdin = std::io::stdin();
    let stdout = std::io::stdout();
    let mut out = stdout.lock();
    for line in stdin.lock().lines() {
        let line = line.unwrap();
        if line.is_empty() || line.starts_with('#') {
            continue;
        }
        let (tx, rx) = mpsc::channel::<String>();
        let th = std::thread::Builder::new().stack_size(stack).spawn(move || {
            let toks: Vec<&str> = line.split(' ').collect();
            let r = catch_unwind(AssertUnwindSafe(|| match toks[0] {
                "zonefile" => zonefile::handle(&toks[1..]),
                _ => "IMPL-EXN:unknown-stream".to_string(),
            }));
            let _ = tx.send(match r {
                Ok(s) => s,
                Err(_) => "Panic".to_string(),
            });
        });
        let res = match th {
            Ok(_) => match rx.recv_timeout(Duration::from_secs(watchdog)) {
                Ok(s) => s,
                Err(mpsc::RecvTimeoutError::Timeout) => "Hang".to_string(),
                Err(mpsc::RecvTimeoutError::Disconnected) => "Panic".to_string(),
            },
            Err(_) => "IMPL-EXN:spawn".to_string(),
        };
        writeln!(out, "{res}").unwrap();
        out.flush().unwrap();
    }
}
