//! impl driver for the "wire" stream (C03, C04).
#![allow(dead_code)]
#[path = "msg.rs"]
mod msg;
#[path = "name.rs"]
mod name;
#[path = "util.rs"]
mod util;
#[path = "vmain.rs"]
mod vmain;
#[path = "wire.rs"]
mod wire;

fn main() {
    // The case loop runs on a thread with a large stack: an unoptimised build needs
    // more than the default for the longest legal pointer chain (the 2 MiB
    // question is asked separately, by the STACK2M op on a release build).
    let t = std::thread::Builder::new()
        .stack_size(256 << 20)
        .spawn(|| {
            vmain::run(|stream, toks| match stream {
                "wire" => wire::handle(toks),
                "name" => name::handle(toks),
                _ => "IMPL-EXN:unknown-stream".to_string(),
            })
        })
        .expect("spawn");
    t.join().expect("join");
}
