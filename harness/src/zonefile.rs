//! impl side of the "zonefile" stream (C11, C13, C17).  Case and result syntax:
//! see /verif/ocaml/drv_zonefile.ml.
use super::util::*;
use dns_types::protocol::types::*;
use dns_types::zones::deserialise::Error;
use dns_types::zones::types::*;

fn err_name(e: &Error) -> &'static str {
    match e {
        Error::TokeniserUnexpected { .. } => "TokeniserUnexpected",
        Error::TokeniserUnexpectedEscape { .. } => "TokeniserUnexpectedEscape",
        Error::IncludeNotSupported { .. } => "IncludeNotSupported",
        Error::MultipleSOA => "MultipleSOA",
        Error::WildcardSOA => "WildcardSOA",
        Error::NotSubdomainOfApex { .. } => "NotSubdomainOfApex",
        Error::Unexpected { .. } => "Unexpected",
        Error::ExpectedU32 { .. } => "ExpectedU32",
        Error::ExpectedOrigin => "ExpectedOrigin",
        Error::ExpectedDomainName { .. } => "ExpectedDomainName",
        Error::WrongLen { .. } => "WrongLen",
        Error::MissingType { .. } => "MissingType",
        Error::MissingTTL { .. } => "MissingTTL",
        Error::MissingDomainName { .. } => "MissingDomainName",
    }
}

fn soa_of_tok(s: &str) -> Option<SOA> {
    if s == "-" {
        return None;
    }
    match rdata_of_tok(RecordType::SOA, s) {
        RecordTypeWithData::SOA { mname, rname, serial, refresh, retry, expire, minimum } => {
            Some(SOA { mname, rname, serial, refresh, retry, expire, minimum })
        }
        _ => panic!("zonefile: soa token"),
    }
}

fn show_dump(m: std::collections::HashMap<&DomainName, Vec<&ZoneRecord>>) -> String {
    if m.is_empty() {
        return "_".to_string();
    }
    let mut l: Vec<(String, Vec<&ZoneRecord>)> = m
        .into_iter()
        .map(|(n, mut zs)| {
            // stable: the order inside a type group is Vec order and is compared
            zs.sort_by_key(|z| u16::from(z.rtype_with_data.rtype()));
            (show_name(n), zs)
        })
        .collect();
    l.sort_by(|a, b| a.0.as_bytes().cmp(b.0.as_bytes()));
    l.iter()
        .map(|(n, zs)| {
            format!(
                "{}={}",
                n,
                zs.iter()
                    .map(|z| format!("{}:{}:{}", u16::from(z.rtype_with_data.rtype()), z.ttl, tok_of_rdata(&z.rtype_with_data)))
                    .collect::<Vec<_>>()
                    .join(";")
            )
        })
        .collect::<Vec<_>>()
        .join("+")
}

fn show_zone(z: &Zone) -> String {
    format!(
        "Ok:{}#S{}#R{}#W{}",
        show_name(z.get_apex()),
        match z.get_soa() {
            Some(s) => tok_of_rdata(&s.to_rdata()),
            None => "-".to_string(),
        },
        show_dump(z.all_records()),
        show_dump(z.all_wildcard_records())
    )
}

fn show_parse(r: &Result<Zone, Error>) -> String {
    match r {
        Ok(z) => show_zone(z),
        Err(e) => format!("Err:{}", err_name(e)),
    }
}

/// Blocks = maximal runs of non-empty lines; inside a block the lines are stable-sorted by
/// (1st field, 4th field), fields separated by runs of ' '.
fn canon_text(t: &str) -> String {
    fn key(l: &str) -> (String, String) {
        let f: Vec<&str> = l.split(' ').filter(|x| !x.is_empty()).collect();
        if f.len() >= 4 {
            (f[0].to_string(), f[3].to_string())
        } else if !f.is_empty() {
            (f[0].to_string(), String::new())
        } else {
            (String::new(), String::new())
        }
    }
    fn flush<'a>(blk: &mut Vec<&'a str>, out: &mut Vec<&'a str>) {
        blk.sort_by(|a, b| {
            let (ka, kb) = (key(a), key(b));
            (ka.0.as_bytes(), ka.1.as_bytes()).cmp(&(kb.0.as_bytes(), kb.1.as_bytes()))
        });
        out.append(blk);
    }
    let mut out: Vec<&str> = Vec::new();
    let mut blk: Vec<&str> = Vec::new();
    for l in t.split('\n') {
        if l.is_empty() {
            flush(&mut blk, &mut out);
            out.push("");
        } else {
            blk.push(l);
        }
    }
    flush(&mut blk, &mut out);
    out.join("\n")
}

fn tok_of_bytes(s: &str) -> String {
    if s.is_empty() {
        return "_".to_string();
    }
    s.bytes().map(|b| b.to_string()).collect::<Vec<_>>().join(",")
}

fn roundtrip(z: &Zone) -> String {
    let t1 = z.serialise();
    match Zone::deserialise(&t1) {
        Ok(z2) => {
            let eq = &z2 == z;
            let t2 = z2.serialise();
            let idem = canon_text(&t1) == canon_text(&t2);
            format!("{eq},{idem}#{}", show_zone(&z2))
        }
        Err(e) => format!("false,false#Err:{}", err_name(&e)),
    }
}

pub fn handle(toks: &[&str]) -> String {
    match toks {
        ["P", t] | ["P", t, _] => show_parse(&Zone::deserialise(&str_of_nums(t))),
        ["S", t] | ["S", t, _] => match Zone::deserialise(&str_of_nums(t)) {
            Ok(z) => format!("Ok:{}", tok_of_bytes(&canon_text(&z.serialise()))),
            Err(e) => format!("Err:{}", err_name(&e)),
        },
        ["RT", t] | ["RT", t, _] => match Zone::deserialise(&str_of_nums(t)) {
            Ok(z) => roundtrip(&z),
            Err(e) => format!("Err:{}", err_name(&e)),
        },
        ["B", apex_t, soa_t, ops_t] | ["B", apex_t, soa_t, ops_t, _] => {
            let apex = name_of_tok(apex_t);
            let mut z = Zone::new(apex, soa_of_tok(soa_t));
            if *ops_t != "_" {
                for o in ops_t.split('|') {
                    let p: Vec<&str> = o.split('~').collect();
                    match p[..] {
                        ["I", rr_t] => {
                            let r = rr_of_tok(rr_t);
                            z.insert(&r.name, r.rtype_with_data, r.ttl);
                        }
                        ["W", rr_t] => {
                            let r = rr_of_tok(rr_t);
                            z.insert_wildcard(&r.name, r.rtype_with_data, r.ttl);
                        }
                        _ => panic!("zonefile: bad op"),
                    }
                }
            }
            roundtrip(&z)
        }
        _ => panic!("zonefile: bad case"),
    }
}
