//! Generic main loop of an impl driver: reads case lines "<stream> <op> <args...>"
//! on stdin, prints one result line per case.  Every case runs under
//! catch_unwind; a panic is printed as "Panic" (the model predicts panics
//! explicitly, DESIGN 3.2).
use std::io::{BufRead, Write};
use std::panic::{catch_unwind, AssertUnwindSafe};

pub fn run(dispatch: impl Fn(&str, &[&str]) -> String) {
    std::panic::set_hook(Box::new(|_| {}));
    let stdin = std::io::stdin();
    let stdout = std::io::stdout();
    let mut out = std::io::BufWriter::new(stdout.lock());
    for line in stdin.lock().lines() {
        let line = line.unwrap();
        if line.is_empty() || line.starts_with('#') {
            continue;
        }
        let toks: Vec<&str> = line.split(' ').collect();
        let r = catch_unwind(AssertUnwindSafe(|| dispatch(toks[0], &toks[1..])));
        match r {
            Ok(s) => writeln!(out, "{s}").unwrap(),
            Err(_) => writeln!(out, "Panic").unwrap(),
        }
    }
    out.flush().unwrap();
}
