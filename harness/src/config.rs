//! impl side of the "config" stream (C12, C19).  Case and result syntax: see
//! /verif/ocaml/drv_config.ml.  The files of a case are written under a fresh
//! scratch directory below $VERIF_CONFIG_SCRATCH (default /verif/build/run/config-scratch)
//! and loaded by the real `resolved::fs::load_zone_configuration`.
use super::util::*;
use dns_resolver::cache::SharedCache;
use dns_resolver::util::types::{ProtocolMode, ResolutionError, ResolvedRecord};
use dns_types::protocol::types::*;
use dns_types::zones::types::*;
use std::path::{Path, PathBuf};
use std::sync::atomic::{AtomicUsize, Ordering};

static COUNTER: AtomicUsize = AtomicUsize::new(0);

thread_local! {
    static RT: tokio::runtime::Runtime =
        tokio::runtime::Builder::new_current_thread().enable_all().build().unwrap();
}

fn scratch_base() -> PathBuf {
    PathBuf::from(std::env::var("VERIF_CONFIG_SCRATCH").unwrap_or_else(|_| "/verif/build/run/config-scratch".to_string()))
}

struct Scratch {
    dir: PathBuf,
}

impl Scratch {
    fn new() -> Self {
        let n = COUNTER.fetch_add(1, Ordering::SeqCst);
        let dir = scratch_base().join(format!("{}-{}", std::process::id(), n));
        let _ = std::fs::remove_dir_all(&dir);
        std::fs::create_dir_all(&dir).expect("config: scratch dir");
        Scratch { dir }
    }
    fn clear(&self) {
        let _ = std::fs::remove_dir_all(&self.dir);
        std::fs::create_dir_all(&self.dir).expect("config: scratch dir");
    }
}

impl Drop for Scratch {
    fn drop(&mut self) {
        let _ = std::fs::remove_dir_all(&self.dir);
    }
}

fn list_of(sep: char, s: &str) -> Vec<&str> {
    if s == "_" {
        Vec::new()
    } else {
        s.split(sep).collect()
    }
}

/// content = <data>%<hex>; the implementation sees the bytes only (and whether the file exists)
fn write_content(path: &Path, content: &str) {
    let (data, hex) = match content.find('%') {
        Some(i) => (&content[..i], &content[i + 1..]),
        None => (content, "-"),
    };
    if data == "Xm" {
        // missing: nothing is created at an explicit path (inside a directory the caller
        // makes a dangling symlink instead)
        return;
    }
    std::fs::write(path, bytes_of_hex(hex)).expect("config: write file");
}

fn write_fs(root: &Path, fs: &str) {
    for e in list_of('|', fs) {
        let p: Vec<&str> = e.split('~').collect();
        match p[..] {
            ["F", path, content] => write_content(&root.join(path), content),
            ["D", path, listing] => {
                let d = root.join(path);
                std::fs::create_dir_all(&d).expect("config: mkdir");
                for de in list_of('+', listing) {
                    let i = de.find('^').expect("config: bad dentry");
                    let (name, content) = (&de[..i], &de[i + 1..]);
                    if content == "S" {
                        std::fs::create_dir_all(d.join(name)).expect("config: mkdir sub");
                    } else if content.starts_with("Xm") {
                        std::os::unix::fs::symlink("/nonexistent-verif-target", d.join(name)).expect("config: symlink");
                    } else {
                        write_content(&d.join(name), content);
                    }
                }
            }
            _ => panic!("config: bad fs entry"),
        }
    }
}

struct Args {
    zone_files: Vec<PathBuf>,
    zone_dirs: Vec<PathBuf>,
    hosts_files: Vec<PathBuf>,
    hosts_dirs: Vec<PathBuf>,
}

fn args_of_tok(root: &Path, s: &str) -> Args {
    let p: Vec<&str> = s.split(';').collect();
    assert!(p.len() == 4, "config: bad args");
    let l = |x: &str| -> Vec<PathBuf> { list_of(',', x).iter().map(|q| root.join(q)).collect() };
    Args { zone_files: l(p[0]), zone_dirs: l(p[1]), hosts_files: l(p[2]), hosts_dirs: l(p[3]) }
}

fn load(a: &Args) -> Option<Zones> {
    RT.with(|rt| {
        rt.block_on(resolved::fs::load_zone_configuration(&a.hosts_files, &a.hosts_dirs, &a.zone_files, &a.zone_dirs))
    })
}

// ---- printing (as zone.rs / local.rs) ----

fn show_zres(r: &ZoneResult) -> String {
    match r {
        ZoneResult::Answer { rrs } => {
            let mut v: Vec<ResourceRecord> = rrs.clone();
            v.sort_by_key(|r| u16::from(r.rtype_with_data.rtype()));
            format!("A{}", tok_of_rrs(&v))
        }
        ZoneResult::CNAME { cname, rr } => format!("C{}={}", name_tok(cname), tok_of_rr(rr)),
        ZoneResult::Delegation { ns_rrs } => format!(
            "D{}={}",
            ns_rrs.first().map_or("_".to_string(), |r| show_name(&r.name)),
            tok_of_rrs(ns_rrs)
        ),
        ZoneResult::NameError => "N".to_string(),
    }
}

fn show_dump(m: std::collections::HashMap<&DomainName, Vec<&ZoneRecord>>) -> String {
    if m.is_empty() {
        return "_".to_string();
    }
    let mut l: Vec<(String, Vec<&ZoneRecord>)> = m
        .into_iter()
        .map(|(n, mut zs)| {
            zs.sort_by_key(|z| u16::from(z.rtype_with_data.rtype()));
            (show_name(n), zs)
        })
        .collect();
    l.sort_by(|a, b| a.0.as_bytes().cmp(b.0.as_bytes()));
    l.iter()
        .map(|(n, zs)| {
            format!(
                "{}={}",
                n,
                zs.iter()
                    .map(|z| format!("{}:{}:{}", u16::from(z.rtype_with_data.rtype()), z.ttl, tok_of_rdata(&z.rtype_with_data)))
                    .collect::<Vec<_>>()
                    .join(";")
            )
        })
        .collect::<Vec<_>>()
        .join("+")
}

fn show_rrs(qtype: u16, rrs: &[ResourceRecord]) -> String {
    if qtype == 255 {
        let mut v: Vec<ResourceRecord> = rrs.to_vec();
        v.sort_by_key(|r| u16::from(r.rtype_with_data.rtype()));
        tok_of_rrs(&v)
    } else {
        tok_of_rrs(rrs)
    }
}

fn show_resolved(qt: u16, r: &ResolvedRecord) -> String {
    match r {
        ResolvedRecord::Authoritative { rrs, soa_rr } => format!("A{}/{}", show_rrs(qt, rrs), tok_of_rr(soa_rr)),
        ResolvedRecord::AuthoritativeNameError { soa_rr } => format!("X{}", tok_of_rr(soa_rr)),
        ResolvedRecord::NonAuthoritative { rrs, soa_rr } => format!(
            "N{}/{}",
            show_rrs(qt, rrs),
            soa_rr.as_ref().map_or("None".to_string(), tok_of_rr)
        ),
    }
}

fn show_error(e: &ResolutionError) -> String {
    match e {
        ResolutionError::Timeout => "Etimeout".to_string(),
        ResolutionError::RecursionLimit => "Ereclimit".to_string(),
        ResolutionError::DuplicateQuestion { question } => format!("Edup:{}", tok_of_question(question)),
        ResolutionError::DeadEnd { question } => format!("Edead:{}", tok_of_question(question)),
        ResolutionError::LocalDelegationMissingNS { apex, domain } => {
            format!("Enons:{},{}", name_tok(apex), name_tok(domain))
        }
        ResolutionError::CacheTypeMismatch { query, result } => {
            format!("Emismatch:{},{}", u16::from(*query), u16::from(*result))
        }
    }
}

// ---- L ----

fn run_load(args: &str, fs: &str, apexes: &str, questions: &str) -> String {
    let scratch = Scratch::new();
    write_fs(&scratch.dir, fs);
    let a = args_of_tok(&scratch.dir, args);
    let zones = match load(&a) {
        None => return "None".to_string(),
        Some(z) => z,
    };
    let zd: Vec<String> = list_of(',', apexes)
        .iter()
        .map(|at| {
            let apex = name_of_tok(at);
            match zones.get(&apex) {
                Some(z) if *z.get_apex() == apex => format!(
                    "{}=S{}!R{}!W{}",
                    at,
                    match z.get_soa() {
                        Some(s) => tok_of_rdata(&s.to_rdata()),
                        None => "-".to_string(),
                    },
                    show_dump(z.all_records()),
                    show_dump(z.all_wildcard_records())
                ),
                _ => format!("{at}=-"),
            }
        })
        .collect();
    let ans: Vec<String> = list_of('|', questions)
        .iter()
        .map(|q| {
            let p: Vec<&str> = q.split('~').collect();
            assert!(p.len() == 2, "config: bad query");
            let name = name_of_tok(p[0]);
            let qtype = QueryType::from(p[1].parse::<u16>().unwrap());
            match zones.resolve(&name, qtype) {
                None => "-".to_string(),
                Some((z, r)) => format!("{}>{}", name_tok(z.get_apex()), show_zres(&r)),
            }
        })
        .collect();
    format!("{}#{}", zd.join("|"), ans.join("|"))
}

// ---- R ----

fn answers_resolved(zones: &Zones, qs: &[Question]) -> String {
    // authoritative-only mode, as the server started with --authoritative-only calls it;
    // a fresh cache: nothing enters the cache in this mode
    let cache = SharedCache::new();
    qs.iter()
        .map(|q| {
            let qt = u16::from(q.qtype);
            let (_m, r) = RT.with(|rt| rt.block_on(dns_resolver::resolve(false, ProtocolMode::OnlyV4, 53, None, zones, &cache, q)));
            match &r {
                Ok(r) => show_resolved(qt, r),
                Err(e) => show_error(e),
            }
        })
        .collect::<Vec<_>>()
        .join("|")
}

fn run_history(args: &str, questions: &str, fss: &[&str]) -> String {
    let scratch = Scratch::new();
    let a = args_of_tok(&scratch.dir, args);
    let qs: Vec<Question> = list_of('|', questions).iter().map(|q| question_of_tok(q)).collect();
    write_fs(&scratch.dir, fss[0]);
    // main(): exit(1) when the first load fails
    let mut state = match load(&a) {
        None => return "Exit".to_string(),
        Some(z) => z,
    };
    let mut out = vec![format!("S:{}", answers_resolved(&state, &qs))];
    for fs in &fss[1..] {
        scratch.clear();
        write_fs(&scratch.dir, fs);
        // reload_task: assign under the write lock only on success
        let ok = if let Some(z) = load(&a) {
            state = z;
            true
        } else {
            false
        };
        out.push(format!("{}:{}", if ok { "S" } else { "F" }, answers_resolved(&state, &qs)));
    }
    out.join("$")
}

pub fn handle(toks: &[&str]) -> String {
    match toks {
        ["L", args, fs, apexes, questions] | ["L", args, fs, apexes, questions, _] => run_load(args, fs, apexes, questions),
        ["R", args, questions, fss @ ..] if !fss.is_empty() => run_history(args, questions, fss),
        _ => panic!("config: bad case"),
    }
}
