//! impl side of the "local" stream (local part of C01 and C10).  Case and result
//! syntax: see /verif/ocaml/drv_local.ml.
use super::util::*;
use dns_resolver::cache::SharedCache;
use dns_resolver::context::Context;
use dns_resolver::local::{resolve_local, LocalResolutionResult};
use dns_resolver::util::types::{ProtocolMode, ResolutionError, ResolvedRecord};
use dns_resolver::verif::clock;
use dns_types::protocol::types::*;
use dns_types::zones::types::*;

fn soa_of_tok(s: &str) -> Option<SOA> {
    if s == "N" {
        return None;
    }
    match rdata_of_tok(RecordType::SOA, s) {
        RecordTypeWithData::SOA { mname, rname, serial, refresh, retry, expire, minimum } => {
            Some(SOA { mname, rname, serial, refresh, retry, expire, minimum })
        }
        _ => panic!("local: soa token"),
    }
}

fn zone_of_tok(s: &str) -> Zone {
    let f: Vec<&str> = s.split('~').collect();
    assert!(f.len() == 3, "local: bad zone");
    let mut z = Zone::new(name_of_tok(f[0]), soa_of_tok(f[1]));
    if f[2] != "_" {
        for op in f[2].split('+') {
            let r = rr_of_tok(&op[1..]);
            match op.as_bytes()[0] {
                b'I' => z.insert(&r.name, r.rtype_with_data, r.ttl),
                b'W' => z.insert_wildcard(&r.name, r.rtype_with_data, r.ttl),
                _ => panic!("local: bad op"),
            }
        }
    }
    z
}

fn show_rrs(qtype: u16, rrs: &[ResourceRecord]) -> String {
    if qtype == 255 {
        let mut v: Vec<ResourceRecord> = rrs.to_vec();
        // stable: keeps Vec order inside one record type
        v.sort_by_key(|r| u16::from(r.rtype_with_data.rtype()));
        tok_of_rrs(&v)
    } else {
        tok_of_rrs(rrs)
    }
}

fn show_resolved(qt: u16, r: &ResolvedRecord) -> String {
    match r {
        ResolvedRecord::Authoritative { rrs, soa_rr } => format!("A{}/{}", show_rrs(qt, rrs), tok_of_rr(soa_rr)),
        ResolvedRecord::AuthoritativeNameError { soa_rr } => format!("X{}", tok_of_rr(soa_rr)),
        ResolvedRecord::NonAuthoritative { rrs, soa_rr } => format!(
            "N{}/{}",
            show_rrs(qt, rrs),
            soa_rr.as_ref().map_or("None".to_string(), tok_of_rr)
        ),
    }
}

fn show_error(e: &ResolutionError) -> String {
    match e {
        ResolutionError::Timeout => "Etimeout".to_string(),
        ResolutionError::RecursionLimit => "Ereclimit".to_string(),
        ResolutionError::DuplicateQuestion { question } => format!("Edup:{}", tok_of_question(question)),
        ResolutionError::DeadEnd { question } => format!("Edead:{}", tok_of_question(question)),
        ResolutionError::LocalDelegationMissingNS { apex, domain } => {
            format!("Enons:{},{}", name_tok(apex), name_tok(domain))
        }
        ResolutionError::CacheTypeMismatch { query, result } => {
            format!("Emismatch:{},{}", u16::from(*query), u16::from(*result))
        }
    }
}

fn show_local(qt: u16, l: &LocalResolutionResult) -> String {
    match l {
        LocalResolutionResult::Done { resolved } => format!("D{}", show_resolved(qt, resolved)),
        LocalResolutionResult::Partial { rrs } => format!("P{}", show_rrs(qt, rrs)),
        LocalResolutionResult::Delegation { rrs, soa_rr, delegation } => format!(
            "G{}/{}/{}/{}",
            show_rrs(qt, rrs),
            soa_rr.as_ref().map_or("None".to_string(), tok_of_rr),
            name_tok(&delegation.name),
            if delegation.hostnames.is_empty() {
                "_".to_string()
            } else {
                delegation.hostnames.iter().map(name_tok).collect::<Vec<_>>().join(";")
            }
        ),
        LocalResolutionResult::CNAME { rrs, cname_question } => {
            format!("C{}/{}", show_rrs(qt, rrs), tok_of_question(cname_question))
        }
    }
}

fn one_question(zones: &Zones, cache: &SharedCache, question: &Question) -> String {
    let qt = u16::from(question.qtype);
    // the public entry point, authoritative-only mode: resolve_local + ResolvedRecord::from
    let rt = tokio::runtime::Builder::new_current_thread().enable_time().build().unwrap();
    let (_metrics, r1) = rt.block_on(dns_resolver::resolve(
        false,
        ProtocolMode::OnlyV4,
        53,
        None,
        zones,
        cache,
        question,
    ));
    let s1 = match &r1 {
        Ok(r) => show_resolved(qt, r),
        Err(e) => show_error(e),
    };
    // the un-converted local result, fresh context
    let mut context = Context::new((), zones, cache, 32);
    let r2 = resolve_local(&mut context, question);
    let s2 = match &r2 {
        Ok(l) => show_local(qt, l),
        Err(e) => show_error(e),
    };
    format!("{s1}!{s2}")
}

fn run(zones_tok: &str, cache_tok: &str, questions: &str) -> String {
    run_at(0, zones_tok, cache_tok, questions)
}

fn run_at(advance_ms: u64, zones_tok: &str, cache_tok: &str, questions: &str) -> String {
    clock::set_ns(0);
    let mut zones = Zones::new();
    if zones_tok != "_" {
        for z in zones_tok.split('|') {
            zones.insert(zone_of_tok(z));
        }
    }
    let cache = SharedCache::new();
    for r in rrs_of_tok(cache_tok) {
        cache.insert(&r);
    }
    clock::advance_ns(advance_ms * 1_000_000);
    questions
        .split('|')
        .map(|q| {
            let question = question_of_tok(q);
            // a panic of one question is printed for that question (as the model driver does)
            match std::panic::catch_unwind(std::panic::AssertUnwindSafe(|| one_question(&zones, &cache, &question))) {
                Ok(s) => s,
                Err(_) => "Panic!Panic".to_string(),
            }
        })
        .collect::<Vec<_>>()
        .join("|")
}

pub fn handle(toks: &[&str]) -> String {
    match toks {
        ["R", zones, cache, questions] | ["R", zones, cache, questions, _] => run(zones, cache, questions),
        ["T", ms, zones, cache, questions] | ["T", ms, zones, cache, questions, _] => {
            run_at(ms.parse().unwrap(), zones, cache, questions)
        }
        _ => panic!("local: bad case"),
    }
}
