//! impl driver for the "hosts" stream (C14).
#![allow(dead_code)]
#[path = "hosts.rs"]
mod hosts;
#[path = "util.rs"]
mod util;
#[path = "vmain.rs"]
mod vmain;

fn main() {
    vmain::run(|stream, toks| match stream {
        "hosts" => hosts::handle(toks),
        _ => "IMPL-EXN:unknown-stream".to_string(),
    });
}
