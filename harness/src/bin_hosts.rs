//! impl driver for the "hosts" stream (C14, and the hosts part of C17).
//!
//! Every case runs in its own 2 MiB-stack thread under a watchdog and the output is flushed
//! after every case (vthread.rs): a panic prints "Panic", a hang "Hang", a stack overflow
//! kills the driver, which the python side reports as DRIVER-DIED for exactly that case.
#![allow(dead_code)]
#[path = "hosts.rs"]
mod hosts;
#[path = "util.rs"]
mod util;
#[path = "vthread.rs"]
mod vthread;

fn dispatch(stream: &str, toks: &[&str]) -> String {
    match stream {
        "hosts" => hosts::handle(toks),
        _ => "IMPL-EXN:unknown-stream".to_string(),
    }
}

fn main() {
    vthread::run(dispatch);
}
