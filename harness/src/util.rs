//! Token syntax shared with /verif/ocaml/vutil.ml.
use dns_types::protocol::types::*;

pub fn bytes_of_hex(s: &str) -> Vec<u8> {
    if s == "-" {
        return Vec::new();
    }
    let b = s.as_bytes();
    let hv = |c: u8| -> u8 {
        match c {
            b'0'..=b'9' => c - 48,
            b'a'..=b'f' => c - 87,
            b'A'..=b'F' => c - 55,
            _ => panic!("hex"),
        }
    };
    (0..b.len() / 2).map(|i| 16 * hv(b[2 * i]) + hv(b[2 * i + 1])).collect()
}

pub fn hex_of_bytes(b: &[u8]) -> String {
    if b.is_empty() {
        return "-".to_string();
    }
    let mut s = String::with_capacity(2 * b.len());
    for x in b {
        s.push_str(&format!("{x:02x}"));
    }
    s
}

/// Labels through the public constructor (lower-cases; panics on > 63, which
/// generators never produce for label-list tokens).
pub fn labels_of_tok(s: &str) -> Vec<Label> {
    if s == "_" {
        return Vec::new();
    }
    s.split('.')
        .map(|h| Label::try_from(&bytes_of_hex(h)[..]).expect("label token too long"))
        .collect()
}

pub fn tok_of_labels(ls: &[Label]) -> String {
    if ls.is_empty() {
        return "_".to_string();
    }
    ls.iter().map(|l| hex_of_bytes(l.octets())).collect::<Vec<_>>().join(".")
}

pub fn show_name(n: &DomainName) -> String {
    format!("{}/{}", tok_of_labels(&n.labels), n.len)
}

/// A name given by its labels: through from_labels, or (if rejected) built raw
/// with len = sum, exactly as drv_name.ml does.
pub fn name_of_tok(s: &str) -> DomainName {
    let ls = labels_of_tok(s);
    match DomainName::from_labels(ls.clone()) {
        Some(n) => n,
        None => {
            let len = ls.iter().map(|l| 1 + l.len() as usize).sum();
            DomainName { labels: ls, len }
        }
    }
}

pub fn str_of_nums(s: &str) -> String {
    if s == "_" {
        return String::new();
    }
    s.split(',')
        .map(|d| char::from_u32(d.parse::<u32>().unwrap()).expect("scalar value"))
        .collect()
}

pub fn tok_of_str(s: &str) -> String {
    if s.is_empty() {
        return "_".to_string();
    }
    s.chars().map(|c| (c as u32).to_string()).collect::<Vec<_>>().join(",")
}

pub fn show_opt<T>(o: Option<T>, f: impl Fn(T) -> String) -> String {
    match o {
        None => "None".to_string(),
        Some(x) => format!("Some:{}", f(x)),
    }
}
