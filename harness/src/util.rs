//! Token syntax shared with /verif/ocaml/vutil.ml.
use dns_types::protocol::types::*;

pub fn bytes_of_hex(s: &str) -> Vec<u8> {
    if s == "-" {
        return Vec::new();
    }
    let b = s.as_bytes();
    let hv = |c: u8| -> u8 {
        match c {
            b'0'..=b'9' => c - 48,
            b'a'..=b'f' => c - 87,
            b'A'..=b'F' => c - 55,
            _ => panic!("hex"),
        }
    };
    (0..b.len() / 2).map(|i| 16 * hv(b[2 * i]) + hv(b[2 * i + 1])).collect()
}

pub fn hex_of_bytes(b: &[u8]) -> String {
    if b.is_empty() {
        return "-".to_string();
    }
    let mut s = String::with_capacity(2 * b.len());
    for x in b {
        s.push_str(&format!("{x:02x}"));
    }
    s
}

/// Labels through the public constructor (lower-cases; panics on > 63, which
/// generators never produce for label-list tokens).
pub fn labels_of_tok(s: &str) -> Vec<Label> {
    if s == "_" {
        return Vec::new();
    }
    s.split('.')
        .map(|h| Label::try_from(&bytes_of_hex(h)[..]).expect("label token too long"))
        .collect()
}

pub fn tok_of_labels(ls: &[Label]) -> String {
    if ls.is_empty() {
        return "_".to_string();
    }
    ls.iter().map(|l| hex_of_bytes(l.octets())).collect::<Vec<_>>().join(".")
}

pub fn show_name(n: &DomainName) -> String {
    format!("{}/{}", tok_of_labels(&n.labels), n.len)
}

/// A name given by its labels: through from_labels, or (if rejected) built raw
/// with len = sum, exactly as drv_name.ml does.
pub fn name_of_tok(s: &str) -> DomainName {
    let ls = labels_of_tok(s);
    match DomainName::from_labels(ls.clone()) {
        Some(n) => n,
        None => {
            let len = ls.iter().map(|l| 1 + l.len() as usize).sum();
            DomainName { labels: ls, len }
        }
    }
}

pub fn str_of_nums(s: &str) -> String {
    if s == "_" {
        return String::new();
    }
    s.split(',')
        .map(|d| char::from_u32(d.parse::<u32>().unwrap()).expect("scalar value"))
        .collect()
}

pub fn tok_of_str(s: &str) -> String {
    if s.is_empty() {
        return "_".to_string();
    }
    s.chars().map(|c| (c as u32).to_string()).collect::<Vec<_>>().join(",")
}

pub fn show_opt<T>(o: Option<T>, f: impl Fn(T) -> String) -> String {
    match o {
        None => "None".to_string(),
        Some(x) => format!("Some:{}", f(x)),
    }
}

// ---- records, questions (syntax: see /verif/ocaml/vrr.ml) ----

pub fn name_tok(n: &DomainName) -> String {
    tok_of_labels(&n.labels)
}

pub fn rdata_of_tok(rtype: RecordType, s: &str) -> RecordTypeWithData {
    use bytes::Bytes;
    let body = &s[1..];
    let parts: Vec<&str> = body.split(',').collect();
    let kind = s.as_bytes()[0];
    let nm = |t: &str| name_of_tok(t);
    match (rtype, kind) {
        (RecordType::A, b'a') => RecordTypeWithData::A { address: std::net::Ipv4Addr::from(body.parse::<u32>().unwrap()) },
        (RecordType::NS, b'n') => RecordTypeWithData::NS { nsdname: nm(body) },
        (RecordType::MD, b'n') => RecordTypeWithData::MD { madname: nm(body) },
        (RecordType::MF, b'n') => RecordTypeWithData::MF { madname: nm(body) },
        (RecordType::CNAME, b'n') => RecordTypeWithData::CNAME { cname: nm(body) },
        (RecordType::MB, b'n') => RecordTypeWithData::MB { madname: nm(body) },
        (RecordType::MG, b'n') => RecordTypeWithData::MG { mdmname: nm(body) },
        (RecordType::MR, b'n') => RecordTypeWithData::MR { newname: nm(body) },
        (RecordType::PTR, b'n') => RecordTypeWithData::PTR { ptrdname: nm(body) },
        (RecordType::SOA, b's') => RecordTypeWithData::SOA {
            mname: nm(parts[0]),
            rname: nm(parts[1]),
            serial: parts[2].parse().unwrap(),
            refresh: parts[3].parse().unwrap(),
            retry: parts[4].parse().unwrap(),
            expire: parts[5].parse().unwrap(),
            minimum: parts[6].parse().unwrap(),
        },
        (RecordType::NULL, b'o') => RecordTypeWithData::NULL { octets: Bytes::from(bytes_of_hex(body)) },
        (RecordType::WKS, b'o') => RecordTypeWithData::WKS { octets: Bytes::from(bytes_of_hex(body)) },
        (RecordType::HINFO, b'o') => RecordTypeWithData::HINFO { octets: Bytes::from(bytes_of_hex(body)) },
        (RecordType::TXT, b'o') => RecordTypeWithData::TXT { octets: Bytes::from(bytes_of_hex(body)) },
        (RecordType::Unknown(tag), b'o') => RecordTypeWithData::Unknown { tag, octets: Bytes::from(bytes_of_hex(body)) },
        (RecordType::MINFO, b'i') => RecordTypeWithData::MINFO { rmailbx: nm(parts[0]), emailbx: nm(parts[1]) },
        (RecordType::MX, b'x') => RecordTypeWithData::MX { preference: parts[0].parse().unwrap(), exchange: nm(parts[1]) },
        (RecordType::AAAA, b'q') => {
            let b = bytes_of_hex(body);
            let mut a = [0u8; 16];
            a.copy_from_slice(&b);
            RecordTypeWithData::AAAA { address: std::net::Ipv6Addr::from(a) }
        }
        (RecordType::SRV, b'v') => RecordTypeWithData::SRV {
            priority: parts[0].parse().unwrap(),
            weight: parts[1].parse().unwrap(),
            port: parts[2].parse().unwrap(),
            target: nm(parts[3]),
        },
        _ => panic!("rdata token does not fit type"),
    }
}

pub fn tok_of_rdata(d: &RecordTypeWithData) -> String {
    match d {
        RecordTypeWithData::A { address } => format!("a{}", u32::from(*address)),
        RecordTypeWithData::NS { nsdname: n }
        | RecordTypeWithData::MD { madname: n }
        | RecordTypeWithData::MF { madname: n }
        | RecordTypeWithData::CNAME { cname: n }
        | RecordTypeWithData::MB { madname: n }
        | RecordTypeWithData::MG { mdmname: n }
        | RecordTypeWithData::MR { newname: n }
        | RecordTypeWithData::PTR { ptrdname: n } => format!("n{}", name_tok(n)),
        RecordTypeWithData::SOA { mname, rname, serial, refresh, retry, expire, minimum } => format!(
            "s{},{},{serial},{refresh},{retry},{expire},{minimum}",
            name_tok(mname),
            name_tok(rname)
        ),
        RecordTypeWithData::NULL { octets }
        | RecordTypeWithData::WKS { octets }
        | RecordTypeWithData::HINFO { octets }
        | RecordTypeWithData::TXT { octets }
        | RecordTypeWithData::Unknown { octets, .. } => format!("o{}", hex_of_bytes(octets)),
        RecordTypeWithData::MINFO { rmailbx, emailbx } => format!("i{},{}", name_tok(rmailbx), name_tok(emailbx)),
        RecordTypeWithData::MX { preference, exchange } => format!("x{preference},{}", name_tok(exchange)),
        RecordTypeWithData::AAAA { address } => {
            let mut s = String::from("q");
            for b in address.octets() {
                s.push_str(&format!("{b:02x}"));
            }
            s
        }
        RecordTypeWithData::SRV { priority, weight, port, target } => {
            format!("v{priority},{weight},{port},{}", name_tok(target))
        }
    }
}

pub fn rr_of_tok(s: &str) -> ResourceRecord {
    let p: Vec<&str> = s.split(':').collect();
    assert!(p.len() == 5, "rr token");
    let rtype = RecordType::from(p[1].parse::<u16>().unwrap());
    ResourceRecord {
        name: name_of_tok(p[0]),
        rtype_with_data: rdata_of_tok(rtype, p[4]),
        rclass: RecordClass::from(p[2].parse::<u16>().unwrap()),
        ttl: p[3].parse().unwrap(),
    }
}

pub fn tok_of_rr(r: &ResourceRecord) -> String {
    format!(
        "{}:{}:{}:{}:{}",
        name_tok(&r.name),
        u16::from(r.rtype_with_data.rtype()),
        u16::from(r.rclass),
        r.ttl,
        tok_of_rdata(&r.rtype_with_data)
    )
}

pub fn rrs_of_tok(s: &str) -> Vec<ResourceRecord> {
    if s == "_" {
        Vec::new()
    } else {
        s.split(';').map(rr_of_tok).collect()
    }
}

pub fn tok_of_rrs(l: &[ResourceRecord]) -> String {
    if l.is_empty() {
        "_".to_string()
    } else {
        l.iter().map(tok_of_rr).collect::<Vec<_>>().join(";")
    }
}

pub fn question_of_tok(s: &str) -> Question {
    let p: Vec<&str> = s.split(':').collect();
    assert!(p.len() == 3, "question token");
    Question {
        name: name_of_tok(p[0]),
        qtype: QueryType::from(p[1].parse::<u16>().unwrap()),
        qclass: QueryClass::from(p[2].parse::<u16>().unwrap()),
    }
}

pub fn tok_of_question(q: &Question) -> String {
    format!("{}:{}:{}", name_tok(&q.name), u16::from(q.qtype), u16::from(q.qclass))
}
