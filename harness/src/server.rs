//! impl side of the "server" stream (C09), pure-function cases; see
//! /verif/ocaml/drv_server.ml.  The framing functions of util/net.rs are run on
//! the in-memory sockets of dns_resolver::verif::net (hook H3): the code of
//! send_udp_bytes_to / send_tcp_bytes / read_tcp_bytes itself is unmodified.
//! The whole-server cases (CFG / Q) are not run here: triage, handle_raw_message
//! and the listen loops are private to the `resolved` binary, which
//! vlib/p_c09.py drives over real loopback sockets.
use super::msg::*;
use super::util::*;
use dns_resolver::util::net::{read_tcp_bytes, send_tcp_bytes, send_udp_bytes_to, TcpError};
use dns_resolver::verif::net::{set_handler, Proto, Reply, TcpStream, UdpSocket};
use dns_types::protocol::types::*;
use std::net::SocketAddr;
use std::sync::{Arc, Mutex};
use std::time::Duration;
use tokio::io::AsyncWriteExt;

fn runtime() -> tokio::runtime::Runtime {
    tokio::runtime::Builder::new_current_thread()
        .enable_time()
        .start_paused(true)
        .build()
        .unwrap()
}

fn silent() -> Reply {
    Reply {
        bytes: None,
        delay: Duration::ZERO,
        close: false,
        refuse: false,
    }
}

fn opt_id(id: Option<u16>) -> String {
    match id {
        Some(i) => i.to_string(),
        None => "-".to_string(),
    }
}

fn udp_framing(h: &str) -> String {
    let captured: Arc<Mutex<Option<Vec<u8>>>> = Arc::new(Mutex::new(None));
    let c = captured.clone();
    set_handler(Some(Box::new(move |proto, _addr, bytes| {
        if proto == Proto::Udp {
            *c.lock().unwrap() = Some(bytes.to_vec());
        }
        silent()
    })));
    let mut bytes = bytes_of_hex(h);
    let addr: SocketAddr = "192.0.2.1:5353".parse().unwrap();
    let res = runtime().block_on(async {
        let sock = UdpSocket::bind("0.0.0.0:0").await.unwrap();
        send_udp_bytes_to(&sock, addr, &mut bytes).await
    });
    set_handler(None);
    let sent = captured.lock().unwrap().take();
    match (res, sent) {
        (Ok(()), Some(b)) => format!("Ok:{}", fast_hex_of_bytes(&b)),
        (Ok(()), None) => "Ok-but-nothing-sent".to_string(),
        (Err(e), _) => format!("IoErr:{e}"),
    }
}

fn tcp_framing(h: &str) -> String {
    // the in-memory stream hands the handler the octets after the two-octet
    // prefix once as many as the prefix announces were written
    let captured: Arc<Mutex<Option<Vec<u8>>>> = Arc::new(Mutex::new(None));
    let probes: Arc<Mutex<usize>> = Arc::new(Mutex::new(0));
    let c = captured.clone();
    let p = probes.clone();
    set_handler(Some(Box::new(move |proto, _addr, bytes| {
        if proto == Proto::Tcp {
            let mut n = p.lock().unwrap();
            if *n > 0 {
                *c.lock().unwrap() = Some(bytes.to_vec());
            }
            *n += 1; // the first call is the connection attempt
        }
        silent()
    })));
    let mut bytes = bytes_of_hex(h);
    let addr: SocketAddr = "192.0.2.1:5353".parse().unwrap();
    let res = runtime().block_on(async {
        let mut stream = TcpStream::connect(addr).await.unwrap();
        send_tcp_bytes(&mut stream, &mut bytes).await
    });
    set_handler(None);
    let sent = captured.lock().unwrap().take();
    match (res, sent) {
        (Ok(()), Some(b)) => {
            let prefix = (b.len() as u16).to_be_bytes();
            let mut all = prefix.to_vec();
            all.extend_from_slice(&b);
            format!("Ok:{}", fast_hex_of_bytes(&all))
        }
        (Ok(()), None) => "Ok-but-prefix-exceeds-payload".to_string(),
        (Err(e), _) => format!("IoErr:{e}"),
    }
}

fn tcp_read(end: &str, h: &str) -> String {
    let stream_bytes = bytes_of_hex(h);
    let close = match end {
        "eof" => true,
        "open" => false,
        _ => return "IMPL-EXN:stream end not expressible on the in-memory stream".to_string(),
    };
    set_handler(Some(Box::new(move |_proto, _addr, _bytes| Reply {
        bytes: Some(stream_bytes.clone()),
        delay: Duration::ZERO,
        close,
        refuse: false,
    })));
    let addr: SocketAddr = "192.0.2.1:5353".parse().unwrap();
    let res = runtime().block_on(async {
        let mut stream = TcpStream::connect(addr).await.unwrap();
        // an empty request (prefix 0) makes the peer "answer" with the stream under test
        stream.write_all(&[0u8, 0u8]).await.unwrap();
        tokio::time::timeout(Duration::from_secs(3600), read_tcp_bytes(&mut stream)).await
    });
    set_handler(None);
    match res {
        Err(_) => "Pending".to_string(),
        Ok(Ok(b)) => format!("Ok:{}", fast_hex_of_bytes(b.as_ref())),
        Ok(Err(TcpError::TooShort {
            id,
            expected,
            actual,
        })) => format!("TooShort:{}:{expected}:{actual}", opt_id(id)),
        Ok(Err(TcpError::IO { id, .. })) => format!("IO:{}", opt_id(id)),
    }
}

pub fn handle(toks: &[&str]) -> String {
    match toks {
        ["UDPF", h] => udp_framing(h),
        ["TCPF", h] => tcp_framing(h),
        ["TCPR", e, h] => tcp_read(e, h),
        ["RESP", h] => match Message::from_octets(&bytes_of_hex(h)) {
            Ok(m) => format!("R:{}", tok_of_msg(&m.make_response())),
            Err(e) => match e.id() {
                Some(id) => format!("F:{}", tok_of_msg(&Message::make_format_error_response(id))),
                None => "none".to_string(),
            },
        },
        _ => "IMPL-EXN:bad-case".to_string(),
    }
}
