//! impl driver for the "server" stream (C09, pure-function cases).
#![allow(dead_code)]
#[path = "msg.rs"]
mod msg;
#[path = "server.rs"]
mod server;
#[path = "util.rs"]
mod util;
#[path = "vmain.rs"]
mod vmain;

fn main() {
    let t = std::thread::Builder::new()
        .stack_size(256 << 20)
        .spawn(|| {
            vmain::run(|stream, toks| match stream {
                "server" => server::handle(toks),
                _ => "IMPL-EXN:unknown-stream".to_string(),
            })
        })
        .expect("spawn");
    t.join().expect("join");
}
