//! impl side of the "resolver" stream (C07, C08, C18; network-mode clauses of
//! C01/C10).  Case and result syntax: see /verif/ocaml/drv_resolver.ml.
//!
//! Every case runs `dns_resolver::resolve` for each question in sequence on one
//! `SharedCache`, on a fresh current-thread tokio runtime whose clock starts
//! paused (it auto-advances when the runtime is idle, so time-outs fire at once
//! in wall time while virtual elapsed time stays measurable).  The upstream
//! sockets are the in-memory ones of hook H3; the handler installed here plays
//! the table of replies (computed by the Coq function `Universe.serve`) with the
//! fault plan, exactly as `Universe.reply_of` / `table_oracle` define it.
use super::msg::fnv32;
use super::util::*;
use dns_resolver::cache::SharedCache;
use dns_resolver::util::types::{ProtocolMode, ResolutionError, ResolvedRecord};
use dns_resolver::verif::clock;
use dns_resolver::verif::net::{set_handler, Proto, Reply};
use dns_types::protocol::types::*;
use dns_types::zones::types::*;
use std::collections::HashMap;
use std::net::{IpAddr, Ipv4Addr, Ipv6Addr, SocketAddr};
use std::sync::{Arc, Mutex};
use std::time::Duration;

// ---- parsing ----

fn soa_of_tok(s: &str) -> Option<SOA> {
    if s == "N" {
        return None;
    }
    match rdata_of_tok(RecordType::SOA, s) {
        RecordTypeWithData::SOA { mname, rname, serial, refresh, retry, expire, minimum } => {
            Some(SOA { mname, rname, serial, refresh, retry, expire, minimum })
        }
        _ => panic!("resolver: soa token"),
    }
}

fn zone_of_tok(s: &str) -> Zone {
    let p: Vec<&str> = s.split('~').collect();
    assert!(p.len() == 3, "resolver: bad zone");
    let mut z = Zone::new(name_of_tok(p[0]), soa_of_tok(p[1]));
    if p[2] != "_" {
        for op in p[2].split('+') {
            let r = rr_of_tok(&op[1..]);
            match op.as_bytes()[0] {
                b'I' => z.insert(&r.name, r.rtype_with_data, r.ttl),
                b'W' => z.insert_wildcard(&r.name, r.rtype_with_data, r.ttl),
                _ => panic!("resolver: bad op"),
            }
        }
    }
    z
}

fn ip_of_tok(s: &str) -> IpAddr {
    let body = &s[1..];
    match s.as_bytes()[0] {
        b'a' => IpAddr::V4(Ipv4Addr::from(body.parse::<u32>().unwrap())),
        b'q' => {
            let b = bytes_of_hex(body);
            let mut a = [0u8; 16];
            a.copy_from_slice(&b);
            IpAddr::V6(Ipv6Addr::from(a))
        }
        _ => panic!("resolver: ip token"),
    }
}

fn tok_of_ip(a: &IpAddr) -> String {
    match a {
        IpAddr::V4(x) => format!("a{}", u32::from(*x)),
        IpAddr::V6(x) => {
            let mut s = String::from("q");
            for b in x.octets() {
                s.push_str(&format!("{b:02x}"));
            }
            s
        }
    }
}

fn addr_of_tok(s: &str) -> SocketAddr {
    let p: Vec<&str> = s.split('@').collect();
    assert!(p.len() == 2, "resolver: addr token");
    SocketAddr::new(ip_of_tok(p[0]), p[1].parse().unwrap())
}

fn tok_of_addr(a: &SocketAddr) -> String {
    format!("{}@{}", tok_of_ip(&a.ip()), a.port())
}

#[derive(Clone)]
enum Fault {
    None,
    Drop,
    Delay(u64),
    Garbage(Vec<u8>),
    Trunc(usize),
    TruncOpen(usize),
    Prefix(u64),
    WrongId,
    Tc,
    Rcode(u64),
    NoQr,
    Refuse,
}

fn fault_of_tok(s: &str) -> Fault {
    let num = |p: &str| s[p.len()..].parse::<u64>().unwrap();
    match s {
        "drop" => Fault::Drop,
        "wrongid" => Fault::WrongId,
        "tc" => Fault::Tc,
        "noqr" => Fault::NoQr,
        "refuse" => Fault::Refuse,
        _ if s.starts_with("delay") => Fault::Delay(num("delay")),
        _ if s.starts_with("garbage") => Fault::Garbage(bytes_of_hex(&s["garbage".len()..])),
        _ if s.starts_with("truncopen") => Fault::TruncOpen(num("truncopen") as usize),
        _ if s.starts_with("trunc") => Fault::Trunc(num("trunc") as usize),
        _ if s.starts_with("prefix") => Fault::Prefix(num("prefix")),
        _ if s.starts_with("rcode") => Fault::Rcode(num("rcode")),
        _ => panic!("resolver: fault token"),
    }
}

// ---- the universe as the mock handler plays it (Universe.v: reply_of, table_oracle) ----

fn patch_id(req: &[u8], msg: &mut [u8], bump: u32) {
    if req.len() >= 2 && msg.len() >= 2 {
        let id = ((u32::from(req[0]) * 256 + u32::from(req[1]) + bump) % 65536) as u16;
        msg[0] = (id >> 8) as u8;
        msg[1] = (id & 255) as u8;
    }
}

fn header_fault(f: &Fault, req: &[u8], msg: &[u8]) -> Vec<u8> {
    let mut m = msg.to_vec();
    match f {
        Fault::WrongId => patch_id(req, &mut m, 1),
        Fault::Tc => {
            patch_id(req, &mut m, 0);
            if m.len() >= 3 {
                m[2] |= 2;
            }
        }
        Fault::Rcode(rc) => {
            patch_id(req, &mut m, 0);
            if m.len() >= 4 {
                m[3] = (m[3] & 240) | ((*rc & 15) as u8);
            }
        }
        Fault::NoQr => {
            patch_id(req, &mut m, 0);
            if m.len() >= 3 {
                m[2] &= 127;
            }
        }
        _ => patch_id(req, &mut m, 0),
    }
    m
}

fn frame(p: Proto, prefix: usize, bs: &[u8]) -> Vec<u8> {
    match p {
        Proto::Udp => bs.to_vec(),
        Proto::Tcp => {
            let mut v = vec![((prefix / 256) % 256) as u8, (prefix % 256) as u8];
            v.extend_from_slice(bs);
            v
        }
    }
}

fn mk_reply(bytes: Option<Vec<u8>>, delay_ms: u64, close: bool) -> Reply {
    Reply { bytes, delay: Duration::from_millis(delay_ms), close, refuse: false }
}

fn reply_of(f: &Fault, p: Proto, req: &[u8], base: Option<&Vec<u8>>) -> Reply {
    if p == Proto::Tcp && req.is_empty() {
        return Reply { bytes: None, delay: Duration::ZERO, close: false, refuse: matches!(f, Fault::Refuse) };
    }
    let m: Option<Vec<u8>> = base.map(|b| header_fault(f, req, b));
    let cut = |bs: &Vec<u8>, n: usize| bs[..n.min(bs.len())].to_vec();
    match f {
        Fault::Refuse => Reply { bytes: None, delay: Duration::ZERO, close: false, refuse: true },
        Fault::Drop => mk_reply(None, 0, false),
        Fault::Delay(ms) => mk_reply(m.map(|bs| frame(p, bs.len(), &bs)), *ms, true),
        Fault::Garbage(g) => mk_reply(Some(g.clone()), 0, true),
        Fault::Trunc(n) => mk_reply(m.map(|bs| frame(p, bs.len(), &cut(&bs, *n))), 0, true),
        Fault::TruncOpen(n) => mk_reply(m.map(|bs| frame(p, bs.len(), &cut(&bs, *n))), 0, false),
        Fault::Prefix(n) => mk_reply(m.map(|bs| frame(p, *n as usize, &bs)), 0, true),
        _ => mk_reply(m.map(|bs| frame(p, bs.len(), &bs)), 0, true),
    }
}

struct Mock {
    table: HashMap<(IpAddr, Question), Vec<u8>>,
    faults: HashMap<usize, Fault>,
    counter: usize,
    cur_tcp: usize,
    t0: tokio::time::Instant,
    log: Vec<String>,
}

fn show_reply(tcp: bool, r: &Reply) -> String {
    if r.refuse {
        return "refused".to_string();
    }
    let b = match &r.bytes {
        None => "none".to_string(),
        Some(bs) => {
            let mut z = bs.clone();
            let i = if tcp { 2 } else { 0 };
            for k in [i, i + 1] {
                if k < z.len() {
                    z[k] = 0;
                }
            }
            format!("{}.{:08x}", bs.len(), fnv32(&z))
        }
    };
    format!("{}/{}/{}", b, r.delay.as_millis(), u8::from(r.close))
}

impl Mock {
    fn handle(&mut self, p: Proto, addr: SocketAddr, req: &[u8]) -> Reply {
        let connect = p == Proto::Tcp && req.is_empty();
        let n = if p == Proto::Udp || connect {
            let n = self.counter;
            self.counter += 1;
            if connect {
                self.cur_tcp = n;
            }
            n
        } else {
            self.cur_tcp
        };
        let fault = self.faults.get(&n).cloned().unwrap_or(Fault::None);
        let decoded = if connect { None } else { Message::from_octets(req).ok() };
        let question = decoded.as_ref().and_then(|m| m.questions.first().cloned());
        let base = question.as_ref().and_then(|q| self.table.get(&(addr.ip(), q.clone())));
        let reply = reply_of(&fault, p, req, base);
        let ms = tokio::time::Instant::now().saturating_duration_since(self.t0).as_millis();
        let head = |k: &str| format!("{ms},{n},{k},{}", tok_of_addr(&addr));
        let qrd = match (&question, &decoded) {
            (Some(q), Some(m)) => format!("{},{}", tok_of_question(q), u8::from(m.header.recursion_desired)),
            _ => "?,?".to_string(),
        };
        let ev = if connect {
            format!("{},{}", head("C"), if reply.refuse { "refused" } else { "ok" })
        } else if p == Proto::Udp {
            format!("{},{},{}", head("U"), qrd, show_reply(false, &reply))
        } else {
            format!("{},{},{}", head("T"), qrd, show_reply(true, &reply))
        };
        self.log.push(ev);
        reply
    }
}

// ---- printing ----

fn show_rrs(qtype: QueryType, rrs: &[ResourceRecord]) -> String {
    if qtype == QueryType::Wildcard {
        let mut v = rrs.to_vec();
        v.sort_by_key(|r| u16::from(r.rtype_with_data.rtype()));
        tok_of_rrs(&v)
    } else {
        tok_of_rrs(rrs)
    }
}

fn show_resolved(qt: QueryType, r: &ResolvedRecord) -> String {
    match r {
        ResolvedRecord::Authoritative { rrs, soa_rr } => format!("A{}/{}", show_rrs(qt, rrs), tok_of_rr(soa_rr)),
        ResolvedRecord::AuthoritativeNameError { soa_rr } => format!("X{}", tok_of_rr(soa_rr)),
        ResolvedRecord::NonAuthoritative { rrs, soa_rr } => format!(
            "N{}/{}",
            show_rrs(qt, rrs),
            soa_rr.as_ref().map_or("None".to_string(), tok_of_rr)
        ),
    }
}

fn show_error(e: &ResolutionError) -> String {
    match e {
        ResolutionError::Timeout => "Etimeout".to_string(),
        ResolutionError::RecursionLimit => "Ereclimit".to_string(),
        ResolutionError::DuplicateQuestion { question } => format!("Edup:{}", tok_of_question(question)),
        ResolutionError::DeadEnd { question } => format!("Edead:{}", tok_of_question(question)),
        ResolutionError::LocalDelegationMissingNS { apex, domain } => {
            format!("Enons:{},{}", name_tok(apex), name_tok(domain))
        }
        ResolutionError::CacheTypeMismatch { query, result } => {
            format!("Emismatch:{},{}", u16::from(*query), u16::from(*result))
        }
    }
}

fn show_cache(cache: &SharedCache) -> String {
    let d = cache.verif_dump();
    let mut entries: Vec<((String, u16), String)> = Vec::new();
    for p in &d.partitions {
        for (t, ts) in &p.records {
            if ts.is_empty() {
                continue;
            }
            let v = ts
                .iter()
                .map(|(rd, e)| format!("{}@{}", tok_of_rdata(rd), e / 1_000_000_000))
                .collect::<Vec<_>>()
                .join("&");
            entries.push(((name_tok(&p.key), u16::from(*t)), v));
        }
    }
    entries.sort_by(|a, b| a.0.cmp(&b.0));
    if entries.is_empty() {
        "_".to_string()
    } else {
        entries.iter().map(|((n, t), v)| format!("{n}={t}={v}")).collect::<Vec<_>>().join("+")
    }
}

// ---- R ----

fn run(mode: &str, port: &str, zones_t: &str, cache_t: &str, questions: &str, table_t: &str, faults_t: &str) -> String {
    let (is_recursive, protocol_mode, forward): (bool, ProtocolMode, Option<SocketAddr>) = match mode {
        "a" => (false, ProtocolMode::OnlyV4, None),
        "r4" => (true, ProtocolMode::OnlyV4, None),
        "rp4" => (true, ProtocolMode::PreferV4, None),
        "rp6" => (true, ProtocolMode::PreferV6, None),
        "r6" => (true, ProtocolMode::OnlyV6, None),
        _ if mode.starts_with('f') => (true, ProtocolMode::OnlyV4, Some(addr_of_tok(&mode[1..]))),
        _ => panic!("resolver: mode token"),
    };
    let port: u16 = port.parse().unwrap();
    let mut zones = Zones::new();
    if zones_t != "_" {
        for z in zones_t.split('|') {
            zones.insert(zone_of_tok(z));
        }
    }
    clock::set_ns(0);
    let cache = SharedCache::new();
    cache.insert_all(&rrs_of_tok(cache_t));

    let mut table = HashMap::new();
    if table_t != "_" {
        for e in table_t.split('+') {
            let p: Vec<&str> = e.split('=').collect();
            assert!(p.len() == 3, "resolver: table entry");
            let q = question_of_tok(p[1]);
            let bs = bytes_of_hex(p[2]);
            for i in p[0].split(',') {
                // the first entry for a key wins, as in Universe.table_lookup
                table.entry((ip_of_tok(i), q.clone())).or_insert_with(|| bs.clone());
            }
        }
    }
    let mut faults = HashMap::new();
    if faults_t != "_" {
        for e in faults_t.split('+') {
            let p: Vec<&str> = e.split(':').collect();
            assert!(p.len() == 2, "resolver: fault entry");
            // the first entry for a number wins, as in Universe.plan_lookup
            faults.entry(p[0].parse::<usize>().unwrap()).or_insert_with(|| fault_of_tok(p[1]));
        }
    }

    let rt = tokio::runtime::Builder::new_current_thread()
        .enable_time()
        .start_paused(true)
        .build()
        .expect("tokio runtime");
    let mock = Arc::new(Mutex::new(Mock {
        table,
        faults,
        counter: 0,
        cur_tcp: 0,
        t0: rt.block_on(async { tokio::time::Instant::now() }),
        log: Vec::new(),
    }));
    {
        let m = Arc::clone(&mock);
        set_handler(Some(Box::new(move |p, addr, req| m.lock().unwrap().handle(p, addr, req))));
    }

    let mut outs = Vec::new();
    for qtok in questions.split('|') {
        let q = question_of_tok(qtok);
        let (res, elapsed) = rt.block_on(async {
            let t0 = tokio::time::Instant::now();
            {
                let mut m = mock.lock().unwrap();
                m.t0 = t0;
                m.log.clear();
            }
            let (_metrics, res) =
                dns_resolver::resolve(is_recursive, protocol_mode, port, forward, &zones, &cache, &q).await;
            (res, t0.elapsed().as_millis())
        });
        let log = {
            let m = mock.lock().unwrap();
            if m.log.is_empty() {
                "_".to_string()
            } else {
                m.log.join(";")
            }
        };
        let r = match &res {
            Ok(r) => show_resolved(q.qtype, r),
            Err(e) => show_error(e),
        };
        outs.push(format!("{r}!{log}!{elapsed}"));
    }
    set_handler(None);
    format!("{}#{}", outs.join("|"), show_cache(&cache))
}

pub fn handle(toks: &[&str]) -> String {
    match toks {
        ["R", mode, port, zones, cache, questions, table, faults, _expect] => {
            run(mode, port, zones, cache, questions, table, faults)
        }
        _ => panic!("resolver: bad case"),
    }
}
