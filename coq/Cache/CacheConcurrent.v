(* Cache/CacheConcurrent.v -- the shared cache used from several threads at once (C05, C15).

   SharedCache is `Arc<Mutex<Cache>>`; every method body is ONE critical section (read from cache.rs
   by tools/tables.py: Base/TablesOk.shared_cache_methods_atomic), and the clock is read inside it.
   Base/Locks.v gives the small-step semantics of threads around one lock; here it is instantiated with
   the cache model's [step] as the body of a write section (there are no read sections: a mutex), and
   the "for every history" theorems of CacheProofs become "for every schedule of every number of
   threads":

   * [concurrent_inv]: after ANY schedule (hence at every instant of every schedule) the cache
     satisfies the representation invariant, its desired size is unchanged and its record count is the
     number of distinct (name, type, data) entries it holds; no body reaches a Panic site;
   * [concurrent_is_history]: after ANY schedule the cache is the state reached by a SEQUENTIAL history
     (the executed calls in lock order, each preceded by the clock advance up to its instant), and
     every result a thread got is the result of its call in that history -- so everything
     Properties/C05.v and C15.v prove about histories holds of concurrent use. *)
From RV Require Import Base.Prelude Base.Locks Name.NameModel Wire.WireTypes
  Cache.CacheFacts Cache.CacheModel Cache.CacheSpec Cache.CacheInsert Cache.CacheCount Cache.CachePrune Cache.CacheProofs.

Section Conc.
Variable tb : tiebreak.
Hypothesis tb_ok : tie_ok tb.

(* the body of a SharedCache method executed at instant [now] on cache [c] *)
Definition cexec (now : N) (c : cache) (o : op) : cache * option out :=
  match step tb c now o with
  | Ok (c', _, x) => (c', Some x)
  | _ => (c, None)          (* a Panic site / fuel exhaustion: excluded by [concurrent_inv] *)
  end.

(* a mutex has no read sections *)
Definition no_rexec (seen : list cache) (q : Empty_set) : option out := match q with end.

Definition csys := sys cache op Empty_set (option out).
Definition cev := ev op Empty_set.
Definition crun (d : N) (evs : list cev) : csys :=
  run_sched cache op Empty_set (option out) cexec no_rexec (init_sys cache op Empty_set (option out) (with_desired_size d)) evs.

Definition good (d : N) (c : cache) : Prop := Inv c /\ c_desired c = d.

Lemma cexec_good d now c o : good d c -> good d (fst (cexec now c o)) /\ snd (cexec now c o) <> None.
Proof.
  intros [HI HD]. unfold cexec.
  destruct (step_inv tb tb_ok c now o HI) as (c' & now' & x & -> & I' & D'). cbn.
  split; [split; [assumption|congruence]|discriminate].
Qed.

Theorem concurrent_inv d evs :
  let s := crun d evs in
  Inv (shared _ _ _ _ s) /\ c_desired (shared _ _ _ _ s) = d /\
  card (abs_map (shared _ _ _ _ s)) (c_size (shared _ _ _ _ s)) /\
  Forall (good d) (Locks.hist _ _ _ _ s).
Proof.
  intro s.
  destruct (shared_invariant cache op Empty_set (option out) cexec no_rexec (good d) (with_desired_size d) evs) as [[HI HD] HF].
  - split; [apply inv_init|reflexivity].
  - intros now c w Hc. apply (cexec_good d now c w Hc).
  - fold (crun d evs) in HI, HD, HF. fold s in HI, HD, HF.
    split; [assumption|]. split; [assumption|]. split; [apply count_is_distinct_entries; assumption|assumption].
Qed.

(* ---- the linearisation as a history of CacheModel.run ---- *)
Definition is_call (o : op) : bool := match o with Advance _ => false | _ => true end.

Lemma step_keeps_now c now o c' now' x : is_call o = true -> step tb c now o = Ok (c', now', x) -> now' = now.
Proof.
  intros Hc H. destruct o as [r|rs|name qt|name qt| |dt]; cbn [step is_call] in *; try discriminate.
  - destruct (shared_insert c now r); cbn [bind] in H; try discriminate. inversion H; reflexivity.
  - destruct (shared_insert_all c now rs); cbn [bind] in H; try discriminate. inversion H; reflexivity.
  - destruct (get c now name qt). inversion H; reflexivity.
  - destruct (get_raw c now name qt). inversion H; reflexivity.
  - destruct (prune tb c now) as [[c1 rep]| | |]; cbn [bind] in H; try discriminate. inversion H; reflexivity.
Qed.

Definition clin := lin op (option out).

(* executed calls (oldest first) as a history: advance the clock to the call's instant, then the call *)
Fixpoint ops_of (now : N) (ls : list clin) : list op :=
  match ls with
  | [] => []
  | l :: r => Advance (l_time _ _ l - now) :: l_w _ _ l :: ops_of (l_time _ _ l) r
  end.

(* what the history returns, for comparison with what the threads got *)
Fixpoint outs_of (ls : list clin) : list (option out) :=
  match ls with
  | [] => []
  | l :: r => Some OUnit :: l_out _ _ l :: outs_of r
  end.

Lemma replays_is_run ls : forall now c c',
  Inv c ->
  replays cache op (option out) cexec ls c c' ->
  sorted_from op (option out) now ls ->
  Forall (fun l => is_call (l_w _ _ l) = true) ls ->
  exists outs, run tb (ops_of now ls) c now = Ok (c', last_time op (option out) now ls, outs) /\
               map Some outs = outs_of ls.
Proof.
  induction ls as [|l ls IH]; intros now c c' HI Hr Hs Hc.
  - inversion Hr; subst. exists []. split; reflexivity.
  - inversion Hr as [|l0 ls0 s0 s0' Hout Hrest]; subst. destruct Hs as [Hle Hs]. inversion Hc as [|? ? Hc1 Hc2]; subst.
    cbn [ops_of run step bind last_time].
    replace (now + (l_time _ _ l - now)) with (l_time _ _ l) by lia.
    destruct (step_inv tb tb_ok c (l_time _ _ l) (l_w _ _ l) HI) as (c1 & now1 & x & Hstep & I1 & _).
    pose proof (step_keeps_now _ _ _ _ _ _ Hc1 Hstep) as ->.
    rewrite Hstep. cbn [bind].
    unfold cexec in Hout, Hrest. rewrite Hstep in Hout, Hrest. cbn [fst snd] in Hout, Hrest.
    destruct (IH (l_time _ _ l) c1 c' I1 Hrest Hs Hc2) as (outs & -> & Ho). cbn [bind].
    exists (OUnit :: x :: outs). split; [reflexivity|]. cbn [map outs_of]. rewrite Ho, Hout. reflexivity.
Qed.

Theorem concurrent_is_history d evs :
  (forall t o, In (CallW op Empty_set t o) evs -> is_call o = true) ->
  let s := crun d evs in
  let ls := rev (wlog _ _ _ _ s) in
  exists outs,
    run tb (ops_of 0 ls) (with_desired_size d) 0 = Ok (shared _ _ _ _ s, last_time op (option out) 0 ls, outs) /\
    map Some outs = outs_of ls /\
    (* every value returned to a thread is the value recorded for its call in the history *)
    (forall l, In (WRet cache op Empty_set (option out) l) (rets _ _ _ _ s) -> In l ls).
Proof.
  intros Hcalls s ls.
  destruct (writes_linearise_sorted cache op Empty_set (option out) cexec no_rexec (with_desired_size d) evs) as [Hr Hs].
  destruct (writes_linearise cache op Empty_set (option out) cexec no_rexec (with_desired_size d) evs) as (_ & _ & Hw).
  destruct (only_called_sections_run cache op Empty_set (option out) cexec no_rexec (with_desired_size d) evs) as [Hc _].
  fold (crun d evs) in Hr, Hs, Hw, Hc. fold s in Hr, Hs, Hw, Hc. fold ls in Hr, Hs.
  destruct (replays_is_run ls 0 (with_desired_size d) (shared _ _ _ _ s) (inv_init d) Hr Hs) as (outs & H1 & H2).
  - apply Forall_forall. intros l Hl. apply (Hcalls (l_tid _ _ l)). apply Hc. unfold ls in Hl. apply in_rev. exact Hl.
  - exists outs. split; [assumption|]. split; [assumption|].
    intros l Hl. unfold ls. apply -> in_rev. apply Hw. exact Hl.
Qed.

(* ---- transfer of a history theorem: a concurrent get never returns a record past its TTL ---- *)
Lemma ops_outs_nth ls : forall now k l,
  nth_error ls k = Some l ->
  nth_error (ops_of now ls) (2 * k + 1)%nat = Some (l_w _ _ l) /\
  nth_error (outs_of ls) (2 * k + 1)%nat = Some (l_out _ _ l).
Proof.
  induction ls as [|x xs IH]; intros now k l H; [destruct k; discriminate|].
  destruct k as [|k]; cbn [nth_error] in H.
  - inversion H; subst. change (2 * 0 + 1)%nat with 1%nat. cbn [ops_of outs_of nth_error]. split; reflexivity.
  - replace (2 * Datatypes.S k + 1)%nat with (Datatypes.S (Datatypes.S (2 * k + 1))) by lia.
    cbn [ops_of outs_of nth_error]. apply IH. exact H.
Qed.

Lemma hstep_call_time key st o : is_call o = true -> fst (hstep key st o) = fst st.
Proof. destruct o; cbn [is_call hstep fst]; intro H; try reflexivity; discriminate. Qed.

Lemma time_prefix key ls : forall now acc k l,
  sorted_from op (option out) now ls ->
  Forall (fun l => is_call (l_w _ _ l) = true) ls ->
  nth_error ls k = Some l ->
  fst (fold_left (hstep key) (firstn (2 * k + 1)%nat (ops_of now ls)) (now, acc)) = l_time _ _ l.
Proof.
  induction ls as [|x xs IH]; intros now acc k l Hs Hc H; [destruct k; discriminate|].
  destruct Hs as [Hle Hs]. inversion Hc as [|? ? Hc1 Hc2]; subst.
  destruct k as [|k]; cbn [nth_error] in H.
  - inversion H; subst. change (2 * 0 + 1)%nat with 1%nat.
    cbn [ops_of firstn fold_left hstep fst]. lia.
  - replace (2 * Datatypes.S k + 1)%nat with (Datatypes.S (Datatypes.S (2 * k + 1))) by lia.
    cbn [ops_of firstn fold_left].
    assert (E : hstep key (now, acc) (Advance (l_time _ _ x - now)) = (l_time _ _ x, acc)).
    { cbn [hstep fst snd]. f_equal. lia. }
    rewrite E.
    destruct (hstep key (l_time _ _ x, acc) (l_w _ _ x)) as [t1 acc1] eqn:Est.
    assert (Hf : t1 = l_time _ _ x).
    { pose proof (hstep_call_time key (l_time _ _ x, acc) (l_w _ _ x) Hc1) as G. rewrite Est in G. exact G. }
    subst t1. apply IH; assumption.
Qed.

Lemma nth_error_map_some {A} (l : list A) : forall i x,
  nth_error (map Some l) i = Some (Some x) -> nth_error l i = Some x.
Proof.
  induction l as [|y ys IH]; intros [|i] x H; cbn [map nth_error] in *; try discriminate.
  - inversion H; reflexivity.
  - apply IH; exact H.
Qed.

(* For every schedule: a get executed by any thread returns only records that are alive at the instant
   its body ran -- last inserted, in lock order, at t0 with TTL T, with now < t0 + T and the reported TTL
   within the time left.  ([firstn (2k+1) (ops_of 0 ls)] is the sequential history of everything that
   held the mutex before this get, with the clock advanced to its instant.) *)
Theorem concurrent_get_is_live d evs :
  (forall t o, In (CallW op Empty_set t o) evs -> is_call o = true) ->
  let s := crun d evs in
  let ls := rev (wlog _ _ _ _ s) in
  forall k l name qt rrs r,
    nth_error ls k = Some l -> l_w _ _ l = Get name qt -> l_out _ _ l = Some (ORRs rrs) -> In r rrs ->
    exists t0 T,
      last_insert (firstn (2 * k + 1)%nat (ops_of 0 ls)) (rr_key r) = Some (t0, T) /\
      l_time _ _ l < t0 + T * NS_PER_S /\
      rr_ttl r * NS_PER_S <= t0 + T * NS_PER_S - l_time _ _ l /\
      1 <= rr_ttl r /\ rr_name r = name /\ rr_class r = RC_IN.
Proof.
  intros Hcalls s ls k l name qt rrs r Hk Hw Ho Hin.
  destruct (concurrent_is_history d evs Hcalls) as (outs & Hrun & Hmap & _).
  fold s in Hrun, Hmap. fold ls in Hrun, Hmap.
  destruct (ops_outs_nth ls 0 k l Hk) as [Hop Hout].
  rewrite Hw in Hop. rewrite <- Hmap, Ho in Hout. apply nth_error_map_some in Hout.
  destruct (writes_linearise_sorted cache op Empty_set (option out) cexec no_rexec (with_desired_size d) evs) as [_ Hs].
  destruct (only_called_sections_run cache op Empty_set (option out) cexec no_rexec (with_desired_size d) evs) as [Hcl _].
  fold (crun d evs) in Hs, Hcl. fold s in Hs, Hcl. fold ls in Hs.
  assert (Hc : Forall (fun l => is_call (l_w _ _ l) = true) ls).
  { apply Forall_forall. intros l' Hl'. apply (Hcalls (l_tid _ _ l')). apply Hcl. unfold ls in Hl'. apply in_rev. exact Hl'. }
  assert (Ht : time_of (firstn (2 * k + 1)%nat (ops_of 0 ls)) = l_time _ _ l).
  { unfold time_of, CacheSpec.hist. exact (time_prefix _ ls 0 None k l Hs Hc Hk). }
  destruct (served_record_is_live tb tb_ok d _ _ _ _ (2 * k + 1)%nat name qt rrs r Hrun Hop Hout Hin)
    as (t0 & T & H1 & H2 & H3 & H4).
  rewrite Ht in H2, H3. exists t0, T. auto.
Qed.

End Conc.

(* a schedule of two threads on one cache, to show the statements are not vacuous: thread 1 inserts,
   thread 2 tries to take the mutex meanwhile (and has to wait), then reads *)
Definition ex_rr : rr := {| rr_name := root_domain; rr_type := 1; rr_class := 1; rr_ttl := 300; rr_data := RD_A 7 |}.
Definition ex_sched : list (ev op Empty_set) :=
  [CallW _ _ 1 (Insert ex_rr); CallW _ _ 2 (Get root_domain 1); Acq _ _ 1; Acq _ _ 2; Tick _ _ 5;
   Step _ _ 2; Step _ _ 1; Rel _ _ 1; Acq _ _ 2; Tick _ _ 5; Step _ _ 2; Rel _ _ 2].

Example ex_sched_runs :
  let s := crun tb_first 10 ex_sched in
  length (wlog _ _ _ _ s) = 2%nat /\ length (rets _ _ _ _ s) = 2%nat /\
  map (fun l => (l_time _ _ l, l_tid _ _ l)) (rev (wlog _ _ _ _ s)) = [(5, 1%nat); (10, 2%nat)] /\
  c_size (shared _ _ _ _ s) = 1.
Proof. vm_compute. repeat split; reflexivity. Qed.
