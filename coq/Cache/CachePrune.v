(* Cache/CachePrune.v -- proofs about the prune path of the cache model:
   PriorityQueue::pop, remove_expired_step, remove_expired, remove_least_recently_used,
   the LRU loop and prune: invariant preservation, termination with the model's fuel,
   no panic, and the abstract effect. *)
From Coq Require Import Permutation.
From RV Require Import Base.Prelude Name.NameModel Name.NameProofs Wire.WireTypes
  Cache.CacheFacts Cache.CacheModel Cache.CacheSpec Cache.CacheInsert.

(* ---- priority queue ---- *)
Lemma pq_min_none q : pq_min q = None <-> q = [].
Proof.
  destruct q as [|[k p] t]; cbn [pq_min]; [tauto|].
  destruct (pq_min t); split; discriminate.
Qed.

Lemma pq_min_spec q m : pq_min q = Some m -> min_of m (map snd q).
Proof.
  revert m. induction q as [|[k p] t IH]; intro m; cbn [pq_min map snd]; [discriminate|].
  destruct (pq_min t) as [m'|] eqn:E.
  - intro H; inversion H; subst. destruct (IH _ eq_refl) as [I1 I2]. split.
    + destruct (N.min_spec p m') as [[_ ->]|[_ ->]]; [left; reflexivity | right; exact I1].
    + constructor; [lia|]. eapply Forall_impl; [|exact I2]. cbn beta. intros; lia.
  - apply pq_min_none in E. subst t. intro H; inversion H; subst. apply min_of_single.
Qed.

Section Tie.
Variable tb : tiebreak.
Hypothesis tb_ok : tie_ok tb.

Lemma pq_pop_some q k e q' :
  pq_pop tb q = Some ((k, e), q') ->
  In (k, e) q /\ q' = pq_remove k q /\ forall k' e', In (k', e') q -> e <= e'.
Proof.
  unfold pq_pop, pq_candidates. destruct (pq_min q) as [m|] eqn:Hm.
  - destruct (tb (filter (fun x => snd x =? m) q)) as [[k0 e0]|] eqn:Ht; [|discriminate].
    intro H; inversion H; subst. apply (proj1 (tb_ok _)) in Ht. apply filter_In in Ht.
    destruct Ht as [Hin He]. cbn [snd] in He. apply N.eqb_eq in He. subst e.
    split; [exact Hin|]. split; [reflexivity|]. intros k' e' Hin'.
    apply pq_min_spec in Hm. eapply min_of_le; [exact Hm|]. apply (in_map snd) in Hin'. exact Hin'.
  - destruct (tb []) as [[k0 e0]|] eqn:Ht; [|discriminate].
    apply (proj1 (tb_ok _)) in Ht. destruct Ht.
Qed.

Lemma pq_pop_none q : pq_pop tb q = None -> q = [].
Proof.
  unfold pq_pop, pq_candidates. destruct (pq_min q) as [m|] eqn:Hm.
  - pose proof (pq_min_spec _ _ Hm) as [Hin _]. apply in_map_iff in Hin. destruct Hin as ([k e] & He & Hin).
    cbn [snd] in He. subst e.
    assert (Hne : filter (fun x => snd x =? m) q <> []).
    { intro H. assert (Hf : In (k, m) (filter (fun x => snd x =? m) q))
        by (apply filter_In; split; [exact Hin | cbn [snd]; apply N.eqb_refl]).
      rewrite H in Hf. destruct Hf. }
    apply (proj2 (tb_ok _)) in Hne. destruct (tb _) as [[k0 e0]|]; [discriminate | congruence].
  - intros _. apply pq_min_none, Hm.
Qed.
End Tie.

(* ---- expire_records ---- *)
Definition retain_recs (now : N) (recs : list (N * list (rdata * N))) : list (N * list (rdata * N)) :=
  map (fun e => (fst e, retain_live now (snd e))) recs.

Definition olist (o : option N) : list N := match o with Some a => [a] | None => [] end.

Lemma min_opt_spec ts : forall acc,
  match min_opt acc ts with
  | Some m => min_of m (olist acc ++ map snd ts)
  | None => acc = None /\ ts = []
  end.
Proof.
  induction ts as [|[d e] ts IH]; intro acc; cbn [min_opt fold_left map snd].
  - destruct acc as [a|]; cbn [olist app]; [apply min_of_single | auto].
  - fold (min_opt (match acc with None => Some e | Some t => if e <? t then Some e else Some t end) ts).
    set (acc' := match acc with None => Some e | Some t => if e <? t then Some e else Some t end).
    specialize (IH acc'). destruct (min_opt acc' ts) as [m|].
    + destruct acc as [a|]; cbn [olist app] in *.
      * unfold acc' in IH. destruct (N.ltb_spec e a); cbn [olist app] in IH; destruct IH as [I1 I2]; inversion I2; subst.
        -- split; [destruct I1 as [I1|I1]; [right; left; exact I1 | right; right; exact I1]|].
           constructor; [lia|]. constructor; assumption.
        -- split; [destruct I1 as [I1|I1]; [left; exact I1 | right; right; exact I1]|].
           constructor; [assumption|]. constructor; [lia | assumption].
      * exact IH.
    + destruct IH as [I1 _]. unfold acc' in I1. destruct acc as [a|]; [destruct (e <? a)|]; discriminate.
Qed.

Lemma tuples_of_retain now recs : tuples_of (retain_recs now recs) = retain_live now (tuples_of recs).
Proof.
  induction recs as [|[t ts] recs IH]; [reflexivity|].
  unfold tuples_of, retain_recs in *. cbn [map flat_map fst snd]. rewrite IH.
  unfold retain_live. rewrite filter_app. reflexivity.
Qed.

Lemma retain_len now (ts : list (rdata * N)) : llen (retain_live now ts) <= llen ts.
Proof.
  unfold retain_live. induction ts as [|x ts IH]; cbn [filter]; [lia|].
  destruct (now <? snd x); rewrite !llen_cons; lia.
Qed.

Lemma expire_records_spec now recs : forall pruned ne recs' p n,
  expire_records now recs pruned ne = (recs', p, n) ->
  recs' = retain_recs now recs /\
  p + llen (tuples_of recs') = pruned + llen (tuples_of recs) /\
  match n with
  | Some m => min_of m (olist ne ++ map snd (tuples_of recs'))
  | None => ne = None /\ tuples_of recs' = []
  end.
Proof.
  induction recs as [|[t ts] recs IH]; intros pruned ne recs' p n; cbn [expire_records].
  - intro H; inversion H; subst. split; [reflexivity|]. split; [reflexivity|].
    destruct n as [m|]; cbn [olist tuples_of flat_map map app]; [apply min_of_single | auto].
  - destruct (expire_records now recs (pruned + (llen ts - llen (retain_live now ts)))
                (min_opt ne (retain_live now ts))) as [[r1 p1] n1] eqn:E.
    intro H; inversion H; subst. destruct (IH _ _ _ _ _ E) as (-> & I2 & I3).
    split; [reflexivity|]. pose proof (retain_len now ts) as Hlen.
    split.
    + unfold tuples_of in *. cbn [flat_map snd]. rewrite !llen_app. lia.
    + pose proof (min_opt_spec (retain_live now ts) ne) as Hm.
      unfold tuples_of in *. cbn [flat_map snd]. rewrite map_app.
      destruct n as [m|].
      * destruct (min_opt ne (retain_live now ts)) as [m1|]; cbn [olist app] in I3.
        -- (* m = min (m1 :: rest), m1 = min (ne ++ kept) *)
           destruct I3 as [J1 J2]. destruct Hm as [K1 K2]. inversion J2; subst.
           rewrite Forall_forall in K2. split.
           ++ destruct J1 as [J1|J1]; [subst m1; rewrite app_assoc; apply in_or_app; left; exact K1|].
              rewrite app_assoc. apply in_or_app; right; exact J1.
           ++ rewrite app_assoc. apply Forall_app. split; [|assumption].
              apply Forall_forall. intros x Hx. apply K2 in Hx. lia.
        -- destruct Hm as [-> ->]. cbn [olist app map]. exact I3.
      * destruct I3 as [J1 J2]. rewrite J1 in Hm. destruct Hm as [-> ->]. rewrite J2. auto.
Qed.

Section FilterLookup.
  Context {K V : Type} (keqb : K -> K -> bool).
  Hypothesis keqb_eq : forall a b, keqb a b = true <-> a = b.
  Lemma lookup_filter (f : K * V -> bool) k (m : list (K * V)) :
    NoDup (map fst m) ->
    alookup keqb k (filter f m) =
    match alookup keqb k m with Some v => if f (k, v) then Some v else None | None => None end.
  Proof.
    induction m as [|[k0 v0] m IH]; intro Hnd; cbn [filter alookup]; [reflexivity|].
    cbn [map fst] in Hnd. inversion Hnd as [|? ? Hni Hnd']; subst.
    destruct (keqb k k0) eqn:E.
    - apply keqb_eq in E. subst k0. destruct (f (k, v0)); cbn [alookup].
      + rewrite (keqb_refl keqb keqb_eq). reflexivity.
      + rewrite (IH Hnd'). apply (lookup_none keqb keqb_eq) in Hni. rewrite Hni. reflexivity.
    - destruct (f (k0, v0)); cbn [alookup]; [rewrite E|]; apply IH, Hnd'.
  Qed.
End FilterLookup.

Lemma nlookup_retain now t recs :
  alookup N.eqb t (retain_recs now recs) = option_map (retain_live now) (alookup N.eqb t recs).
Proof.
  induction recs as [|[t0 ts] recs IH]; [reflexivity|].
  unfold retain_recs in *. cbn [map alookup fst snd]. destruct (t =? t0); [reflexivity | exact IH].
Qed.

Lemma keys_retain now recs : map fst (retain_recs now recs) = map fst recs.
Proof. unfold retain_recs. rewrite map_map. reflexivity. Qed.

Lemma rlook_retain now recs t d :
  Forall (fun e => NoDup (map fst (snd e))) recs ->
  rlook (retain_recs now recs) t d =
  match rlook recs t d with Some e => if now <? e then Some e else None | None => None end.
Proof.
  intro Hv. unfold rlook. rewrite nlookup_retain.
  destruct (alookup N.eqb t recs) as [ts|] eqn:Ht; cbn [option_map]; [|reflexivity].
  unfold retain_live. rewrite (lookup_filter rdata_eqb rdata_eqb_eq).
  - destruct (alookup rdata_eqb d ts); reflexivity.
  - exact (lookup_forall N.eqb Neqb_eq _ _ _ _ Hv Ht).
Qed.

Lemma in_tuples_of t recs (ts : list (rdata * N)) x :
  alookup N.eqb t recs = Some ts -> In x ts -> In x (tuples_of recs).
Proof.
  intros Ht Hx. unfold tuples_of. apply in_flat_map. exists (t, ts).
  split; [apply (lookup_in N.eqb Neqb_eq), Ht | exact Hx].
Qed.

Lemma rlook_in recs t d e : rlook recs t d = Some e -> In (d, e) (tuples_of recs).
Proof.
  unfold rlook. destruct (alookup N.eqb t recs) as [ts|] eqn:Ht; [|discriminate].
  intro H. eapply in_tuples_of; [exact Ht|]. apply (lookup_in rdata_eqb rdata_eqb_eq), H.
Qed.

Lemma abs_map_part c n t d e :
  abs_map c (n, t, d) = Some e ->
  exists p, alookup dname_eqb n (c_parts c) = Some p /\ rlook (p_records p) t d = Some e.
Proof.
  rewrite abs_map_unfold. destruct (alookup dname_eqb n (c_parts c)) as [p|]; [|discriminate].
  intro H. exists p. auto.
Qed.

(* every cached record expires no earlier than its name's entry in the expiry queue *)
Lemma expiry_queue_bound c n t d e :
  Inv c -> abs_map c (n, t, d) = Some e ->
  exists ne, In (n, ne) (c_expiry c) /\ ne <= e.
Proof.
  intros HI Ha. destruct (abs_map_part _ _ _ _ _ Ha) as (p & Hl & Hr).
  exists (p_next_expiry p). split.
  - apply (lookup_in dname_eqb dname_eqb_eq). exact (queue_lookup _ _ _ _ _ (inv_expiry c HI) Hl).
  - pose proof (inv_part_of _ _ _ HI Hl) as [_ _ _ Hm]. eapply min_of_le; [exact Hm|].
    apply rlook_in in Hr. apply (in_map snd) in Hr. exact Hr.
Qed.

Lemma inv_replace' c name p p' acc' exp' sz' :
  Inv c -> alookup dname_eqb name (c_parts c) = Some p -> Inv_part p' ->
  NoDup (map fst acc') ->
  (forall k, alookup dname_eqb k acc' = if dname_eqb k name then Some (p_last_read p') else alookup dname_eqb k (c_access c)) ->
  NoDup (map fst exp') ->
  (forall k, alookup dname_eqb k exp' = if dname_eqb k name then Some (p_next_expiry p') else alookup dname_eqb k (c_expiry c)) ->
  sz' + p_size p = c_size c + p_size p' ->
  Inv {| c_parts := areplace dname_eqb name p' (c_parts c); c_access := acc'; c_expiry := exp';
         c_size := sz'; c_desired := c_desired c |}.
Proof.
  intros [Hk Hp [Ha1 Ha2] [He1 He2] Hs] Hl Hp' Ka La Ke Le Hsz.
  assert (Lp : forall k, alookup dname_eqb k (areplace dname_eqb name p' (c_parts c)) =
                         if dname_eqb k name then Some p' else alookup dname_eqb k (c_parts c)).
  { intro k. rewrite (lookup_replace dname_eqb dname_eqb_eq), Hl. reflexivity. }
  constructor; cbn [c_parts c_access c_expiry c_size c_desired].
  - rewrite (keys_replace dname_eqb). exact Hk.
  - apply (forall_replace dname_eqb dname_eqb_eq); [exact Hp | exact Hp'].
  - split; [exact Ka|]. intro k. rewrite La, Lp.
    destruct (dname_eqb k name); [reflexivity | apply Ha2].
  - split; [exact Ke|]. intro k. rewrite Le, Lp.
    destruct (dname_eqb k name); [reflexivity | apply He2].
  - pose proof (asum_replace dname_eqb dname_eqb_eq p_size name (c_parts c) p p' Hl). lia.
Qed.

Lemma inv_remove c name p acc' exp' sz' :
  Inv c -> alookup dname_eqb name (c_parts c) = Some p ->
  NoDup (map fst acc') ->
  (forall k, alookup dname_eqb k acc' = if dname_eqb k name then None else alookup dname_eqb k (c_access c)) ->
  NoDup (map fst exp') ->
  (forall k, alookup dname_eqb k exp' = if dname_eqb k name then None else alookup dname_eqb k (c_expiry c)) ->
  sz' + p_size p = c_size c ->
  Inv {| c_parts := aremove dname_eqb name (c_parts c); c_access := acc'; c_expiry := exp';
         c_size := sz'; c_desired := c_desired c |}.
Proof.
  intros [Hk Hp [Ha1 Ha2] [He1 He2] Hs] Hl Ka La Ke Le Hsz.
  assert (Lp : forall k, alookup dname_eqb k (aremove dname_eqb name (c_parts c)) =
                         if dname_eqb k name then None else alookup dname_eqb k (c_parts c))
    by (intro k; apply (lookup_remove dname_eqb dname_eqb_eq), Hk).
  constructor; cbn [c_parts c_access c_expiry c_size c_desired].
  - apply (nodup_remove dname_eqb), Hk.
  - apply (forall_remove dname_eqb), Hp.
  - split; [exact Ka|]. intro k. rewrite La, Lp. destruct (dname_eqb k name); [reflexivity | apply Ha2].
  - split; [exact Ke|]. intro k. rewrite Le, Lp. destruct (dname_eqb k name); [reflexivity | apply He2].
  - pose proof (asum_remove dname_eqb dname_eqb_eq p_size name (c_parts c) p Hl). lia.
Qed.

(* number of queue entries that are due *)
Definition count_le (now : N) (q : pqueue) : nat := length (filter (fun e => snd e <=? now) q).

Lemma count_le_remove now q k e :
  alookup dname_eqb k q = Some e -> e <= now -> S (count_le now (pq_remove k q)) = count_le now q.
Proof.
  intros Hl He. destruct (lookup_split dname_eqb dname_eqb_eq _ _ _ Hl) as (pre & suf & -> & _ & _ & Hd).
  unfold pq_remove. rewrite Hd. unfold count_le. rewrite !filter_app, !app_length. cbn [filter snd].
  destruct (N.leb_spec e now); [cbn [length]; lia | lia].
Qed.

Lemma count_le_push_late now q k e :
  alookup dname_eqb k q = None -> now < e -> count_le now (pq_push k e q) = count_le now q.
Proof.
  intros Hl He. unfold pq_push. rewrite (insert_none dname_eqb _ _ _ Hl).
  unfold count_le. rewrite filter_app, app_length. cbn [filter snd].
  destruct (N.leb_spec e now); [lia | cbn [length]; lia].
Qed.

Section Tie2.
Variable tb : tiebreak.
Hypothesis tb_ok : tie_ok tb.

Lemma remove_expired_step_ok c now :
  Inv c ->
  exists c' n, remove_expired_step tb c now = Ok (c', n) /\ Inv c' /\
    c_size c' + n = c_size c /\ c_desired c' = c_desired c /\
    (forall k e, abs_map c' k = Some e -> abs_map c k = Some e) /\
    (forall k e, abs_map c k = Some e -> now < e -> abs_map c' k = Some e) /\
    (forall nm t, abs_lru c' nm = Some t -> abs_lru c nm = Some t) /\
    (n = 0 -> forall k e, abs_map c k = Some e -> now < e) /\
    (n <> 0 -> (count_le now (c_expiry c') < count_le now (c_expiry c))%nat).
Proof.
  intro HI. unfold remove_expired_step.
  destruct (pq_pop tb (c_expiry c)) as [[[k e] q']|] eqn:Hpop.
  - destruct (pq_pop_some tb tb_ok _ _ _ _ Hpop) as (Hin & -> & Hmin).
    pose proof (inv_expiry c HI) as HQ. pose proof HQ as [HQ1 HQ2].
    assert (Hlq : alookup dname_eqb k (c_expiry c) = Some e) by (apply (in_lookup dname_eqb dname_eqb_eq); assumption).
    destruct (queue_lookup_inv _ _ _ _ _ HQ Hlq) as (p & Hl & Hpe).
    assert (Hrm : forall k', alookup dname_eqb k' (pq_remove k (c_expiry c)) =
                             if dname_eqb k' k then None else alookup dname_eqb k' (c_expiry c))
      by (intro k'; apply (lookup_remove dname_eqb dname_eqb_eq), HQ1).
    assert (Hrn : NoDup (map fst (pq_remove k (c_expiry c)))) by (apply (nodup_remove dname_eqb), HQ1).
    destruct (N.ltb_spec now e) as [Hlt|Hge].
    + (* nothing is due: the entry is pushed back *)
      eexists _, 0. split; [reflexivity|].
      split; [|split; [cbn [c_size]; lia|split; [reflexivity|]]].
      * destruct HI as [I1 I2 I3 I4 I5]. constructor; cbn [c_parts c_access c_expiry c_size]; try assumption.
        split; [apply (nodup_insert dname_eqb dname_eqb_eq), Hrn|]. intro k'.
        unfold pq_push. rewrite (lookup_insert dname_eqb dname_eqb_eq), Hrm, <- HQ2.
        destruct (dname_eqb k' k) eqn:E; [|reflexivity]. apply dname_eqb_eq in E. subst k'. symmetry. exact Hlq.
      * split; [auto|]. split; [auto|]. split; [auto|]. split; [|intro H; exfalso; apply H; reflexivity].
        intros _ [[n0 t0] d0] e0 Ha. destruct (expiry_queue_bound _ _ _ _ _ HI Ha) as (ne & Hne & Hle).
        apply Hmin in Hne. lia.
    + (* the partition is due *)
      rewrite Hl. pose proof (inv_part_of _ _ _ HI Hl) as HP. pose proof HP as [P1 P2 P3 P4].
      unfold all_tuples in P3, P4. fold (tuples_of (p_records p)) in P3, P4.
      destruct (expire_records now (p_records p) 0 None) as [[recs pruned] ne] eqn:Hex.
      destruct (expire_records_spec _ _ _ _ _ _ _ Hex) as (-> & E2 & E3).
      rewrite tuples_of_retain in E2, E3.
      set (kept := retain_live now (tuples_of (p_records p))) in *.
      pose proof (part_size_le _ _ _ HI Hl) as Hple.
      rewrite (csub_ok (p_size p) pruned) by lia. cbn [bind].
      rewrite (csub_ok (c_size c) pruned) by lia.
      (* at least the earliest record goes *)
      assert (Hpos : pruned <> 0).
      { destruct P4 as [P4 _]. apply in_map_iff in P4. destruct P4 as ([d0 e0] & He0 & Hin0). cbn [snd] in He0.
        assert (Hlen : llen kept < llen (tuples_of (p_records p))).
        { unfold kept, retain_live. clear -Hin0 He0 Hpe Hge. induction (tuples_of (p_records p)) as [|x l IH]; [destruct Hin0|].
          cbn [filter]. destruct Hin0 as [->|Hin0].
          - cbn [snd]. destruct (N.ltb_spec now e0); [lia|]. pose proof (retain_len now l) as Hr.
            unfold retain_live in Hr. rewrite llen_cons. lia.
          - specialize (IH Hin0). destruct (now <? snd x); rewrite !llen_cons; lia. }
        lia. }
      assert (Hsub : forall t d e0, rlook (retain_recs now (p_records p)) t d = Some e0 ->
                                    rlook (p_records p) t d = Some e0 /\ now < e0).
      { intros t d e0. rewrite (rlook_retain now _ t d P2). destruct (rlook (p_records p) t d) as [e1|]; [|discriminate].
        destruct (N.ltb_spec now e1) as [Hl1|Hl1]; [|discriminate]. intro Hx; inversion Hx; subst. auto. }
      assert (Hkeep : forall t d e0, rlook (p_records p) t d = Some e0 -> now < e0 ->
                                     rlook (retain_recs now (p_records p)) t d = Some e0).
      { intros t d e0 Hr Hlt0. rewrite (rlook_retain now _ t d P2), Hr. destruct (N.ltb_spec now e0); [reflexivity | lia]. }
      destruct ne as [ne|].
      * (* some records stay *)
        cbn [olist app] in E3.
        assert (Hne : now < ne).
        { destruct E3 as [E3 _]. apply in_map_iff in E3. destruct E3 as ([d0 e0] & <- & Hin0).
          unfold kept, retain_live in Hin0. apply filter_In in Hin0. destruct Hin0 as [_ Hlt]. apply N.ltb_lt in Hlt. exact Hlt. }
        eexists _, pruned. cbn [bind]. split; [reflexivity|].
        split; [|split; [cbn [c_size]; lia|split; [reflexivity|]]].
        -- eapply inv_replace'; try eassumption.
           ++ constructor; unfold all_tuples; cbn [p_records p_size p_next_expiry];
                fold (tuples_of (retain_recs now (p_records p))).
              ** rewrite keys_retain. exact P1.
              ** unfold retain_recs. apply Forall_map. eapply Forall_impl; [|exact P2]. cbn [snd].
                 intros a Ha. apply nodup_map_filter, Ha.
              ** rewrite tuples_of_retain. fold kept. lia.
              ** rewrite tuples_of_retain. exact E3.
           ++ exact (proj1 (inv_access c HI)).
           ++ intro k'. cbn [p_last_read]. apply lookup_same_key.
              exact (queue_lookup _ _ _ _ _ (inv_access c HI) Hl).
           ++ apply (nodup_insert dname_eqb dname_eqb_eq), Hrn.
           ++ intro k'. unfold pq_push. rewrite (lookup_insert dname_eqb dname_eqb_eq), Hrm. cbn [p_next_expiry].
              destruct (dname_eqb k' k); reflexivity.
           ++ cbn [p_size]. lia.
        -- split; [|split; [|split; [|split]]].
           ++ intros [[n0 t0] d0] e0. rewrite (abs_map_replace _ _ _ _ _ _ _ _ _ _ _ Hl). cbn [p_records].
              destruct (dname_eqb n0 k) eqn:E; [|auto]. apply dname_eqb_eq in E. subst n0.
              intro H. apply Hsub in H. rewrite (abs_map_name _ _ _ _ _ Hl). tauto.
           ++ intros [[n0 t0] d0] e0. rewrite (abs_map_replace _ _ _ _ _ _ _ _ _ _ _ Hl). cbn [p_records].
              destruct (dname_eqb n0 k) eqn:E; [|auto]. apply dname_eqb_eq in E. subst n0.
              rewrite (abs_map_name _ _ _ _ _ Hl). apply Hkeep.
           ++ intros nm t0. rewrite (abs_lru_replace _ _ _ _ _ _ _ _ _ Hl). cbn [p_last_read].
              destruct (dname_eqb nm k) eqn:E; [|auto]. apply dname_eqb_eq in E. subst nm.
              unfold abs_lru. rewrite Hl. auto.
           ++ intro H; contradiction.
           ++ intros _. cbn [c_expiry].
              rewrite (count_le_push_late now _ k ne); [|rewrite Hrm, (keqb_refl dname_eqb dname_eqb_eq); reflexivity | exact Hne].
              rewrite <- (count_le_remove now (c_expiry c) k e Hlq Hge). lia.
      * (* the whole name goes *)
        destruct E3 as [_ E3]. rewrite E3, llen_nil in E2.
        eexists _, pruned. cbn [bind]. split; [reflexivity|].
        split; [|split; [cbn [c_size]; lia|split; [reflexivity|]]].
        -- eapply inv_remove; try eassumption.
           ++ apply (nodup_remove dname_eqb), (proj1 (inv_access c HI)).
           ++ intro k'. apply (lookup_remove dname_eqb dname_eqb_eq), (proj1 (inv_access c HI)).
           ++ lia.
        -- assert (Lp : forall k', alookup dname_eqb k' (aremove dname_eqb k (c_parts c)) =
                                   if dname_eqb k' k then None else alookup dname_eqb k' (c_parts c))
             by (intro k'; apply (lookup_remove dname_eqb dname_eqb_eq), (inv_keys c HI)).
           split; [|split; [|split; [|split]]].
           ++ intros [[n0 t0] d0] e0. rewrite !abs_map_unfold. cbn [c_parts]. rewrite Lp.
              destruct (dname_eqb n0 k); [discriminate | auto].
           ++ intros [[n0 t0] d0] e0. rewrite !abs_map_unfold. cbn [c_parts]. rewrite Lp.
              destruct (dname_eqb n0 k) eqn:E; [|auto]. apply dname_eqb_eq in E. subst n0. rewrite Hl.
              intros Hr Hlt. exfalso. apply rlook_in in Hr.
              assert (Hk : In (d0, e0) kept).
              { unfold kept, retain_live. apply filter_In. split; [exact Hr|]. cbn [snd]. apply N.ltb_lt, Hlt. }
              rewrite E3 in Hk. destruct Hk.
           ++ intros nm t0. unfold abs_lru. cbn [c_parts]. rewrite Lp. destruct (dname_eqb nm k); [discriminate | auto].
           ++ intro H; contradiction.
           ++ intros _. cbn [c_expiry]. rewrite <- (count_le_remove now (c_expiry c) k e Hlq Hge). lia.
  - (* empty queue *)
    apply (pq_pop_none tb tb_ok) in Hpop.
    exists c, 0. split; [reflexivity|]. split; [exact HI|]. split; [lia|]. split; [reflexivity|].
    split; [auto|]. split; [auto|]. split; [auto|]. split; [|intro H; exfalso; apply H; reflexivity].
    intros _ [[n0 t0] d0] e0 Ha. destruct (expiry_queue_bound _ _ _ _ _ HI Ha) as (ne & Hne & _).
    rewrite Hpop in Hne. destruct Hne.
Qed.
End Tie2.

Definition evicted (evs : list dname) (nm : dname) : bool := existsb (dname_eqb nm) evs.

Lemma count_le_length now q : (count_le now q <= length q)%nat.
Proof. unfold count_le. induction q as [|x q IH]; cbn [filter length]; [lia|]. destruct (snd x <=? now); cbn [length]; lia. Qed.

Section Tie3.
Variable tb : tiebreak.
Hypothesis tb_ok : tie_ok tb.

Lemma remove_expired_ok now : forall fuel c pruned,
  Inv c -> (count_le now (c_expiry c) < fuel)%nat ->
  exists c' n, remove_expired tb fuel c now pruned = Ok (c', n) /\ Inv c' /\
    c_size c' + n = c_size c + pruned /\ c_desired c' = c_desired c /\
    (forall k e, abs_map c' k = Some e -> abs_map c k = Some e) /\
    (forall k e, abs_map c k = Some e -> now < e -> abs_map c' k = Some e) /\
    (forall nm t, abs_lru c' nm = Some t -> abs_lru c nm = Some t) /\
    (forall k e, abs_map c' k = Some e -> now < e).
Proof.
  induction fuel as [|f IH]; intros c pruned HI Hf; [lia|].
  cbn [remove_expired].
  destruct (remove_expired_step_ok tb tb_ok c now HI) as (c1 & n1 & -> & I1 & S1 & D1 & A1 & A2 & A3 & A4 & A5).
  cbn [bind]. destruct (N.eqb_spec pruned (pruned + n1)) as [He|He].
  - assert (n1 = 0) by lia. subst n1. exists c1, (pruned + 0).
    split; [reflexivity|]. split; [exact I1|]. split; [lia|]. split; [exact D1|].
    split; [exact A1|]. split; [exact A2|]. split; [exact A3|].
    intros k e Ha. apply (A4 eq_refl k e). apply A1, Ha.
  - assert (Hn : n1 <> 0) by lia. specialize (A5 Hn).
    destruct (IH c1 (pruned + n1) I1 ltac:(lia)) as (c2 & n2 & -> & I2 & S2 & D2 & B1 & B2 & B3 & B4).
    exists c2, n2. split; [reflexivity|]. split; [exact I2|]. split; [lia|]. split; [congruence|].
    split; [intros k e H; apply A1, B1, H|]. split; [intros k e H Hlt; apply B2; [apply A2|]; assumption|].
    split; [intros nm t H; apply A3, B3, H | exact B4].
Qed.

Lemma parts_nonempty_queue c : Inv c -> 0 < c_size c -> c_access c <> [].
Proof.
  intros HI Hpos Hq. pose proof (inv_size c HI) as Hs.
  destruct (c_parts c) as [|[k p] rest] eqn:Hp.
  - unfold asum in Hs. cbn [fold_right] in Hs. lia.
  - pose proof (proj2 (inv_access c HI) k) as Hl. rewrite Hq, Hp in Hl. cbn [alookup] in Hl.
    rewrite (keqb_refl dname_eqb dname_eqb_eq) in Hl. discriminate.
Qed.

Lemma remove_lru_ok c :
  Inv c -> c_access c <> [] ->
  exists c' n k tk, remove_lru tb c = Ok (c', n) /\ Inv c' /\
    c_size c' + n = c_size c /\ 1 <= n /\ c_desired c' = c_desired c /\
    S (length (c_access c')) = length (c_access c) /\
    (forall key, abs_map c' key = if dname_eqb (key_name key) k then None else abs_map c key) /\
    (forall nm, abs_lru c' nm = if dname_eqb nm k then None else abs_lru c nm) /\
    abs_lru c k = Some tk /\ (forall nm t, abs_lru c nm = Some t -> tk <= t).
Proof.
  intros HI Hne. unfold remove_lru.
  destruct (pq_pop tb (c_access c)) as [[[k e] q']|] eqn:Hpop.
  - destruct (pq_pop_some tb tb_ok _ _ _ _ Hpop) as (Hin & -> & Hmin).
    pose proof (inv_access c HI) as HQ. pose proof HQ as [HQ1 HQ2].
    assert (Hlq : alookup dname_eqb k (c_access c) = Some e) by (apply (in_lookup dname_eqb dname_eqb_eq); assumption).
    destruct (queue_lookup_inv _ _ _ _ _ HQ Hlq) as (p & Hl & Hpe).
    rewrite Hl. pose proof (part_size_le _ _ _ HI Hl) as Hple.
    pose proof (part_size_pos _ (inv_part_of _ _ _ HI Hl)) as Hpos.
    rewrite (csub_ok (c_size c) (p_size p)) by lia. cbn [bind].
    assert (Lp : forall k', alookup dname_eqb k' (aremove dname_eqb k (c_parts c)) =
                            if dname_eqb k' k then None else alookup dname_eqb k' (c_parts c))
      by (intro k'; apply (lookup_remove dname_eqb dname_eqb_eq), (inv_keys c HI)).
    eexists _, (p_size p), k, e. split; [reflexivity|].
    split; [|split; [cbn [c_size]; lia|split; [exact Hpos|split; [reflexivity|split; [|split; [|split; [|split]]]]]]].
    + eapply inv_remove; try eassumption.
      * apply (nodup_remove dname_eqb), HQ1.
      * intro k'. apply (lookup_remove dname_eqb dname_eqb_eq), HQ1.
      * apply (nodup_remove dname_eqb), (proj1 (inv_expiry c HI)).
      * intro k'. apply (lookup_remove dname_eqb dname_eqb_eq), (proj1 (inv_expiry c HI)).
      * lia.
    + cbn [c_access]. destruct (lookup_split dname_eqb dname_eqb_eq _ _ _ Hlq) as (pre & suf & Hq & _ & _ & Hd).
      unfold pq_remove. rewrite Hd. rewrite Hq. rewrite !app_length. cbn [length]. lia.
    + intros [[n0 t0] d0]. rewrite !abs_map_unfold. cbn [c_parts key_name fst]. rewrite Lp.
      destruct (dname_eqb n0 k); reflexivity.
    + intro nm. unfold abs_lru. cbn [c_parts]. rewrite Lp. destruct (dname_eqb nm k); reflexivity.
    + unfold abs_lru. rewrite Hl. cbn [option_map]. congruence.
    + intros nm t. unfold abs_lru. rewrite <- HQ2. intro Hx. apply (lookup_in dname_eqb dname_eqb_eq) in Hx.
      eapply Hmin, Hx.
  - apply (pq_pop_none tb tb_ok) in Hpop. contradiction.
Qed.

Lemma evicted_cons k evs nm : evicted (k :: evs) nm = dname_eqb nm k || evicted evs nm.
Proof. reflexivity. Qed.

Lemma lru_loop_ok : forall fuel c acc,
  Inv c -> (length (c_access c) <= fuel)%nat ->
  exists c' n evs, lru_loop tb fuel c acc = Ok (c', n) /\ Inv c' /\
    c_size c' + n = c_size c + acc /\ c_size c' <= c_desired c /\ c_desired c' = c_desired c /\
    (forall key, abs_map c' key = if evicted evs (key_name key) then None else abs_map c key) /\
    (forall nm, abs_lru c' nm = if evicted evs nm then None else abs_lru c nm) /\
    (forall ev1 n ev2, evs = ev1 ++ n :: ev2 ->
       exists cm, Inv cm /\
         (forall key, abs_map cm key = if evicted ev1 (key_name key) then None else abs_map c key) /\
         (forall nm, abs_lru cm nm = if evicted ev1 nm then None else abs_lru c nm) /\
         c_desired c < c_size cm /\
         exists tk, abs_lru cm n = Some tk /\ forall nm t, abs_lru cm nm = Some t -> tk <= t).
Proof.
  induction fuel as [|f IH]; intros c acc HI Hf.
  - (* no fuel: the queue is empty, so the cache is empty *)
    assert (Hq : c_access c = []) by (destruct (c_access c); [reflexivity | cbn [length] in Hf; lia]).
    assert (Hz : c_size c = 0).
    { destruct (N.eq_0_gt_0_cases (c_size c)) as [H|H]; [exact H|]. destruct (parts_nonempty_queue c HI H Hq). }
    cbn [lru_loop]. destruct (N.ltb_spec (c_desired c) (c_size c)) as [H|H]; [lia|].
    exists c, acc, []. split; [reflexivity|]. split; [exact HI|]. split; [lia|]. split; [lia|]. split; [reflexivity|].
    split; [reflexivity|]. split; [reflexivity|]. intros ev1 n ev2 H0. destruct ev1; discriminate.
  - cbn [lru_loop]. destruct (N.ltb_spec (c_desired c) (c_size c)) as [Hov|Hov].
    + assert (Hne : c_access c <> []) by (apply parts_nonempty_queue; [exact HI | lia]).
      destruct (remove_lru_ok c HI Hne) as (c1 & n1 & k & tk & -> & I1 & S1 & P1 & D1 & L1 & M1 & U1 & T1 & T2).
      cbn [bind].
      destruct (IH c1 (acc + n1) I1 ltac:(lia)) as (c2 & n2 & evs & -> & I2 & S2 & B2 & D2 & M2 & U2 & O2).
      exists c2, n2, (k :: evs). split; [reflexivity|]. split; [exact I2|]. split; [lia|]. split; [lia|].
      split; [congruence|]. split; [|split].
      * intro key. rewrite M2, M1, evicted_cons. destruct (evicted evs (key_name key)); [rewrite orb_true_r; reflexivity|].
        rewrite orb_false_r. reflexivity.
      * intro nm. rewrite U2, U1, evicted_cons. destruct (evicted evs nm); [rewrite orb_true_r; reflexivity|].
        rewrite orb_false_r. reflexivity.
      * intros ev1 n ev2 Hsplit. destruct ev1 as [|k0 ev1]; cbn [app] in Hsplit; inversion Hsplit; subst.
        -- exists c. split; [exact HI|]. split; [reflexivity|]. split; [reflexivity|]. split; [exact Hov|].
           exists tk. auto.
        -- destruct (O2 ev1 n ev2 eq_refl) as (cm & J1 & J2 & J3 & J4 & tn & J5 & J6).
           exists cm. split; [exact J1|]. split; [|split; [|split; [lia|]]].
           ++ intro key. rewrite J2, M1, evicted_cons. destruct (evicted ev1 (key_name key)); [rewrite orb_true_r; reflexivity|].
              rewrite orb_false_r. reflexivity.
           ++ intro nm. rewrite J3, U1, evicted_cons. destruct (evicted ev1 nm); [rewrite orb_true_r; reflexivity|].
              rewrite orb_false_r. reflexivity.
           ++ exists tn. auto.
    + exists c, acc, []. split; [reflexivity|]. split; [exact HI|]. split; [lia|]. split; [lia|]. split; [reflexivity|].
      split; [reflexivity|]. split; [reflexivity|]. intros ev1 n ev2 H0. destruct ev1; discriminate.
Qed.

Definition live_at (now : N) (m : amap) : amap := restrict m (fun _ e => now <? e).

Lemma prune_ok c now :
  Inv c ->
  exists c1 c' rep evs,
    prune tb c now = Ok (c', rep) /\ Inv c1 /\ Inv c' /\
    c_desired c1 = c_desired c /\ c_desired c' = c_desired c /\
    rep = {| pr_overflowed := c_desired c <? c_size c; pr_current := c_size c';
             pr_expired := c_size c - c_size c1; pr_pruned := c_size c1 - c_size c' |} /\
    c_size c' <= c_size c1 /\ c_size c1 <= c_size c /\ c_size c' <= c_desired c /\
    (forall k, abs_map c1 k = live_at now (abs_map c) k) /\
    (forall nm t, abs_lru c1 nm = Some t -> abs_lru c nm = Some t) /\
    (forall key, abs_map c' key = if evicted evs (key_name key) then None else abs_map c1 key) /\
    (forall nm, abs_lru c' nm = if evicted evs nm then None else abs_lru c1 nm) /\
    (forall ev1 n ev2, evs = ev1 ++ n :: ev2 ->
       exists cm, Inv cm /\
         (forall key, abs_map cm key = if evicted ev1 (key_name key) then None else abs_map c1 key) /\
         (forall nm, abs_lru cm nm = if evicted ev1 nm then None else abs_lru c1 nm) /\
         c_desired c < c_size cm /\
         exists tk, abs_lru cm n = Some tk /\ forall nm t, abs_lru cm nm = Some t -> tk <= t).
Proof.
  intro HI. unfold prune, prune_fuel.
  assert (Hf : (count_le now (c_expiry c) < expire_fuel c)%nat).
  { unfold expire_fuel. pose proof (count_le_length now (c_expiry c)). lia. }
  destruct (remove_expired_ok now _ c 0 HI Hf) as (c1 & n1 & -> & I1 & S1 & D1 & A1 & A2 & A3 & A4).
  cbn [bind].
  destruct (lru_loop_ok (lru_fuel c1) c1 0 I1 (le_n _)) as (c2 & n2 & evs & -> & I2 & S2 & B2 & D2 & M2 & U2 & O2).
  cbn [bind]. eexists c1, c2, _, evs. split; [reflexivity|]. split; [exact I1|]. split; [exact I2|].
  split; [exact D1|]. split; [congruence|]. split.
  - f_equal; lia.
  - split; [lia|]. split; [lia|]. split; [lia|]. split; [|split; [exact A3|split; [exact M2|split; [exact U2|]]]].
    + intro k. unfold live_at, restrict. destruct (abs_map c k) as [e|] eqn:E.
      * destruct (N.ltb_spec now e) as [Hlt|Hge]; [apply A2; assumption|].
        destruct (abs_map c1 k) as [e'|] eqn:E1; [|reflexivity].
        pose proof (A4 _ _ E1). apply A1 in E1. rewrite E in E1. inversion E1; subst. lia.
      * destruct (abs_map c1 k) as [e'|] eqn:E1; [|reflexivity]. apply A1 in E1. congruence.
    + rewrite <- D1. exact O2.
Qed.
End Tie3.
