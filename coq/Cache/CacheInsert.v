(* Cache/CacheInsert.v -- proofs about the read and insert paths of the cache model:
   touch / get / get_raw / upsert / shared_insert(_all) preserve [Inv] and have the
   abstract effect of CacheSpec. *)
From Coq Require Import Permutation.
From RV Require Import Base.Prelude Name.NameModel Name.NameProofs Wire.WireTypes
  Cache.CacheFacts Cache.CacheModel Cache.CacheSpec.

Notation dlookup := (alookup dname_eqb).
Notation nlookup := (alookup N.eqb).
Notation rlookup := (alookup rdata_eqb).

Definition Neqb_eq : forall a b, N.eqb a b = true <-> a = b := N.eqb_eq.

Lemma csub_ok a b : b <= a -> csub a b = Ok (a - b).
Proof. intro H. unfold csub. destruct (N.leb_spec b a); [reflexivity | lia]. Qed.

Lemma remaining_secs_spec e now : remaining_secs e now = remaining e now.
Proof.
  unfold remaining_secs, remaining. destruct (N.leb_spec ((e - now) / NS_PER_S) U32_MAX); lia.
Qed.

(* ---- records of one partition ---- *)
Definition tuples_of (recs : list (N * tuples)) : tuples := flat_map snd recs.

Definition rlook (recs : list (N * tuples)) (t : N) (d : rdata) : option N :=
  match nlookup t recs with Some ts => rlookup d ts | None => None end.

Lemma abs_map_unfold c n t d :
  abs_map c (n, t, d) = match dlookup n (c_parts c) with Some p => rlook (p_records p) t d | None => None end.
Proof. reflexivity. Qed.

Lemma tuples_of_split t recs ts :
  nlookup t recs = Some ts ->
  exists A B, tuples_of recs = A ++ ts ++ B /\
    forall ts', tuples_of (areplace N.eqb t ts' recs) = A ++ ts' ++ B.
Proof.
  intro H. destruct (lookup_split N.eqb Neqb_eq _ _ _ H) as (pre & suf & -> & _ & Hr & _).
  exists (tuples_of pre), (tuples_of suf). unfold tuples_of. split.
  - rewrite flat_map_app. reflexivity.
  - intro ts'. rewrite Hr, flat_map_app. reflexivity.
Qed.

Lemma tuples_of_insert_new t recs ts :
  nlookup t recs = None -> tuples_of (ainsert N.eqb t ts recs) = tuples_of recs ++ ts.
Proof.
  intro H. rewrite (insert_none N.eqb _ _ _ H). unfold tuples_of. rewrite flat_map_app.
  cbn [flat_map snd]. rewrite app_nil_r. reflexivity.
Qed.

Lemma rlook_replace recs t ts' t' d' :
  rlook (areplace N.eqb t ts' recs) t' d' =
  if t' =? t then match nlookup t recs with Some _ => rlookup d' ts' | None => None end
  else rlook recs t' d'.
Proof.
  unfold rlook. rewrite (lookup_replace N.eqb Neqb_eq).
  destruct (t' =? t); [|reflexivity]. destruct (nlookup t recs); reflexivity.
Qed.

Lemma rlook_insert recs t ts' t' d' :
  rlook (ainsert N.eqb t ts' recs) t' d' = if t' =? t then rlookup d' ts' else rlook recs t' d'.
Proof. unfold rlook. rewrite (lookup_insert N.eqb Neqb_eq). destruct (t' =? t); reflexivity. Qed.

(* ---- swap_remove_dup ---- *)
Lemma swap_remove_dup_some d l e l' :
  swap_remove_dup d l = Some (e, l') -> Permutation l ((d, e) :: l').
Proof.
  revert e l'. induction l as [|[d0 e0] t IH]; intros e l'; cbn [swap_remove_dup]; [discriminate|].
  destruct (rdata_eqb d0 d) eqn:E.
  - apply rdata_eqb_eq in E. subst d0. intro H. inversion H; subst. apply perm_skip.
    destruct t as [|x t']; [constructor|].
    assert (Hne : x :: t' <> []) by discriminate.
    rewrite (app_removelast_last (d, e) Hne) at 1.
    apply Permutation_sym, Permutation_cons_append.
  - destruct (swap_remove_dup d t) as [[e1 t1]|] eqn:E1; [|discriminate].
    intro H. inversion H; subst. specialize (IH _ _ eq_refl).
    eapply perm_trans; [apply perm_skip, IH|]. apply perm_swap.
Qed.

Lemma swap_remove_dup_none d l : swap_remove_dup d l = None -> ~ In d (map fst l).
Proof.
  induction l as [|[d0 e0] t IH]; cbn [swap_remove_dup map fst In]; [tauto|].
  destruct (rdata_eqb d0 d) eqn:E; [discriminate|].
  destruct (swap_remove_dup d t) as [[e1 t1]|]; [discriminate|].
  intros _ [H|H]; [|exact (IH eq_refl H)].
  subst. rewrite (keqb_refl rdata_eqb rdata_eqb_eq) in E. discriminate.
Qed.

(* a Vec after the duplicate (if any) was swapped out and the new tuple pushed *)
Lemma pushed_tuples (d : rdata) (e : N) (ts ts0 : tuples) :
  NoDup (map fst ts) -> (Permutation ts ts0 \/ exists de, Permutation ts ((d, de) :: ts0)) ->
  ~ In d (map fst ts0) ->
  NoDup (map fst (ts0 ++ [(d, e)])) /\
  forall d', rlookup d' (ts0 ++ [(d, e)]) = if rdata_eqb d' d then Some e else rlookup d' ts.
Proof.
  intros Hnd Hp Hni.
  assert (Hnd0 : NoDup (map fst ts0)).
  { destruct Hp as [Hp|[de Hp]].
    - eapply Permutation_NoDup; [apply Permutation_map, Hp | exact Hnd].
    - apply (Permutation_map fst) in Hp. apply (Permutation_NoDup Hp) in Hnd.
      cbn [map fst] in Hnd. inversion Hnd; assumption. }
  split.
  - rewrite map_app. cbn [map fst].
    apply (Permutation_NoDup (l := d :: map fst ts0)); [apply Permutation_cons_append|].
    constructor; assumption.
  - intro d'. rewrite (lookup_app rdata_eqb). cbn [alookup].
    destruct (rdata_eqb d' d) eqn:E.
    + apply rdata_eqb_eq in E. subst d'.
      apply (lookup_none rdata_eqb rdata_eqb_eq) in Hni. rewrite Hni. reflexivity.
    + assert (Hne : d' <> d) by (apply (keqb_false rdata_eqb rdata_eqb_eq); exact E).
      assert (Heq : rlookup d' ts0 = rlookup d' ts).
      { apply (lookup_ext_key rdata_eqb rdata_eqb_eq); [exact Hnd0 | exact Hnd|].
        intro v. destruct Hp as [Hp|[de Hp]].
        - split; intro H; [eapply Permutation_in; [apply Permutation_sym, Hp | exact H]
                          | eapply Permutation_in; [exact Hp | exact H]].
        - split; intro H.
          + eapply Permutation_in; [apply Permutation_sym, Hp | right; exact H].
          + eapply Permutation_in in H; [|exact Hp]. destruct H as [H|H]; [|exact H].
            inversion H; subst. contradiction. }
      rewrite Heq. destruct (rlookup d' ts); reflexivity.
Qed.

Lemma perm_middle3 {A} (x : A) ts ts' (P Q : list A) :
  Permutation ts (x :: ts') -> Permutation (P ++ ts ++ Q) (x :: P ++ ts' ++ Q).
Proof.
  intro H. eapply perm_trans.
  - apply Permutation_app_head, Permutation_app_tail, H.
  - cbn [app]. apply Permutation_sym, Permutation_middle.
Qed.

Lemma min_of_nonempty m (l : tuples) : min_of m (map snd l) -> 1 <= llen l.
Proof. intros [H _]. destruct l; [destruct H|]. rewrite llen_cons. lia. Qed.

(* what the first block of upsert (existing partition) must deliver *)
Definition block_ok (p : partition) (c : cache) (name : dname) (t : N) (d : rdata) (expiry : N)
  (st : list (N * tuples) * N * N * N * pqueue) : Prop :=
  let '(recs, psize, csize, ne, xq) := st in
  NoDup (map fst recs) /\
  Forall (fun e => NoDup (map fst (snd e))) recs /\
  psize + 1 = llen (tuples_of recs) /\
  csize + p_size p = c_size c + psize /\
  min_of (if expiry <? ne then expiry else ne) (map snd (tuples_of recs)) /\
  (forall t' d', rlook recs t' d' =
                 if (t' =? t) && rdata_eqb d' d then Some expiry else rlook (p_records p) t' d') /\
  map fst xq = map fst (c_expiry c) /\
  (forall k, dlookup k xq = if dname_eqb k name then Some ne else dlookup k (c_expiry c)).

Lemma lookup_same_key (q : pqueue) name v k :
  dlookup name q = Some v -> dlookup k q = if dname_eqb k name then Some v else dlookup k q.
Proof.
  intro H. destruct (dname_eqb k name) eqn:E; [|reflexivity].
  apply dname_eqb_eq in E. subst. exact H.
Qed.

Lemma block_dup p c name t d expiry ts de ts' :
  Inv_part p -> 1 <= c_size c -> dlookup name (c_expiry c) = Some (p_next_expiry p) ->
  nlookup t (p_records p) = Some ts -> swap_remove_dup d ts = Some (de, ts') ->
  exists st,
    (let recs := areplace N.eqb t (ts' ++ [(d, expiry)]) (p_records p) in
     let* psize := csub (p_size p) 1 in
     let* csize := csub (c_size c) 1 in
     if de =? p_next_expiry p then
       let ne := min_expiry_from expiry recs in
       Ok (recs, psize, csize, ne, pq_change name ne (c_expiry c))
     else Ok (recs, psize, csize, p_next_expiry p, c_expiry c)) = Ok st /\
    block_ok p c name t d expiry st.
Proof.
  intros [Hk Hv Hs Hm] Hc Hq Ht Hsw.
  apply swap_remove_dup_some in Hsw.
  assert (Hts : NoDup (map fst ts)) by exact (lookup_forall N.eqb Neqb_eq _ _ _ _ Hv Ht).
  assert (Hni : ~ In d (map fst ts')).
  { apply (Permutation_map fst) in Hsw. apply (Permutation_NoDup Hsw) in Hts.
    cbn [map fst] in Hts. inversion Hts; assumption. }
  destruct (pushed_tuples d expiry ts ts' Hts (or_intror (ex_intro _ de Hsw)) Hni) as [Hnd' Hlk].
  destruct (tuples_of_split _ _ _ Ht) as (A & B & Hall & Hall').
  specialize (Hall' (ts' ++ [(d, expiry)])).
  fold (tuples_of (p_records p)) in Hs, Hm. unfold all_tuples in Hs, Hm. fold (tuples_of (p_records p)) in Hs, Hm.
  set (X := A ++ ts' ++ B).
  assert (P1 : Permutation (tuples_of (p_records p)) ((d, de) :: X)).
  { rewrite Hall. apply perm_middle3, Hsw. }
  assert (P2 : Permutation (tuples_of (areplace N.eqb t (ts' ++ [(d, expiry)]) (p_records p))) ((d, expiry) :: X)).
  { rewrite Hall'. apply perm_middle3. apply Permutation_sym, Permutation_cons_append. }
  assert (L1 : p_size p = 1 + llen X) by (rewrite Hs, (llen_perm _ _ P1), llen_cons; reflexivity).
  assert (L2 : llen (tuples_of (areplace N.eqb t (ts' ++ [(d, expiry)]) (p_records p))) = 1 + llen X)
    by (rewrite (llen_perm _ _ P2), llen_cons; reflexivity).
  cbv zeta. rewrite (csub_ok (p_size p) 1) by lia. rewrite (csub_ok (c_size c) 1) by lia. cbn [bind].
  set (recs := areplace N.eqb t (ts' ++ [(d, expiry)]) (p_records p)) in *.
  assert (C1 : NoDup (map fst recs)) by (unfold recs; rewrite (keys_replace N.eqb); exact Hk).
  assert (C2 : Forall (fun e => NoDup (map fst (snd e))) recs)
    by (apply (forall_replace N.eqb Neqb_eq); [exact Hv | exact Hnd']).
  assert (C6 : forall t' d', rlook recs t' d' =
             if (t' =? t) && rdata_eqb d' d then Some expiry else rlook (p_records p) t' d').
  { intros t' d'. unfold recs. rewrite rlook_replace, Ht.
    destruct (N.eqb_spec t' t) as [->|Hne]; cbn [andb]; [|reflexivity].
    rewrite Hlk. unfold rlook. rewrite Ht. reflexivity. }
  apply (Permutation_map snd) in P1, P2. cbn [map snd] in P1, P2.
  destruct (N.eqb_spec de (p_next_expiry p)) as [Hde|Hde].
  - eexists. split; [reflexivity|]. unfold block_ok.
    pose proof (fold_min_spec (map snd (tuples_of recs)) expiry) as Hf.
    assert (Hne : min_expiry_from expiry recs =
                  fold_left (fun acc e => if e <? acc then e else acc) (map snd (tuples_of recs)) expiry).
    { unfold min_expiry_from, tuples_of. generalize (flat_map snd recs) expiry.
      induction l as [|x l IH]; intro i; cbn [fold_left map]; [reflexivity | apply IH]. }
    rewrite <- Hne in Hf. set (ne := min_expiry_from expiry recs) in *.
    assert (Hin : In expiry (map snd (tuples_of recs)))
      by (eapply Permutation_in; [apply Permutation_sym, P2 | left; reflexivity]).
    assert (Hmin : min_of ne (map snd (tuples_of recs))).
    { destruct Hf as [F1 F2]. inversion F2; subst. split; [|assumption].
      destruct F1 as [F1|F1]; [rewrite <- F1; exact Hin | exact F1]. }
    assert (Hle : ne <= expiry) by (eapply min_of_le; eassumption).
    split; [exact C1|]. split; [exact C2|]. split; [lia|]. split; [lia|]. split; [|split; [exact C6|split]].
    + destruct (N.ltb_spec expiry ne); [lia | exact Hmin].
    + unfold pq_change. apply keys_replace.
    + intro k. unfold pq_change. rewrite (lookup_replace dname_eqb dname_eqb_eq), Hq. reflexivity.
  - eexists. split; [reflexivity|]. unfold block_ok.
    assert (HmX : min_of (p_next_expiry p) (map snd X)).
    { apply (min_of_perm _ _ _ P1) in Hm. destruct Hm as [M1 M2]. inversion M2; subst. split; [|assumption].
      destruct M1 as [M1|M1]; [congruence | exact M1]. }
    split; [exact C1|]. split; [exact C2|]. split; [lia|]. split; [lia|]. split; [|split; [exact C6|split]].
    + eapply min_of_perm; [apply Permutation_sym, P2|]. apply min_of_add, HmX.
    + reflexivity.
    + intro k. apply lookup_same_key, Hq.
Qed.

Lemma block_nodup p c name t d expiry ts :
  Inv_part p -> dlookup name (c_expiry c) = Some (p_next_expiry p) ->
  nlookup t (p_records p) = Some ts -> swap_remove_dup d ts = None ->
  block_ok p c name t d expiry
    (areplace N.eqb t (ts ++ [(d, expiry)]) (p_records p), p_size p, c_size c, p_next_expiry p, c_expiry c).
Proof.
  intros [Hk Hv Hs Hm] Hq Ht Hsw.
  apply swap_remove_dup_none in Hsw.
  assert (Hts : NoDup (map fst ts)) by exact (lookup_forall N.eqb Neqb_eq _ _ _ _ Hv Ht).
  destruct (pushed_tuples d expiry ts ts Hts (or_introl (Permutation_refl _)) Hsw) as [Hnd' Hlk].
  destruct (tuples_of_split _ _ _ Ht) as (A & B & Hall & Hall').
  specialize (Hall' (ts ++ [(d, expiry)])).
  unfold all_tuples in Hs, Hm. fold (tuples_of (p_records p)) in Hs, Hm.
  set (recs := areplace N.eqb t (ts ++ [(d, expiry)]) (p_records p)) in *.
  assert (P2 : Permutation (tuples_of recs) ((d, expiry) :: tuples_of (p_records p))).
  { rewrite Hall', Hall. apply perm_middle3. apply Permutation_sym, Permutation_cons_append. }
  unfold block_ok.
  split; [unfold recs; rewrite (keys_replace N.eqb); exact Hk|].
  split; [apply (forall_replace N.eqb Neqb_eq); [exact Hv | exact Hnd']|].
  split; [rewrite (llen_perm _ _ P2), llen_cons; lia|].
  split; [lia|].
  split; [|split; [|split]].
  - apply (Permutation_map snd) in P2. cbn [map snd] in P2.
    eapply min_of_perm; [apply Permutation_sym, P2|]. apply min_of_add, Hm.
  - intros t' d'. unfold recs. rewrite rlook_replace, Ht.
    destruct (N.eqb_spec t' t) as [->|Hne]; cbn [andb]; [|reflexivity].
    rewrite Hlk. unfold rlook. rewrite Ht. reflexivity.
  - reflexivity.
  - intro k. apply lookup_same_key, Hq.
Qed.

Lemma block_newtype p c name t d expiry :
  Inv_part p -> dlookup name (c_expiry c) = Some (p_next_expiry p) ->
  nlookup t (p_records p) = None ->
  block_ok p c name t d expiry
    (ainsert N.eqb t [(d, expiry)] (p_records p), p_size p, c_size c, p_next_expiry p, c_expiry c).
Proof.
  intros [Hk Hv Hs Hm] Hq Ht.
  unfold all_tuples in Hs, Hm. fold (tuples_of (p_records p)) in Hs, Hm.
  set (recs := ainsert N.eqb t [(d, expiry)] (p_records p)).
  assert (P2 : Permutation (tuples_of recs) ((d, expiry) :: tuples_of (p_records p))).
  { unfold recs. rewrite tuples_of_insert_new by exact Ht. apply Permutation_sym, Permutation_cons_append. }
  unfold block_ok.
  split; [apply (nodup_insert N.eqb Neqb_eq); exact Hk|].
  split; [apply (forall_insert N.eqb Neqb_eq); [exact Hv|]; cbn [snd map fst]; constructor; [intros []|constructor]|].
  split; [rewrite (llen_perm _ _ P2), llen_cons; lia|].
  split; [lia|].
  split; [|split; [|split]].
  - apply (Permutation_map snd) in P2. cbn [map snd] in P2.
    eapply min_of_perm; [apply Permutation_sym, P2|]. apply min_of_add, Hm.
  - intros t' d'. unfold recs. rewrite rlook_insert.
    destruct (N.eqb_spec t' t) as [->|Hne]; cbn [andb]; [|reflexivity].
    cbn [alookup]. unfold rlook. rewrite Ht. destruct (rdata_eqb d' d); reflexivity.
  - reflexivity.
  - intro k. apply lookup_same_key, Hq.
Qed.

(* ---- invariant plumbing ---- *)
Lemma inv_part_of c n p : Inv c -> dlookup n (c_parts c) = Some p -> Inv_part p.
Proof. intros H Hl. exact (lookup_forall dname_eqb dname_eqb_eq _ _ _ _ (inv_parts c H) Hl). Qed.

Lemma queue_lookup q parts f n p :
  queue_ok q parts f -> dlookup n parts = Some p -> dlookup n q = Some (f p).
Proof. intros [_ H] Hl. rewrite H, Hl. reflexivity. Qed.

Lemma queue_lookup_inv q parts f n v :
  queue_ok q parts f -> dlookup n q = Some v -> exists p, dlookup n parts = Some p /\ f p = v.
Proof.
  intros [_ H] Hl. rewrite H in Hl. destruct (dlookup n parts) as [p|]; [|discriminate].
  exists p. inversion Hl. auto.
Qed.

Lemma part_size_pos p : Inv_part p -> 1 <= p_size p.
Proof. intros [_ _ Hs Hm]. rewrite Hs. eapply min_of_nonempty, Hm. Qed.

Lemma part_size_le c n p : Inv c -> dlookup n (c_parts c) = Some p -> p_size p <= c_size c.
Proof. intros H Hl. rewrite (inv_size c H). eapply (asum_lookup_le dname_eqb dname_eqb_eq), Hl. Qed.

Lemma inv_replace c name p p' acc' exp' sz' :
  Inv c -> dlookup name (c_parts c) = Some p -> Inv_part p' ->
  map fst acc' = map fst (c_access c) ->
  (forall k, dlookup k acc' = if dname_eqb k name then Some (p_last_read p') else dlookup k (c_access c)) ->
  map fst exp' = map fst (c_expiry c) ->
  (forall k, dlookup k exp' = if dname_eqb k name then Some (p_next_expiry p') else dlookup k (c_expiry c)) ->
  sz' + p_size p = c_size c + p_size p' ->
  Inv {| c_parts := areplace dname_eqb name p' (c_parts c); c_access := acc'; c_expiry := exp';
         c_size := sz'; c_desired := c_desired c |}.
Proof.
  intros [Hk Hp [Ha1 Ha2] [He1 He2] Hs] Hl Hp' Ka La Ke Le Hsz.
  assert (Lp : forall k, dlookup k (areplace dname_eqb name p' (c_parts c)) =
                         if dname_eqb k name then Some p' else dlookup k (c_parts c)).
  { intro k. rewrite (lookup_replace dname_eqb dname_eqb_eq), Hl. reflexivity. }
  constructor; cbn [c_parts c_access c_expiry c_size c_desired].
  - rewrite (keys_replace dname_eqb). exact Hk.
  - apply (forall_replace dname_eqb dname_eqb_eq); [exact Hp | exact Hp'].
  - split; [rewrite Ka; exact Ha1|]. intro k. rewrite La, Lp.
    destruct (dname_eqb k name); [reflexivity | apply Ha2].
  - split; [rewrite Ke; exact He1|]. intro k. rewrite Le, Lp.
    destruct (dname_eqb k name); [reflexivity | apply He2].
  - pose proof (asum_replace dname_eqb dname_eqb_eq p_size name (c_parts c) p p' Hl). lia.
Qed.

Lemma abs_map_replace c name p p' acc' exp' sz' des' n t d :
  dlookup name (c_parts c) = Some p ->
  abs_map {| c_parts := areplace dname_eqb name p' (c_parts c); c_access := acc'; c_expiry := exp';
             c_size := sz'; c_desired := des' |} (n, t, d) =
  if dname_eqb n name then rlook (p_records p') t d else abs_map c (n, t, d).
Proof.
  intro Hl. rewrite !abs_map_unfold. cbn [c_parts].
  rewrite (lookup_replace dname_eqb dname_eqb_eq), Hl. destruct (dname_eqb n name); reflexivity.
Qed.

Lemma abs_lru_replace c name p p' acc' exp' sz' des' n :
  dlookup name (c_parts c) = Some p ->
  abs_lru {| c_parts := areplace dname_eqb name p' (c_parts c); c_access := acc'; c_expiry := exp';
             c_size := sz'; c_desired := des' |} n =
  if dname_eqb n name then Some (p_last_read p') else abs_lru c n.
Proof.
  intro Hl. unfold abs_lru. cbn [c_parts].
  rewrite (lookup_replace dname_eqb dname_eqb_eq), Hl. destruct (dname_eqb n name); reflexivity.
Qed.

Lemma abs_map_name c n t d p :
  dlookup n (c_parts c) = Some p -> abs_map c (n, t, d) = rlook (p_records p) t d.
Proof. intro H. rewrite abs_map_unfold, H. reflexivity. Qed.

Lemma key_eqb_spec n t d n' t' d' :
  key_eqb (n, t, d) (n', t', d') = dname_eqb n n' && (t =? t') && rdata_eqb d d'.
Proof. reflexivity. Qed.

Lemma key_eqb_eq a b : key_eqb a b = true <-> a = b.
Proof.
  destruct a as [[n t] d], b as [[n' t'] d']. rewrite key_eqb_spec, !andb_true_iff, dname_eqb_eq, N.eqb_eq, rdata_eqb_eq.
  split; [intros [[-> ->] ->]; reflexivity | intro H; inversion H; auto].
Qed.

(* ---- touch ---- *)
Lemma touch_ok c name p now :
  Inv c -> dlookup name (c_parts c) = Some p ->
  Inv (touch c name p now) /\
  (forall k, abs_map (touch c name p now) k = abs_map c k) /\
  (forall n, abs_lru (touch c name p now) n = if dname_eqb n name then Some now else abs_lru c n) /\
  c_size (touch c name p now) = c_size c /\ c_desired (touch c name p now) = c_desired c /\
  c_expiry (touch c name p now) = c_expiry c.
Proof.
  intros HI Hl. pose proof (inv_part_of _ _ _ HI Hl) as [P1 P2 P3 P4].
  unfold touch. split; [|split; [|split; [|auto]]].
  - eapply inv_replace; try eassumption.
    + constructor; assumption.
    + unfold pq_change. apply keys_replace.
    + intro k. unfold pq_change. rewrite (lookup_replace dname_eqb dname_eqb_eq).
      rewrite (queue_lookup _ _ _ _ _ (inv_access c HI) Hl). reflexivity.
    + reflexivity.
    + intro k. cbn [p_next_expiry]. apply lookup_same_key. exact (queue_lookup _ _ _ _ _ (inv_expiry c HI) Hl).
    + cbn [p_size]. lia.
  - intros [[n t] d]. rewrite (abs_map_replace _ _ _ _ _ _ _ _ _ _ _ Hl). cbn [p_records].
    destruct (dname_eqb n name) eqn:E; [|reflexivity].
    apply dname_eqb_eq in E. subst. symmetry. apply abs_map_name, Hl.
  - intro n. rewrite (abs_lru_replace _ _ _ _ _ _ _ _ _ Hl). reflexivity.
Qed.

(* ---- upsert ---- *)
Lemma upsert_ok c now name t d ttl :
  Inv c ->
  exists c', upsert c now name t d ttl = Ok c' /\ Inv c' /\
    (forall k, abs_map c' k = if key_eqb (name, t, d) k then Some (now + ttl) else abs_map c k) /\
    (forall n, abs_lru c' n = if dname_eqb name n then Some now else abs_lru c n) /\
    c_desired c' = c_desired c.
Proof.
  intro HI. unfold upsert. set (expiry := now + ttl).
  destruct (dlookup name (c_parts c)) as [p|] eqn:Hl.
  - pose proof (inv_part_of _ _ _ HI Hl) as HP.
    pose proof (queue_lookup _ _ _ _ _ (inv_expiry c HI) Hl) as Hq.
    pose proof (queue_lookup _ _ _ _ _ (inv_access c HI) Hl) as Hqa.
    pose proof (part_size_pos _ HP) as Hpos. pose proof (part_size_le _ _ _ HI Hl) as Hle.
    (* the first block *)
    match goal with |- context [bind ?blk _] =>
      assert (HB : exists st, blk = Ok st /\ block_ok p c name t d expiry st) end.
    { destruct (nlookup t (p_records p)) as [ts|] eqn:Ht.
      - destruct (swap_remove_dup d ts) as [[de ts']|] eqn:Hsw.
        + apply (block_dup p c name t d expiry ts de ts'); try assumption. lia.
        + eexists. split; [reflexivity|]. apply block_nodup; assumption.
      - eexists. split; [reflexivity|]. apply block_newtype; assumption. }
    destruct HB as ([[[[recs psize] csize] ne] xq] & -> & B1 & B2 & B3 & B4 & B5 & B6 & B7 & B8).
    cbn [bind].
    set (ne' := if expiry <? ne then expiry else ne) in *.
    assert (Hfin : (if expiry <? ne then (expiry, pq_change name expiry xq) else (ne, xq)) =
                   (ne', if expiry <? ne then pq_change name expiry xq else xq))
      by (unfold ne'; destruct (expiry <? ne); reflexivity).
    rewrite Hfin. clear Hfin.
    set (xq' := if expiry <? ne then pq_change name expiry xq else xq).
    assert (Kx : map fst xq' = map fst (c_expiry c)).
    { unfold xq'. destruct (expiry <? ne); [unfold pq_change; rewrite (keys_replace dname_eqb)|]; exact B7. }
    assert (Lx : forall k, dlookup k xq' = if dname_eqb k name then Some ne' else dlookup k (c_expiry c)).
    { intro k. unfold xq', ne'. destruct (expiry <? ne).
      - unfold pq_change. rewrite (lookup_replace dname_eqb dname_eqb_eq), !B8.
        rewrite (keqb_refl dname_eqb dname_eqb_eq). destruct (dname_eqb k name); reflexivity.
      - apply B8. }
    eexists. split; [reflexivity|].
    split; [|split; [|split; [|reflexivity]]].
    + eapply inv_replace; try eassumption.
      * constructor; cbn [p_records p_size p_next_expiry]; unfold all_tuples; fold (tuples_of recs);
          [assumption | assumption | exact B3 | exact B5].
      * unfold pq_change. apply keys_replace.
      * intro k. unfold pq_change. rewrite (lookup_replace dname_eqb dname_eqb_eq), Hqa. reflexivity.
      * cbn [p_size]. lia.
    + intros [[n' t'] d']. rewrite (abs_map_replace _ _ _ _ _ _ _ _ _ _ _ Hl). cbn [p_records].
      rewrite key_eqb_spec, (keqb_sym dname_eqb dname_eqb_eq name n'), (N.eqb_sym t t'),
        (keqb_sym rdata_eqb rdata_eqb_eq d d').
      destruct (dname_eqb n' name) eqn:E; cbn [andb]; [|reflexivity].
      apply dname_eqb_eq in E. subst n'. rewrite B6, (abs_map_name _ _ _ _ _ Hl). reflexivity.
    + intro n. rewrite (abs_lru_replace _ _ _ _ _ _ _ _ _ Hl). cbn [p_last_read].
      rewrite (keqb_sym dname_eqb dname_eqb_eq). reflexivity.
  - (* a new partition *)
    destruct HI as [Hk Hp [Ha1 Ha2] [He1 He2] Hs].
    assert (Hna : dlookup name (c_access c) = None) by (rewrite Ha2, Hl; reflexivity).
    assert (Hne : dlookup name (c_expiry c) = None) by (rewrite He2, Hl; reflexivity).
    set (p' := {| p_last_read := now; p_next_expiry := expiry; p_size := 1;
                  p_records := ainsert N.eqb t [(d, expiry)] [] |}).
    eexists. split; [reflexivity|].
    assert (Lp : forall k, dlookup k (ainsert dname_eqb name p' (c_parts c)) =
                           if dname_eqb k name then Some p' else dlookup k (c_parts c))
      by (intro k; apply (lookup_insert dname_eqb dname_eqb_eq)).
    split; [|split; [|split; [|reflexivity]]].
    + constructor; cbn [c_parts c_access c_expiry c_size c_desired].
      * apply (nodup_insert dname_eqb dname_eqb_eq), Hk.
      * apply (forall_insert dname_eqb dname_eqb_eq); [exact Hp|]. cbn [snd].
        constructor; cbn [p_records p_size p_next_expiry all_tuples ainsert alookup app flat_map snd map fst].
        -- constructor; [intros []|constructor].
        -- constructor; [|constructor]. cbn [snd map fst]. constructor; [intros []|constructor].
        -- reflexivity.
        -- apply min_of_single.
      * split; [apply (nodup_insert dname_eqb dname_eqb_eq), Ha1|]. intro k.
        unfold pq_push. rewrite (lookup_insert dname_eqb dname_eqb_eq), Lp.
        destruct (dname_eqb k name); [reflexivity | apply Ha2].
      * split; [apply (nodup_insert dname_eqb dname_eqb_eq), He1|]. intro k.
        unfold pq_push. rewrite (lookup_insert dname_eqb dname_eqb_eq), Lp.
        destruct (dname_eqb k name); [reflexivity | apply He2].
      * rewrite (insert_none dname_eqb _ _ _ Hl), (asum_app (K:=dname)), Hs.
        cbn [asum fold_right snd p_size p']. lia.
    + intros [[n' t'] d']. rewrite !abs_map_unfold. cbn [c_parts]. rewrite Lp.
      rewrite key_eqb_spec, (keqb_sym dname_eqb dname_eqb_eq name n'), (N.eqb_sym t t'),
        (keqb_sym rdata_eqb rdata_eqb_eq d d').
      destruct (dname_eqb n' name) eqn:E; cbn [andb]; [|reflexivity].
      apply dname_eqb_eq in E. subst n'. rewrite Hl. cbn [p' p_records]. rewrite rlook_insert.
      destruct (t' =? t); cbn [andb]; [|reflexivity]. cbn [alookup].
      destruct (rdata_eqb d' d); reflexivity.
    + intro n. unfold abs_lru. cbn [c_parts]. rewrite Lp, (keqb_sym dname_eqb dname_eqb_eq name n).
      destruct (dname_eqb n name); reflexivity.
Qed.

(* ---- SharedCache::insert / insert_all ---- *)
Lemma shared_insert_ok c now r :
  Inv c ->
  exists c', shared_insert c now r = Ok c' /\ Inv c' /\
    (forall k, abs_map c' k = a_insert (abs_map c) now r k) /\
    (forall n, abs_lru c' n = a_touch (abs_lru c) now r n) /\
    c_desired c' = c_desired c.
Proof.
  intro HI. unfold shared_insert, a_insert, a_touch.
  destruct (0 <? rr_ttl r); cbn [andb].
  - unfold cache_insert. destruct (upsert_ok c now (rr_name r) (rr_type r) (rr_data r) (rr_ttl r * NS_PER_S) HI)
      as (c' & H1 & H2 & H3 & H4 & H5).
    exists c'. unfold rr_key, expiry_of. auto.
  - exists c. auto.
Qed.

Lemma a_insert_all_ext m1 m2 now rs :
  (forall k, m1 k = m2 k) -> forall k, a_insert_all m1 now rs k = a_insert_all m2 now rs k.
Proof.
  revert m1 m2. induction rs as [|r rs IH]; intros m1 m2 H k; cbn [a_insert_all]; [apply H|].
  apply IH. intro k'. unfold a_insert. rewrite H. reflexivity.
Qed.
Lemma a_touch_all_ext l1 l2 now rs :
  (forall n, l1 n = l2 n) -> forall n, a_touch_all l1 now rs n = a_touch_all l2 now rs n.
Proof.
  revert l1 l2. induction rs as [|r rs IH]; intros l1 l2 H n; cbn [a_touch_all]; [apply H|].
  apply IH. intro n'. unfold a_touch. rewrite H. reflexivity.
Qed.

Lemma shared_insert_all_ok rs : forall c now,
  Inv c ->
  exists c', shared_insert_all c now rs = Ok c' /\ Inv c' /\
    (forall k, abs_map c' k = a_insert_all (abs_map c) now rs k) /\
    (forall n, abs_lru c' n = a_touch_all (abs_lru c) now rs n) /\
    c_desired c' = c_desired c.
Proof.
  induction rs as [|r rs IH]; intros c now HI; cbn [shared_insert_all a_insert_all a_touch_all].
  - exists c. auto.
  - destruct (shared_insert_ok c now r HI) as (c1 & -> & I1 & M1 & L1 & D1). cbn [bind].
    destruct (IH c1 now I1) as (c2 & -> & I2 & M2 & L2 & D2).
    exists c2. split; [reflexivity|]. split; [exact I2|]. split; [|split].
    + intro k. rewrite M2. apply a_insert_all_ext, M1.
    + intro n. rewrite L2. apply a_touch_all_ext, L1.
    + congruence.
Qed.

(* ---- lookups ---- *)
Lemma nodup_app {A} (a b : list A) :
  NoDup a -> NoDup b -> (forall x, In x a -> ~ In x b) -> NoDup (a ++ b).
Proof.
  induction a as [|x a IH]; intros Ha Hb Hd; cbn [app]; [exact Hb|].
  inversion Ha; subst. constructor.
  - rewrite in_app_iff. intros [H|H]; [contradiction|]. exact (Hd x (or_introl eq_refl) H).
  - apply IH; [assumption | assumption|]. intros y Hy. apply Hd. right; exact Hy.
Qed.

Lemma nodup_map_filter {A B} (f : A -> B) (g : A -> bool) l : NoDup (map f l) -> NoDup (map f (filter g l)).
Proof.
  induction l as [|x l IH]; cbn [map filter]; intro H; [constructor|].
  inversion H; subst. destruct (g x); cbn [map]; [constructor|]; auto.
  intro Hin. apply in_map_iff in Hin. destruct Hin as (y & Hy & Hin). apply filter_In in Hin.
  match goal with H : ~ In _ _ |- _ => apply H end. rewrite <- Hy. apply in_map, Hin.
Qed.

Lemma to_rrs_in name now t ts r :
  In r (to_rrs name now t ts) <->
  exists d e, In (d, e) ts /\
    r = {| rr_name := name; rr_type := t; rr_class := RC_IN; rr_ttl := remaining e now; rr_data := d |}.
Proof.
  unfold to_rrs. rewrite in_map_iff. split.
  - intros ([d e] & <- & Hin). exists d, e. cbn [fst snd]. rewrite remaining_secs_spec. auto.
  - intros (d & e & Hin & ->). exists (d, e). cbn [fst snd]. rewrite remaining_secs_spec. auto.
Qed.

Lemma to_rrs_keys name now t ts :
  map rr_key (to_rrs name now t ts) = map (fun d => (name, t, d)) (map fst ts).
Proof. unfold to_rrs. rewrite !map_map. reflexivity. Qed.

Lemma nodup_map_key (name : dname) (t : N) (ds : list rdata) :
  NoDup ds -> NoDup (map (fun d => (name, t, d)) ds).
Proof.
  induction ds as [|d ds IH]; intro H; cbn [map]; [constructor|]. inversion H; subst.
  constructor; [|auto]. intro Hin. apply in_map_iff in Hin. destruct Hin as (d' & Heq & Hin).
  inversion Heq; subst. contradiction.
Qed.

Lemma qtype_special qt :
  existsb (fun p => N.eqb (fst p) qt) qtype_table = true <->
  (qt = QT_AXFR \/ qt = QT_MAILB \/ qt = QT_MAILA \/ qt = QT_Wildcard).
Proof.
  unfold qtype_table, QT_AXFR, QT_MAILB, QT_MAILA, QT_Wildcard. cbn [existsb fst].
  rewrite !orb_true_iff, !N.eqb_eq. intuition congruence.
Qed.

Lemma rr_eta r : r = {| rr_name := rr_name r; rr_type := rr_type r; rr_class := rr_class r;
                        rr_ttl := rr_ttl r; rr_data := rr_data r |}.
Proof. destruct r; reflexivity. Qed.

(* the records of one type, as an answer *)
Lemma typed_answer c now name t p ts :
  Inv c -> dlookup name (c_parts c) = Some p -> nlookup t (p_records p) = Some ts ->
  forall r, In r (to_rrs name now t ts) <->
    rr_name r = name /\ rr_class r = RC_IN /\ rr_type r = t /\
    exists e, abs_map c (rr_key r) = Some e /\ rr_ttl r = remaining e now.
Proof.
  intros HI Hl Ht r. pose proof (inv_part_of _ _ _ HI Hl) as [_ Hv _ _].
  assert (Hts : NoDup (map fst ts)) by exact (lookup_forall N.eqb Neqb_eq _ _ _ _ Hv Ht).
  rewrite to_rrs_in. split.
  - intros (d & e & Hin & ->). cbn [rr_name rr_class rr_type rr_ttl rr_key rr_data].
    split; [reflexivity|]. split; [reflexivity|]. split; [reflexivity|].
    exists e. split; [|reflexivity]. unfold rr_key. cbn [rr_name rr_type rr_data].
    rewrite (abs_map_name _ _ _ _ _ Hl). unfold rlook. rewrite Ht.
    apply (in_lookup rdata_eqb rdata_eqb_eq); assumption.
  - intros (Hn & Hc & Hty & e & Ha & Httl). exists (rr_data r), e. split.
    + unfold rr_key in Ha. rewrite Hn, Hty, (abs_map_name _ _ _ _ _ Hl) in Ha. unfold rlook in Ha. rewrite Ht in Ha.
      apply (lookup_in rdata_eqb rdata_eqb_eq), Ha.
    + rewrite (rr_eta r) at 1. congruence.
Qed.

Definition any_rrs (name : dname) (now : N) (recs : list (N * list (rdata * N))) : list rr :=
  flat_map (fun e => to_rrs name now (fst e) (snd e)) recs.

Lemma any_rrs_type name now recs x :
  In x (map rr_key (any_rrs name now recs)) -> In (key_type x) (map fst recs).
Proof.
  unfold any_rrs. rewrite in_map_iff. intros (r & <- & Hin). apply in_flat_map in Hin.
  destruct Hin as ([t ts] & Hin & Hr). cbn [fst snd] in Hr. apply to_rrs_in in Hr.
  destruct Hr as (d & e & _ & ->). cbn. apply (in_map fst) in Hin. exact Hin.
Qed.

Lemma any_nodup name now recs :
  NoDup (map fst recs) -> Forall (fun e => NoDup (map fst (snd e))) recs ->
  NoDup (map rr_key (any_rrs name now recs)).
Proof.
  induction recs as [|[t ts] recs IH]; intros Hk Hv; [constructor|].
  inversion Hk; subst. inversion Hv; subst. unfold any_rrs. cbn [flat_map fst snd]. rewrite map_app.
  apply nodup_app.
  - rewrite to_rrs_keys. apply nodup_map_key. assumption.
  - apply IH; assumption.
  - intros x Hx Hx'. apply any_rrs_type in Hx'. rewrite to_rrs_keys, in_map_iff in Hx.
    destruct Hx as (d & <- & _). cbn in Hx'. contradiction.
Qed.

Lemma any_answer c now name p :
  Inv c -> dlookup name (c_parts c) = Some p ->
  forall r, In r (any_rrs name now (p_records p)) <->
    rr_name r = name /\ rr_class r = RC_IN /\
    exists e, abs_map c (rr_key r) = Some e /\ rr_ttl r = remaining e now.
Proof.
  intros HI Hl r. pose proof (inv_part_of _ _ _ HI Hl) as [Hk _ _ _].
  unfold any_rrs. rewrite in_flat_map. split.
  - intros ([t ts] & Hin & Hr). cbn [fst snd] in Hr.
    apply (in_lookup N.eqb Neqb_eq _ _ _ Hk) in Hin.
    apply (typed_answer c now name t p ts HI Hl Hin) in Hr. tauto.
  - intros (Hn & Hc & e & Ha & Httl).
    pose proof Ha as Ha'. unfold rr_key in Ha'. rewrite Hn, (abs_map_name _ _ _ _ _ Hl) in Ha'. unfold rlook in Ha'.
    destruct (nlookup (rr_type r) (p_records p)) as [ts|] eqn:Ht; [|discriminate].
    exists (rr_type r, ts). split; [apply (lookup_in N.eqb Neqb_eq), Ht|]. cbn [fst snd].
    apply (typed_answer c now name _ p ts HI Hl Ht). split; [exact Hn|]. split; [exact Hc|]. split; [reflexivity|].
    exists e. auto.
Qed.

Lemma get_raw_ok c now name qt c' rrs :
  Inv c -> get_raw c now name qt = (c', rrs) ->
  Inv c' /\ (forall k, abs_map c' k = abs_map c k) /\
  answer_ok (abs_map c) now name qt false rrs /\
  lru_after_get (abs_map c) (abs_lru c) (abs_lru c') now name qt /\
  c_size c' = c_size c /\ c_desired c' = c_desired c /\ c_expiry c' = c_expiry c.
Proof.
  intros HI. unfold get_raw.
  destruct (N.eqb_spec qt QT_Wildcard) as [Hw|Hw].
  - (* ANY *)
    unfold get_partition. destruct (dlookup name (c_parts c)) as [p|] eqn:Hl; intro H; inversion H; subst c' rrs; clear H.
    + destruct (touch_ok c name p now HI Hl) as (T1 & T2 & T3 & T4 & T5 & T6).
      pose proof (inv_part_of _ _ _ HI Hl) as [Hk Hv _ _].
      split; [exact T1|]. split; [exact T2|]. split; [|split; [|auto]].
      * split; [apply any_nodup; assumption|]. intro r. fold (any_rrs name now (p_records p)).
        rewrite (any_answer c now name p HI Hl). unfold cache_qmatch. split.
        -- intros (A1 & A2 & e & A3 & A4). split; [exact A1|]. split; [exact A2|]. split; [left; exact Hw|].
           exists e. split; [exact A3|]. split; [exact A4 | discriminate].
        -- intros (A1 & A2 & _ & e & A3 & A4 & _). split; [exact A1|]. split; [exact A2|]. exists e. auto.
      * split; [|split].
        -- intros n Hn. rewrite T3, (keqb_neq dname_eqb dname_eqb_eq _ _ Hn). reflexivity.
        -- right. rewrite T3, (keqb_refl dname_eqb dname_eqb_eq). split; [|reflexivity].
           unfold abs_lru. rewrite Hl. discriminate.
        -- intros _. rewrite T3, (keqb_refl dname_eqb dname_eqb_eq). reflexivity.
    + split; [exact HI|]. split; [reflexivity|]. split; [|split; [|auto]].
      * split; [constructor|]. intro r. split; [intros []|].
        intros (A1 & _ & _ & e & A3 & _). unfold rr_key in A3. rewrite A1, abs_map_unfold, Hl in A3. discriminate.
      * split; [reflexivity|]. split; [left; reflexivity|].
        intros (t & d & e & _ & A). rewrite abs_map_unfold, Hl in A. discriminate.
  - destruct (existsb (fun p => fst p =? qt) qtype_table) eqn:Hs.
    + (* AXFR, MAILB, MAILA *)
      apply qtype_special in Hs. intro H; inversion H; subst c' rrs; clear H.
      assert (Hnm : forall t, ~ cache_qmatch qt t).
      { intros t [Hq|(Hq & H1 & H2 & H3)]; [contradiction|]. destruct Hs as [Hs|[Hs|[Hs|Hs]]]; contradiction. }
      split; [exact HI|]. split; [reflexivity|]. split; [|split; [|auto]].
      * split; [constructor|]. intro r. split; [intros []|]. intros (_ & _ & Hq & _). exact (Hnm _ Hq).
      * split; [reflexivity|]. split; [left; reflexivity|]. intros (t & d & e & Hq & _). destruct (Hnm _ Hq).
    + (* a record type *)
      assert (Hns : ~ (qt = QT_AXFR \/ qt = QT_MAILB \/ qt = QT_MAILA \/ qt = QT_Wildcard)).
      { intro Hq. apply qtype_special in Hq. congruence. }
      assert (Hqm : forall t, cache_qmatch qt t <-> t = qt).
      { intro t. unfold cache_qmatch. split; [intros [Hq|[Hq _]]; [contradiction | congruence]|].
        intros ->. right. repeat split; intro Hq; apply Hns; tauto. }
      unfold get_tuples. destruct (dlookup name (c_parts c)) as [p|] eqn:Hl.
      * destruct (nlookup qt (p_records p)) as [ts|] eqn:Ht; intro H; inversion H; subst c' rrs; clear H.
        -- destruct (touch_ok c name p now HI Hl) as (T1 & T2 & T3 & T4 & T5 & T6).
           pose proof (inv_part_of _ _ _ HI Hl) as [Hk Hv _ _].
           assert (Hts : NoDup (map fst ts)) by exact (lookup_forall N.eqb Neqb_eq _ _ _ _ Hv Ht).
           split; [exact T1|]. split; [exact T2|]. split; [|split; [|auto]].
           ++ split; [rewrite to_rrs_keys; apply nodup_map_key, Hts|]. intro r.
              rewrite (typed_answer c now name qt p ts HI Hl Ht). rewrite Hqm. split.
              ** intros (A1 & A2 & A3 & e & A4 & A5). repeat (split; [assumption|]). exists e.
                 split; [exact A4|]. split; [exact A5 | discriminate].
              ** intros (A1 & A2 & A3 & e & A4 & A5 & _). repeat (split; [assumption|]). exists e. auto.
           ++ split; [|split].
              ** intros n Hn. rewrite T3, (keqb_neq dname_eqb dname_eqb_eq _ _ Hn). reflexivity.
              ** right. rewrite T3, (keqb_refl dname_eqb dname_eqb_eq). split; [|reflexivity].
                 unfold abs_lru. rewrite Hl. discriminate.
              ** intros _. rewrite T3, (keqb_refl dname_eqb dname_eqb_eq). reflexivity.
        -- split; [exact HI|]. split; [reflexivity|]. split; [|split; [|auto]].
           ++ split; [constructor|]. intro r. split; [intros []|].
              intros (A1 & _ & A2 & e & A3 & _). apply Hqm in A2. unfold rr_key in A3.
              rewrite A1, A2, (abs_map_name _ _ _ _ _ Hl) in A3. unfold rlook in A3. rewrite Ht in A3. discriminate.
           ++ split; [reflexivity|]. split; [left; reflexivity|].
              intros (t & d & e & A2 & A3). apply Hqm in A2. subst t.
              rewrite (abs_map_name _ _ _ _ _ Hl) in A3. unfold rlook in A3. rewrite Ht in A3. discriminate.
      * intro H; inversion H; subst c' rrs; clear H.
        split; [exact HI|]. split; [reflexivity|]. split; [|split; [|auto]].
        -- split; [constructor|]. intro r. split; [intros []|].
           intros (A1 & _ & _ & e & A3 & _). unfold rr_key in A3. rewrite A1, abs_map_unfold, Hl in A3. discriminate.
        -- split; [reflexivity|]. split; [left; reflexivity|].
           intros (t & d & e & _ & A). rewrite abs_map_unfold, Hl in A. discriminate.
Qed.

Lemma get_ok c now name qt c' rrs :
  Inv c -> get c now name qt = (c', rrs) ->
  Inv c' /\ (forall k, abs_map c' k = abs_map c k) /\
  answer_ok (abs_map c) now name qt true rrs /\
  lru_after_get (abs_map c) (abs_lru c) (abs_lru c') now name qt /\
  c_size c' = c_size c /\ c_desired c' = c_desired c /\ c_expiry c' = c_expiry c.
Proof.
  intros HI. unfold get. destruct (get_raw c now name qt) as [c1 rrs1] eqn:Hg.
  intro H; inversion H; subst c' rrs; clear H.
  destruct (get_raw_ok _ _ _ _ _ _ HI Hg) as (G1 & G2 & [G3 G4] & G5 & G6).
  split; [exact G1|]. split; [exact G2|]. split; [|split; [exact G5 | exact G6]].
  split; [apply nodup_map_filter, G3|]. intro r. rewrite filter_In, G4. split.
  - intros ((A1 & A2 & A3 & e & A4 & A5 & _) & Hpos). apply N.ltb_lt in Hpos.
    repeat (split; [assumption|]). exists e. split; [exact A4|]. split; [exact A5|]. intros _. lia.
  - intros (A1 & A2 & A3 & e & A4 & A5 & A6). split.
    + repeat (split; [assumption|]). exists e. split; [exact A4|]. split; [exact A5 | discriminate].
    + apply N.ltb_lt. specialize (A6 eq_refl). lia.
Qed.
