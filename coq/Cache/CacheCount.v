(* Cache/CacheCount.v -- counting: the listing [entries] of a cache state, the proof
   that current_size is the cardinality of the abstract map, and lemmas about [card]. *)
From Coq Require Import Permutation.
From RV Require Import Base.Prelude Name.NameModel Name.NameProofs Wire.WireTypes
  Cache.CacheFacts Cache.CacheModel Cache.CacheSpec Cache.CacheInsert.

Definition rec_entries (n : dname) (tts : N * list (rdata * N)) : list (akey * N) :=
  map (fun de => ((n, fst tts, fst de), snd de)) (snd tts).
Definition part_entries (np : dname * partition) : list (akey * N) :=
  flat_map (rec_entries (fst np)) (p_records (snd np)).
Definition entries (c : cache) : list (akey * N) := flat_map part_entries (c_parts c).

Lemma map_flat_map {A B C} (g : B -> C) (f : A -> list B) l :
  map g (flat_map f l) = flat_map (fun x => map g (f x)) l.
Proof. induction l as [|x l IH]; cbn [flat_map map]; [reflexivity|]. rewrite map_app, IH. reflexivity. Qed.

Lemma nodup_flat_map_tag {A B K} (key : A -> K) (tag : B -> K) (f : A -> list B) l :
  NoDup (map key l) -> (forall x, In x l -> NoDup (f x)) ->
  (forall x y, In x l -> In y (f x) -> tag y = key x) -> NoDup (flat_map f l).
Proof.
  induction l as [|a l IH]; intros Hk Hn Ht; cbn [flat_map]; [constructor|].
  cbn [map] in Hk. inversion Hk as [|? ? Hni Hk']; subst.
  apply nodup_app.
  - apply Hn. left; reflexivity.
  - apply IH; [exact Hk' | intros x Hx; apply Hn; right; exact Hx | intros x y Hx Hy; apply Ht; [right; exact Hx | exact Hy]].
  - intros y Hy Hy'. apply in_flat_map in Hy'. destruct Hy' as (x & Hx & Hyx).
    apply Hni. rewrite <- (Ht a y (or_introl eq_refl) Hy), (Ht x y (or_intror Hx) Hyx). apply in_map, Hx.
Qed.

Lemma entries_nodup c : Inv c -> NoDup (map fst (entries c)).
Proof.
  intros HI. unfold entries. rewrite map_flat_map.
  apply (nodup_flat_map_tag fst key_name).
  - exact (inv_keys c HI).
  - intros [n p] Hin. pose proof (inv_parts c HI) as Hp. rewrite Forall_forall in Hp. specialize (Hp _ Hin).
    cbn [snd] in Hp. destruct Hp as [Hk Hv _ _]. unfold part_entries. cbn [fst snd]. rewrite map_flat_map.
    apply (nodup_flat_map_tag fst key_type).
    + exact Hk.
    + intros [t ts] Hts. rewrite Forall_forall in Hv. specialize (Hv _ Hts). cbn [snd] in Hv.
      unfold rec_entries. cbn [fst snd].
      match goal with |- NoDup ?x =>
        replace x with (map (fun d => (n, t, d)) (map fst ts)) by (rewrite !map_map; reflexivity) end.
      apply nodup_map_key, Hv.
    + intros [t ts] y _ Hy. unfold rec_entries in Hy. cbn [fst snd] in Hy. rewrite map_map in Hy.
      apply in_map_iff in Hy. destruct Hy as (de & <- & _). reflexivity.
  - intros [n p] y _ Hy. unfold part_entries in Hy. cbn [fst snd] in Hy. rewrite map_flat_map in Hy.
    apply in_flat_map in Hy. destruct Hy as ([t ts] & _ & Hy). unfold rec_entries in Hy. cbn [fst snd] in Hy.
    rewrite map_map in Hy. apply in_map_iff in Hy. destruct Hy as (de & <- & _). reflexivity.
Qed.

Lemma entries_in c k e : Inv c -> (In (k, e) (entries c) <-> abs_map c k = Some e).
Proof.
  intro HI. destruct k as [[n t] d]. unfold entries. rewrite in_flat_map. split.
  - intros ([n0 p] & Hp & Hin). unfold part_entries in Hin. cbn [fst snd] in Hin.
    apply in_flat_map in Hin. destruct Hin as ([t0 ts] & Hts & Hin).
    unfold rec_entries in Hin. cbn [fst snd] in Hin. apply in_map_iff in Hin. destruct Hin as ([d0 e0] & Heq & Hde).
    cbn [fst snd] in Heq. inversion Heq; subst.
    apply (in_lookup dname_eqb dname_eqb_eq _ _ _ (inv_keys c HI)) in Hp.
    pose proof (inv_part_of _ _ _ HI Hp) as [Hk Hv _ _].
    rewrite (abs_map_name _ _ _ _ _ Hp). unfold rlook.
    rewrite (in_lookup N.eqb Neqb_eq _ _ _ Hk Hts).
    apply (in_lookup rdata_eqb rdata_eqb_eq); [|exact Hde].
    rewrite Forall_forall in Hv. exact (Hv _ Hts).
  - intro Ha. rewrite abs_map_unfold in Ha. destruct (alookup dname_eqb n (c_parts c)) as [p|] eqn:Hp; [|discriminate].
    unfold rlook in Ha. destruct (alookup N.eqb t (p_records p)) as [ts|] eqn:Hts; [|discriminate].
    exists (n, p). split; [apply (lookup_in dname_eqb dname_eqb_eq), Hp|].
    unfold part_entries. cbn [fst snd]. apply in_flat_map. exists (t, ts).
    split; [apply (lookup_in N.eqb Neqb_eq), Hts|]. unfold rec_entries. cbn [fst snd].
    apply in_map_iff. exists (d, e). split; [reflexivity|]. apply (lookup_in rdata_eqb rdata_eqb_eq), Ha.
Qed.

Lemma part_entries_len n p : llen (part_entries (n, p)) = llen (tuples_of (p_records p)).
Proof.
  unfold part_entries, tuples_of. cbn [fst snd]. induction (p_records p) as [|[t ts] recs IH]; [reflexivity|].
  cbn [flat_map snd]. rewrite !llen_app, IH. unfold rec_entries, llen. cbn [snd]. rewrite map_length. reflexivity.
Qed.

Lemma entries_len c : Inv c -> llen (entries c) = c_size c.
Proof.
  intro HI. rewrite (inv_size c HI). pose proof (inv_parts c HI) as Hp. unfold entries.
  induction (c_parts c) as [|[n p] parts IH]; [reflexivity|].
  inversion Hp as [|? ? Hp1 Hp2]; subst. cbn [flat_map]. rewrite llen_app, (IH Hp2).
  rewrite (asum_cons (K:=dname)). cbn [snd] in *. rewrite part_entries_len.
  destruct Hp1 as [_ _ Hs _]. rewrite Hs. reflexivity.
Qed.

(* C15: the record count is the number of distinct (name, type, data) entries *)
Theorem count_is_distinct_entries c : Inv c -> card (abs_map c) (c_size c).
Proof.
  intro HI. exists (entries c). split; [apply entries_nodup, HI|].
  split; [intros k e; apply entries_in, HI | apply entries_len, HI].
Qed.

(* ---- cardinalities ---- *)
Lemma card_ext m m' n : (forall k, m' k = m k) -> card m n -> card m' n.
Proof.
  intros He (l & H1 & H2 & H3). exists l. split; [exact H1|]. split; [|exact H3].
  intros k e. rewrite He. apply H2.
Qed.

Lemma card_same_dom m m' n n' :
  (forall k, m k = None <-> m' k = None) -> card m n -> card m' n' -> n = n'.
Proof.
  intros Hd (l & H1 & H2 & H3) (l' & H1' & H2' & H3').
  assert (Hk : forall k, In k (map fst l) <-> m k <> None).
  { intro k. rewrite in_map_iff. split.
    - intros ([k0 e] & <- & Hin). apply H2 in Hin. cbn [fst]. congruence.
    - intro Hn. destruct (m k) as [e|] eqn:E; [|congruence]. exists (k, e). split; [reflexivity | apply H2, E]. }
  assert (Hk' : forall k, In k (map fst l') <-> m' k <> None).
  { intro k. rewrite in_map_iff. split.
    - intros ([k0 e] & <- & Hin). apply H2' in Hin. cbn [fst]. congruence.
    - intro Hn. destruct (m' k) as [e|] eqn:E; [|congruence]. exists (k, e). split; [reflexivity | apply H2', E]. }
  assert (Hp : Permutation (map fst l) (map fst l')).
  { apply NoDup_Permutation; [exact H1 | exact H1'|]. intro k. rewrite Hk, Hk', Hd. tauto. }
  apply Permutation_length in Hp. rewrite !map_length in Hp. rewrite <- H3, <- H3'. unfold llen. rewrite Hp. reflexivity.
Qed.

Lemma card_unique m n n' : card m n -> card m n' -> n = n'.
Proof. apply card_same_dom. tauto. Qed.

Lemma filter_partition_len {A} (f : A -> bool) (l : list A) :
  llen (filter f l) + llen (filter (fun x => negb (f x)) l) = llen l.
Proof.
  induction l as [|x l IH]; [reflexivity|]. cbn [filter]. destruct (f x); cbn [negb]; rewrite !llen_cons; lia.
Qed.

Lemma nodup_keys_filter {A B} (f : A * B -> bool) (l : list (A * B)) :
  NoDup (map fst l) -> NoDup (map fst (filter f l)).
Proof. apply nodup_map_filter. Qed.

Lemma card_restrict m n (P : akey -> N -> bool) :
  card m n ->
  exists n1, card (restrict m P) n1 /\ card (restrict m (fun k e => negb (P k e))) (n - n1) /\ n1 <= n.
Proof.
  intros (l & H1 & H2 & H3).
  pose proof (filter_partition_len (fun x => P (fst x) (snd x)) l) as Hlen.
  set (l1 := filter (fun x => P (fst x) (snd x)) l) in *.
  set (l2 := filter (fun x => negb (P (fst x) (snd x))) l) in *.
  exists (llen l1).
  split; [|split; [|lia]].
  - exists l1. split; [apply nodup_keys_filter, H1|]. split; [|reflexivity].
    intros k e. unfold l1. rewrite filter_In, H2. cbn [fst snd]. unfold restrict. split.
    + intros [-> ->]. reflexivity.
    + destruct (m k) as [e0|]; [|discriminate]. destruct (P k e0) eqn:E; [|discriminate].
      intro H; inversion H; subst. auto.
  - exists l2. split; [apply nodup_keys_filter, H1|]. split; [|lia].
    intros k e. unfold l2. rewrite filter_In, H2. cbn [fst snd]. unfold restrict. split.
    + intros [-> ->]. reflexivity.
    + destruct (m k) as [e0|]; [|discriminate]. destruct (negb (P k e0)) eqn:E; [|discriminate].
      intro H; inversion H; subst. auto.
Qed.

(* a partition is never empty: a cached name has an entry, and conversely *)
Lemma lru_has_entry c n t : Inv c -> abs_lru c n = Some t -> has_entry (abs_map c) n.
Proof.
  intros HI H. unfold abs_lru in H. destruct (alookup dname_eqb n (c_parts c)) as [p|] eqn:Hp; [|discriminate].
  pose proof (inv_part_of _ _ _ HI Hp) as [Hk Hv _ [Hm _]].
  apply in_map_iff in Hm. destruct Hm as ([d e] & _ & Hin). unfold all_tuples in Hin.
  apply in_flat_map in Hin. destruct Hin as ([t0 ts] & Hts & Hin). cbn [snd] in Hin.
  exists (n, t0, d), e. split; [reflexivity|]. rewrite (abs_map_name _ _ _ _ _ Hp). unfold rlook.
  rewrite (in_lookup N.eqb Neqb_eq _ _ _ Hk Hts). apply (in_lookup rdata_eqb rdata_eqb_eq); [|exact Hin].
  rewrite Forall_forall in Hv. exact (Hv _ Hts).
Qed.

Lemma entry_has_lru c n : has_entry (abs_map c) n -> abs_lru c n <> None.
Proof.
  intros ([[n0 t] d] & e & Hn & Ha). cbn in Hn. subst n0. rewrite abs_map_unfold in Ha. unfold abs_lru.
  destruct (alookup dname_eqb n (c_parts c)); [discriminate | discriminate].
Qed.

Lemma has_entry_ext m m' n : (forall k, m' k = m k) -> has_entry m n -> has_entry m' n.
Proof. intros He (k & e & H1 & H2). exists k, e. rewrite He. auto. Qed.
