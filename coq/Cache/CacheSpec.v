(* Cache/CacheSpec.v -- the specification side for C05 / C15 (DESIGN 5, "C05 and C15").

   * the abstract cache: a finite map (name, rtype, rdata) -> expiry instant and, for
     LRU, name -> instant of last use;
   * [abs_map]/[abs_lru]: the abstraction of a concrete cache state;
   * [Inv]: the representation invariant of PartitionedCache (the INVARIANT comments of
     cache.rs, plus "no duplicate value in a Vec" and unique keys);
   * [abs_step]: what each operation does to the abstract cache, as a relation
     (lookups return a *set* of records; a prune may break LRU ties either way);
   * history functions [time_of], [last_insert] used to state C05 over histories.
   Definitions only. *)
From RV Require Import Base.Prelude Name.NameModel Wire.WireTypes Cache.CacheFacts Cache.CacheModel.

Definition akey := (dname * N * rdata)%type.
Definition key_name (k : akey) : dname := fst (fst k).
Definition key_type (k : akey) : N := snd (fst k).
Definition key_data (k : akey) : rdata := snd k.
Definition rr_key (r : rr) : akey := (rr_name r, rr_type r, rr_data r).

Definition amap := akey -> option N.       (* expiry instant of each cached record *)
Definition alru := dname -> option N.      (* last use of each cached name *)

(* ---- abstraction of a concrete state ---- *)
Definition abs_map (c : cache) : amap := fun k =>
  match alookup dname_eqb (key_name k) (c_parts c) with
  | Some p => match alookup N.eqb (key_type k) (p_records p) with
              | Some ts => alookup rdata_eqb (key_data k) ts
              | None => None
              end
  | None => None
  end.
Definition abs_lru (c : cache) : alru := fun n =>
  option_map p_last_read (alookup dname_eqb n (c_parts c)).

(* cardinality of a finite map, declaratively: a duplicate-free listing of its graph *)
Definition card (m : amap) (n : N) : Prop :=
  exists l : list (akey * N),
    NoDup (map fst l) /\ (forall k e, In (k, e) l <-> m k = Some e) /\ llen l = n.

(* sub-map of the entries satisfying a test *)
Definition restrict (m : amap) (P : akey -> N -> bool) : amap := fun k =>
  match m k with Some e => if P k e then Some e else None | None => None end.

(* ---- representation invariant ---- *)
Definition all_tuples (p : partition) : tuples := flat_map snd (p_records p).

Record Inv_part (p : partition) : Prop := {
  ip_keys : NoDup (map fst (p_records p));                         (* HashMap keys *)
  ip_vals : Forall (fun e => NoDup (map fst (snd e))) (p_records p); (* no duplicate value in a Vec *)
  ip_size : p_size p = llen (all_tuples p);                        (* size = sum of the Vec lengths *)
  ip_min : min_of (p_next_expiry p) (map snd (all_tuples p)) }.    (* next_expiry = min expiry; not empty *)

(* a priority queue holds exactly the partition keys, each with priority [f partition] *)
Definition queue_ok (q : pqueue) (parts : list (dname * partition)) (f : partition -> N) : Prop :=
  NoDup (map fst q) /\
  forall k, alookup dname_eqb k q = option_map f (alookup dname_eqb k parts).

Record Inv (c : cache) : Prop := {
  inv_keys : NoDup (map fst (c_parts c));
  inv_parts : Forall (fun e => Inv_part (snd e)) (c_parts c);
  inv_access : queue_ok (c_access c) (c_parts c) p_last_read;
  inv_expiry : queue_ok (c_expiry c) (c_parts c) p_next_expiry;
  inv_size : c_size c = asum p_size (c_parts c) }.                 (* current_size = sum of sizes *)

(* the only thing assumed of PriorityQueue::pop among entries of equal priority *)
Definition tie_ok (tb : tiebreak) : Prop :=
  forall l, (forall x, tb l = Some x -> In x l) /\ (l <> [] -> tb l <> None).

(* ---- abstract operations ---- *)
Definition key_eqb (a b : akey) : bool :=
  dname_eqb (key_name a) (key_name b) && (key_type a =? key_type b) && rdata_eqb (key_data a) (key_data b).

Definition expiry_of (now ttl : N) : N := now + ttl * NS_PER_S.
(* remaining whole seconds, as reported in the TTL field *)
Definition remaining (e now : N) : N := N.min ((e - now) / NS_PER_S) U32_MAX.

(* qtype code [qt] selects record type [t] in the cache *)
Definition cache_qmatch (qt t : N) : Prop :=
  qt = QT_Wildcard \/ (qt = t /\ qt <> QT_AXFR /\ qt <> QT_MAILB /\ qt <> QT_MAILA).

Definition a_insert (m : amap) (now : N) (r : rr) : amap := fun k =>
  if (0 <? rr_ttl r) && key_eqb (rr_key r) k then Some (expiry_of now (rr_ttl r)) else m k.
Definition a_touch (l : alru) (now : N) (r : rr) : alru := fun n =>
  if (0 <? rr_ttl r) && dname_eqb (rr_name r) n then Some now else l n.

Fixpoint a_insert_all (m : amap) (now : N) (rs : list rr) : amap :=
  match rs with [] => m | r :: t => a_insert_all (a_insert m now r) now t end.
Fixpoint a_touch_all (l : alru) (now : N) (rs : list rr) : alru :=
  match rs with [] => l | r :: t => a_touch_all (a_touch l now r) now t end.

(* the answer of a lookup, as a set: [live_only] = Cache::get, otherwise the raw getter *)
Definition answer_ok (m : amap) (now : N) (name : dname) (qt : N) (live_only : bool) (rrs : list rr) : Prop :=
  NoDup (map rr_key rrs) /\
  forall r, In r rrs <->
    rr_name r = name /\ rr_class r = RC_IN /\ cache_qmatch qt (rr_type r) /\
    exists e, m (rr_key r) = Some e /\ rr_ttl r = remaining e now /\
              (live_only = true -> 1 <= rr_ttl r).

(* a lookup refreshes the name's last use if the name is cached and (typed lookup) the
   record type has been seen at that name; the abstract map does not record "seen but
   now empty", so that case is left open *)
Definition lru_after_get (m : amap) (l l' : alru) (now : N) (name : dname) (qt : N) : Prop :=
  (forall n, n <> name -> l' n = l n) /\
  (l' name = l name \/ (l name <> None /\ l' name = Some now)) /\
  ((exists t d e, cache_qmatch qt t /\ m (name, t, d) = Some e) -> l' name = Some now).

(* prune: expired entries go; then whole names go, least recently used first, only
   while the count exceeds the desired size.  [ev] lists the evicted names in order. *)
Definition live_minus (m : amap) (now : N) (ev : list dname) : amap :=
  restrict m (fun k e => (now <? e) && negb (existsb (dname_eqb (key_name k)) ev)).

Definition has_entry (m : amap) (n : dname) : Prop := exists k e, key_name k = n /\ m k = Some e.

Record a_prune (m : amap) (l : alru) (now desired : N) (m' : amap) (l' : alru) (ev : list dname) : Prop := {
  ap_map : forall k, m' k = live_minus m now ev k;
  ap_nodup : NoDup ev;
  ap_lru_keep : forall n, has_entry m' n -> l' n = l n;
  ap_lru_drop : forall n, ~ has_entry m' n -> l' n = None;
  (* each evicted name, at the moment it goes: it is cached and alive, the cache is
     still over size, and no remaining name was used less recently *)
  ap_order : forall ev1 n ev2, ev = ev1 ++ n :: ev2 ->
     has_entry (live_minus m now ev1) n /\
     (forall c1, card (live_minus m now ev1) c1 -> desired < c1) /\
     (forall n' tn tn', has_entry (live_minus m now ev1) n' ->
                        l n = Some tn -> l n' = Some tn' -> tn <= tn');
  ap_bound : forall c', card m' c' -> c' <= desired }.

(* the four numbers prune returns *)
Record report_ok (m m' : amap) (now desired : N) (ev : list dname) (rep : prune_report) : Prop := {
  ro_overflowed : forall n, card m n -> pr_overflowed rep = (desired <? n);
  ro_current : card m' (pr_current rep);
  ro_expired : card (restrict m (fun _ e => e <=? now)) (pr_expired rep);
  ro_pruned : card (restrict m (fun k e => (now <? e) && existsb (dname_eqb (key_name k)) ev))
                   (pr_pruned rep) }.

Definition abs_step (m : amap) (l : alru) (now desired : N) (o : op)
                    (m' : amap) (l' : alru) (now' : N) (x : out) : Prop :=
  match o with
  | Insert r =>
    (forall k, m' k = a_insert m now r k) /\ (forall n, l' n = a_touch l now r n) /\ now' = now /\ x = OUnit
  | InsertAll rs =>
    (forall k, m' k = a_insert_all m now rs k) /\ (forall n, l' n = a_touch_all l now rs n) /\
    now' = now /\ x = OUnit
  | Get name qt =>
    (forall k, m' k = m k) /\ now' = now /\
    exists rrs, x = ORRs rrs /\ answer_ok m now name qt true rrs /\ lru_after_get m l l' now name qt
  | GetRaw name qt =>
    (forall k, m' k = m k) /\ now' = now /\
    exists rrs, x = ORRs rrs /\ answer_ok m now name qt false rrs /\ lru_after_get m l l' now name qt
  | Prune =>
    now' = now /\
    exists rep ev, x = OPrune rep /\ a_prune m l now desired m' l' ev /\ report_ok m m' now desired ev rep
  | Advance dt =>
    (forall k, m' k = m k) /\ (forall n, l' n = l n) /\ now' = now + dt /\ x = OUnit
  end.

(* ---- histories (for C05) ---- *)
(* effect of one operation on (clock, last effective insertion of [key]): an insertion
   through SharedCache with TTL 0 is skipped and therefore not an insertion *)
Definition ins1 (key : akey) (now : N) (acc : option (N * N)) (r : rr) : option (N * N) :=
  if (0 <? rr_ttl r) && key_eqb (rr_key r) key then Some (now, rr_ttl r) else acc.

Definition hstep (key : akey) (st : N * option (N * N)) (o : op) : N * option (N * N) :=
  match o with
  | Advance dt => (fst st + dt, snd st)
  | Insert r => (fst st, ins1 key (fst st) (snd st) r)
  | InsertAll rs => (fst st, fold_left (ins1 key (fst st)) rs (snd st))
  | _ => st
  end.

Definition hist (key : akey) (h : list op) : N * option (N * N) := fold_left (hstep key) h (0, None).
(* the clock after history [h] (starting at 0) *)
Definition time_of (h : list op) : N := fst (hist (root_domain, 0, RD_A 0) h).
(* (instant, TTL) of the last insertion of [key] in [h] *)
Definition last_insert (h : list op) (key : akey) : option (N * N) := snd (hist key h).
