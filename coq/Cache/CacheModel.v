(* Cache/CacheModel.v -- executable model of crates/dns-resolver/src/cache.rs:
   SharedCache -> Cache -> PartitionedCache<DomainName, RecordType, RecordTypeWithData>.
   Definitions only.

   Representation.
   * Instant = N nanoseconds on the virtual clock; Duration::from_secs(ttl) = ttl * 10^9.
   * HashMap = association list in insertion order (Prelude); Vec = list.
   * PriorityQueue<K, Reverse<Instant>> = association list key -> instant; [pop] returns
     an element of maximal priority, i.e. of the SMALLEST instant; which one among equal
     instants is decided by a tie-break function [tb] (a parameter: the heap layout of
     the priority-queue crate is not modelled).  push = insert-or-overwrite,
     change_priority = overwrite if present (no-op otherwise), remove = delete if present
     (priority-queue 2.7.0, src/priority_queue/mod.rs).
   * the cached value V = RecordTypeWithData is stored as its [rdata]; its record type is
     the record key K2 under which it is filed (upsert is only ever called with
     record_key = value.rtype()), so V-equality inside one Vec is [rdata_eqb].
   * usize subtractions ([partition.size -= 1], [current_size -= pruned], ...) are Panic
     sites (debug-build underflow check); [len - tuples.len()] after [retain] cannot
     underflow and is plain N subtraction.
   * [loop]/[while] take fuel and give OutOfFuel when it runs out. *)
From RV Require Import Base.Prelude Name.NameModel Wire.WireTypes.

Definition NS_PER_S : N := 1000000000.
Definition U32_MAX : N := 4294967295.
Definition DEFAULT_DESIRED_SIZE : N := 512.

Notation tuples := (list (rdata * N)) (only parsing).    (* Vec<(V, Instant)> *)

Record partition := {
  p_last_read : N;
  p_next_expiry : N;
  p_size : N;
  p_records : list (N * tuples) }.                      (* HashMap<RecordType, Vec<..>> *)

Definition pqueue := list (dname * N).

Record cache := {
  c_parts : list (dname * partition);
  c_access : pqueue;
  c_expiry : pqueue;
  c_size : N;
  c_desired : N }.

Definition with_desired_size (d : N) : cache :=
  {| c_parts := []; c_access := []; c_expiry := []; c_size := 0; c_desired := d |}.
Definition cache_new : cache := with_desired_size DEFAULT_DESIRED_SIZE.

(* checked usize subtraction *)
Definition csub (a b : N) : res unit N := if b <=? a then Ok (a - b) else Panic.

(* ---- priority queue ---- *)
Definition pq_push (k : dname) (p : N) (q : pqueue) : pqueue := ainsert dname_eqb k p q.
Definition pq_change (k : dname) (p : N) (q : pqueue) : pqueue := areplace dname_eqb k p q.
Definition pq_remove (k : dname) (q : pqueue) : pqueue := aremove dname_eqb k q.

Fixpoint pq_min (q : pqueue) : option N :=
  match q with
  | [] => None
  | (_, p) :: t => match pq_min t with Some m => Some (N.min p m) | None => Some p end
  end.

(* the candidates for [pop]: the entries of smallest instant *)
Definition pq_candidates (q : pqueue) : pqueue :=
  match pq_min q with
  | Some m => filter (fun e => snd e =? m) q
  | None => []
  end.

Definition tiebreak := pqueue -> option (dname * N).
(* executable instance: the first candidate *)
Definition tb_first : tiebreak := fun l => match l with [] => None | x :: _ => Some x end.

Section WithTie.
Variable tb : tiebreak.

Definition pq_pop (q : pqueue) : option ((dname * N) * pqueue) :=
  match tb (pq_candidates q) with
  | Some (k, p) => Some ((k, p), pq_remove k q)
  | None => None
  end.

(* ---- to_rrs ---- *)
(* expires.saturating_duration_since(now).as_secs().try_into().unwrap_or(u32::MAX) *)
Definition remaining_secs (e now : N) : N :=
  let s := (e - now) / NS_PER_S in if s <=? U32_MAX then s else U32_MAX.

Definition to_rrs (name : dname) (now : N) (t : N) (ts : tuples) : list rr :=
  map (fun x => {| rr_name := name; rr_type := t; rr_class := RC_IN;
                   rr_ttl := remaining_secs (snd x) now; rr_data := fst x |}) ts.

(* ---- PartitionedCache::get_partition_without_checking_expiration ---- *)
Definition touch (c : cache) (name : dname) (p : partition) (now : N) : cache :=
  {| c_parts := areplace dname_eqb name
                  {| p_last_read := now; p_next_expiry := p_next_expiry p; p_size := p_size p;
                     p_records := p_records p |} (c_parts c);
     c_access := pq_change name now (c_access c);
     c_expiry := c_expiry c; c_size := c_size c; c_desired := c_desired c |}.

Definition get_partition (c : cache) (now : N) (name : dname) : cache * option (list (N * tuples)) :=
  match alookup dname_eqb name (c_parts c) with
  | Some p => (touch c name p now, Some (p_records p))
  | None => (c, None)
  end.

(* ---- PartitionedCache::get_without_checking_expiration ---- *)
Definition get_tuples (c : cache) (now : N) (name : dname) (t : N) : cache * option tuples :=
  match alookup dname_eqb name (c_parts c) with
  | Some p =>
    match alookup N.eqb t (p_records p) with
    | Some ts => (touch c name p now, Some ts)
    | None => (c, None)
    end
  | None => (c, None)
  end.

(* ---- Cache::get_without_checking_expiration ----
   qtype is the u16 code: 255 = Wildcard, 252..254 = AXFR MAILB MAILA, else Record(rtype) *)
Definition get_raw (c : cache) (now : N) (name : dname) (qtype : N) : cache * list rr :=
  if qtype =? QT_Wildcard then
    match get_partition c now name with
    | (c', Some recs) => (c', flat_map (fun e => to_rrs name now (fst e) (snd e)) recs)
    | (c', None) => (c', [])
    end
  else if existsb (fun p => N.eqb (fst p) qtype) qtype_table then (c, [])
  else
    match get_tuples c now name qtype with
    | (c', Some ts) => (c', to_rrs name now qtype ts)
    | (c', None) => (c', [])
    end.

(* ---- Cache::get: rrs.retain(|rr| rr.ttl > 0) ---- *)
Definition get (c : cache) (now : N) (name : dname) (qtype : N) : cache * list rr :=
  let (c', rrs) := get_raw c now name qtype in
  (c', filter (fun r => 0 <? rr_ttl r) rrs).

(* ---- upsert ---- *)
(* the for loop: find the first tuple whose value equals [d], remember its expiry and
   swap_remove it (its slot is taken by the last element) *)
Fixpoint swap_remove_dup (d : rdata) (l : tuples) : option (N * tuples) :=
  match l with
  | [] => None
  | (d', e) :: t =>
    if rdata_eqb d' d then
      Some (e, match t with [] => [] | _ :: _ => last t (d', e) :: removelast t end)
    else match swap_remove_dup d t with
         | Some (e', t') => Some (e', (d', e) :: t')
         | None => None
         end
  end.

(* for (_, e) in partition.records.values().flatten() { if *e < new { new = *e } } *)
Definition min_expiry_from (init : N) (recs : list (N * tuples)) : N :=
  fold_left (fun acc e => if snd e <? acc then snd e else acc) (flat_map snd recs) init.

Definition upsert (c : cache) (now : N) (name : dname) (t : N) (d : rdata) (ttl_ns : N) : res unit cache :=
  let expiry := now + ttl_ns in
  match alookup dname_eqb name (c_parts c) with
  | Some p =>
    (* first block: the records map, size/current_size decrement, next_expiry recomputation *)
    let* st :=
      match alookup N.eqb t (p_records p) with
      | Some ts =>
        match swap_remove_dup d ts with
        | Some (dup_expiry, ts') =>
          let recs := areplace N.eqb t (ts' ++ [(d, expiry)]) (p_records p) in
          let* psize := csub (p_size p) 1 in
          let* csize := csub (c_size c) 1 in
          if dup_expiry =? p_next_expiry p then
            let ne := min_expiry_from expiry recs in
            Ok (recs, psize, csize, ne, pq_change name ne (c_expiry c))
          else Ok (recs, psize, csize, p_next_expiry p, c_expiry c)
        | None =>
          Ok (areplace N.eqb t (ts ++ [(d, expiry)]) (p_records p), p_size p, c_size c,
              p_next_expiry p, c_expiry c)
        end
      | None =>
        Ok (ainsert N.eqb t [(d, expiry)] (p_records p), p_size p, c_size c,
            p_next_expiry p, c_expiry c)
      end in
    let '(recs, psize, csize, ne, xq) := st in
    let access := pq_change name now (c_access c) in
    let (ne', eq') := if expiry <? ne then (expiry, pq_change name expiry xq) else (ne, xq) in
    Ok {| c_parts := areplace dname_eqb name
                       {| p_last_read := now; p_next_expiry := ne'; p_size := psize + 1; p_records := recs |}
                       (c_parts c);
          c_access := access; c_expiry := eq'; c_size := csize + 1; c_desired := c_desired c |}
  | None =>
    Ok {| c_parts := ainsert dname_eqb name
                       {| p_last_read := now; p_next_expiry := expiry; p_size := 1;
                          p_records := ainsert N.eqb t [(d, expiry)] [] |}
                       (c_parts c);
          c_access := pq_push name now (c_access c);
          c_expiry := pq_push name expiry (c_expiry c);
          c_size := c_size c + 1; c_desired := c_desired c |}
  end.

(* Cache::insert: Duration::from_secs(record.ttl.into()) *)
Definition cache_insert (c : cache) (now : N) (r : rr) : res unit cache :=
  upsert c now (rr_name r) (rr_type r) (rr_data r) (rr_ttl r * NS_PER_S).

(* SharedCache::insert *)
Definition shared_insert (c : cache) (now : N) (r : rr) : res unit cache :=
  if 0 <? rr_ttl r then cache_insert c now r else Ok c.

(* SharedCache::insert_all *)
Fixpoint shared_insert_all (c : cache) (now : N) (rs : list rr) : res unit cache :=
  match rs with
  | [] => Ok c
  | r :: t => let* c' := shared_insert c now r in shared_insert_all c' now t
  end.

(* ---- remove_expired_step ---- *)
(* the loop over record_keys: every key comes from the map itself, so
   [partition.records.get_mut(&rkey)] always succeeds and the loop is a traversal of
   the entries in iteration order.  State: (new records, pruned, next_expiry). *)
Definition retain_live (now : N) (ts : tuples) : tuples := filter (fun x => now <? snd x) ts.

Definition min_opt (acc : option N) (ts : tuples) : option N :=
  fold_left (fun a x => match a with
                        | None => Some (snd x)
                        | Some t => if snd x <? t then Some (snd x) else Some t
                        end) ts acc.

Fixpoint expire_records (now : N) (recs : list (N * tuples)) (pruned : N) (ne : option N)
  : list (N * tuples) * N * option N :=
  match recs with
  | [] => ([], pruned, ne)
  | (t, ts) :: rest =>
    let kept := retain_live now ts in
    let pruned' := pruned + (llen ts - llen kept) in
    let ne' := min_opt ne kept in
    let '(rest', p, n) := expire_records now rest pruned' ne' in
    ((t, kept) :: rest', p, n)
  end.

Definition remove_expired_step (c : cache) (now : N) : res unit (cache * N) :=
  match pq_pop (c_expiry c) with
  | Some ((k, expiry), q') =>
    if now <? expiry then
      Ok ({| c_parts := c_parts c; c_access := c_access c; c_expiry := pq_push k expiry q';
             c_size := c_size c; c_desired := c_desired c |}, 0)
    else
      match alookup dname_eqb k (c_parts c) with
      | Some p =>
        let '(recs, pruned, ne) := expire_records now (p_records p) 0 None in
        let* psize := csub (p_size p) pruned in
        let '(parts, access, xq) :=
          match ne with
          | Some n =>
            (areplace dname_eqb k {| p_last_read := p_last_read p; p_next_expiry := n;
                                     p_size := psize; p_records := recs |} (c_parts c),
             c_access c, pq_push k n q')
          | None => (aremove dname_eqb k (c_parts c), pq_remove k (c_access c), q')
          end in
        let* csize := csub (c_size c) pruned in
        Ok ({| c_parts := parts; c_access := access; c_expiry := xq; c_size := csize;
               c_desired := c_desired c |}, pruned)
      | None =>
        Ok ({| c_parts := c_parts c; c_access := pq_remove k (c_access c); c_expiry := q';
               c_size := c_size c; c_desired := c_desired c |}, 0)
      end
  | None => Ok (c, 0)
  end.

(* ---- remove_expired: loop { before = pruned; pruned += step(); if before == pruned break } ---- *)
Fixpoint remove_expired (fuel : nat) (c : cache) (now : N) (pruned : N) : res unit (cache * N) :=
  match fuel with
  | O => OutOfFuel
  | S f =>
    let* r := remove_expired_step c now in
    let (c', n) := r in
    if pruned =? pruned + n then Ok (c', pruned + n)
    else remove_expired f c' now (pruned + n)
  end.

(* ---- remove_least_recently_used ---- *)
Definition remove_lru (c : cache) : res unit (cache * N) :=
  match pq_pop (c_access c) with
  | Some ((k, _), q') =>
    let xq := pq_remove k (c_expiry c) in
    match alookup dname_eqb k (c_parts c) with
    | Some p =>
      let pruned := p_size p in
      let* csize := csub (c_size c) pruned in
      Ok ({| c_parts := aremove dname_eqb k (c_parts c); c_access := q'; c_expiry := xq;
             c_size := csize; c_desired := c_desired c |}, pruned)
    | None =>
      Ok ({| c_parts := c_parts c; c_access := q'; c_expiry := xq; c_size := c_size c;
             c_desired := c_desired c |}, 0)
    end
  | None => Ok (c, 0)
  end.

(* while self.current_size > self.desired_size { num_pruned += remove_least_recently_used() } *)
Fixpoint lru_loop (fuel : nat) (c : cache) (num_pruned : N) {struct fuel} : res unit (cache * N) :=
  if c_desired c <? c_size c then
    match fuel with
    | O => OutOfFuel
    | S f =>
      let* r := remove_lru c in
      let (c', n) := r in
      lru_loop f c' (num_pruned + n)
    end
  else Ok (c, num_pruned).

Record prune_report := {
  pr_overflowed : bool; pr_current : N; pr_expired : N; pr_pruned : N }.

(* fuel that suffices under the invariant (CacheProofs.prune_terminates): one step per
   queue entry plus the final unproductive one *)
Definition expire_fuel (c : cache) : nat := S (length (c_expiry c)).
Definition lru_fuel (c : cache) : nat := length (c_access c).

Definition prune_fuel (f1 f2 : cache -> nat) (c : cache) (now : N) : res unit (cache * prune_report) :=
  let has_overflowed := c_desired c <? c_size c in
  let* r1 := remove_expired (f1 c) c now 0 in
  let (c1, num_expired) := r1 in
  let* r2 := lru_loop (f2 c1) c1 0 in
  let (c2, num_pruned) := r2 in
  Ok (c2, {| pr_overflowed := has_overflowed; pr_current := c_size c2;
             pr_expired := num_expired; pr_pruned := num_pruned |}).

Definition prune (c : cache) (now : N) : res unit (cache * prune_report) :=
  prune_fuel expire_fuel lru_fuel c now.

(* ---- histories ---- *)
Inductive op :=
| Insert (r : rr)                    (* SharedCache::insert *)
| InsertAll (rs : list rr)           (* SharedCache::insert_all *)
| Get (name : dname) (qtype : N)     (* SharedCache::get *)
| GetRaw (name : dname) (qtype : N)  (* SharedCache::get_without_checking_expiration *)
| Prune                              (* SharedCache::prune *)
| Advance (dt : N).                  (* the virtual clock moves *)

Inductive out :=
| OUnit
| ORRs (rrs : list rr)
| OPrune (r : prune_report).

Definition step (c : cache) (now : N) (o : op) : res unit (cache * N * out) :=
  match o with
  | Insert r => let* c' := shared_insert c now r in Ok (c', now, OUnit)
  | InsertAll rs => let* c' := shared_insert_all c now rs in Ok (c', now, OUnit)
  | Get name qt => let (c', rrs) := get c now name qt in Ok (c', now, ORRs rrs)
  | GetRaw name qt => let (c', rrs) := get_raw c now name qt in Ok (c', now, ORRs rrs)
  | Prune => let* r := prune c now in let (c', rep) := r in Ok (c', now, OPrune rep)
  | Advance dt => Ok (c, now + dt, OUnit)
  end.

Fixpoint run (ops : list op) (c : cache) (now : N) : res unit (cache * N * list out) :=
  match ops with
  | [] => Ok (c, now, [])
  | o :: rest =>
    let* r := step c now o in
    let '(c', now', x) := r in
    let* r' := run rest c' now' in
    let '(c'', now'', xs) := r' in
    Ok (c'', now'', x :: xs)
  end.

End WithTie.
