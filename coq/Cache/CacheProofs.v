(* Cache/CacheProofs.v -- placeholder, being written *)
From RV Require Import Base.Prelude Name.NameModel Name.NameProofs Wire.WireTypes Cache.CacheModel Cache.CacheSpec.

Lemma ttl0_not_stored_step c now r : rr_ttl r = 0 -> shared_insert c now r = Ok c.
Proof. intro H. unfold shared_insert. rewrite H. reflexivity. Qed.

Lemma prune_reports_current tb c now c' r : prune tb c now = Ok (c', r) -> pr_current r = c_size c'.
Proof.
  unfold prune, prune_fuel. intro H.
  destruct (remove_expired tb (expire_fuel c) c now 0) as [[c1 n1]| | |]; cbn [bind] in H; try discriminate.
  destruct (lru_loop tb (lru_fuel c1) c1 0) as [[c2 n2]| | |]; cbn [bind] in H; try discriminate.
  inversion H; subst. reflexivity.
Qed.
