(* Cache/CacheProofs.v -- the main theorems about the cache model (C05, C15):
   the invariant holds initially and is preserved by every operation, so every history
   runs to completion without Panic / OutOfFuel ([run_total]); each operation refines
   the abstract cache of CacheSpec ([step_refines]); the corollaries quoted in
   Properties/C05.v and Properties/C15.v. *)
From Coq Require Import Permutation.
From RV Require Import Base.Prelude Name.NameModel Name.NameProofs Wire.WireTypes
  Cache.CacheFacts Cache.CacheModel Cache.CacheSpec Cache.CacheInsert Cache.CacheCount Cache.CachePrune.

Lemma ttl0_not_stored_step c now r : rr_ttl r = 0 -> shared_insert c now r = Ok c.
Proof. intro H. unfold shared_insert. rewrite H. reflexivity. Qed.

Lemma inv_init d : Inv (with_desired_size d).
Proof.
  constructor; cbn; try constructor; try constructor; try reflexivity.
Qed.

Section Tie4.
Variable tb : tiebreak.
Hypothesis tb_ok : tie_ok tb.

Lemma prune_reports_current c now c' r : prune tb c now = Ok (c', r) -> pr_current r = c_size c'.
Proof.
  unfold prune, prune_fuel. intro H.
  destruct (remove_expired tb (expire_fuel c) c now 0) as [[c1 n1]| | |]; cbn [bind] in H; try discriminate.
  destruct (lru_loop tb (lru_fuel c1) c1 0) as [[c2 n2]| | |]; cbn [bind] in H; try discriminate.
  inversion H; subst. reflexivity.
Qed.

(* every operation, from a state satisfying the invariant, completes (no Panic site is
   reached, the fuel suffices) and re-establishes the invariant *)
Lemma step_inv c now o :
  Inv c -> exists c' now' x, step tb c now o = Ok (c', now', x) /\ Inv c' /\ c_desired c' = c_desired c.
Proof.
  intro HI. destruct o as [r|rs|name qt|name qt| |dt]; cbn [step].
  - destruct (shared_insert_ok c now r HI) as (c' & -> & I & _ & _ & D). cbn [bind]. eauto 8.
  - destruct (shared_insert_all_ok rs c now HI) as (c' & -> & I & _ & _ & D). cbn [bind]. eauto 8.
  - destruct (get c now name qt) as [c' rrs] eqn:E. destruct (get_ok _ _ _ _ _ _ HI E) as (I & _ & _ & _ & _ & D & _). eauto 8.
  - destruct (get_raw c now name qt) as [c' rrs] eqn:E. destruct (get_raw_ok _ _ _ _ _ _ HI E) as (I & _ & _ & _ & _ & D & _). eauto 8.
  - destruct (prune_ok tb tb_ok c now HI) as (c1 & c' & rep & evs & -> & _ & I & _ & D & _). cbn [bind]. eauto 8.
  - eauto 8.
Qed.

Lemma run_total ops : forall c now,
  Inv c -> exists c' now' outs, run tb ops c now = Ok (c', now', outs) /\ Inv c' /\
                                c_desired c' = c_desired c /\ length outs = length ops.
Proof.
  induction ops as [|o ops IH]; intros c now HI; cbn [run].
  - exists c, now, []. auto.
  - destruct (step_inv c now o HI) as (c1 & now1 & x & -> & I1 & D1). cbn [bind].
    destruct (IH c1 now1 I1) as (c2 & now2 & outs & -> & I2 & D2 & L2). cbn [bind].
    exists c2, now2, (x :: outs). split; [reflexivity|]. split; [exact I2|]. split; [congruence|]. cbn [length]. lia.
Qed.

(* the invariant holds after every history of a new cache *)
Theorem inv_after_history desired ops c now outs :
  run tb ops (with_desired_size desired) 0 = Ok (c, now, outs) -> Inv c /\ c_desired c = desired.
Proof.
  intro H. destruct (run_total ops (with_desired_size desired) 0 (inv_init desired)) as (c' & now' & outs' & H' & I & D & _).
  rewrite H in H'. inversion H'; subst. auto.
Qed.

Theorem history_never_panics desired ops :
  exists c now outs, run tb ops (with_desired_size desired) 0 = Ok (c, now, outs).
Proof.
  destruct (run_total ops (with_desired_size desired) 0 (inv_init desired)) as (c' & now' & outs' & H' & _). eauto.
Qed.

(* ---- histories ---- *)
Lemma run_prefix ops : forall c0 now0 c now outs,
  run tb ops c0 now0 = Ok (c, now, outs) ->
  forall i o, nth_error ops i = Some o ->
  exists ci nowi ci' nowi' x,
    run tb (firstn i ops) c0 now0 = Ok (ci, nowi, firstn i outs) /\
    step tb ci nowi o = Ok (ci', nowi', x) /\ nth_error outs i = Some x.
Proof.
  induction ops as [|o0 ops IH]; intros c0 now0 c now outs H i o Hi; [destruct i; discriminate|].
  cbn [run] in H.
  destruct (step tb c0 now0 o0) as [[[c1 now1] x1]| | |] eqn:Hs; cbn [bind] in H; try discriminate.
  destruct (run tb ops c1 now1) as [[[c2 now2] outs2]| | |] eqn:Hr; cbn [bind] in H; try discriminate.
  inversion H; subst. destruct i as [|i]; cbn [nth_error firstn] in *.
  - inversion Hi; subst. exists c0, now0, c1, now1, x1. auto.
  - destruct (IH _ _ _ _ _ Hr i o Hi) as (ci & nowi & ci' & nowi' & x & R1 & R2 & R3).
    exists ci, nowi, ci', nowi', x. cbn [run]. rewrite Hs. cbn [bind]. rewrite R1. cbn [bind]. auto.
Qed.

Lemma hist_snoc key h o : hist key (h ++ [o]) = hstep key (hist key h) o.
Proof. unfold hist. rewrite fold_left_app. reflexivity. Qed.

Lemma hist_time key h : fst (hist key h) = time_of h.
Proof.
  unfold time_of. induction h as [|o h IH] using rev_ind; [reflexivity|].
  rewrite !hist_snoc. destruct o; cbn [hstep fst]; rewrite ?IH; reflexivity.
Qed.

(* every cached record carries the expiry instant of its last effective insertion *)
Definition stamped (m : amap) (acc : akey -> option (N * N)) : Prop :=
  forall k e, m k = Some e ->
    exists t0 T, acc k = Some (t0, T) /\ e = t0 + T * NS_PER_S /\ 0 < T.

Lemma stamped_insert m acc now r :
  stamped m acc -> stamped (a_insert m now r) (fun k => ins1 k now (acc k) r).
Proof.
  intros H k e. unfold a_insert, ins1. destruct (N.ltb_spec 0 (rr_ttl r)) as [Hpos|Hz]; cbn [andb]; [|apply H].
  destruct (key_eqb (rr_key r) k); [|apply H].
  intro Hx; inversion Hx; subst. exists now, (rr_ttl r). unfold expiry_of. auto.
Qed.

Lemma stamped_insert_all now rs : forall m acc,
  stamped m acc -> stamped (a_insert_all m now rs) (fun k => fold_left (ins1 k now) rs (acc k)).
Proof.
  induction rs as [|r rs IH]; intros m acc H; cbn [a_insert_all fold_left]; [exact H|].
  apply (IH _ (fun k => ins1 k now (acc k) r)). apply stamped_insert, H.
Qed.

Lemma stamped_ext m m' acc : (forall k, m' k = m k) -> stamped m acc -> stamped m' acc.
Proof. intros He H k e Hk. rewrite He in Hk. apply H, Hk. Qed.

Definition hist_inv (h : list op) (c : cache) (now : N) : Prop :=
  Inv c /\ now = time_of h /\ stamped (abs_map c) (last_insert h).

Lemma step_hist h c now o c' now' x :
  hist_inv h c now -> step tb c now o = Ok (c', now', x) -> hist_inv (h ++ [o]) c' now'.
Proof.
  intros (HI & Hnow & Hst) Hs.
  assert (Htime : forall key, fst (hist key h) = now) by (intro key; rewrite hist_time; auto).
  unfold hist_inv, last_insert. destruct o as [r|rs|name qt|name qt| |dt]; cbn [step] in Hs.
  - destruct (shared_insert_ok c now r HI) as (c1 & E & I & M & _). rewrite E in Hs. cbn [bind] in Hs.
    inversion Hs; subst c1 now' x. split; [exact I|]. split.
    + rewrite <- hist_time with (key := (root_domain, 0, RD_A 0)), hist_snoc. cbn [hstep fst]. symmetry; apply Htime.
    + apply (stamped_ext _ _ _ M). intros k e Hk.
      destruct (stamped_insert _ _ now r Hst k e Hk) as (t0 & T & A1 & A2).
      exists t0, T. rewrite hist_snoc. cbn [hstep snd]. rewrite Htime. auto.
  - destruct (shared_insert_all_ok rs c now HI) as (c1 & E & I & M & _). rewrite E in Hs. cbn [bind] in Hs.
    inversion Hs; subst c1 now' x. split; [exact I|]. split.
    + rewrite <- hist_time with (key := (root_domain, 0, RD_A 0)), hist_snoc. cbn [hstep fst]. symmetry; apply Htime.
    + apply (stamped_ext _ _ _ M). intros k e Hk.
      destruct (stamped_insert_all now rs _ _ Hst k e Hk) as (t0 & T & A1 & A2).
      exists t0, T. rewrite hist_snoc. cbn [hstep snd]. rewrite Htime. auto.
  - destruct (get c now name qt) as [c1 rrs] eqn:E. inversion Hs; subst c1 now' x.
    destruct (get_ok _ _ _ _ _ _ HI E) as (I & M & _). split; [exact I|]. split.
    + rewrite <- hist_time with (key := (root_domain, 0, RD_A 0)), hist_snoc. cbn [hstep]. symmetry; apply Htime.
    + apply (stamped_ext _ _ _ M). intros k e Hk. destruct (Hst k e Hk) as (t0 & T & A1 & A2).
      exists t0, T. rewrite hist_snoc. cbn [hstep]. auto.
  - destruct (get_raw c now name qt) as [c1 rrs] eqn:E. inversion Hs; subst c1 now' x.
    destruct (get_raw_ok _ _ _ _ _ _ HI E) as (I & M & _). split; [exact I|]. split.
    + rewrite <- hist_time with (key := (root_domain, 0, RD_A 0)), hist_snoc. cbn [hstep]. symmetry; apply Htime.
    + apply (stamped_ext _ _ _ M). intros k e Hk. destruct (Hst k e Hk) as (t0 & T & A1 & A2).
      exists t0, T. rewrite hist_snoc. cbn [hstep]. auto.
  - destruct (prune_ok tb tb_ok c now HI) as (c1 & c2 & rep & evs & E & _ & I & _ & _ & _ & _ & _ & _ & M1 & _ & M2 & _).
    rewrite E in Hs. cbn [bind] in Hs. inversion Hs; subst c2 now' x. split; [exact I|]. split.
    + rewrite <- hist_time with (key := (root_domain, 0, RD_A 0)), hist_snoc. cbn [hstep]. symmetry; apply Htime.
    + intros k e Hk. rewrite M2 in Hk. destruct (evicted evs (key_name k)); [discriminate|].
      rewrite M1 in Hk. unfold live_at, restrict in Hk. destruct (abs_map c k) as [e0|] eqn:E0; [|discriminate].
      destruct (now <? e0); [|discriminate]. inversion Hk; subst e0.
      destruct (Hst k e E0) as (t0 & T & A1 & A2). exists t0, T. rewrite hist_snoc. cbn [hstep]. auto.
  - inversion Hs; subst c' now' x. split; [exact HI|]. split.
    + rewrite <- hist_time with (key := (root_domain, 0, RD_A 0)), hist_snoc. cbn [hstep fst]. rewrite Htime. reflexivity.
    + intros k e Hk. destruct (Hst k e Hk) as (t0 & T & A1 & A2). exists t0, T. rewrite hist_snoc. cbn [hstep snd]. auto.
Qed.

Lemma run_hist ops : forall h c now c' now' outs,
  hist_inv h c now -> run tb ops c now = Ok (c', now', outs) -> hist_inv (h ++ ops) c' now'.
Proof.
  induction ops as [|o ops IH]; intros h c now c' now' outs HP H; cbn [run] in H.
  - inversion H; subst. rewrite app_nil_r. exact HP.
  - destruct (step tb c now o) as [[[c1 now1] x1]| | |] eqn:Hs; cbn [bind] in H; try discriminate.
    destruct (run tb ops c1 now1) as [[[c2 now2] outs2]| | |] eqn:Hr; cbn [bind] in H; try discriminate.
    inversion H; subst. replace (h ++ o :: ops) with ((h ++ [o]) ++ ops) by (rewrite <- app_assoc; reflexivity).
    eapply IH; [|exact Hr]. eapply step_hist; eassumption.
Qed.

Lemma hist_inv_init desired : hist_inv [] (with_desired_size desired) 0.
Proof. split; [apply inv_init|]. split; [reflexivity|]. intros k e H. discriminate. Qed.

Lemma remaining_bound e now : remaining e now * NS_PER_S <= e - now.
Proof.
  unfold remaining. assert (N.min ((e - now) / NS_PER_S) U32_MAX <= (e - now) / NS_PER_S) by lia.
  pose proof (N.mul_div_le (e - now) NS_PER_S ltac:(unfold NS_PER_S; lia)). nia.
Qed.

(* C05, the main statement: a record returned by a lookup at step i of a history was
   last inserted (TTL > 0) at t0 with TTL T, the clock now reads less than t0 + T, and
   the TTL reported does not exceed the time left *)
Theorem served_record_is_live desired ops c now outs i name qt rrs r :
  run tb ops (with_desired_size desired) 0 = Ok (c, now, outs) ->
  nth_error ops i = Some (Get name qt) -> nth_error outs i = Some (ORRs rrs) -> In r rrs ->
  exists t0 T,
    last_insert (firstn i ops) (rr_key r) = Some (t0, T) /\
    time_of (firstn i ops) < t0 + T * NS_PER_S /\
    rr_ttl r * NS_PER_S <= t0 + T * NS_PER_S - time_of (firstn i ops) /\
    1 <= rr_ttl r /\ rr_name r = name /\ rr_class r = RC_IN.
Proof.
  intros Hrun Hop Hout Hin.
  destruct (run_prefix _ _ _ _ _ _ Hrun i _ Hop) as (ci & nowi & ci' & nowi' & x & R1 & R2 & R3).
  rewrite Hout in R3. inversion R3; subst x.
  pose proof (run_hist _ _ _ _ _ _ _ (hist_inv_init desired) R1) as (HI & Hnow & Hst). cbn [app] in *.
  cbn [step] in R2. destruct (get ci nowi name qt) as [c1 rrs1] eqn:E. inversion R2; subst.
  destruct (get_ok _ _ _ _ _ _ HI E) as (_ & _ & [_ A] & _).
  apply A in Hin. destruct Hin as (A1 & A2 & _ & e & A3 & A4 & A5). specialize (A5 eq_refl).
  destruct (Hst _ _ A3) as (t0 & T & B1 & B2 & B3). exists t0, T.
  pose proof (remaining_bound e (time_of (firstn i ops))) as Hb. rewrite <- A4 in Hb.
  assert (Hns : NS_PER_S = 1000000000) by reflexivity.
  split; [exact B1|]. subst e. split; [nia|]. split; [exact Hb|]. auto.
Qed.

(* the same for the raw getter, which may also return records whose time is up, but
   then reports TTL 0 *)
Theorem raw_record_ttl_bound desired ops c now outs i name qt rrs r :
  run tb ops (with_desired_size desired) 0 = Ok (c, now, outs) ->
  nth_error ops i = Some (GetRaw name qt) -> nth_error outs i = Some (ORRs rrs) -> In r rrs ->
  exists t0 T,
    last_insert (firstn i ops) (rr_key r) = Some (t0, T) /\
    rr_ttl r * NS_PER_S <= t0 + T * NS_PER_S - time_of (firstn i ops) /\
    rr_name r = name /\ rr_class r = RC_IN.
Proof.
  intros Hrun Hop Hout Hin.
  destruct (run_prefix _ _ _ _ _ _ Hrun i _ Hop) as (ci & nowi & ci' & nowi' & x & R1 & R2 & R3).
  rewrite Hout in R3. inversion R3; subst x.
  pose proof (run_hist _ _ _ _ _ _ _ (hist_inv_init desired) R1) as (HI & Hnow & Hst). cbn [app] in *.
  cbn [step] in R2. destruct (get_raw ci nowi name qt) as [c1 rrs1] eqn:E. inversion R2; subst.
  destruct (get_raw_ok _ _ _ _ _ _ HI E) as (_ & _ & [_ A] & _).
  apply A in Hin. destruct Hin as (A1 & A2 & _ & e & A3 & A4 & _).
  destruct (Hst _ _ A3) as (t0 & T & B1 & B2 & B3). exists t0, T.
  pose proof (remaining_bound e (time_of (firstn i ops))) as Hb. rewrite <- A4 in Hb.
  split; [exact B1|]. subst e. auto.
Qed.

(* ---- prune against the abstract cache ---- *)
Lemma minus_eq m now ev k :
  (if evicted ev (key_name k) then None else live_at now m k) = live_minus m now ev k.
Proof.
  unfold live_at, live_minus, restrict, evicted. destruct (m k) as [e|]; [|destruct (existsb _ ev); reflexivity].
  destruct (now <? e); destruct (existsb _ ev); reflexivity.
Qed.

Lemma prune_refines c now :
  Inv c ->
  exists c' rep evs, prune tb c now = Ok (c', rep) /\ Inv c' /\ c_desired c' = c_desired c /\
    a_prune (abs_map c) (abs_lru c) now (c_desired c) (abs_map c') (abs_lru c') evs /\
    report_ok (abs_map c) (abs_map c') now (c_desired c) evs rep.
Proof.
  intro HI.
  destruct (prune_ok tb tb_ok c now HI)
    as (c1 & c' & rep & evs & E & I1 & I' & D1 & D' & Hrep & L1 & L2 & L3 & M1 & U1 & M2 & U2 & O).
  exists c', rep, evs. split; [exact E|]. split; [exact I'|]. split; [exact D'|].
  assert (Hmap : forall k, abs_map c' k = live_minus (abs_map c) now evs k).
  { intro k. rewrite M2, M1. apply minus_eq. }
  assert (Hmid : forall ev1 cm, (forall key, abs_map cm key = if evicted ev1 (key_name key) then None else abs_map c1 key) ->
                                forall k, abs_map cm k = live_minus (abs_map c) now ev1 k).
  { intros ev1 cm Hcm k. rewrite Hcm, M1. apply minus_eq. }
  pose proof (count_is_distinct_entries c HI) as C0.
  pose proof (count_is_distinct_entries c1 I1) as C1.
  pose proof (count_is_distinct_entries c' I') as C'.
  split.
  - constructor.
    + exact Hmap.
    + (* no name is evicted twice *)
      clear -O. induction evs as [|n evs IH] using rev_ind; [constructor|].
      assert (Hn : ~ In n evs).
      { destruct (O evs n [] eq_refl) as (cm & _ & _ & J & _ & tk & Hk & _).
        rewrite J in Hk. intro Hin. unfold evicted in Hk.
        assert (Hx : existsb (dname_eqb n) evs = true).
        { apply existsb_exists. exists n. split; [exact Hin | apply dname_eqb_eq; reflexivity]. }
        rewrite Hx in Hk. discriminate. }
      assert (Hnd : NoDup evs).
      { apply IH. intros ev1 n0 ev2 Hs. apply (O ev1 n0 (ev2 ++ [n])). rewrite Hs, <- app_assoc. reflexivity. }
      apply (Permutation_NoDup (l := n :: evs)); [apply Permutation_cons_append|]. constructor; assumption.
    + intros n Hn. destruct (abs_lru c' n) as [t|] eqn:Et.
      * rewrite U2 in Et. destruct (evicted evs n); [discriminate|]. symmetry. apply U1, Et.
      * exfalso. exact (entry_has_lru c' n Hn Et).
    + intros n Hn. destruct (abs_lru c' n) as [t|] eqn:Et; [|reflexivity].
      exfalso. apply Hn. eapply lru_has_entry; eassumption.
    + intros ev1 n ev2 Hs. destruct (O ev1 n ev2 Hs) as (cm & Im & Jm & Ju & Hov & tk & Hk & Hmin).
      pose proof (Hmid ev1 cm Jm) as Hcm.
      split; [|split].
      * eapply has_entry_ext; [|eapply lru_has_entry; [exact Im | exact Hk]].
        intro k. symmetry. apply Hcm.
      * intros n1 Hc. pose proof (count_is_distinct_entries cm Im) as Cm.
        assert (n1 = c_size cm) by (eapply card_unique; [exact Hc | eapply card_ext; [|exact Cm]; intro k; symmetry; apply Hcm]).
        lia.
      * intros n' tn tn' Hn' Hl Hl'.
        assert (Hen : has_entry (abs_map cm) n') by (eapply has_entry_ext; [|exact Hn']; exact Hcm).
        destruct (abs_lru cm n') as [t'|] eqn:Et'; [|exfalso; exact (entry_has_lru cm n' Hen Et')].
        pose proof (Hmin n' t' Et') as Hle.
        rewrite Ju in Hk, Et'. destruct (evicted ev1 n); [discriminate|]. destruct (evicted ev1 n'); [discriminate|].
        apply U1 in Hk. apply U1 in Et'. congruence.
    + intros n1 Hc. assert (n1 = c_size c') by (eapply card_unique; eassumption). lia.
  - subst rep. constructor; cbn [pr_overflowed pr_current pr_expired pr_pruned].
    + intros n Hc. assert (n = c_size c) by (eapply card_unique; eassumption). subst n. reflexivity.
    + exact C'.
    + destruct (card_restrict _ _ (fun _ e => now <? e) C0) as (n1 & K1 & K2 & _).
      assert (n1 = c_size c1) by (eapply card_unique; [exact K1 | eapply card_ext; [|exact C1]; intro k; symmetry; apply M1]).
      subst n1. eapply card_ext; [|exact K2]. intro k. unfold restrict. destruct (abs_map c k) as [e|]; [|reflexivity].
      destruct (N.ltb_spec now e); destruct (N.leb_spec e now); cbn [negb]; try reflexivity; lia.
    + destruct (card_restrict _ _ (fun k _ => negb (evicted evs (key_name k))) C1) as (n1 & K1 & K2 & _).
      assert (n1 = c_size c').
      { eapply card_unique; [exact K1 | eapply card_ext; [|exact C']]. intro k. rewrite M2. unfold restrict.
        destruct (evicted evs (key_name k)); cbn [negb]; destruct (abs_map c1 k); reflexivity. }
      subst n1. eapply card_ext; [|exact K2]. intro k. unfold restrict. rewrite M1. unfold live_at, restrict, evicted.
      destruct (abs_map c k) as [e|]; [|reflexivity]. destruct (now <? e); cbn [andb]; [|reflexivity].
      rewrite negb_involutive. reflexivity.
Qed.

(* every operation refines the abstract cache (and re-establishes the invariant) *)
Theorem step_refines c now o :
  Inv c ->
  exists c' now' x, step tb c now o = Ok (c', now', x) /\ Inv c' /\ c_desired c' = c_desired c /\
    abs_step (abs_map c) (abs_lru c) now (c_desired c) o (abs_map c') (abs_lru c') now' x.
Proof.
  intro HI. destruct o as [r|rs|name qt|name qt| |dt]; cbn [step abs_step].
  - destruct (shared_insert_ok c now r HI) as (c' & -> & I & M & L & D). cbn [bind].
    exists c', now, OUnit. auto 8.
  - destruct (shared_insert_all_ok rs c now HI) as (c' & -> & I & M & L & D). cbn [bind].
    exists c', now, OUnit. auto 8.
  - destruct (get c now name qt) as [c' rrs] eqn:E.
    destruct (get_ok _ _ _ _ _ _ HI E) as (I & M & A & L & _ & D & _).
    exists c', now, (ORRs rrs). split; [reflexivity|]. split; [exact I|]. split; [exact D|].
    split; [exact M|]. split; [reflexivity|]. exists rrs. auto.
  - destruct (get_raw c now name qt) as [c' rrs] eqn:E.
    destruct (get_raw_ok _ _ _ _ _ _ HI E) as (I & M & A & L & _ & D & _).
    exists c', now, (ORRs rrs). split; [reflexivity|]. split; [exact I|]. split; [exact D|].
    split; [exact M|]. split; [reflexivity|]. exists rrs. auto.
  - destruct (prune_refines c now HI) as (c' & rep & evs & -> & I & D & A & R). cbn [bind].
    exists c', now, (OPrune rep). split; [reflexivity|]. split; [exact I|]. split; [exact D|].
    split; [reflexivity|]. exists rep, evs. auto.
  - exists c, (now + dt), OUnit. auto 8.
Qed.

(* ---- corollaries at the level of one state ---- *)
Theorem prune_no_expired_left c now c' rep :
  Inv c -> prune tb c now = Ok (c', rep) -> forall k e, abs_map c' k = Some e -> now < e.
Proof.
  intros HI H k e Hk. destruct (prune_refines c now HI) as (c2 & rep2 & evs & E & _ & _ & A & _).
  rewrite H in E. inversion E; subst c2 rep2. rewrite (ap_map _ _ _ _ _ _ _ A) in Hk.
  unfold live_minus, restrict in Hk. destruct (abs_map c k) as [e0|]; [|discriminate].
  destruct (N.ltb_spec now e0); cbn [andb] in Hk; [|discriminate].
  destruct (negb _); [|discriminate]. inversion Hk; subst. assumption.
Qed.

Theorem prune_at_most_desired c now c' rep :
  Inv c -> prune tb c now = Ok (c', rep) ->
  c_size c' <= c_desired c /\ forall n, card (abs_map c') n -> n <= c_desired c.
Proof.
  intros HI H. destruct (prune_refines c now HI) as (c2 & rep2 & evs & E & I & _ & A & _).
  rewrite H in E. inversion E; subst c2 rep2. pose proof (ap_bound _ _ _ _ _ _ _ A) as Hb.
  split; [apply Hb, count_is_distinct_entries, I | exact Hb].
Qed.

Theorem prune_terminates c now : Inv c -> exists c' rep, prune tb c now = Ok (c', rep) /\ Inv c'.
Proof. intro HI. destruct (prune_refines c now HI) as (c' & rep & _ & E & I & _). eauto. Qed.

(* re-inserting a cached record restarts its lifetime and does not add an entry *)
Theorem reinsert_restarts c now r c' :
  Inv c -> 0 < rr_ttl r -> shared_insert c now r = Ok c' ->
  abs_map c' (rr_key r) = Some (now + rr_ttl r * NS_PER_S) /\
  (forall k, k <> rr_key r -> abs_map c' k = abs_map c k) /\
  (abs_map c (rr_key r) <> None -> c_size c' = c_size c).
Proof.
  intros HI Hpos H. destruct (shared_insert_ok c now r HI) as (c2 & E & I & M & _).
  rewrite H in E. inversion E; subst c2.
  assert (Hp : (0 <? rr_ttl r) = true) by (apply N.ltb_lt, Hpos).
  split; [|split].
  - rewrite M. unfold a_insert. rewrite Hp, (proj2 (key_eqb_eq _ _) eq_refl). reflexivity.
  - intros k Hk. rewrite M. unfold a_insert. rewrite Hp. cbn [andb].
    destruct (key_eqb (rr_key r) k) eqn:Ek; [apply key_eqb_eq in Ek; congruence | reflexivity].
  - intro Hin. symmetry. eapply card_same_dom; [|apply count_is_distinct_entries, HI | apply count_is_distinct_entries, I].
    intro k. rewrite M. unfold a_insert. rewrite Hp. cbn [andb].
    destruct (key_eqb (rr_key r) k) eqn:Ek; [|tauto]. apply key_eqb_eq in Ek. subst k.
    split; [intro Hn; contradiction | discriminate].
Qed.

Theorem live_record_is_returned c now name t d e qt c' rrs :
  Inv c -> abs_map c (name, t, d) = Some e -> NS_PER_S <= e - now -> cache_qmatch qt t ->
  get c now name qt = (c', rrs) ->
  In {| rr_name := name; rr_type := t; rr_class := RC_IN; rr_ttl := remaining e now; rr_data := d |} rrs /\
  NoDup (map rr_key rrs).
Proof.
  intros HI Ha Hrem Hq Hg. destruct (get_ok _ _ _ _ _ _ HI Hg) as (_ & _ & [N1 A] & _).
  split; [|exact N1]. apply A. cbn [rr_name rr_class rr_type rr_ttl]. split; [reflexivity|]. split; [reflexivity|].
  split; [exact Hq|]. exists e. unfold rr_key. cbn [rr_name rr_type rr_data]. split; [exact Ha|]. split; [reflexivity|].
  intros _. unfold remaining.
  assert (1 <= (e - now) / NS_PER_S).
  { apply N.div_le_lower_bound; unfold NS_PER_S in *; lia. }
  unfold U32_MAX. lia.
Qed.

(* a record in its last (incomplete) second is withheld by Cache::get: its TTL would read 0 *)
Theorem last_second_withheld c now name qt c' rrs r e :
  Inv c -> get c now name qt = (c', rrs) -> abs_map c (rr_key r) = Some e -> e - now < NS_PER_S -> ~ In r rrs.
Proof.
  intros HI Hg Ha Hlt Hin. destruct (get_ok _ _ _ _ _ _ HI Hg) as (_ & _ & [_ A] & _).
  apply A in Hin. destruct Hin as (_ & _ & _ & e' & Ha' & Httl & Hl). specialize (Hl eq_refl).
  rewrite Ha in Ha'. inversion Ha'; subst e'. unfold remaining in Httl.
  rewrite (N.div_small (e - now) NS_PER_S Hlt) in Httl. unfold U32_MAX in Httl. lia.
Qed.

(* ---- corollaries over histories ---- *)
Theorem stored_record_stamp desired ops c now outs k e :
  run tb ops (with_desired_size desired) 0 = Ok (c, now, outs) -> abs_map c k = Some e ->
  exists t0 T, last_insert ops k = Some (t0, T) /\ 0 < T /\ e = t0 + T * NS_PER_S.
Proof.
  intros Hrun Ha. pose proof (run_hist _ _ _ _ _ _ _ (hist_inv_init desired) Hrun) as (_ & _ & Hst).
  cbn [app] in Hst. destruct (Hst _ _ Ha) as (t0 & T & H1 & H2 & H3). eauto.
Qed.

(* C15 over histories: whatever came before, a prune at step i is an abstract prune of the
   state reached by the first i operations, and reports the true numbers *)
Theorem prune_in_history desired ops c now outs i rep :
  run tb ops (with_desired_size desired) 0 = Ok (c, now, outs) ->
  nth_error ops i = Some Prune -> nth_error outs i = Some (OPrune rep) ->
  exists ci ci' evs,
    run tb (firstn i ops) (with_desired_size desired) 0 = Ok (ci, time_of (firstn i ops), firstn i outs) /\
    prune tb ci (time_of (firstn i ops)) = Ok (ci', rep) /\ Inv ci /\ Inv ci' /\
    a_prune (abs_map ci) (abs_lru ci) (time_of (firstn i ops)) desired (abs_map ci') (abs_lru ci') evs /\
    report_ok (abs_map ci) (abs_map ci') (time_of (firstn i ops)) desired evs rep /\
    (forall k e, abs_map ci' k = Some e -> time_of (firstn i ops) < e) /\
    c_size ci' <= desired /\ card (abs_map ci') (c_size ci').
Proof.
  intros Hrun Hop Hout.
  destruct (run_prefix _ _ _ _ _ _ Hrun i _ Hop) as (ci & nowi & ci' & nowi' & x & R1 & R2 & R3).
  rewrite Hout in R3. inversion R3; subst x.
  pose proof (run_hist _ _ _ _ _ _ _ (hist_inv_init desired) R1) as (HI & Hnow & _). cbn [app] in Hnow.
  destruct (inv_after_history _ _ _ _ _ R1) as [_ Hd]. subst nowi.
  cbn [step] in R2.
  destruct (prune_refines ci (time_of (firstn i ops)) HI) as (c2 & rep2 & evs & E & I2 & D2 & A & R).
  rewrite E in R2. cbn [bind] in R2. inversion R2; subst c2 rep2 nowi'.
  exists ci, ci', evs. rewrite Hd in A, R.
  split; [exact R1|]. split; [exact E|]. split; [exact HI|]. split; [exact I2|]. split; [exact A|]. split; [exact R|].
  split; [exact (prune_no_expired_left ci _ ci' rep HI E)|].
  split; [|apply count_is_distinct_entries, I2].
  rewrite <- Hd. exact (proj1 (prune_at_most_desired ci _ ci' rep HI E)).
Qed.

Theorem count_after_history desired ops c now outs :
  run tb ops (with_desired_size desired) 0 = Ok (c, now, outs) -> card (abs_map c) (c_size c).
Proof. intro H. apply count_is_distinct_entries. eapply inv_after_history, H. Qed.
End Tie4.

(* the tie-break used by the extracted driver is a legal one *)
Lemma tb_first_ok : tie_ok tb_first.
Proof.
  intro l. split.
  - intros x H. destruct l; [discriminate|]. inversion H; subst. left; reflexivity.
  - intros Hne. destruct l; [congruence | discriminate].
Qed.

(* the numbers of expired and remaining records a prune reports do not depend on how
   PriorityQueue::pop breaks ties among equal expiry instants *)
Theorem expired_count_tie_independent tb1 tb2 c now c1 r1 c2 r2 :
  tie_ok tb1 -> tie_ok tb2 -> Inv c ->
  prune tb1 c now = Ok (c1, r1) -> prune tb2 c now = Ok (c2, r2) ->
  pr_expired r1 = pr_expired r2 /\ pr_overflowed r1 = pr_overflowed r2.
Proof.
  intros T1 T2 HI H1 H2.
  destruct (prune_refines tb1 T1 c now HI) as (c1' & r1' & ev1 & E1 & _ & _ & _ & R1).
  destruct (prune_refines tb2 T2 c now HI) as (c2' & r2' & ev2 & E2 & _ & _ & _ & R2).
  rewrite H1 in E1. rewrite H2 in E2. inversion E1; inversion E2; subst.
  split.
  - eapply card_unique; [exact (ro_expired _ _ _ _ _ _ R1) | exact (ro_expired _ _ _ _ _ _ R2)].
  - pose proof (count_is_distinct_entries c HI) as C0.
    rewrite (ro_overflowed _ _ _ _ _ _ R1 _ C0), (ro_overflowed _ _ _ _ _ _ R2 _ C0). reflexivity.
Qed.
