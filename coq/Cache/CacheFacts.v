(* Cache/CacheFacts.v -- generic lemmas used by CacheProofs.v: association lists with a
   key equality that reflects Leibniz equality, sums over them, minima, and
   [rdata_eqb_eq]. *)
From Coq Require Import Permutation.
From RV Require Import Base.Prelude Name.NameModel Name.NameProofs Wire.WireTypes.

Lemma llen_app {A} (a b : list A) : llen (a ++ b) = llen a + llen b.
Proof. unfold llen. rewrite app_length. lia. Qed.
Lemma llen_cons {A} (x : A) l : llen (x :: l) = 1 + llen l.
Proof. unfold llen. cbn [length]. lia. Qed.
Lemma llen_nil {A} : llen (@nil A) = 0.
Proof. reflexivity. Qed.
Lemma llen_perm {A} (a b : list A) : Permutation a b -> llen a = llen b.
Proof. intro H. unfold llen. rewrite (Permutation_length H). reflexivity. Qed.

(* ---- rdata equality ---- *)
Lemma rdata_eqb_eq a b : rdata_eqb a b = true <-> a = b.
Proof.
  destruct a, b; cbn [rdata_eqb]; try (split; [discriminate | intro H; discriminate H]);
    repeat rewrite andb_true_iff; repeat rewrite N.eqb_eq; repeat rewrite dname_eqb_eq;
    repeat rewrite leqb_eq; split; intro H.
  all: try (inversion H; subst; tauto).
  all: try (subst; reflexivity).
  all: try (repeat match goal with H : _ /\ _ |- _ => destruct H end; subst; reflexivity).
Qed.

Section Assoc.
  Context {K V : Type} (keqb : K -> K -> bool).
  Hypothesis keqb_eq : forall a b, keqb a b = true <-> a = b.

  Lemma keqb_refl a : keqb a a = true.
  Proof. apply keqb_eq. reflexivity. Qed.
  Lemma keqb_neq a b : a <> b -> keqb a b = false.
  Proof. intro H. destruct (keqb a b) eqn:E; [apply keqb_eq in E; contradiction | reflexivity]. Qed.
  Lemma keqb_false a b : keqb a b = false -> a <> b.
  Proof. intros E ->. rewrite keqb_refl in E. discriminate. Qed.
  Lemma keqb_sym a b : keqb a b = keqb b a.
  Proof.
    destruct (keqb a b) eqn:E.
    - apply keqb_eq in E. subst. symmetry. apply keqb_refl.
    - symmetry. apply keqb_neq. intro H. subst. rewrite keqb_refl in E. discriminate.
  Qed.

  Notation lookup := (alookup keqb).
  Notation replace := (areplace keqb).
  Notation remove := (aremove keqb).
  Notation insert := (ainsert keqb).
  Notation keys m := (map fst m).

  Lemma lookup_in k (m : list (K * V)) v : lookup k m = Some v -> In (k, v) m.
  Proof.
    induction m as [|[k' v'] m IH]; cbn [alookup]; [discriminate|].
    destruct (keqb k k') eqn:E.
    - apply keqb_eq in E. subst. intro H; inversion H; subst. left; reflexivity.
    - intro H. right. apply IH, H.
  Qed.

  Lemma lookup_none k (m : list (K * V)) : lookup k m = None <-> ~ In k (keys m).
  Proof.
    induction m as [|[k' v'] m IH]; cbn [alookup map fst In]; [tauto|].
    destruct (keqb k k') eqn:E.
    - apply keqb_eq in E. subst. split; [discriminate | intro H; exfalso; apply H; left; reflexivity].
    - apply keqb_false in E. rewrite IH. split; [intros H [H1|H1]; [congruence | tauto] | tauto].
  Qed.

  Lemma lookup_some_key k (m : list (K * V)) v : lookup k m = Some v -> In k (keys m).
  Proof. intro H. apply lookup_in in H. apply (in_map fst) in H. exact H. Qed.

  Lemma in_lookup k v (m : list (K * V)) : NoDup (keys m) -> In (k, v) m -> lookup k m = Some v.
  Proof.
    induction m as [|[k' v'] m IH]; cbn [alookup map fst In]; [tauto|].
    intros Hnd [H|H].
    - inversion H; subst. rewrite keqb_refl. reflexivity.
    - inversion Hnd as [|? ? Hni Hnd']; subst.
      destruct (keqb k k') eqn:E.
      + apply keqb_eq in E. subst. exfalso. apply Hni. apply (in_map fst) in H. exact H.
      + apply IH; assumption.
  Qed.

  Lemma lookup_iff k v (m : list (K * V)) : NoDup (keys m) -> (lookup k m = Some v <-> In (k, v) m).
  Proof. intro H. split; [apply lookup_in | apply in_lookup, H]. Qed.

  (* the split form of a successful lookup *)
  Lemma lookup_split k (m : list (K * V)) v :
    lookup k m = Some v ->
    exists pre suf, m = pre ++ (k, v) :: suf /\ lookup k pre = None /\
      (forall v', replace k v' m = pre ++ (k, v') :: suf) /\ remove k m = pre ++ suf.
  Proof.
    induction m as [|[k' v0] m IH]; cbn [alookup areplace aremove]; [discriminate|].
    destruct (keqb k k') eqn:E.
    - apply keqb_eq in E. subst. intro H; inversion H; subst.
      exists [], m. cbn [app alookup]. auto.
    - intro H. destruct (IH H) as (pre & suf & -> & Hn & Hr & Hd).
      exists ((k', v0) :: pre), suf. cbn [app alookup]. rewrite E.
      split; [reflexivity|]. split; [exact Hn|]. split.
      + intro v'. rewrite Hr. reflexivity.
      + rewrite Hd. reflexivity.
  Qed.

  Lemma lookup_app k (a b : list (K * V)) :
    lookup k (a ++ b) = match lookup k a with Some v => Some v | None => lookup k b end.
  Proof.
    induction a as [|[k' v'] a IH]; cbn [app alookup]; [reflexivity|].
    destruct (keqb k k'); [reflexivity | exact IH].
  Qed.

  Lemma replace_none k v (m : list (K * V)) : lookup k m = None -> replace k v m = m.
  Proof.
    induction m as [|[k' v'] m IH]; cbn [alookup areplace]; [reflexivity|].
    destruct (keqb k k'); [discriminate|]. intro H. rewrite IH; auto.
  Qed.
  Lemma remove_none k (m : list (K * V)) : lookup k m = None -> remove k m = m.
  Proof.
    induction m as [|[k' v'] m IH]; cbn [alookup aremove]; [reflexivity|].
    destruct (keqb k k'); [discriminate|]. intro H. rewrite IH; auto.
  Qed.

  Lemma keys_replace k v (m : list (K * V)) : keys (replace k v m) = keys m.
  Proof.
    induction m as [|[k' v'] m IH]; cbn [areplace map fst]; [reflexivity|].
    destruct (keqb k k'); cbn [map fst]; [reflexivity | rewrite IH; reflexivity].
  Qed.

  Lemma lookup_replace k' k v (m : list (K * V)) :
    lookup k' (replace k v m) =
    if keqb k' k then match lookup k m with Some _ => Some v | None => None end else lookup k' m.
  Proof.
    induction m as [|[k0 v0] m IH]; cbn [areplace alookup].
    - destruct (keqb k' k); reflexivity.
    - destruct (keqb k k0) eqn:E; cbn [alookup].
      + apply keqb_eq in E. subst k0. destruct (keqb k' k); reflexivity.
      + destruct (keqb k' k0) eqn:E2.
        * apply keqb_eq in E2. subst k0. rewrite (keqb_sym k' k), E. reflexivity.
        * exact IH.
  Qed.

  Lemma lookup_remove k' k (m : list (K * V)) : NoDup (keys m) ->
    lookup k' (remove k m) = if keqb k' k then None else lookup k' m.
  Proof.
    induction m as [|[k0 v0] m IH]; cbn [aremove alookup map fst]; intro Hnd.
    - destruct (keqb k' k); reflexivity.
    - inversion Hnd as [|? ? Hni Hnd']; subst.
      destruct (keqb k k0) eqn:E.
      + apply keqb_eq in E. subst k0. destruct (keqb k' k) eqn:E2; [|reflexivity].
        apply keqb_eq in E2. subst k'. apply lookup_none. exact Hni.
      + cbn [alookup]. destruct (keqb k' k0) eqn:E2.
        * apply keqb_eq in E2. subst k0. rewrite (keqb_sym k' k), E. reflexivity.
        * apply IH. exact Hnd'.
  Qed.

  Lemma keys_remove_in k k' (m : list (K * V)) : In k' (keys (remove k m)) -> In k' (keys m).
  Proof.
    induction m as [|[k0 v0] m IH]; cbn [aremove map fst In]; [tauto|].
    destruct (keqb k k0); cbn [map fst In]; tauto.
  Qed.
  Lemma nodup_remove k (m : list (K * V)) : NoDup (keys m) -> NoDup (keys (remove k m)).
  Proof.
    induction m as [|[k0 v0] m IH]; cbn [aremove map fst]; intro Hnd; [constructor|].
    inversion Hnd as [|? ? Hni Hnd']; subst.
    destruct (keqb k k0); [exact Hnd'|]. cbn [map fst]. constructor; [|apply IH, Hnd'].
    intro H. apply Hni. eapply keys_remove_in, H.
  Qed.
  Lemma in_remove k e (m : list (K * V)) : In e (remove k m) -> In e m.
  Proof.
    induction m as [|[k0 v0] m IH]; cbn [aremove In]; [tauto|].
    destruct (keqb k k0); cbn [In]; tauto.
  Qed.

  Lemma lookup_insert k' k v (m : list (K * V)) :
    lookup k' (insert k v m) = if keqb k' k then Some v else lookup k' m.
  Proof.
    unfold ainsert. destruct (lookup k m) eqn:E.
    - rewrite lookup_replace, E. reflexivity.
    - rewrite lookup_app. cbn [alookup]. destruct (keqb k' k) eqn:E2.
      + apply keqb_eq in E2. subst. rewrite E. reflexivity.
      + destruct (lookup k' m); reflexivity.
  Qed.
  Lemma nodup_insert k v (m : list (K * V)) : NoDup (keys m) -> NoDup (keys (insert k v m)).
  Proof.
    unfold ainsert. intro H. destruct (lookup k m) eqn:E.
    - rewrite keys_replace. exact H.
    - rewrite map_app. cbn [map fst]. apply lookup_none in E.
      apply (Permutation_NoDup (l := k :: keys m)); [apply Permutation_cons_append|].
      constructor; assumption.
  Qed.
  Lemma insert_none k v (m : list (K * V)) : lookup k m = None -> insert k v m = m ++ [(k, v)].
  Proof. unfold ainsert. intros ->. reflexivity. Qed.

  Lemma forall_replace (P : K * V -> Prop) k v (m : list (K * V)) :
    Forall P m -> P (k, v) -> Forall P (replace k v m).
  Proof.
    induction m as [|[k0 v0] m IH]; cbn [areplace]; intros H Hp; [constructor|].
    inversion H; subst. destruct (keqb k k0) eqn:E.
    - apply keqb_eq in E. subst. constructor; assumption.
    - constructor; [assumption | apply IH; assumption].
  Qed.
  Lemma forall_remove (P : K * V -> Prop) k (m : list (K * V)) : Forall P m -> Forall P (remove k m).
  Proof. intro H. apply Forall_forall. intros e He. apply in_remove in He. eapply Forall_forall in H; eauto. Qed.
  Lemma forall_insert (P : K * V -> Prop) k v (m : list (K * V)) :
    Forall P m -> P (k, v) -> Forall P (insert k v m).
  Proof.
    unfold ainsert. intros H Hp. destruct (lookup k m).
    - apply forall_replace; assumption.
    - apply Forall_app. split; [assumption | constructor; [assumption | constructor]].
  Qed.

  (* two duplicate-free association lists with the same entries are the same map *)
  Lemma lookup_ext (m1 m2 : list (K * V)) k :
    NoDup (keys m1) -> NoDup (keys m2) -> (forall e, In e m1 <-> In e m2) -> lookup k m1 = lookup k m2.
  Proof.
    intros H1 H2 H. destruct (lookup k m1) eqn:E1.
    - symmetry. apply in_lookup; [exact H2|]. apply H. apply lookup_in. exact E1.
    - destruct (lookup k m2) eqn:E2; [|reflexivity].
      apply lookup_in, H, (in_lookup _ _ _ H1) in E2. congruence.
  Qed.

  Lemma lookup_ext_key (m1 m2 : list (K * V)) k :
    NoDup (keys m1) -> NoDup (keys m2) -> (forall v, In (k, v) m1 <-> In (k, v) m2) ->
    lookup k m1 = lookup k m2.
  Proof.
    intros H1 H2 H. destruct (lookup k m1) eqn:E1.
    - symmetry. apply in_lookup; [exact H2|]. apply H. apply lookup_in. exact E1.
    - destruct (lookup k m2) eqn:E2; [|reflexivity].
      apply lookup_in, H, (in_lookup _ _ _ H1) in E2. congruence.
  Qed.

  Lemma lookup_forall (P : K * V -> Prop) k v (m : list (K * V)) : Forall P m -> lookup k m = Some v -> P (k, v).
  Proof. intros H Hl. apply lookup_in in Hl. rewrite Forall_forall in H. apply H, Hl. Qed.

  (* sums *)
  Definition asum (f : V -> N) (m : list (K * V)) : N := fold_right (fun e a => f (snd e) + a) 0 m.
  Lemma asum_app f a b : asum f (a ++ b) = asum f a + asum f b.
  Proof.
    induction a as [|e a IH]; [cbn [app]; change (asum f []) with 0; lia|].
    change (asum f ((e :: a) ++ b)) with (f (snd e) + asum f (a ++ b)).
    change (asum f (e :: a)) with (f (snd e) + asum f a). lia.
  Qed.
  Lemma asum_cons f e a : asum f (e :: a) = f (snd e) + asum f a.
  Proof. reflexivity. Qed.
  Lemma asum_lookup_le f k (m : list (K * V)) v : lookup k m = Some v -> f v <= asum f m.
  Proof.
    intro H. destruct (lookup_split _ _ _ H) as (pre & suf & -> & _).
    rewrite asum_app, asum_cons. cbn [snd]. lia.
  Qed.
  Lemma asum_replace f k (m : list (K * V)) v v' :
    lookup k m = Some v -> asum f (replace k v' m) + f v = asum f m + f v'.
  Proof.
    intro H. destruct (lookup_split _ _ _ H) as (pre & suf & -> & _ & Hr & _).
    rewrite Hr. rewrite !asum_app, !asum_cons. cbn [snd]. lia.
  Qed.
  Lemma asum_remove f k (m : list (K * V)) v :
    lookup k m = Some v -> asum f (remove k m) + f v = asum f m.
  Proof.
    intro H. destruct (lookup_split _ _ _ H) as (pre & suf & -> & _ & _ & Hd).
    rewrite Hd. rewrite !asum_app, !asum_cons. cbn [snd]. lia.
  Qed.
End Assoc.

(* ---- minima ---- *)
Definition min_of (m : N) (l : list N) : Prop := In m l /\ Forall (fun x => m <= x) l.

Lemma min_of_perm m l l' : Permutation l l' -> min_of m l -> min_of m l'.
Proof.
  intros Hp [H1 H2]. split; [eapply Permutation_in; eassumption|].
  eapply Permutation_Forall; eassumption.
Qed.
Lemma min_of_add m l x : min_of m l -> min_of (if x <? m then x else m) (x :: l).
Proof.
  intros [H1 H2]. destruct (N.ltb_spec x m) as [H|H]; split.
  - left; reflexivity.
  - constructor; [lia|]. eapply Forall_impl; [|exact H2]. cbn beta. intros; lia.
  - right; exact H1.
  - constructor; [lia | exact H2].
Qed.
Lemma min_of_single x : min_of x [x].
Proof. split; [left; reflexivity | constructor; [lia | constructor]]. Qed.
Lemma min_of_unique m m' l : min_of m l -> min_of m' l -> m = m'.
Proof.
  intros [H1 H2] [H3 H4]. rewrite Forall_forall in H2, H4.
  apply H2 in H3. apply H4 in H1. lia.
Qed.
Lemma min_of_le m l x : min_of m l -> In x l -> m <= x.
Proof. intros [_ H] Hx. rewrite Forall_forall in H. apply H, Hx. Qed.

(* fold computing a minimum from an initial value *)
Lemma fold_min_spec (l : list N) init :
  min_of (fold_left (fun acc e => if e <? acc then e else acc) l init) (init :: l).
Proof.
  revert init. induction l as [|x l IH]; intro init; cbn [fold_left].
  - apply min_of_single.
  - specialize (IH (if x <? init then x else init)).
    destruct IH as [H1 H2]. split.
    + destruct H1 as [H1|H1]; [|right; right; exact H1].
      rewrite <- H1. destruct (x <? init); [right; left | left]; reflexivity.
    + inversion H2 as [|? ? Ha Hb]; subst. constructor; [|constructor; [|exact Hb]].
      * destruct (N.ltb_spec x init); lia.
      * destruct (N.ltb_spec x init); lia.
Qed.
