(* Ip/IpModel.v -- executable model of Rust's IP address text codec, which is
   outside /repo but decides what hosts/deserialise.rs accepts and what
   hosts/serialise.rs prints:

     IpAddr::from_str          core/src/net/parser.rs  (Parser, read_number,
                               read_ipv4_addr, read_ipv6_addr, read_ip_addr,
                               parse_with)
     Display for Ipv4Addr / Ipv6Addr      core/src/net/ip_addr.rs

   transcribed from the source shipped with the toolchain /repo builds with
   (rust-toolchain.toml: nightly; rustc 1.97.0-nightly).  Definitions only.

   The parser works on the UTF-8 bytes of the string ([parse_ascii
   (s.as_bytes())]) and reads them as Latin-1 chars ([char::from(b)]), so every
   function here takes a byte list; [read_atomically] (restore the state on
   failure) is what returning [None] without a new state does.

   Values: an IPv4 address is its u32 (as in [RD_A]); an IPv6 address is its
   eight u16 segments (as in [RD_AAAA]). *)
From RV Require Import Base.Prelude Name.NameModel.   (* NameModel: is_nil only *)

Inductive ipaddr :=
| V4 (a : N)                 (* u32 *)
| V6 (segs : list N).        (* 8 x u16 *)

Definition ipaddr_eqb (a b : ipaddr) : bool :=
  match a, b with
  | V4 x, V4 y => x =? y
  | V6 x, V6 y => leqb x y
  | _, _ => false
  end.

(* ---- parser ---- *)

(* char::to_digit(radix) for radix 10 and 16 *)
Definition to_digit (radix c : N) : option N :=
  let d := if is_digit c then Some (c - 48)
           else if (97 <=? c) && (c <=? 122) then Some (c - 87)
           else if (65 <=? c) && (c <=? 90) then Some (c - 55)
           else None in
  match d with
  | Some v => if v <? radix then Some v else None
  | None => None
  end.

(* the while loop of read_number (max_digits = Some maxd): reads digits until the
   first non-digit or the end; None = [return None] because of too many digits.
   Result: (value, digit_count, remaining input) *)
Fixpoint read_digits (radix maxd : N) (s : list N) (result count : N) : option (N * N * list N) :=
  match s with
  | c :: t =>
    match to_digit radix c with
    | Some d =>
      let count' := count + 1 in
      if maxd <? count' then None
      else read_digits radix maxd t (result * radix + d) count'
    | None => Some (result, count, s)
    end
  | [] => Some (result, count, s)
  end.

(* read_number::<T>(radix, Some(maxd), allow_zero_prefix); [bound] = T::MAX
   (the final [result.try_into().ok()]) *)
Definition read_number (radix maxd : N) (allow_zero_prefix : bool) (bound : N) (s : list N)
  : option (N * list N) :=
  let has_leading_zero := match s with 48 :: _ => true | _ => false end in
  match read_digits radix maxd s 0 0 with
  | None => None
  | Some (r, cnt, rest) =>
    if cnt =? 0 then None
    else if negb allow_zero_prefix && has_leading_zero && (1 <? cnt) then None
    else if r <=? bound then Some (r, rest) else None
  end.

(* read_separator(sep, index, inner) *)
Definition read_separator {T} (sep index : N) (inner : list N -> option (T * list N)) (s : list N)
  : option (T * list N) :=
  if 0 <? index then
    match s with
    | c :: t => if c =? sep then inner t else None
    | [] => None
    end
  else inner s.

Definition read_octet (i : N) (s : list N) : option (N * list N) :=
  read_separator 46 i (read_number 10 3 false 255) s.

(* read_ipv4_addr: four octets; the value is the big-endian u32 *)
Definition read_ipv4_addr (s : list N) : option (N * list N) :=
  match read_octet 0 s with
  | Some (a, s1) =>
    match read_octet 1 s1 with
    | Some (b, s2) =>
      match read_octet 2 s2 with
      | Some (c, s3) =>
        match read_octet 3 s3 with
        | Some (d, s4) => Some (u32_be a b c d, s4)
        | None => None
        end
      | None => None
      end
    | None => None
    end
  | None => None
  end.

(* read_groups(p, groups) with limit = groups.len(): [k] iterations left, [i]
   the index, [acc] the groups read so far.  Returns (groups read, whether an
   embedded IPv4 address ended them, remaining input). *)
Fixpoint read_groups (k : nat) (i limit : N) (acc : list N) (s : list N) : list N * bool * list N :=
  match k with
  | O => (acc, false, s)
  | S k' =>
    match (if i + 1 <? limit then read_separator 58 i read_ipv4_addr s else None) with
    | Some (v4, rest) => (acc ++ [v4 / 65536; v4 mod 65536], true, rest)
    | None =>
      match read_separator 58 i (read_number 16 4 true 65535) s with
      | Some (g, rest) => read_groups k' (i + 1) limit (acc ++ [g]) rest
      | None => (acc, false, s)
      end
    end
  end.

Fixpoint zeros (n : nat) : list N := match n with O => [] | S m => 0 :: zeros m end.

(* read_ipv6_addr *)
Definition read_ipv6_addr (s : list N) : option (list N * list N) :=
  let '(head, head_ipv4, s1) := read_groups 8 0 8 [] s in
  let head_size := llen head in
  if head_size =? 8 then Some (head, s1)
  else if head_ipv4 then None
  else
    match s1 with
    | 58 :: 58 :: s2 =>
      let limit := 8 - (head_size + 1) in
      let '(tail, _, s3) := read_groups (N.to_nat limit) 0 limit [] s2 in
      Some (head ++ zeros (8 - length head - length tail) ++ tail, s3)
    | _ => None
    end.

(* read_ip_addr under parse_with: IPv4 first, IPv6 only if that fails; the whole
   input must have been consumed *)
Definition parse_ip_bytes (bs : list N) : option ipaddr :=
  match read_ipv4_addr bs with
  | Some (a, rest) => if is_nil rest then Some (V4 a) else None
  | None =>
    match read_ipv6_addr bs with
    | Some (g, rest) => if is_nil rest then Some (V6 g) else None
    | None => None
    end
  end.

(* IpAddr::from_str on a &str given as scalar values *)
Definition parse_ip (s : list N) : option ipaddr := parse_ip_bytes (utf8 s).

Definition parse_v4 (s : list N) : option N :=
  match read_ipv4_addr (utf8 s) with
  | Some (a, rest) => if is_nil rest then Some a else None
  | None => None
  end.

(* ---- Display ---- *)

Definition octets_of (a : N) : list N := u32_bytes a.

(* "{}.{}.{}.{}" *)
Definition show_v4 (a : N) : list N :=
  show_dec ((a / 16777216) mod 256) ++ 46 :: show_dec ((a / 65536) mod 256)
    ++ 46 :: show_dec ((a / 256) mod 256) ++ 46 :: show_dec (a mod 256).

Definition hex_digit (d : N) : N := if d <? 10 then 48 + d else 87 + d.

(* "{:x}" of a u16 *)
Definition show_hex16 (n : N) : list N :=
  if n <? 16 then [hex_digit n]
  else if n <? 256 then [hex_digit (n / 16); hex_digit (n mod 16)]
  else if n <? 4096 then [hex_digit (n / 256); hex_digit ((n / 16) mod 16); hex_digit (n mod 16)]
  else [hex_digit ((n / 4096) mod 16); hex_digit ((n / 256) mod 16); hex_digit ((n / 16) mod 16); hex_digit (n mod 16)].

(* fmt_subslice *)
Fixpoint fmt_subslice (chunk : list N) : list N :=
  match chunk with
  | [] => []
  | [x] => show_hex16 x
  | x :: t => show_hex16 x ++ 58 :: fmt_subslice t
  end.

(* the loop finding the first longest run of zero segments:
   state (longest.start, longest.len, current.start, current.len) *)
Fixpoint zero_span (segs : list N) (i : N) (ls ll cs cl : N) : N * N :=
  match segs with
  | [] => (ls, ll)
  | g :: t =>
    if g =? 0 then
      let cs' := if cl =? 0 then i else cs in
      let cl' := cl + 1 in
      if ll <? cl' then zero_span t (i + 1) cs' cl' cs' cl'
      else zero_span t (i + 1) ls ll cs' cl'
    else zero_span t (i + 1) ls ll 0 0
  end.

(* to_ipv4_mapped *)
Definition ipv4_mapped (segs : list N) : option N :=
  match segs with
  | [a; b; c; d; e; f; g6; g7] =>
    if (a =? 0) && (b =? 0) && (c =? 0) && (d =? 0) && (e =? 0) && (f =? 65535)
    then Some (g6 * 65536 + g7) else None
  | _ => None
  end.

Definition show_v6 (segs : list N) : list N :=
  match ipv4_mapped segs with
  | Some v4 => [58; 58; 102; 102; 102; 102; 58] ++ show_v4 v4          (* "::ffff:" *)
  | None =>
    let '(start, len) := zero_span segs 0 0 0 0 0 in
    if 1 <? len then
      fmt_subslice (firstn (N.to_nat start) segs) ++ [58; 58]
        ++ fmt_subslice (skipn (N.to_nat (start + len)) segs)
    else fmt_subslice segs
  end.

Definition show_ip (a : ipaddr) : list N :=
  match a with V4 x => show_v4 x | V6 g => show_v6 g end.
