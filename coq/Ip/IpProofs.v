(* Ip/IpProofs.v -- facts about the model of std's IP address codec.
   Main results:
     ipv4_roundtrip      parse_v4 (show_v4 a) = Some a            for all a < 2^32
     ipv4_roundtrip_ip   parse_ip (show_v4 a) = Some (V4 a)
     show_v4_chars       show_v4 a consists of decimal digits and dots only
     ipv6_roundtrip      parse_ip (show_v6 g) = Some (V6 g)       for all 8 x u16 g
     show_v6_chars       show_v6 g consists of [0-9a-f], ':' and '.' only and is not empty *)
From RV Require Import Base.Prelude Name.NameModel Name.NameSpec Name.NameProofs Ip.IpModel.
From Coq Require Import ZArith Lia.

(* value of a digit string read left to right, starting from r *)
Definition dval (ds : list N) (r : N) : N := fold_left (fun acc c => acc * 10 + (c - 48)) ds r.

Definition nondigit_head (radix : N) (s : list N) : Prop :=
  match s with [] => True | c :: _ => to_digit radix c = None end.

Lemma is_digit_range c : is_digit c = true <-> 48 <= c <= 57.
Proof.
  unfold is_digit. rewrite andb_true_iff, !N.leb_le. tauto.
Qed.

Lemma to_digit10 c : is_digit c = true -> to_digit 10 c = Some (c - 48).
Proof.
  intros H. unfold to_digit. rewrite H. apply is_digit_range in H.
  assert (c - 48 <? 10 = true) as -> by (apply N.ltb_lt; lia). reflexivity.
Qed.

Lemma read_digits_app maxd ds : forall rest r cnt,
  forallb is_digit ds = true -> nondigit_head 10 rest -> cnt + llen ds <= maxd ->
  read_digits 10 maxd (ds ++ rest) r cnt = Some (dval ds r, cnt + llen ds, rest).
Proof.
  induction ds as [|d ds IH]; intros rest r cnt Hd Hn Hc.
  - cbn [app dval fold_left]. rewrite llen_nil, N.add_0_r.
    destruct rest as [|c t]; cbn [read_digits]; [reflexivity|].
    cbn [nondigit_head] in Hn. rewrite Hn. reflexivity.
  - cbn [forallb] in Hd. apply andb_true_iff in Hd as [Hd1 Hd2].
    rewrite llen_cons in Hc.
    cbn [app read_digits]. rewrite (to_digit10 _ Hd1).
    assert (maxd <? cnt + 1 = false) as -> by (apply N.ltb_ge; lia).
    rewrite IH by (auto; lia).
    rewrite llen_cons. cbn [dval fold_left]. f_equal. f_equal. f_equal. lia.
Qed.

(* everything the proof needs to know about the decimal rendering of an octet,
   as one boolean checked over all 256 octets *)
Definition octet_ok (o : N) : bool :=
  let ds := show_dec o in
  forallb is_digit ds && (llen ds <=? 3) && (1 <=? llen ds) && (dval ds 0 =? o)
  && (negb (match ds with 48 :: _ => true | _ => false end) || (llen ds =? 1)).

Lemma octets_ok_sweep : forallb octet_ok (map N.of_nat (seq 0 256)) = true.
Proof. vm_compute. reflexivity. Qed.

Lemma octet_ok_all o : o < 256 -> octet_ok o = true.
Proof.
  intros H. pose proof octets_ok_sweep as S. rewrite forallb_forall in S. apply S.
  rewrite <- (N2Nat.id o). apply in_map. apply in_seq. lia.
Qed.

Lemma read_number_octet o rest : o < 256 -> nondigit_head 10 rest ->
  read_number 10 3 false 255 (show_dec o ++ rest) = Some (o, rest).
Proof.
  intros Ho Hn. pose proof (octet_ok_all o Ho) as K. unfold octet_ok in K. cbv zeta in K.
  rewrite !andb_true_iff in K. destruct K as [[[[K1 K2] K3] K4] K5].
  apply N.leb_le in K2, K3. apply N.eqb_eq in K4.
  unfold read_number. rewrite read_digits_app by (auto; lia).
  rewrite N.add_0_l.
  assert (llen (show_dec o) =? 0 = false) as -> by (apply N.eqb_neq; lia).
  rewrite K4.
  assert (o <=? 255 = true) as -> by (apply N.leb_le; lia).
  destruct (show_dec o) as [|d ds] eqn:E; [rewrite llen_nil in K3; lia|].
  cbn [app negb andb].
  destruct (N.eq_dec d 48) as [->|Hd].
  - cbn [negb orb] in K5. apply N.eqb_eq in K5. rewrite K5.
    assert (1 <? 1 = false) as -> by reflexivity. reflexivity.
  - assert ((match d with 48 => true | _ => false end) = false) as ->.
    { destruct d as [|p]; [reflexivity|].
      do 6 (destruct p as [p|p|]; try reflexivity). exfalso. apply Hd. reflexivity. }
    reflexivity.
Qed.

Lemma dot_nondigit t : nondigit_head 10 (46 :: t).
Proof. reflexivity. Qed.

Lemma read_octet_0 o rest : o < 256 -> nondigit_head 10 rest ->
  read_octet 0 (show_dec o ++ rest) = Some (o, rest).
Proof.
  intros. unfold read_octet, read_separator.
  assert (0 <? 0 = false) as -> by reflexivity. apply read_number_octet; assumption.
Qed.

Lemma read_octet_sep i o rest : 0 < i -> o < 256 -> nondigit_head 10 rest ->
  read_octet i (46 :: show_dec o ++ rest) = Some (o, rest).
Proof.
  intros Hi ? ?. unfold read_octet, read_separator.
  assert (0 <? i = true) as -> by (apply N.ltb_lt; exact Hi).
  assert (46 =? 46 = true) as -> by reflexivity. apply read_number_octet; assumption.
Qed.

Lemma u32_be_bytes a : a < 4294967296 ->
  u32_be ((a / 16777216) mod 256) ((a / 65536) mod 256) ((a / 256) mod 256) (a mod 256) = a.
Proof.
  intros Ha. unfold u32_be.
  change 16777216 with (256 * 256 * 256). change 65536 with (256 * 256).
  rewrite <- !N.div_div by discriminate.
  pose proof (N.div_mod a 256 ltac:(discriminate)) as E0.
  pose proof (N.div_mod (a / 256) 256 ltac:(discriminate)) as E1.
  pose proof (N.div_mod (a / 256 / 256) 256 ltac:(discriminate)) as E2.
  assert (E3 : (a / 256 / 256 / 256) mod 256 = a / 256 / 256 / 256).
  { apply N.mod_small. apply N.div_lt_upper_bound; [discriminate|].
    apply N.div_lt_upper_bound; [discriminate|]. apply N.div_lt_upper_bound; [discriminate|]. lia. }
  rewrite E3.
  generalize dependent (a mod 256). generalize dependent ((a / 256) mod 256).
  generalize dependent ((a / 256 / 256) mod 256). generalize dependent (a / 256 / 256 / 256).
  generalize dependent (a / 256 / 256). generalize dependent (a / 256).
  intros. lia.
Qed.

Lemma read_ipv4_show a rest : a < 4294967296 -> nondigit_head 10 rest ->
  read_ipv4_addr (show_v4 a ++ rest) = Some (a, rest).
Proof.
  intros Ha Hn. unfold show_v4, read_ipv4_addr.
  assert (H0 : (a / 16777216) mod 256 < 256) by (apply N.mod_lt; discriminate).
  assert (H1 : (a / 65536) mod 256 < 256) by (apply N.mod_lt; discriminate).
  assert (H2 : (a / 256) mod 256 < 256) by (apply N.mod_lt; discriminate).
  assert (H3 : a mod 256 < 256) by (apply N.mod_lt; discriminate).
  repeat (rewrite <- app_assoc || rewrite <- app_comm_cons).
  rewrite (read_octet_0 _ _ H0 (dot_nondigit _)). cbv beta iota.
  rewrite (read_octet_sep 1 _ _ eq_refl H1 (dot_nondigit _)). cbv beta iota.
  rewrite (read_octet_sep 2 _ _ eq_refl H2 (dot_nondigit _)). cbv beta iota.
  rewrite (read_octet_sep 3 _ _ eq_refl H3 Hn). cbv beta iota.
  rewrite (u32_be_bytes a Ha). reflexivity.
Qed.

Lemma show_dec_octet_chars o : o < 256 -> Forall (fun c => is_digit c = true) (show_dec o).
Proof.
  intros Ho. pose proof (octet_ok_all o Ho) as K. unfold octet_ok in K. cbv zeta in K.
  rewrite !andb_true_iff in K. destruct K as [[[[K1 _] _] _] _].
  apply Forall_forall. rewrite forallb_forall in K1. exact K1.
Qed.

(* printed IPv4 addresses contain only digits and dots *)
Lemma show_v4_chars a : Forall (fun c => is_digit c = true \/ c = 46) (show_v4 a).
Proof.
  assert (D : forall o, o < 256 -> Forall (fun c => is_digit c = true \/ c = 46) (show_dec o)).
  { intros o Ho. eapply Forall_impl; [|apply show_dec_octet_chars; exact Ho]. cbv beta. intros c Hc. left. exact Hc. }
  unfold show_v4.
  repeat (apply Forall_app; split; [apply D; apply N.mod_lt; discriminate|]; apply Forall_cons; [right; reflexivity|]).
  apply D. apply N.mod_lt. discriminate.
Qed.

Lemma show_v4_ascii a : Forall (fun c => c < 128) (show_v4 a).
Proof.
  eapply Forall_impl; [|apply show_v4_chars]. cbv beta. intros c [H| ->]; [|lia].
  apply is_digit_range in H. lia.
Qed.

Theorem ipv4_roundtrip a : a < 4294967296 -> parse_v4 (show_v4 a) = Some a.
Proof.
  intros Ha. unfold parse_v4. rewrite (utf8_ascii _ (show_v4_ascii a)).
  rewrite <- (app_nil_r (show_v4 a)). rewrite read_ipv4_show by (auto; exact I). reflexivity.
Qed.

Theorem ipv4_roundtrip_ip a : a < 4294967296 -> parse_ip (show_v4 a) = Some (V4 a).
Proof.
  intros Ha. unfold parse_ip, parse_ip_bytes. rewrite (utf8_ascii _ (show_v4_ascii a)).
  rewrite <- (app_nil_r (show_v4 a)). rewrite read_ipv4_show by (auto; exact I). reflexivity.
Qed.

(* the hypotheses are satisfiable, and the statement is not vacuous *)
Example ipv4_roundtrip_example : parse_v4 (show_v4 3232235777) = Some 3232235777 /\ show_v4 3232235777 = [49;57;50;46;49;54;56;46;49;46;49].
Proof. vm_compute. split; reflexivity. Qed.

(* a leading zero is rejected, as is a fifth group or an octet above 255 *)
Example ipv4_rejects : parse_v4 [48;49;46;50;46;51;46;52] = None
                       /\ parse_v4 [49;46;50;46;51;46;52;46;53] = None
                       /\ parse_v4 [49;46;50;46;51;46;50;53;54] = None.
Proof. vm_compute. repeat split; reflexivity. Qed.

(* ====================================================================== *)
(* IPv6: Display, then FromStr, is the identity                             *)
(* ====================================================================== *)

Fixpoint digits_of (radix : N) (ds : list N) : option (list N) :=
  match ds with
  | [] => Some []
  | c :: t => match to_digit radix c, digits_of radix t with
              | Some d, Some vs => Some (d :: vs)
              | _, _ => None
              end
  end.

Definition gval (radix : N) (vs : list N) (r : N) : N := fold_left (fun acc d => acc * radix + d) vs r.

Lemma read_digits_gen radix maxd ds : forall vs rest r cnt,
  digits_of radix ds = Some vs -> nondigit_head radix rest -> cnt + llen ds <= maxd ->
  read_digits radix maxd (ds ++ rest) r cnt = Some (gval radix vs r, cnt + llen ds, rest).
Proof.
  induction ds as [|d ds IH]; intros vs rest r cnt Hd Hn Hc.
  - injection Hd as <-. cbn [app gval fold_left]. rewrite llen_nil, N.add_0_r.
    destruct rest as [|c t]; cbn [read_digits]; [reflexivity|].
    cbn [nondigit_head] in Hn. rewrite Hn. reflexivity.
  - cbn [digits_of] in Hd. destruct (to_digit radix d) as [v|] eqn:Ev; [|discriminate].
    destruct (digits_of radix ds) as [vs'|] eqn:Evs; [|discriminate]. injection Hd as <-.
    rewrite llen_cons in Hc. cbn [app read_digits]. rewrite Ev.
    assert (maxd <? cnt + 1 = false) as -> by (apply N.ltb_ge; lia).
    rewrite (IH vs' rest _ _ eq_refl Hn) by lia.
    rewrite llen_cons. cbn [gval fold_left]. f_equal. f_equal. f_equal. lia.
Qed.

(* everything about the hex rendering of a u16, checked over all 16^4 values *)
Definition hexc (c : N) : bool := is_digit c || ((97 <=? c) && (c <=? 102)).

Definition hex_ok (x : N) : bool :=
  let ds := show_hex16 x in
  match digits_of 16 ds with
  | Some vs => (gval 16 vs 0 =? x) && (1 <=? llen ds) && (llen ds <=? 4) && forallb hexc ds
  | None => false
  end.

Definition l16 : list N := [0;1;2;3;4;5;6;7;8;9;10;11;12;13;14;15].

Lemma hex_ok_sweep :
  forallb (fun a => forallb (fun b => forallb (fun c => forallb (fun d =>
    hex_ok (a * 4096 + b * 256 + c * 16 + d)) l16) l16) l16) l16 = true.
Proof. vm_compute. reflexivity. Qed.

Lemma in_l16 x : x < 16 -> In x l16.
Proof.
  intros H.
  assert (D : x = 0 \/ x = 1 \/ x = 2 \/ x = 3 \/ x = 4 \/ x = 5 \/ x = 6 \/ x = 7 \/ x = 8 \/ x = 9
              \/ x = 10 \/ x = 11 \/ x = 12 \/ x = 13 \/ x = 14 \/ x = 15) by lia.
  unfold l16. cbn [In]. intuition.
Qed.

Lemma nibbles x : x < 65536 ->
  x = (x / 4096) * 4096 + ((x / 256) mod 16) * 256 + ((x / 16) mod 16) * 16 + x mod 16
  /\ x / 4096 < 16.
Proof.
  intros Hx.
  change 4096 with (16 * 16 * 16). change 256 with (16 * 16).
  rewrite <- !N.div_div by discriminate.
  pose proof (N.div_mod x 16 ltac:(discriminate)) as E0.
  pose proof (N.div_mod (x / 16) 16 ltac:(discriminate)) as E1.
  pose proof (N.div_mod (x / 16 / 16) 16 ltac:(discriminate)) as E2.
  assert (B : x / 16 / 16 / 16 < 16).
  { apply N.div_lt_upper_bound; [discriminate|]. apply N.div_lt_upper_bound; [discriminate|].
    apply N.div_lt_upper_bound; [discriminate|]. lia. }
  generalize dependent (x mod 16). generalize dependent ((x / 16) mod 16).
  generalize dependent ((x / 16 / 16) mod 16). generalize dependent (x / 16 / 16 / 16).
  generalize dependent (x / 16 / 16). generalize dependent (x / 16).
  intros. split; [lia|assumption].
Qed.

Lemma m16 y : y mod 16 < 16.
Proof. apply N.mod_lt. discriminate. Qed.

Lemma hex_ok_all x : x < 65536 -> hex_ok x = true.
Proof.
  intros Hx. destruct (nibbles x Hx) as [E B].
  pose proof hex_ok_sweep as S.
  rewrite forallb_forall in S. specialize (S (x / 4096) (in_l16 _ B)).
  rewrite forallb_forall in S. specialize (S ((x / 256) mod 16) (in_l16 _ (m16 _))).
  rewrite forallb_forall in S. specialize (S ((x / 16) mod 16) (in_l16 _ (m16 _))).
  rewrite forallb_forall in S. specialize (S (x mod 16) (in_l16 _ (m16 _))).
  rewrite <- E in S. exact S.
Qed.

Lemma read_number_hex x rest : x < 65536 -> nondigit_head 16 rest ->
  read_number 16 4 true 65535 (show_hex16 x ++ rest) = Some (x, rest).
Proof.
  intros Hx Hn. pose proof (hex_ok_all x Hx) as K. unfold hex_ok in K. cbv zeta in K.
  destruct (digits_of 16 (show_hex16 x)) as [vs|] eqn:Ed; [|discriminate].
  rewrite !andb_true_iff in K. destruct K as [[[K1 K2] K3] _].
  apply N.eqb_eq in K1. apply N.leb_le in K2, K3.
  unfold read_number. rewrite (read_digits_gen 16 4 _ vs rest 0 0 Ed Hn) by lia.
  rewrite N.add_0_l, K1.
  assert (llen (show_hex16 x) =? 0 = false) as -> by (apply N.eqb_neq; lia).
  assert (x <=? 65535 = true) as -> by (apply N.leb_le; lia).
  cbn [negb andb]. reflexivity.
Qed.

Lemma show_hex16_chars x : x < 65536 -> Forall (fun c => hexc c = true) (show_hex16 x).
Proof.
  intros Hx. pose proof (hex_ok_all x Hx) as K. unfold hex_ok in K. cbv zeta in K.
  destruct (digits_of 16 (show_hex16 x)); [|discriminate].
  rewrite !andb_true_iff in K. destruct K as [_ K]. apply Forall_forall. rewrite forallb_forall in K. exact K.
Qed.

(* ---- the embedded-IPv4 attempts fail on text without a dot ---- *)

Lemma read_digits_suffix radix maxd s : forall r c v n rest,
  read_digits radix maxd s r c = Some (v, n, rest) -> exists pre, s = pre ++ rest.
Proof.
  induction s as [|x s IH]; intros r c v n rest H; cbn [read_digits] in H.
  - injection H as _ _ <-. exists []. reflexivity.
  - destruct (to_digit radix x).
    + destruct (maxd <? c + 1); [discriminate|]. destruct (IH _ _ _ _ _ H) as (pre & ->). exists (x :: pre). reflexivity.
    + injection H as _ _ <-. exists []. reflexivity.
Qed.

Lemma read_number_suffix radix maxd az bound s v rest :
  read_number radix maxd az bound s = Some (v, rest) -> exists pre, s = pre ++ rest.
Proof.
  unfold read_number. destruct (read_digits radix maxd s 0 0) as [[[r cnt] rest']|] eqn:E; [|discriminate].
  destruct (cnt =? 0); [discriminate|]. destruct (negb az && _ && _); [discriminate|].
  destruct (r <=? bound); [|discriminate]. intros [= <- <-]. eapply read_digits_suffix. exact E.
Qed.

Lemma read_ipv4_nodot s : ~ In 46 s -> read_ipv4_addr s = None.
Proof.
  intros H. unfold read_ipv4_addr.
  destruct (read_octet 0 s) as [[a s1]|] eqn:E0; [|reflexivity].
  unfold read_octet, read_separator in E0. assert (0 <? 0 = false) as X by reflexivity. rewrite X in E0.
  apply read_number_suffix in E0 as (pre & ->).
  unfold read_octet at 1. unfold read_separator. assert (0 <? 1 = true) as -> by reflexivity.
  destruct s1 as [|c t]; [reflexivity|].
  destruct (N.eqb_spec c 46) as [->|]; [|reflexivity].
  exfalso. apply H. apply in_or_app. right. left. reflexivity.
Qed.

Lemma read_sep_ipv4_nodot i s : ~ In 46 s -> read_separator 58 i read_ipv4_addr s = None.
Proof.
  intros H. unfold read_separator. destruct (0 <? i).
  - destruct s as [|c t]; [reflexivity|]. destruct (c =? 58); [|reflexivity].
    apply read_ipv4_nodot. intros X. apply H. right. exact X.
  - apply read_ipv4_nodot. exact H.
Qed.

(* ---- reading colon-separated groups ---- *)

Definition colon_groups (xs : list N) : list N := flat_map (fun x => 58 :: show_hex16 x) xs.

Lemma fmt_subslice_cons x xs : fmt_subslice (x :: xs) = show_hex16 x ++ colon_groups xs.
Proof.
  revert x. induction xs as [|y xs IH]; intros x.
  - cbn [fmt_subslice colon_groups flat_map]. rewrite app_nil_r. reflexivity.
  - change (fmt_subslice (x :: y :: xs)) with (show_hex16 x ++ 58 :: fmt_subslice (y :: xs)).
    rewrite IH. reflexivity.
Qed.

(* where reading stops: at the end of the text or before "::" *)
Definition stop (rest : list N) : Prop := rest = [] \/ exists t, rest = 58 :: 58 :: t.

Lemma stop_nondigit rest : stop rest -> nondigit_head 16 rest.
Proof. intros [->|(t & ->)]; reflexivity. Qed.

Lemma colon_nondigit xs rest : stop rest -> nondigit_head 16 (colon_groups xs ++ rest).
Proof. intros H. destruct xs; [apply stop_nondigit; exact H|reflexivity]. Qed.

Lemma read_group_stop i rest : stop rest ->
  read_separator 58 i (read_number 16 4 true 65535) rest = None.
Proof.
  intros [->|(t & ->)]; unfold read_separator; destruct (0 <? i); reflexivity.
Qed.

Lemma nodot_hex x : x < 65536 -> ~ In 46 (show_hex16 x).
Proof.
  intros Hx Hin. pose proof (show_hex16_chars x Hx) as H. rewrite Forall_forall in H.
  specialize (H 46 Hin). discriminate H.
Qed.

Lemma nodot_colon xs : Forall (fun x => x < 65536) xs -> ~ In 46 (colon_groups xs).
Proof.
  induction 1 as [|x xs Hx _ IH]; [intros []|]. cbn [colon_groups flat_map]. fold (colon_groups xs).
  intros [E|Hin]; [discriminate|]. apply in_app_or in Hin as [Hin|Hin]; [exact (nodot_hex x Hx Hin)|exact (IH Hin)].
Qed.

(* groups after the first: each preceded by ':' *)
Lemma read_groups_colon xs : forall k i limit acc rest,
  0 < i -> Forall (fun x => x < 65536) xs -> stop rest -> ~ In 46 rest ->
  read_groups (length xs + k) i limit acc (colon_groups xs ++ rest)
  = read_groups k (i + llen xs) limit (acc ++ xs) rest.
Proof.
  induction xs as [|x xs IH]; intros k i limit acc rest Hi Hx Hs Hd.
  - cbn [length plus colon_groups flat_map app]. rewrite llen_nil, N.add_0_r, app_nil_r. reflexivity.
  - inversion Hx as [|? ? Hx0 Hx']; subst.
    cbn [length plus read_groups].
    assert (Hnd : ~ In 46 (colon_groups (x :: xs) ++ rest)).
    { intros Hin. apply in_app_or in Hin as [Hin|Hin]; [exact (nodot_colon (x :: xs) Hx Hin)|exact (Hd Hin)]. }
    assert ((if i + 1 <? limit then read_separator 58 i read_ipv4_addr (colon_groups (x :: xs) ++ rest) else None) = None) as ->.
    { destruct (i + 1 <? limit); [apply read_sep_ipv4_nodot; exact Hnd|reflexivity]. }
    cbn [colon_groups flat_map]. fold (colon_groups xs). rewrite <- !app_assoc. cbn [app].
    unfold read_separator at 1. assert (0 <? i = true) as -> by (apply N.ltb_lt; exact Hi).
    assert (58 =? 58 = true) as -> by reflexivity.
    rewrite (read_number_hex x _ Hx0 (colon_nondigit xs rest Hs)).
    rewrite (IH k (i + 1) limit (acc ++ [x]) rest) by (assumption || lia).
    rewrite llen_cons, <- app_assoc. cbn [app]. f_equal. lia.
Qed.

(* a whole colon-separated list from index 0 *)
Lemma read_groups_list xs : forall k limit rest,
  Forall (fun x => x < 65536) xs -> stop rest -> ~ In 46 rest ->
  read_groups (length xs + k) 0 limit [] (fmt_subslice xs ++ rest)
  = read_groups k (llen xs) limit xs rest.
Proof.
  intros k limit rest Hx Hs Hd. destruct xs as [|x xs]; [reflexivity|].
  inversion Hx as [|? ? Hx0 Hx']; subst.
  rewrite fmt_subslice_cons, <- app_assoc. cbn [length plus read_groups].
  assert (Hnd : ~ In 46 (show_hex16 x ++ colon_groups xs ++ rest)).
  { intros Hin. apply in_app_or in Hin as [Hin|Hin]; [exact (nodot_hex x Hx0 Hin)|].
    apply in_app_or in Hin as [Hin|Hin]; [exact (nodot_colon xs Hx' Hin)|exact (Hd Hin)]. }
  assert ((if 0 + 1 <? limit then read_separator 58 0 read_ipv4_addr (show_hex16 x ++ colon_groups xs ++ rest) else None) = None) as ->.
  { destruct (0 + 1 <? limit); [apply read_sep_ipv4_nodot; exact Hnd|reflexivity]. }
  unfold read_separator at 1. assert (0 <? 0 = false) as -> by reflexivity.
  rewrite (read_number_hex x _ Hx0 (colon_nondigit xs rest Hs)).
  rewrite (read_groups_colon xs k (0 + 1) limit ([] ++ [x]) rest) by (assumption || lia).
  cbn [app]. rewrite llen_cons. f_equal; lia.
Qed.

(* the loop stops where the text does *)
Lemma read_groups_stop k i limit acc rest : stop rest -> ~ In 46 rest ->
  read_groups k i limit acc rest = (acc, false, rest).
Proof.
  intros Hs Hd. destruct k as [|k]; [reflexivity|]. cbn [read_groups].
  assert ((if i + 1 <? limit then read_separator 58 i read_ipv4_addr rest else None) = None) as ->.
  { destruct (i + 1 <? limit); [apply read_sep_ipv4_nodot; exact Hd|reflexivity]. }
  rewrite (read_group_stop i rest Hs). reflexivity.
Qed.

(* ---- the run of zeros chosen by Display ---- *)

Definition of_pat (pat : list bool) : list N := map (fun b : bool => if b then 0 else 1) pat.

Lemma zero_span_pat g : forall i a b c d,
  zero_span g i a b c d = zero_span (of_pat (map (fun x => x =? 0) g)) i a b c d.
Proof.
  induction g as [|x g IH]; intros i a b c d; [reflexivity|].
  cbn [map of_pat zero_span]. fold (of_pat (map (fun x => x =? 0) g)).
  destruct (x =? 0); cbn [N.eqb]; [change (0 =? 0) with true|change (1 =? 0) with false]; cbv iota;
    [destruct (b <? d + 1)|]; apply IH.
Qed.

Fixpoint pats (n : nat) : list (list bool) :=
  match n with
  | O => [[]]
  | S m => flat_map (fun p => [true :: p; false :: p]) (pats m)
  end.

Lemma in_pats l : In l (pats (length l)).
Proof.
  induction l as [|b l IH]; [left; reflexivity|]. cbn [length pats]. apply in_flat_map. exists l. split; [exact IH|].
  destruct b; [left|right; left]; reflexivity.
Qed.

Definition span_ok (pat : list bool) : bool :=
  let '(s, l) := zero_span (of_pat pat) 0 0 0 0 0 in
  (l <=? 1) || ((s + l <=? 8) && forallb (fun b : bool => b) (firstn (N.to_nat l) (skipn (N.to_nat s) pat))).

Lemma span_ok_sweep : forallb span_ok (pats 8) = true.
Proof. vm_compute. reflexivity. Qed.

Lemma all_zero_zeros m : Forall (fun x => x = 0) m -> m = zeros (length m).
Proof. induction 1 as [|x m -> _ IH]; [reflexivity|]. cbn [length zeros]. rewrite <- IH. reflexivity. Qed.

Lemma skipn_add {A} (a b : nat) (l : list A) : skipn a (skipn b l) = skipn (b + a) l.
Proof.
  revert l. induction b as [|b IH]; intros l; [reflexivity|]. destruct l as [|x l]; [destruct a; reflexivity|].
  cbn [skipn plus]. apply IH.
Qed.

(* the span is a run of zeros inside the address (when it is used at all) *)
Lemma zero_span_facts g s l : length g = 8%nat -> zero_span g 0 0 0 0 0 = (s, l) -> 1 < l ->
  (N.to_nat s + N.to_nat l <= 8)%nat
  /\ g = firstn (N.to_nat s) g ++ zeros (N.to_nat l) ++ skipn (N.to_nat (s + l)) g.
Proof.
  intros Hlen Hz Hl. rewrite zero_span_pat in Hz.
  pose proof span_ok_sweep as S. rewrite forallb_forall in S.
  assert (Hin : In (map (fun x => x =? 0) g) (pats 8)).
  { rewrite <- Hlen, <- (map_length (fun x => x =? 0) g). apply in_pats. }
  specialize (S _ Hin). unfold span_ok in S. rewrite Hz in S.
  apply orb_true_iff in S as [S|S]; [apply N.leb_le in S; lia|].
  apply andb_true_iff in S as [S1 S2]. apply N.leb_le in S1.
  assert (Hb : (N.to_nat s + N.to_nat l <= 8)%nat) by lia.
  split; [exact Hb|].
  rewrite skipn_map, firstn_map in S2.
  assert (Hmid : Forall (fun x => x = 0) (firstn (N.to_nat l) (skipn (N.to_nat s) g))).
  { apply Forall_forall. intros x Hx. rewrite forallb_forall in S2.
    specialize (S2 (x =? 0) (in_map (fun x => x =? 0) _ x Hx)). apply N.eqb_eq. exact S2. }
  apply all_zero_zeros in Hmid.
  rewrite firstn_length, skipn_length, Hlen in Hmid.
  replace (Nat.min (N.to_nat l) (8 - N.to_nat s)) with (N.to_nat l) in Hmid by lia.
  rewrite <- Hmid.
  replace (N.to_nat (s + l)) with (N.to_nat s + N.to_nat l)%nat by lia.
  rewrite <- skipn_add, firstn_skipn, firstn_skipn. reflexivity.
Qed.

(* ---- the printed text ---- *)

Definition wf_v6 (g : list N) : Prop := length g = 8%nat /\ Forall (fun x => x < 65536) g.

Definition addrc (c : N) : Prop := hexc c = true \/ c = 58 \/ c = 46.

Lemma fmt_subslice_chars xs : Forall (fun x => x < 65536) xs -> Forall addrc (fmt_subslice xs).
Proof.
  intros H. destruct xs as [|x xs]; [constructor|]. rewrite fmt_subslice_cons.
  inversion H as [|? ? Hx Hxs]; subst. apply Forall_app. split.
  - eapply Forall_impl; [|apply show_hex16_chars; exact Hx]. intros c Hc. left. exact Hc.
  - clear Hx H. induction Hxs as [|y ys Hy _ IH]; [constructor|]. cbn [colon_groups flat_map]. fold (colon_groups ys).
    constructor; [right; left; reflexivity|]. apply Forall_app. split; [|exact IH].
    eapply Forall_impl; [|apply show_hex16_chars; exact Hy]. intros c Hc. left. exact Hc.
Qed.

Lemma fmt_subslice_nodot xs : Forall (fun x => x < 65536) xs -> ~ In 46 (fmt_subslice xs).
Proof.
  intros H. destruct xs as [|x xs]; [intros []|]. rewrite fmt_subslice_cons. inversion H; subst.
  intros Hin. apply in_app_or in Hin as [Hin|Hin]; [eapply nodot_hex; eassumption|eapply nodot_colon; eassumption].
Qed.

Lemma addrc_ascii c : addrc c -> c < 128.
Proof.
  intros [H|[->| ->]]; [|reflexivity|reflexivity]. unfold hexc in H. apply orb_true_iff in H as [H|H].
  - apply is_digit_range in H. lia.
  - apply andb_true_iff in H as [_ H]. apply N.leb_le in H. lia.
Qed.

Lemma forall_firstn {A} (P : A -> Prop) n l : Forall P l -> Forall P (firstn n l).
Proof. intros H. rewrite <- (firstn_skipn n l) in H. apply Forall_app in H. tauto. Qed.
Lemma forall_skipn {A} (P : A -> Prop) n l : Forall P l -> Forall P (skipn n l).
Proof. intros H. rewrite <- (firstn_skipn n l) in H. apply Forall_app in H. tauto. Qed.

Lemma llen_length {A} (l : list A) n : length l = n -> llen l = N.of_nat n.
Proof. intros <-. reflexivity. Qed.

(* parsing the compressed form  A::B *)
Lemma parse_compressed (A B : list N) :
  Forall (fun x => x < 65536) A -> Forall (fun x => x < 65536) B -> (length A + length B <= 6)%nat ->
  parse_ip_bytes (fmt_subslice A ++ [58; 58] ++ fmt_subslice B)
  = Some (V6 (A ++ zeros (8 - length A - length B) ++ B)).
Proof.
  intros HA HB Hlen. unfold parse_ip_bytes.
  assert (Hnd : ~ In 46 (fmt_subslice A ++ [58; 58] ++ fmt_subslice B)).
  { intros Hin. apply in_app_or in Hin as [Hin|Hin]; [exact (fmt_subslice_nodot A HA Hin)|].
    cbn [app] in Hin. destruct Hin as [E|[E|Hin]]; try discriminate. exact (fmt_subslice_nodot B HB Hin). }
  rewrite (read_ipv4_nodot _ Hnd). unfold read_ipv6_addr.
  assert (Hstop : stop ([58; 58] ++ fmt_subslice B)) by (right; eexists; reflexivity).
  assert (Hnd2 : ~ In 46 ([58; 58] ++ fmt_subslice B)).
  { cbn [app]. intros [E|[E|Hin]]; try discriminate. exact (fmt_subslice_nodot B HB Hin). }
  replace 8%nat with (length A + (8 - length A))%nat at 1 by lia.
  rewrite (read_groups_list A _ 8 _ HA Hstop Hnd2), (read_groups_stop _ _ _ _ _ Hstop Hnd2).
  assert (LA : llen A = N.of_nat (length A)) by reflexivity.
  assert (llen A =? 8 = false) as -> by (apply N.eqb_neq; lia).
  cbn [app].
  assert (Hstop0 : stop []) by (left; reflexivity).
  set (limit := 8 - (llen A + 1)).
  assert (Hlim : N.to_nat limit = (length B + (7 - length A - length B))%nat) by (unfold limit; lia).
  rewrite Hlim, <- (app_nil_r (fmt_subslice B)).
  rewrite (read_groups_list B _ limit [] HB Hstop0 (fun x => x)), (read_groups_stop _ _ _ _ _ Hstop0 (fun x => x)).
  cbn [is_nil]. reflexivity.
Qed.

Lemma parse_full (g : list N) : wf_v6 g -> parse_ip_bytes (fmt_subslice g) = Some (V6 g).
Proof.
  intros [Hlen Hg]. unfold parse_ip_bytes.
  rewrite (read_ipv4_nodot _ (fmt_subslice_nodot g Hg)). unfold read_ipv6_addr.
  assert (Hstop0 : stop []) by (left; reflexivity).
  rewrite <- (app_nil_r (fmt_subslice g)).
  replace 8%nat with (length g + 0)%nat at 1 by lia.
  rewrite (read_groups_list g 0 8 [] Hg Hstop0 (fun x => x)). cbn [read_groups].
  rewrite (llen_length g 8 Hlen). cbn. reflexivity.
Qed.

Lemma mapped_shape g v : ipv4_mapped g = Some v ->
  exists g6 g7, g = [0; 0; 0; 0; 0; 65535; g6; g7] /\ v = g6 * 65536 + g7.
Proof.
  unfold ipv4_mapped.
  destruct g as [|a [|b [|c [|d [|e [|f [|g6 [|g7 [|x t]]]]]]]]]; try discriminate.
  destruct ((a =? 0) && (b =? 0) && (c =? 0) && (d =? 0) && (e =? 0) && (f =? 65535)) eqn:E; [|discriminate].
  rewrite !andb_true_iff, !N.eqb_eq in E. destruct E as [[[[[-> ->] ->] ->] ->] ->].
  intros [= <-]. exists g6, g7. split; reflexivity.
Qed.

Lemma parse_mapped g6 g7 : g6 < 65536 -> g7 < 65536 ->
  parse_ip_bytes ([58; 58; 102; 102; 102; 102; 58] ++ show_v4 (g6 * 65536 + g7))
  = Some (V6 [0; 0; 0; 0; 0; 65535; g6; g7]).
Proof.
  intros H6 H7. set (v := g6 * 65536 + g7). assert (Hv : v < 4294967296) by (unfold v; lia).
  unfold parse_ip_bytes. cbn [app].
  assert (read_ipv4_addr (58 :: 58 :: 102 :: 102 :: 102 :: 102 :: 58 :: show_v4 v) = None) as -> by reflexivity.
  unfold read_ipv6_addr.
  assert (read_groups 8 0 8 [] (58 :: 58 :: 102 :: 102 :: 102 :: 102 :: 58 :: show_v4 v)
          = ([], false, 58 :: 58 :: 102 :: 102 :: 102 :: 102 :: 58 :: show_v4 v)) as -> by reflexivity.
  change (llen (@nil N) =? 8) with false. cbv iota.
  change (N.to_nat (8 - (llen (@nil N) + 1))) with 7%nat. change (8 - (llen (@nil N) + 1)) with 7.
  assert (R : read_groups 7 0 7 [] (102 :: 102 :: 102 :: 102 :: 58 :: show_v4 v)
              = ([65535; v / 65536; v mod 65536], true, [])).
  { cbn [read_groups].
    assert ((if 0 + 1 <? 7 then read_separator 58 0 read_ipv4_addr (102 :: 102 :: 102 :: 102 :: 58 :: show_v4 v) else None) = None) as -> by reflexivity.
    unfold read_separator at 1. change (0 <? 0) with false. cbv iota.
    change (102 :: 102 :: 102 :: 102 :: 58 :: show_v4 v) with (show_hex16 65535 ++ 58 :: show_v4 v).
    rewrite (read_number_hex 65535 (58 :: show_v4 v) eq_refl eq_refl).
    change (0 + 1 + 1 <? 7) with true. cbv iota.
    unfold read_separator at 1. change (0 <? 0 + 1) with true. change (58 =? 58) with true. cbv iota.
    rewrite <- (app_nil_r (show_v4 v)). rewrite (read_ipv4_show v [] Hv I). reflexivity. }
  rewrite R. cbn [length zeros app is_nil Nat.sub].
  assert (E1 : v / 65536 = g6) by (unfold v; rewrite N.div_add_l by discriminate; rewrite (N.div_small g7) by exact H7; lia).
  assert (E2 : v mod 65536 = g7) by (unfold v; rewrite N.add_comm, N.mod_add by discriminate; apply N.mod_small; exact H7).
  rewrite E1, E2. reflexivity.
Qed.

(* ipv6_roundtrip: what Display prints for an IPv6 address reads back as that address *)
Theorem ipv6_roundtrip g : wf_v6 g -> parse_ip (show_v6 g) = Some (V6 g).
Proof.
  intros Hwf. pose proof Hwf as [Hlen Hg]. unfold parse_ip.
  assert (Hascii : forall t, Forall addrc t -> utf8 t = t).
  { intros t Ht. apply utf8_ascii. eapply Forall_impl; [|exact Ht]. intros c Hc. apply addrc_ascii. exact Hc. }
  unfold show_v6. destruct (ipv4_mapped g) as [v|] eqn:Em.
  - destruct (mapped_shape g v Em) as (g6 & g7 & -> & ->).
    assert (H6 : g6 < 65536) by (rewrite Forall_forall in Hg; apply Hg; cbn [In]; tauto).
    assert (H7 : g7 < 65536) by (rewrite Forall_forall in Hg; apply Hg; cbn [In]; tauto).
    rewrite Hascii; [apply parse_mapped; assumption|].
    apply Forall_app. split.
    + repeat (constructor; [first [right; left; reflexivity | left; reflexivity]|]). constructor.
    + eapply Forall_impl; [|apply show_v4_chars]. intros c [Hc| ->]; [left; unfold hexc; rewrite Hc; reflexivity|right; right; reflexivity].
  - destruct (zero_span g 0 0 0 0 0) as [s l] eqn:Ez.
    destruct (1 <? l) eqn:El.
    + apply N.ltb_lt in El. destruct (zero_span_facts g s l Hlen Ez El) as [Hb Hdec].
      set (A := firstn (N.to_nat s) g) in *. set (B := skipn (N.to_nat (s + l)) g) in *.
      assert (HA : Forall (fun x => x < 65536) A) by (apply forall_firstn; exact Hg).
      assert (HB : Forall (fun x => x < 65536) B) by (apply forall_skipn; exact Hg).
      assert (LA : length A = N.to_nat s) by (unfold A; rewrite firstn_length; lia).
      assert (LB : length B = (8 - N.to_nat s - N.to_nat l)%nat) by (unfold B; rewrite skipn_length; lia).
      rewrite Hascii.
      * rewrite (parse_compressed A B HA HB) by lia. rewrite LA, LB.
        replace (8 - N.to_nat s - (8 - N.to_nat s - N.to_nat l))%nat with (N.to_nat l) by lia.
        rewrite <- Hdec. reflexivity.
      * apply Forall_app. split; [apply fmt_subslice_chars; exact HA|].
        constructor; [right; left; reflexivity|]. constructor; [right; left; reflexivity|].
        apply fmt_subslice_chars; exact HB.
    + rewrite Hascii; [apply parse_full; exact Hwf|apply fmt_subslice_chars; exact Hg].
Qed.

(* printed IPv6 addresses consist of lower-case hex digits, ':' and '.' only, and are not empty *)
Theorem show_v6_chars g : wf_v6 g -> Forall addrc (show_v6 g) /\ show_v6 g <> [].
Proof.
  intros [Hlen Hg]. unfold show_v6. destruct (ipv4_mapped g) as [v|].
  - split; [|discriminate]. apply Forall_app. split.
    + repeat (constructor; [first [right; left; reflexivity | left; reflexivity]|]). constructor.
    + eapply Forall_impl; [|apply show_v4_chars]. intros c [Hc| ->]; [left; unfold hexc; rewrite Hc; reflexivity|right; right; reflexivity].
  - destruct (zero_span g 0 0 0 0 0) as [s l]. destruct (1 <? l).
    + split.
      * apply Forall_app. split; [apply fmt_subslice_chars; apply forall_firstn; exact Hg|].
        constructor; [right; left; reflexivity|]. constructor; [right; left; reflexivity|].
        apply fmt_subslice_chars. apply forall_skipn. exact Hg.
      * intros E. apply app_eq_nil in E as [_ E]. discriminate.
    + split; [apply fmt_subslice_chars; exact Hg|].
      destruct g as [|x g]; [discriminate|]. rewrite fmt_subslice_cons. inversion Hg; subst.
      intros E. apply app_eq_nil in E as [E _].
      pose proof (hex_ok_all x ltac:(assumption)) as K. unfold hex_ok in K. cbv zeta in K. rewrite E in K.
      cbn [digits_of] in K. rewrite !andb_true_iff in K. destruct K as [[[_ K] _] _]. vm_compute in K. discriminate K.
Qed.
