(* Ip/IpProofs.v -- facts about the model of std's IP address codec.
   Main results:
     ipv4_roundtrip      parse_v4 (show_v4 a) = Some a            for all a < 2^32
     ipv4_roundtrip_ip   parse_ip (show_v4 a) = Some (V4 a)
     show_v4_chars       show_v4 a consists of decimal digits and dots only *)
From RV Require Import Base.Prelude Name.NameModel Name.NameSpec Name.NameProofs Ip.IpModel.
From Coq Require Import ZArith Lia.

(* value of a digit string read left to right, starting from r *)
Definition dval (ds : list N) (r : N) : N := fold_left (fun acc c => acc * 10 + (c - 48)) ds r.

Definition nondigit_head (radix : N) (s : list N) : Prop :=
  match s with [] => True | c :: _ => to_digit radix c = None end.

Lemma is_digit_range c : is_digit c = true <-> 48 <= c <= 57.
Proof.
  unfold is_digit. rewrite andb_true_iff, !N.leb_le. tauto.
Qed.

Lemma to_digit10 c : is_digit c = true -> to_digit 10 c = Some (c - 48).
Proof.
  intros H. unfold to_digit. rewrite H. apply is_digit_range in H.
  assert (c - 48 <? 10 = true) as -> by (apply N.ltb_lt; lia). reflexivity.
Qed.

Lemma read_digits_app maxd ds : forall rest r cnt,
  forallb is_digit ds = true -> nondigit_head 10 rest -> cnt + llen ds <= maxd ->
  read_digits 10 maxd (ds ++ rest) r cnt = Some (dval ds r, cnt + llen ds, rest).
Proof.
  induction ds as [|d ds IH]; intros rest r cnt Hd Hn Hc.
  - cbn [app dval fold_left]. rewrite llen_nil, N.add_0_r.
    destruct rest as [|c t]; cbn [read_digits]; [reflexivity|].
    cbn [nondigit_head] in Hn. rewrite Hn. reflexivity.
  - cbn [forallb] in Hd. apply andb_true_iff in Hd as [Hd1 Hd2].
    rewrite llen_cons in Hc.
    cbn [app read_digits]. rewrite (to_digit10 _ Hd1).
    assert (maxd <? cnt + 1 = false) as -> by (apply N.ltb_ge; lia).
    rewrite IH by (auto; lia).
    rewrite llen_cons. cbn [dval fold_left]. f_equal. f_equal. f_equal. lia.
Qed.

(* everything the proof needs to know about the decimal rendering of an octet,
   as one boolean checked over all 256 octets *)
Definition octet_ok (o : N) : bool :=
  let ds := show_dec o in
  forallb is_digit ds && (llen ds <=? 3) && (1 <=? llen ds) && (dval ds 0 =? o)
  && (negb (match ds with 48 :: _ => true | _ => false end) || (llen ds =? 1)).

Lemma octets_ok_sweep : forallb octet_ok (map N.of_nat (seq 0 256)) = true.
Proof. vm_compute. reflexivity. Qed.

Lemma octet_ok_all o : o < 256 -> octet_ok o = true.
Proof.
  intros H. pose proof octets_ok_sweep as S. rewrite forallb_forall in S. apply S.
  rewrite <- (N2Nat.id o). apply in_map. apply in_seq. lia.
Qed.

Lemma read_number_octet o rest : o < 256 -> nondigit_head 10 rest ->
  read_number 10 3 false 255 (show_dec o ++ rest) = Some (o, rest).
Proof.
  intros Ho Hn. pose proof (octet_ok_all o Ho) as K. unfold octet_ok in K. cbv zeta in K.
  rewrite !andb_true_iff in K. destruct K as [[[[K1 K2] K3] K4] K5].
  apply N.leb_le in K2, K3. apply N.eqb_eq in K4.
  unfold read_number. rewrite read_digits_app by (auto; lia).
  rewrite N.add_0_l.
  assert (llen (show_dec o) =? 0 = false) as -> by (apply N.eqb_neq; lia).
  rewrite K4.
  assert (o <=? 255 = true) as -> by (apply N.leb_le; lia).
  destruct (show_dec o) as [|d ds] eqn:E; [rewrite llen_nil in K3; lia|].
  cbn [app negb andb].
  destruct (N.eq_dec d 48) as [->|Hd].
  - cbn [negb orb] in K5. apply N.eqb_eq in K5. rewrite K5.
    assert (1 <? 1 = false) as -> by reflexivity. reflexivity.
  - assert ((match d with 48 => true | _ => false end) = false) as ->.
    { destruct d as [|p]; [reflexivity|].
      do 6 (destruct p as [p|p|]; try reflexivity). exfalso. apply Hd. reflexivity. }
    reflexivity.
Qed.

Lemma dot_nondigit t : nondigit_head 10 (46 :: t).
Proof. reflexivity. Qed.

Lemma read_octet_0 o rest : o < 256 -> nondigit_head 10 rest ->
  read_octet 0 (show_dec o ++ rest) = Some (o, rest).
Proof.
  intros. unfold read_octet, read_separator.
  assert (0 <? 0 = false) as -> by reflexivity. apply read_number_octet; assumption.
Qed.

Lemma read_octet_sep i o rest : 0 < i -> o < 256 -> nondigit_head 10 rest ->
  read_octet i (46 :: show_dec o ++ rest) = Some (o, rest).
Proof.
  intros Hi ? ?. unfold read_octet, read_separator.
  assert (0 <? i = true) as -> by (apply N.ltb_lt; exact Hi).
  assert (46 =? 46 = true) as -> by reflexivity. apply read_number_octet; assumption.
Qed.

Lemma u32_be_bytes a : a < 4294967296 ->
  u32_be ((a / 16777216) mod 256) ((a / 65536) mod 256) ((a / 256) mod 256) (a mod 256) = a.
Proof.
  intros Ha. unfold u32_be.
  change 16777216 with (256 * 256 * 256). change 65536 with (256 * 256).
  rewrite <- !N.div_div by discriminate.
  pose proof (N.div_mod a 256 ltac:(discriminate)) as E0.
  pose proof (N.div_mod (a / 256) 256 ltac:(discriminate)) as E1.
  pose proof (N.div_mod (a / 256 / 256) 256 ltac:(discriminate)) as E2.
  assert (E3 : (a / 256 / 256 / 256) mod 256 = a / 256 / 256 / 256).
  { apply N.mod_small. apply N.div_lt_upper_bound; [discriminate|].
    apply N.div_lt_upper_bound; [discriminate|]. apply N.div_lt_upper_bound; [discriminate|]. lia. }
  rewrite E3.
  generalize dependent (a mod 256). generalize dependent ((a / 256) mod 256).
  generalize dependent ((a / 256 / 256) mod 256). generalize dependent (a / 256 / 256 / 256).
  generalize dependent (a / 256 / 256). generalize dependent (a / 256).
  intros. lia.
Qed.

Lemma read_ipv4_show a rest : a < 4294967296 -> nondigit_head 10 rest ->
  read_ipv4_addr (show_v4 a ++ rest) = Some (a, rest).
Proof.
  intros Ha Hn. unfold show_v4, read_ipv4_addr.
  assert (H0 : (a / 16777216) mod 256 < 256) by (apply N.mod_lt; discriminate).
  assert (H1 : (a / 65536) mod 256 < 256) by (apply N.mod_lt; discriminate).
  assert (H2 : (a / 256) mod 256 < 256) by (apply N.mod_lt; discriminate).
  assert (H3 : a mod 256 < 256) by (apply N.mod_lt; discriminate).
  repeat (rewrite <- app_assoc || rewrite <- app_comm_cons).
  rewrite (read_octet_0 _ _ H0 (dot_nondigit _)). cbv beta iota.
  rewrite (read_octet_sep 1 _ _ eq_refl H1 (dot_nondigit _)). cbv beta iota.
  rewrite (read_octet_sep 2 _ _ eq_refl H2 (dot_nondigit _)). cbv beta iota.
  rewrite (read_octet_sep 3 _ _ eq_refl H3 Hn). cbv beta iota.
  rewrite (u32_be_bytes a Ha). reflexivity.
Qed.

Lemma show_dec_octet_chars o : o < 256 -> Forall (fun c => is_digit c = true) (show_dec o).
Proof.
  intros Ho. pose proof (octet_ok_all o Ho) as K. unfold octet_ok in K. cbv zeta in K.
  rewrite !andb_true_iff in K. destruct K as [[[[K1 _] _] _] _].
  apply Forall_forall. rewrite forallb_forall in K1. exact K1.
Qed.

(* printed IPv4 addresses contain only digits and dots *)
Lemma show_v4_chars a : Forall (fun c => is_digit c = true \/ c = 46) (show_v4 a).
Proof.
  assert (D : forall o, o < 256 -> Forall (fun c => is_digit c = true \/ c = 46) (show_dec o)).
  { intros o Ho. eapply Forall_impl; [|apply show_dec_octet_chars; exact Ho]. cbv beta. intros c Hc. left. exact Hc. }
  unfold show_v4.
  repeat (apply Forall_app; split; [apply D; apply N.mod_lt; discriminate|]; apply Forall_cons; [right; reflexivity|]).
  apply D. apply N.mod_lt. discriminate.
Qed.

Lemma show_v4_ascii a : Forall (fun c => c < 128) (show_v4 a).
Proof.
  eapply Forall_impl; [|apply show_v4_chars]. cbv beta. intros c [H| ->]; [|lia].
  apply is_digit_range in H. lia.
Qed.

Theorem ipv4_roundtrip a : a < 4294967296 -> parse_v4 (show_v4 a) = Some a.
Proof.
  intros Ha. unfold parse_v4. rewrite (utf8_ascii _ (show_v4_ascii a)).
  rewrite <- (app_nil_r (show_v4 a)). rewrite read_ipv4_show by (auto; exact I). reflexivity.
Qed.

Theorem ipv4_roundtrip_ip a : a < 4294967296 -> parse_ip (show_v4 a) = Some (V4 a).
Proof.
  intros Ha. unfold parse_ip, parse_ip_bytes. rewrite (utf8_ascii _ (show_v4_ascii a)).
  rewrite <- (app_nil_r (show_v4 a)). rewrite read_ipv4_show by (auto; exact I). reflexivity.
Qed.

(* the hypotheses are satisfiable, and the statement is not vacuous *)
Example ipv4_roundtrip_example : parse_v4 (show_v4 3232235777) = Some 3232235777 /\ show_v4 3232235777 = [49;57;50;46;49;54;56;46;49;46;49].
Proof. vm_compute. split; reflexivity. Qed.

(* a leading zero is rejected, as is a fifth group or an octet above 255 *)
Example ipv4_rejects : parse_v4 [48;49;46;50;46;51;46;52] = None
                       /\ parse_v4 [49;46;50;46;51;46;52;46;53] = None
                       /\ parse_v4 [49;46;50;46;51;46;50;53;54] = None.
Proof. vm_compute. repeat split; reflexivity. Qed.
