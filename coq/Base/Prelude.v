(* Base/Prelude.v -- shared conventions for every model (DESIGN 3.2).
   Definitions only; lemmas are in Base/PreludeFacts.v. *)
From Coq Require Export List NArith Bool Lia.
From RV Require Export Generated.Tables.
Export ListNotations.
Open Scope N_scope.

Global Arguments N.add : simpl never.
Global Arguments N.sub : simpl never.
Global Arguments N.mul : simpl never.
Global Arguments N.div : simpl never.
Global Arguments N.modulo : simpl never.
Global Arguments N.eqb : simpl never.
Global Arguments N.ltb : simpl never.
Global Arguments N.leb : simpl never.

(* Octets, u16, u32 and usize values are all [N]; ranges are stated as
   predicates where they matter. *)
Definition byte := N.

Definition llen {A} (l : list A) : N := N.of_nat (length l).

(* results with a distinguished panic and out-of-fuel outcome (DESIGN 3.2) *)
Inductive res (E A : Type) : Type :=
| Ok (a : A)
| Err (e : E)
| Panic
| OutOfFuel.
Arguments Ok {E A} a.
Arguments Err {E A} e.
Arguments Panic {E A}.
Arguments OutOfFuel {E A}.

Definition bind {E A B} (r : res E A) (f : A -> res E B) : res E B :=
  match r with
  | Ok a => f a
  | Err e => Err e
  | Panic => Panic
  | OutOfFuel => OutOfFuel
  end.
Notation "'let*' x ':=' r 'in' k" := (bind r (fun x => k))
  (at level 200, x pattern, r at level 100, k at level 200, right associativity).

Definition of_opt {E A} (o : option A) (e : E) : res E A :=
  match o with Some a => Ok a | None => Err e end.

(* ASCII case *)
Definition is_upper (b : N) : bool := (65 <=? b) && (b <=? 90).
Definition lower (b : N) : N := if is_upper b then b + 32 else b.
Definition is_lower_ascii (b : N) : bool := (97 <=? b) && (b <=? 122).
Definition upper (b : N) : N := if is_lower_ascii b then b - 32 else b.
Definition is_digit (c : N) : bool := (48 <=? c) && (c <=? 57).
Definition is_ascii (c : N) : bool := c <? 128.

(* list equality on N lists *)
Fixpoint leqb (a b : list N) : bool :=
  match a, b with
  | [], [] => true
  | x :: a', y :: b' => N.eqb x y && leqb a' b'
  | _, _ => false
  end.
Fixpoint lleqb (a b : list (list N)) : bool :=
  match a, b with
  | [], [] => true
  | x :: a', y :: b' => leqb x y && lleqb a' b'
  | _, _ => false
  end.

(* [nth_error] with an [N] index *)
Definition nthN {A} (l : list A) (i : N) : option A := nth_error l (N.to_nat i).

(* [&l[i..i+n]] if in range *)
Definition sliceN {A} (l : list A) (i n : N) : option (list A) :=
  if (i + n <=? llen l) then Some (firstn (N.to_nat n) (skipn (N.to_nat i) l)) else None.

(* Rust's [str::split(c)]: "" -> [""], "a." -> ["a"; ""] *)
Fixpoint split_on (c : N) (s : list N) : list (list N) :=
  match s with
  | [] => [[]]
  | x :: t =>
    if N.eqb x c then [] :: split_on c t
    else match split_on c t with
         | [] => [[x]]            (* unreachable: split_on never returns [] *)
         | h :: r => (x :: h) :: r
         end
  end.

(* UTF-8 encoding of one Unicode scalar value; [str::as_bytes] is the
   concatenation.  Values above 0x10FFFF / surrogates cannot occur in a Rust
   [&str]; the function is total anyway. *)
Definition utf8_char (c : N) : list byte :=
  if c <? 128 then [c]
  else if c <? 2048 then [192 + c / 64; 128 + c mod 64]
  else if c <? 65536 then [224 + c / 4096; 128 + (c / 64) mod 64; 128 + c mod 64]
  else [240 + c / 262144; 128 + (c / 4096) mod 64; 128 + (c / 64) mod 64; 128 + c mod 64].
Definition utf8 (s : list N) : list byte := flat_map utf8_char s.

(* big-endian integers *)
Definition u16_be (hi lo : N) : N := hi * 256 + lo.
Definition u16_hi (v : N) : N := (v / 256) mod 256.
Definition u16_lo (v : N) : N := v mod 256.
Definition u32_be (a b c d : N) : N := ((a * 256 + b) * 256 + c) * 256 + d.
Definition u32_bytes (v : N) : list N :=
  [(v / 16777216) mod 256; (v / 65536) mod 256; (v / 256) mod 256; v mod 256].
Definition u16_bytes (v : N) : list N := [u16_hi v; u16_lo v].

(* decimal rendering of a number (Display for u8/u16/u32/usize) *)
Fixpoint dec_digits_fuel (fuel : nat) (n : N) (acc : list N) : list N :=
  match fuel with
  | O => acc
  | S f => let acc' := (48 + n mod 10) :: acc in
           if n <? 10 then acc' else dec_digits_fuel f (n / 10) acc'
  end.
Definition show_dec (n : N) : list N := dec_digits_fuel 40 n [].

(* association lists standing for HashMap with insertion order *)
Section Assoc.
  Context {K V : Type} (keqb : K -> K -> bool).
  Fixpoint alookup (k : K) (m : list (K * V)) : option V :=
    match m with
    | [] => None
    | (k', v) :: t => if keqb k k' then Some v else alookup k t
    end.
  Fixpoint areplace (k : K) (v : V) (m : list (K * V)) : list (K * V) :=
    match m with
    | [] => []
    | (k', v') :: t => if keqb k k' then (k', v) :: t else (k', v') :: areplace k v t
    end.
  (* HashMap::insert: overwrite in place or append *)
  Definition ainsert (k : K) (v : V) (m : list (K * V)) : list (K * V) :=
    match alookup k m with
    | Some _ => areplace k v m
    | None => m ++ [(k, v)]
    end.
  Fixpoint aremove (k : K) (m : list (K * V)) : list (K * V) :=
    match m with
    | [] => []
    | (k', v') :: t => if keqb k k' then t else (k', v') :: aremove k t
    end.
End Assoc.
