(* Base/Locks.v -- a generic small-step model of threads sharing ONE value behind a reader-writer lock
   (std::sync::Mutex = the special case without read sections; tokio::sync::RwLock as used for
   zones_lock in crates/resolved/src/main.rs), and the theorems that turn "for every sequential
   history" into "for every schedule":

   * a WRITE section (a SharedCache method; `*lock = zones` of reload_task) is
       acquire exclusively; run [wexec clock shared w], store the new value; release
     -- the body reads the clock and the shared value and writes the result back;
   * a READ section (resolve_and_build_response holding `zones_lock.read().await` across the whole
     resolution) is
       acquire shared; read the shared value any number of times, with steps of other threads in
       between; release; the caller's result is [rexec seen q], a function of the values seen.

   A schedule is an arbitrary list of events; an event that is not enabled (acquiring a held lock,
   stepping a thread that is idle, ...) leaves the state unchanged, so EVERY list is a schedule and
   the theorems quantify over all of them.  The lock admits MORE schedules than tokio's fair RwLock
   or a FIFO mutex (no fairness, no writer preference): safety proved here holds a fortiori there.

   What is modelled, not verified: that std's Mutex / tokio's RwLock provide exactly this exclusion,
   and that Rust's borrow checker confines access to the guarded value to the guard's lifetime.  The
   shape of the critical sections in the Rust source (one lock() per SharedCache method, one
   read().await before resolve(...), one write().await after load_zone_configuration) is read from
   the source by tools/tables.py on every run (Base/TablesOk.v). *)
From Coq Require Import List NArith Lia Bool PeanoNat.
Import ListNotations.

Section RW.
Variables (S W Q O : Type).
Variable wexec : N -> S -> W -> S * O.
Variable rexec : list S -> Q -> O.

(* one executed write section: when, who, what, result *)
Record lin := { l_time : N; l_tid : nat; l_w : W; l_out : O }.

Inductive pc :=
| Idle
| WaitW (w : W) | HoldW (w : W) | DoneW (l : lin)
| WaitR (q : Q) | HoldR (q : Q) (seen : list S).

Inductive ev :=
| Tick (d : N)                 (* time passes *)
| CallW (t : nat) (w : W)      (* thread t starts a write section *)
| CallR (t : nat) (q : Q)      (* thread t starts a read section *)
| Acq (t : nat)                (* t tries to take the lock *)
| Step (t : nat)               (* t runs the next step of its section *)
| Rel (t : nat).               (* t drops its guard *)

Inductive ret :=
| WRet (l : lin)                                        (* a write section returned l_out l to l_tid l *)
| RRet (t : nat) (q : Q) (seen : list S) (o : O).       (* a read section returned o *)

Record sys := {
  clock : N;
  shared : S;
  writer : option nat;      (* lock state: the exclusive holder *)
  readers : list nat;       (* lock state: the shared holders *)
  pcs : nat -> pc;
  hist : list S;            (* every value the shared state has had, newest first *)
  wlog : list lin;          (* executed write sections, newest first *)
  rets : list ret }.        (* completed sections, newest first *)

Definition upd (f : nat -> pc) (t : nat) (v : pc) : nat -> pc :=
  fun t' => if Nat.eqb t' t then v else f t'.

Definition set_pc (s : sys) (t : nat) (v : pc) : sys :=
  {| clock := clock s; shared := shared s; writer := writer s; readers := readers s;
     pcs := upd (pcs s) t v; hist := hist s; wlog := wlog s; rets := rets s |}.

Definition remove_tid (t : nat) (l : list nat) : list nat := filter (fun x => negb (Nat.eqb x t)) l.

Definition sstep (s : sys) (e : ev) : sys :=
  match e with
  | Tick d =>
    {| clock := clock s + d; shared := shared s; writer := writer s; readers := readers s;
       pcs := pcs s; hist := hist s; wlog := wlog s; rets := rets s |}
  | CallW t w => match pcs s t with Idle => set_pc s t (WaitW w) | _ => s end
  | CallR t q => match pcs s t with Idle => set_pc s t (WaitR q) | _ => s end
  | Acq t =>
    match pcs s t with
    | WaitW w =>
      match writer s, readers s with
      | None, [] =>
        {| clock := clock s; shared := shared s; writer := Some t; readers := [];
           pcs := upd (pcs s) t (HoldW w); hist := hist s; wlog := wlog s; rets := rets s |}
      | _, _ => s
      end
    | WaitR q =>
      match writer s with
      | None =>
        {| clock := clock s; shared := shared s; writer := None; readers := t :: readers s;
           pcs := upd (pcs s) t (HoldR q []); hist := hist s; wlog := wlog s; rets := rets s |}
      | Some _ => s
      end
    | _ => s
    end
  | Step t =>
    match pcs s t with
    | HoldW w =>
      let r := wexec (clock s) (shared s) w in
      let l := {| l_time := clock s; l_tid := t; l_w := w; l_out := snd r |} in
      {| clock := clock s; shared := fst r; writer := writer s; readers := readers s;
         pcs := upd (pcs s) t (DoneW l); hist := fst r :: hist s; wlog := l :: wlog s; rets := rets s |}
    | HoldR q seen => set_pc s t (HoldR q (seen ++ [shared s]))
    | _ => s
    end
  | Rel t =>
    match pcs s t with
    | DoneW l =>
      {| clock := clock s; shared := shared s; writer := None; readers := readers s;
         pcs := upd (pcs s) t Idle; hist := hist s; wlog := wlog s; rets := WRet l :: rets s |}
    | HoldR q seen =>
      {| clock := clock s; shared := shared s; writer := writer s; readers := remove_tid t (readers s);
         pcs := upd (pcs s) t Idle; hist := hist s; wlog := wlog s;
         rets := RRet t q seen (rexec seen q) :: rets s |}
    | _ => s
    end
  end.

Definition run_sched (s : sys) (evs : list ev) : sys := fold_left sstep evs s.

Definition init_sys (s0 : S) : sys :=
  {| clock := 0; shared := s0; writer := None; readers := []; pcs := fun _ => Idle;
     hist := [s0]; wlog := []; rets := [] |}.

(* ---- sequential replay of the linearisation ---- *)
(* [replays ls s s']: executing the write sections ls (oldest first) one after the other from s, each at
   its recorded instant, gives s' and exactly the recorded results *)
Inductive replays : list lin -> S -> S -> Prop :=
| rp_nil : forall s, replays [] s s
| rp_cons : forall l ls s s',
    l_out l = snd (wexec (l_time l) s (l_w l)) ->
    replays ls (fst (wexec (l_time l) s (l_w l))) s' ->
    replays (l :: ls) s s'.

Fixpoint times_sorted (ls : list lin) : Prop :=   (* newest first: non-increasing *)
  match ls with
  | [] => True
  | l :: rest => match rest with [] => True | l' :: _ => (l_time l' <= l_time l)%N end /\ times_sorted rest
  end.

Definition holds_w (p : pc) : Prop := (exists w, p = HoldW w) \/ (exists l, p = DoneW l).
Definition holds_r (p : pc) : Prop := exists q seen, p = HoldR q seen.

(* the invariant of every reachable state *)
Record inv (s0 : S) (s : sys) : Prop := {
  i_writer : forall t, holds_w (pcs s t) <-> writer s = Some t;
  i_readers : forall t, holds_r (pcs s t) <-> In t (readers s);
  i_excl : writer s <> None -> readers s = [];
  i_seen : forall t q seen, pcs s t = HoldR q seen -> Forall (eq (shared s)) seen;
  i_hist : exists tl, hist s = shared s :: tl;
  i_init : In s0 (hist s);
  i_replay : replays (rev (wlog s)) s0 (shared s);
  i_sorted : times_sorted (wlog s);
  i_clock : forall l, In l (wlog s) -> (l_time l <= clock s)%N;
  i_done : forall t l, pcs s t = DoneW l -> In l (wlog s) /\ l_tid l = t;
  i_wrets : forall l, In (WRet l) (rets s) -> In l (wlog s);
  i_rrets : forall t q seen o, In (RRet t q seen o) (rets s) ->
              o = rexec seen q /\ exists v, In v (hist s) /\ Forall (eq v) seen;
  i_hist_w : forall v, In v (hist s) -> v = s0 \/ exists l s1, In l (wlog s) /\ In s1 (hist s) /\
                                                   v = fst (wexec (l_time l) s1 (l_w l))
}.

Lemma upd_same f t v : upd f t v t = v.
Proof. unfold upd. rewrite Nat.eqb_refl. reflexivity. Qed.

Lemma upd_other f t v t' : t' <> t -> upd f t v t' = f t'.
Proof. unfold upd. intro H. destruct (Nat.eqb_spec t' t); [contradiction|reflexivity]. Qed.

Lemma in_remove_tid t x l : In x (remove_tid t l) <-> In x l /\ x <> t.
Proof.
  unfold remove_tid. rewrite filter_In. split; intros [H1 H2]; split; try assumption.
  - intro E. subst. rewrite Nat.eqb_refl in H2. discriminate.
  - destruct (Nat.eqb_spec x t); [contradiction|reflexivity].
Qed.

Lemma replays_snoc ls : forall s s' l,
  replays ls s s' -> l_out l = snd (wexec (l_time l) s' (l_w l)) ->
  replays (ls ++ [l]) s (fst (wexec (l_time l) s' (l_w l))).
Proof.
  induction ls as [|x xs IH]; intros s s' l H Hl; inversion H; subst; cbn [app].
  - apply rp_cons; [assumption|apply rp_nil].
  - apply rp_cons; [assumption|]. apply IH; assumption.
Qed.

Lemma inv_init s0 : inv s0 (init_sys s0).
Proof.
  constructor; cbn.
  - intro t. split; [intros [[w H]|[l H]]; discriminate|discriminate].
  - intro t. split; [intros (q & sn & H); discriminate|intros []].
  - reflexivity.
  - intros; discriminate.
  - eexists; reflexivity.
  - left; reflexivity.
  - apply rp_nil.
  - exact I.
  - intros l [].
  - intros; discriminate.
  - intros l [].
  - intros t q sn o [].
  - intros v [<-|[]]. left; reflexivity.
Qed.

Ltac pc_cases s t := destruct (pcs s t) as [|w0|w0|l0|q0|q0 seen0] eqn:Hpc.

Lemma holds_w_upd_iff s t v t' :
  holds_w (upd (pcs s) t v t') <-> (t' = t /\ holds_w v) \/ (t' <> t /\ holds_w (pcs s t')).
Proof.
  destruct (Nat.eq_dec t' t) as [->|Hn].
  - rewrite upd_same. split; [intro H; left; auto|intros [[_ H]|[H _]]; [assumption|contradiction]].
  - rewrite upd_other by assumption. split; [intro H; right; auto|intros [[H _]|[_ H]]; [contradiction|assumption]].
Qed.

Lemma holds_r_upd_iff s t v t' :
  holds_r (upd (pcs s) t v t') <-> (t' = t /\ holds_r v) \/ (t' <> t /\ holds_r (pcs s t')).
Proof.
  destruct (Nat.eq_dec t' t) as [->|Hn].
  - rewrite upd_same. split; [intro H; left; auto|intros [[_ H]|[H _]]; [assumption|contradiction]].
  - rewrite upd_other by assumption. split; [intro H; right; auto|intros [[H _]|[_ H]]; [contradiction|assumption]].
Qed.

Lemma not_holds_w_idle : ~ holds_w Idle.                Proof. intros [[? H]|[? H]]; discriminate. Qed.
Lemma not_holds_w_waitw w : ~ holds_w (WaitW w).         Proof. intros [[? H]|[? H]]; discriminate. Qed.
Lemma not_holds_w_waitr q : ~ holds_w (WaitR q).         Proof. intros [[? H]|[? H]]; discriminate. Qed.
Lemma not_holds_w_holdr q sn : ~ holds_w (HoldR q sn).   Proof. intros [[? H]|[? H]]; discriminate. Qed.
Lemma holds_w_holdw w : holds_w (HoldW w).               Proof. left; eexists; reflexivity. Qed.
Lemma holds_w_donew l : holds_w (DoneW l).               Proof. right; eexists; reflexivity. Qed.
Lemma not_holds_r_idle : ~ holds_r Idle.                 Proof. intros (? & ? & H); discriminate. Qed.
Lemma not_holds_r_waitw w : ~ holds_r (WaitW w).         Proof. intros (? & ? & H); discriminate. Qed.
Lemma not_holds_r_waitr q : ~ holds_r (WaitR q).         Proof. intros (? & ? & H); discriminate. Qed.
Lemma not_holds_r_holdw w : ~ holds_r (HoldW w).         Proof. intros (? & ? & H); discriminate. Qed.
Lemma not_holds_r_donew l : ~ holds_r (DoneW l).         Proof. intros (? & ? & H); discriminate. Qed.
Lemma holds_r_holdr q sn : holds_r (HoldR q sn).         Proof. eexists; eexists; reflexivity. Qed.

(* a state change of one thread between two non-holding program counters keeps everything *)
Lemma inv_set_pc_nonholding s0 s t v :
  inv s0 s -> ~ holds_w (pcs s t) -> ~ holds_r (pcs s t) -> ~ holds_w v -> ~ holds_r v ->
  (forall l, v <> DoneW l) -> (forall q sn, v <> HoldR q sn) ->
  inv s0 (set_pc s t v).
Proof.
  intros I Hw Hr Hvw Hvr Hd Hh. destruct I. constructor; cbn; try assumption.
  - intro t'. rewrite holds_w_upd_iff. rewrite <- i_writer0. split.
    + intros [[_ H]|[_ H]]; [contradiction|assumption].
    + intro H. right. split; [|assumption]. intro E; subst; contradiction.
  - intro t'. rewrite holds_r_upd_iff. rewrite <- i_readers0. split.
    + intros [[_ H]|[_ H]]; [contradiction|assumption].
    + intro H. right. split; [|assumption]. intro E; subst; contradiction.
  - intros t' q sn H. destruct (Nat.eq_dec t' t) as [->|Hn].
    + rewrite upd_same in H. exfalso. eapply Hh; eassumption.
    + rewrite upd_other in H by assumption. eapply i_seen0; eassumption.
  - intros t' l H. destruct (Nat.eq_dec t' t) as [->|Hn].
    + rewrite upd_same in H. exfalso. eapply Hd; eassumption.
    + rewrite upd_other in H by assumption. apply i_done0; assumption.
Qed.

Lemma sstep_inv s0 s e : inv s0 s -> inv s0 (sstep s e).
Proof.
  intro I. destruct e as [d|t w|t q|t|t|t]; cbn [sstep].
  - (* Tick *)
    destruct I. constructor; cbn; try assumption.
    intros l Hl. specialize (i_clock0 l Hl). lia.
  - (* CallW *)
    pc_cases s t; try exact I.
    apply inv_set_pc_nonholding; try assumption; rewrite ?Hpc;
      auto using not_holds_w_idle, not_holds_r_idle, not_holds_w_waitw, not_holds_r_waitw; intros; discriminate.
  - (* CallR *)
    pc_cases s t; try exact I.
    apply inv_set_pc_nonholding; try assumption; rewrite ?Hpc;
      auto using not_holds_w_idle, not_holds_r_idle, not_holds_w_waitr, not_holds_r_waitr; intros; discriminate.
  - (* Acq *)
    pc_cases s t; try exact I.
    + (* WaitW *)
      destruct (writer s) as [t0|] eqn:Hwr; [exact I|].
      destruct (readers s) as [|r rs] eqn:Hrd; [|exact I].
      destruct I. constructor; cbn; try assumption.
      * intro t'. rewrite holds_w_upd_iff. split.
        -- intros [[-> _]|[Hn H]]; [reflexivity|]. apply i_writer0 in H. rewrite Hwr in H. discriminate.
        -- intro H. injection H as <-. left. split; [reflexivity|apply holds_w_holdw].
      * intro t'. rewrite holds_r_upd_iff. split.
        -- intros [[_ H]|[_ H]]; [exact (not_holds_r_holdw _ H)|]. apply i_readers0 in H. rewrite Hrd in H. exact H.
        -- intros [].
      * reflexivity.
      * intros t' q sn H. destruct (Nat.eq_dec t' t) as [->|Hn].
        -- rewrite upd_same in H. discriminate.
        -- rewrite upd_other in H by assumption. eapply i_seen0; eassumption.
      * intros t' l H. destruct (Nat.eq_dec t' t) as [->|Hn].
        -- rewrite upd_same in H. discriminate.
        -- rewrite upd_other in H by assumption. apply i_done0; assumption.
    + (* WaitR *)
      destruct (writer s) as [t0|] eqn:Hwr; [exact I|].
      destruct I. constructor; cbn; try assumption.
      * intro t'. rewrite holds_w_upd_iff. split.
        -- intros [[_ H]|[_ H]]; [exact (False_ind _ (not_holds_w_holdr _ _ H))|].
           apply i_writer0 in H. rewrite Hwr in H. discriminate.
        -- discriminate.
      * intro t'. rewrite holds_r_upd_iff. split.
        -- intros [[-> _]|[_ H]]; [left; reflexivity|right; apply i_readers0; assumption].
        -- intros [<-|H]; [left; split; [reflexivity|apply holds_r_holdr]|].
           destruct (Nat.eq_dec t' t) as [->|Hn]; [left; split; [reflexivity|apply holds_r_holdr]|].
           right. split; [assumption|apply i_readers0; assumption].
      * intro H; contradiction.
      * intros t' q sn H. destruct (Nat.eq_dec t' t) as [->|Hn].
        -- rewrite upd_same in H. injection H as _ <-. constructor.
        -- rewrite upd_other in H by assumption. eapply i_seen0; eassumption.
      * intros t' l H. destruct (Nat.eq_dec t' t) as [->|Hn].
        -- rewrite upd_same in H. discriminate.
        -- rewrite upd_other in H by assumption. apply i_done0; assumption.
  - (* Step *)
    pc_cases s t; try exact I.
    + (* HoldW: the body runs; nobody else holds the lock *)
      assert (Hwr : writer s = Some t) by (apply (i_writer _ _ I); rewrite Hpc; apply holds_w_holdw).
      assert (Hrd : readers s = []) by (apply (i_excl _ _ I); rewrite Hwr; discriminate).
      destruct I. constructor; cbn; try assumption.
      * intro t'. rewrite holds_w_upd_iff. rewrite <- i_writer0. split.
        -- intros [[-> _]|[_ H]]; [rewrite Hpc; apply holds_w_holdw|assumption].
        -- intro H. destruct (Nat.eq_dec t' t) as [->|Hn]; [left; split; [reflexivity|apply holds_w_donew]|right; auto].
      * intro t'. rewrite holds_r_upd_iff. rewrite <- i_readers0. split.
        -- intros [[_ H]|[_ H]]; [exact (False_ind _ (not_holds_r_donew _ H))|assumption].
        -- intro H. right. split; [|assumption]. intro E; subst. rewrite Hpc in H. exact (not_holds_r_holdw _ H).
      * (* no reader exists, so nobody's [seen] is invalidated *)
        intros t' q sn H. destruct (Nat.eq_dec t' t) as [->|Hn].
        -- rewrite upd_same in H. discriminate.
        -- rewrite upd_other in H by assumption. exfalso.
           assert (Hin : In t' (readers s)) by (apply i_readers0; rewrite H; apply holds_r_holdr).
           rewrite Hrd in Hin. exact Hin.
      * eexists; reflexivity.
      * right; assumption.
      * rewrite <- app_nil_l at 1. cbn [rev].
        apply (replays_snoc (rev (wlog s)) s0 (shared s)
                 {| l_time := clock s; l_tid := t; l_w := w0; l_out := snd (wexec (clock s) (shared s) w0) |});
          [assumption|reflexivity].
      * split; [|assumption]. destruct (wlog s) as [|l' rest] eqn:Hlog; [exact I|].
        cbn. apply i_clock0. left; reflexivity.
      * intros l [<-|Hl]; [cbn; lia|apply i_clock0; assumption].
      * intros t' l H. destruct (Nat.eq_dec t' t) as [->|Hn].
        -- rewrite upd_same in H. injection H as <-. split; [left; reflexivity|reflexivity].
        -- rewrite upd_other in H by assumption. destruct (i_done0 _ _ H). split; [right; assumption|assumption].
      * intros l Hl. right. apply i_wrets0; assumption.
      * intros t' q sn o Hr. destruct (i_rrets0 _ _ _ _ Hr) as (Ho & v & Hv & Hf).
        split; [assumption|]. exists v. split; [right; assumption|assumption].
      * intros v [<-|Hv].
        -- right. eexists {| l_time := clock s; l_tid := t; l_w := w0; l_out := _ |}, (shared s).
           split; [left; reflexivity|]. split; [|reflexivity]. right.
           destruct i_hist0 as (tl & ->). left; reflexivity.
        -- destruct (i_hist_w0 v Hv) as [->|(l & s1 & Hl & Hs1 & ->)]; [left; reflexivity|].
           right. exists l, s1. split; [right; assumption|]. split; [right; assumption|reflexivity].
    + (* HoldR: one more read of the shared value *)
      destruct I. constructor; cbn; try assumption.
      * intro t'. rewrite holds_w_upd_iff. rewrite <- i_writer0. split.
        -- intros [[_ H]|[_ H]]; [exact (False_ind _ (not_holds_w_holdr _ _ H))|assumption].
        -- intro H. right. split; [|assumption]. intro E; subst. rewrite Hpc in H. exact (not_holds_w_holdr _ _ H).
      * intro t'. rewrite holds_r_upd_iff. rewrite <- i_readers0. split.
        -- intros [[-> _]|[_ H]]; [rewrite Hpc; apply holds_r_holdr|assumption].
        -- intro H. destruct (Nat.eq_dec t' t) as [->|Hn]; [left; split; [reflexivity|apply holds_r_holdr]|right; auto].
      * intros t' q sn H. destruct (Nat.eq_dec t' t) as [->|Hn].
        -- rewrite upd_same in H. injection H as _ <-. apply Forall_app. split; [eapply i_seen0; eassumption|].
           constructor; [reflexivity|constructor].
        -- rewrite upd_other in H by assumption. eapply i_seen0; eassumption.
      * intros t' l H. destruct (Nat.eq_dec t' t) as [->|Hn].
        -- rewrite upd_same in H. discriminate.
        -- rewrite upd_other in H by assumption. apply i_done0; assumption.
  - (* Rel *)
    pc_cases s t; try exact I.
    + (* DoneW *)
      assert (Hwr : writer s = Some t) by (apply (i_writer _ _ I); rewrite Hpc; apply holds_w_donew).
      assert (Hrd : readers s = []) by (apply (i_excl _ _ I); rewrite Hwr; discriminate).
      destruct I. constructor; cbn; try assumption.
      * intro t'. rewrite holds_w_upd_iff. split.
        -- intros [[_ H]|[Hn H]]; [exact (False_ind _ (not_holds_w_idle H))|].
           apply i_writer0 in H. rewrite Hwr in H. injection H as <-. contradiction.
        -- discriminate.
      * intro t'. rewrite holds_r_upd_iff. rewrite <- i_readers0. split.
        -- intros [[_ H]|[_ H]]; [exact (False_ind _ (not_holds_r_idle H))|assumption].
        -- intro H. right. split; [|assumption]. intro E; subst. rewrite Hpc in H. exact (not_holds_r_donew _ H).
      * intro H; contradiction.
      * intros t' q sn H. destruct (Nat.eq_dec t' t) as [->|Hn].
        -- rewrite upd_same in H. discriminate.
        -- rewrite upd_other in H by assumption. eapply i_seen0; eassumption.
      * intros t' l H. destruct (Nat.eq_dec t' t) as [->|Hn].
        -- rewrite upd_same in H. discriminate.
        -- rewrite upd_other in H by assumption. apply i_done0; assumption.
      * intros l [E|Hl]; [injection E as <-; apply (i_done0 t); assumption|apply i_wrets0; assumption].
      * intros t' q sn o [E|Hr]; [discriminate|]. apply (i_rrets0 _ _ _ _ Hr).
    + (* HoldR *)
      destruct I. constructor; cbn; try assumption.
      * intro t'. rewrite holds_w_upd_iff. rewrite <- i_writer0. split.
        -- intros [[_ H]|[_ H]]; [exact (False_ind _ (not_holds_w_idle H))|assumption].
        -- intro H. right. split; [|assumption]. intro E; subst. rewrite Hpc in H. exact (not_holds_w_holdr _ _ H).
      * intro t'. rewrite holds_r_upd_iff. rewrite in_remove_tid. rewrite <- i_readers0. split.
        -- intros [[_ H]|[Hn H]]; [exact (False_ind _ (not_holds_r_idle H))|split; assumption].
        -- intros [H Hn]. right. split; assumption.
      * intro H. rewrite (i_excl0 H). reflexivity.
      * intros t' q sn H. destruct (Nat.eq_dec t' t) as [->|Hn].
        -- rewrite upd_same in H. discriminate.
        -- rewrite upd_other in H by assumption. eapply i_seen0; eassumption.
      * intros t' l H. destruct (Nat.eq_dec t' t) as [->|Hn].
        -- rewrite upd_same in H. discriminate.
        -- rewrite upd_other in H by assumption. apply i_done0; assumption.
      * intros l [E|Hl]; [discriminate|apply i_wrets0; assumption].
      * intros t' q sn o [E|Hr]; [|apply (i_rrets0 _ _ _ _ Hr)].
        injection E as <- <- <- <-. split; [reflexivity|]. exists (shared s). split.
        -- destruct i_hist0 as (tl & ->). left; reflexivity.
        -- eapply i_seen0; eassumption.
Qed.

Theorem run_sched_inv s0 evs : forall s, inv s0 s -> inv s0 (run_sched s evs).
Proof.
  induction evs as [|e evs IH]; intros s I; [exact I|]. cbn [run_sched fold_left].
  apply IH. apply sstep_inv. exact I.
Qed.

(* ---- the theorems, for every schedule ---- *)

(* Linearisability of the write sections: after ANY schedule the shared value is the result of
   executing the completed bodies one after the other, in the order in which they ran (lock
   order), each at its own instant; the instants are non-decreasing; every result a caller got
   is the result of its section in that sequential execution. *)
Theorem writes_linearise s0 evs :
  let s := run_sched (init_sys s0) evs in
  replays (rev (wlog s)) s0 (shared s) /\ times_sorted (wlog s) /\
  (forall l, In (WRet l) (rets s) -> In l (wlog s)).
Proof.
  intro s. pose proof (run_sched_inv s0 evs _ (inv_init s0)) as I. fold s in I.
  destruct I. auto.
Qed.

(* Mutual exclusion: two threads never hold the exclusive lock together and a reader never
   coexists with a writer. *)
Theorem mutual_exclusion s0 evs :
  let s := run_sched (init_sys s0) evs in
  forall t1 t2, holds_w (pcs s t1) -> (holds_w (pcs s t2) -> t1 = t2) /\ ~ holds_r (pcs s t2).
Proof.
  intros s t1 t2 H1. pose proof (run_sched_inv s0 evs _ (inv_init s0)) as I. fold s in I.
  destruct I. apply i_writer0 in H1. split.
  - intro H2. apply i_writer0 in H2. rewrite H1 in H2. injection H2 as ->. reflexivity.
  - intro H2. apply i_readers0 in H2. rewrite i_excl0 in H2 by (rewrite H1; discriminate). exact H2.
Qed.

(* Read sections are consistent: everything one read section saw of the shared value, however many
   reads it made and whatever ran in between, is ONE value, and that value is the initial one or was
   produced by an executed write section. *)
Theorem reads_consistent s0 evs :
  let s := run_sched (init_sys s0) evs in
  forall t q seen o, In (RRet t q seen o) (rets s) ->
    o = rexec seen q /\ exists v, Forall (eq v) seen /\ In v (hist s) /\
      (v = s0 \/ exists l s1, In l (wlog s) /\ v = fst (wexec (l_time l) s1 (l_w l))).
Proof.
  intros s t q seen o H. pose proof (run_sched_inv s0 evs _ (inv_init s0)) as I. fold s in I.
  destruct I. destruct (i_rrets0 _ _ _ _ H) as (Ho & v & Hv & Hf).
  split; [assumption|]. exists v. split; [assumption|]. split; [assumption|].
  destruct (i_hist_w0 v Hv) as [->|(l & s1 & Hl & _ & ->)]; [left; reflexivity|right; eauto].
Qed.

(* A predicate that holds initially and is preserved by every write body holds of the shared value
   after every schedule (at every instant: a prefix of a schedule is a schedule). *)
Theorem shared_invariant (P : S -> Prop) s0 evs :
  P s0 -> (forall now s w, P s -> P (fst (wexec now s w))) ->
  P (shared (run_sched (init_sys s0) evs)) /\ Forall P (hist (run_sched (init_sys s0) evs)).
Proof.
  intros H0 Hstep.
  assert (G : forall evs s, P (shared s) /\ Forall P (hist s) ->
              P (shared (run_sched s evs)) /\ Forall P (hist (run_sched s evs))).
  { clear evs. induction evs as [|e evs IH]; intros s Hs; [exact Hs|]. cbn [run_sched fold_left].
    apply IH. destruct Hs as [Hs Hh].
    destruct e as [d|t w|t q|t|t|t]; cbn [sstep]; try (split; assumption).
    - destruct (pcs s t); cbn; split; assumption.
    - destruct (pcs s t); cbn; split; assumption.
    - destruct (pcs s t); try (split; assumption).
      + destruct (writer s); [split; assumption|]. destruct (readers s); cbn; split; assumption.
      + destruct (writer s); cbn; split; assumption.
    - destruct (pcs s t); cbn; try (split; assumption).
      split; [apply Hstep; assumption|constructor; [apply Hstep; assumption|assumption]].
    - destruct (pcs s t); cbn; split; assumption. }
  apply G. cbn. split; [assumption|constructor; [assumption|constructor]].
Qed.


(* ---- oldest-first view of the linearisation ---- *)
Fixpoint sorted_from (n : N) (ls : list lin) : Prop :=
  match ls with [] => True | l :: r => (n <= l_time l)%N /\ sorted_from (l_time l) r end.

Fixpoint last_time (n : N) (ls : list lin) : N :=
  match ls with [] => n | l :: r => last_time (l_time l) r end.

Lemma last_time_snoc ls : forall n l, last_time n (ls ++ [l]) = l_time l.
Proof. induction ls as [|x xs IH]; intros n l; cbn; [reflexivity|apply IH]. Qed.

Lemma sorted_from_snoc ls : forall n l,
  sorted_from n ls -> (last_time n ls <= l_time l)%N -> sorted_from n (ls ++ [l]).
Proof.
  induction ls as [|x xs IH]; intros n l H Hl; cbn in *.
  - split; [assumption|exact I].
  - destruct H as [H1 H2]. split; [assumption|]. apply IH; assumption.
Qed.

Lemma times_sorted_rev ls : times_sorted ls -> sorted_from 0 (rev ls).
Proof.
  induction ls as [|l rest IH]; intro H; [exact I|]. cbn [rev]. destruct H as [H1 H2].
  apply sorted_from_snoc; [apply IH; assumption|].
  destruct rest as [|l' r']; [cbn; apply N.le_0_l|]. cbn [rev]. rewrite last_time_snoc. exact H1.
Qed.

(* The linearisation, oldest first: a sequential execution with non-decreasing instants. *)
Theorem writes_linearise_sorted s0 evs :
  let s := run_sched (init_sys s0) evs in
  replays (rev (wlog s)) s0 (shared s) /\ sorted_from 0 (rev (wlog s)).
Proof.
  intro s. destruct (writes_linearise s0 evs) as (H1 & H2 & _). fold s in H1, H2.
  split; [assumption|apply times_sorted_rev; assumption].
Qed.

(* ---- nothing is executed or returned that was not called ---- *)
Record called (evs : list ev) (s : sys) : Prop := {
  c_waitw : forall t w, pcs s t = WaitW w \/ pcs s t = HoldW w -> In (CallW t w) evs;
  c_waitr : forall t q, pcs s t = WaitR q \/ (exists sn, pcs s t = HoldR q sn) -> In (CallR t q) evs;
  c_wlog : forall l, In l (wlog s) -> In (CallW (l_tid l) (l_w l)) evs;
  c_rrets : forall t q sn o, In (RRet t q sn o) (rets s) -> In (CallR t q) evs
}.

Lemma run_sched_snoc s evs e : run_sched s (evs ++ [e]) = sstep (run_sched s evs) e.
Proof. unfold run_sched. rewrite fold_left_app. reflexivity. Qed.

Lemma called_weaken evs e s : called evs s -> called (evs ++ [e]) s.
Proof.
  intros [A B C D]. constructor; intros; apply in_or_app; left; eauto.
Qed.

Lemma called_step evs s e : called evs s -> called (evs ++ [e]) (sstep s e).
Proof.
  intro H. pose proof (called_weaken evs e s H) as Hw. destruct Hw as [A B C D].
  assert (Hlast : In e (evs ++ [e])) by (apply in_or_app; right; left; reflexivity).
  destruct e as [d|t w|t q|t|t|t]; cbn [sstep].
  - constructor; cbn; assumption.
  - pc_cases s t; try (constructor; assumption).
    constructor; cbn; try assumption.
    + intros t' w' Hp. destruct (Nat.eq_dec t' t) as [->|Hn].
      * rewrite upd_same in Hp. destruct Hp as [Hp|Hp]; [injection Hp as <-; exact Hlast|discriminate].
      * rewrite upd_other in Hp by assumption. apply A; assumption.
    + intros t' q' Hp. destruct (Nat.eq_dec t' t) as [->|Hn].
      * rewrite upd_same in Hp. destruct Hp as [Hp|[sn Hp]]; discriminate.
      * rewrite upd_other in Hp by assumption. apply B; assumption.
  - pc_cases s t; try (constructor; assumption).
    constructor; cbn; try assumption.
    + intros t' w' Hp. destruct (Nat.eq_dec t' t) as [->|Hn].
      * rewrite upd_same in Hp. destruct Hp as [Hp|Hp]; discriminate.
      * rewrite upd_other in Hp by assumption. apply A; assumption.
    + intros t' q' Hp. destruct (Nat.eq_dec t' t) as [->|Hn].
      * rewrite upd_same in Hp. destruct Hp as [Hp|[sn Hp]]; [injection Hp as <-; exact Hlast|discriminate].
      * rewrite upd_other in Hp by assumption. apply B; assumption.
  - pc_cases s t; try (constructor; assumption).
    + destruct (writer s); [constructor; assumption|]. destruct (readers s); [|constructor; assumption].
      constructor; cbn; try assumption.
      * intros t' w' Hp. destruct (Nat.eq_dec t' t) as [->|Hn].
        -- rewrite upd_same in Hp. apply A. left. rewrite Hpc. destruct Hp as [Hp|Hp]; [discriminate|].
           injection Hp as <-. reflexivity.
        -- rewrite upd_other in Hp by assumption. apply A; assumption.
      * intros t' q' Hp. destruct (Nat.eq_dec t' t) as [->|Hn].
        -- rewrite upd_same in Hp. destruct Hp as [Hp|[sn Hp]]; discriminate.
        -- rewrite upd_other in Hp by assumption. apply B; assumption.
    + destruct (writer s); [constructor; assumption|].
      constructor; cbn; try assumption.
      * intros t' w' Hp. destruct (Nat.eq_dec t' t) as [->|Hn].
        -- rewrite upd_same in Hp. destruct Hp as [Hp|Hp]; discriminate.
        -- rewrite upd_other in Hp by assumption. apply A; assumption.
      * intros t' q' Hp. destruct (Nat.eq_dec t' t) as [->|Hn].
        -- rewrite upd_same in Hp. apply B. left. rewrite Hpc. destruct Hp as [Hp|[sn Hp]]; [discriminate|].
           injection Hp as <- _. reflexivity.
        -- rewrite upd_other in Hp by assumption. apply B; assumption.
  - pc_cases s t; try (constructor; assumption).
    + constructor; cbn; try assumption.
      * intros t' w' Hp. destruct (Nat.eq_dec t' t) as [->|Hn].
        -- rewrite upd_same in Hp. destruct Hp as [Hp|Hp]; discriminate.
        -- rewrite upd_other in Hp by assumption. apply A; assumption.
      * intros t' q' Hp. destruct (Nat.eq_dec t' t) as [->|Hn].
        -- rewrite upd_same in Hp. destruct Hp as [Hp|[sn Hp]]; discriminate.
        -- rewrite upd_other in Hp by assumption. apply B; assumption.
      * intros l [<-|Hl]; [cbn; apply A; right; assumption|apply C; assumption].
    + constructor; cbn; try assumption.
      * intros t' w' Hp. destruct (Nat.eq_dec t' t) as [->|Hn].
        -- rewrite upd_same in Hp. destruct Hp as [Hp|Hp]; discriminate.
        -- rewrite upd_other in Hp by assumption. apply A; assumption.
      * intros t' q' Hp. destruct (Nat.eq_dec t' t) as [->|Hn].
        -- rewrite upd_same in Hp. apply B. right. exists seen0. rewrite Hpc.
           destruct Hp as [Hp|[sn Hp]]; [discriminate|]. injection Hp as <- _. reflexivity.
        -- rewrite upd_other in Hp by assumption. apply B; assumption.
  - pc_cases s t; try (constructor; assumption).
    + constructor; cbn; try assumption.
      * intros t' w' Hp. destruct (Nat.eq_dec t' t) as [->|Hn].
        -- rewrite upd_same in Hp. destruct Hp as [Hp|Hp]; discriminate.
        -- rewrite upd_other in Hp by assumption. apply A; assumption.
      * intros t' q' Hp. destruct (Nat.eq_dec t' t) as [->|Hn].
        -- rewrite upd_same in Hp. destruct Hp as [Hp|[sn Hp]]; discriminate.
        -- rewrite upd_other in Hp by assumption. apply B; assumption.
      * intros t' q' sn o [E|Hr]; [discriminate|eapply D; eassumption].
    + constructor; cbn; try assumption.
      * intros t' w' Hp. destruct (Nat.eq_dec t' t) as [->|Hn].
        -- rewrite upd_same in Hp. destruct Hp as [Hp|Hp]; discriminate.
        -- rewrite upd_other in Hp by assumption. apply A; assumption.
      * intros t' q' Hp. destruct (Nat.eq_dec t' t) as [->|Hn].
        -- rewrite upd_same in Hp. destruct Hp as [Hp|[sn Hp]]; discriminate.
        -- rewrite upd_other in Hp by assumption. apply B; assumption.
      * intros t' q' sn o [E|Hr]; [|eapply D; eassumption].
        injection E as <- <- _ _. apply B. right. exists seen0. assumption.
Qed.

Theorem only_called_sections_run s0 evs :
  let s := run_sched (init_sys s0) evs in
  (forall l, In l (wlog s) -> In (CallW (l_tid l) (l_w l)) evs) /\
  (forall t q sn o, In (RRet t q sn o) (rets s) -> In (CallR t q) evs).
Proof.
  assert (G : called evs (run_sched (init_sys s0) evs)).
  { induction evs as [|e evs IH] using rev_ind.
    - constructor; cbn; intros.
      + destruct H; discriminate.
      + destruct H as [H|[sn H]]; discriminate.
      + contradiction.
      + contradiction.
    - rewrite run_sched_snoc. apply called_step. exact IH. }
  intro s. destruct G. split; assumption.
Qed.

End RW.
