(* Base/Cursor.v -- model of protocol/deserialise.rs ConsumableBuffer.
   A cursor is (position, octets from position on); the whole buffer is passed
   separately where [at_offset] needs it.  Invariant (proved in the wire
   proofs): crest = skipn cpos whole. *)
From RV Require Import Base.Prelude.

Record cur := { cpos : N; crest : list byte }.

Definition cur_new (bs : list byte) : cur := {| cpos := 0; crest := bs |}.

Definition at_offset (bs : list byte) (p : N) : cur :=
  {| cpos := p; crest := skipn (N.to_nat p) bs |}.

Definition next_u8 (c : cur) : option (N * cur) :=
  match crest c with
  | b :: r => Some (b, {| cpos := cpos c + 1; crest := r |})
  | [] => None
  end.

Definition next_u16 (c : cur) : option (N * cur) :=
  match crest c with
  | a :: b :: r => Some (u16_be a b, {| cpos := cpos c + 2; crest := r |})
  | _ => None
  end.

Definition next_u32 (c : cur) : option (N * cur) :=
  match crest c with
  | a :: b :: c' :: d :: r => Some (u32_be a b c' d, {| cpos := cpos c + 4; crest := r |})
  | _ => None
  end.

(* split off exactly n elements, None if fewer are available *)
Fixpoint split_exact {A} (n : nat) (l : list A) : option (list A * list A) :=
  match n with
  | O => Some ([], l)
  | S n' => match l with
            | [] => None
            | x :: t => match split_exact n' t with
                        | Some (a, b) => Some (x :: a, b)
                        | None => None
                        end
            end
  end.

Definition take (size : N) (c : cur) : option (list byte * cur) :=
  match split_exact (N.to_nat size) (crest c) with
  | Some (a, b) => Some (a, {| cpos := cpos c + size; crest := b |})
  | None => None
  end.
