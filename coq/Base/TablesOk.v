(* Base/TablesOk.v -- lemmas about the tables regenerated from the Rust source
   (Generated/Tables.v).  They are re-proved on every run against the current
   /repo; if a table changes shape or value in a way that breaks them, the check
   reports a broken tie (DESIGN 2.2). *)
From RV Require Import Base.Prelude.

(* the translator found every table it looks for *)
Lemma tables_found_ok : tables_found = true.
Proof. vm_compute. reflexivity. Qed.

(* From<u16>/Into<u16> (and From<u8>/Into<u8>, FromStr/Display) arms are mutually inverse *)
Lemma tables_consistent_ok : tables_consistent = true.
Proof. vm_compute. reflexivity. Qed.

Fixpoint nodupb (l : list N) : bool :=
  match l with [] => true | x :: t => negb (existsb (N.eqb x) t) && nodupb t end.

(* record type codes are distinct, fit in 16 bits, and are disjoint from the query-only codes *)
Lemma rtype_codes_distinct :
  nodupb (map fst rtype_table ++ map fst qtype_table) = true
  /\ forallb (fun c => c <? 65536) (map fst rtype_table ++ map fst qtype_table) = true.
Proof. split; vm_compute; reflexivity. Qed.

(* mnemonics are distinct (FromStr is a function) *)
Fixpoint nodupb_l (l : list (list N)) : bool :=
  match l with [] => true | x :: t => negb (existsb (leqb x) t) && nodupb_l t end.
Lemma mnemonics_distinct : nodupb_l (map snd rtype_table ++ map snd qtype_table) = true.
Proof. vm_compute. reflexivity. Qed.

(* header octet 1: the five fields occupy disjoint bits and cover the octet;
   octet 2: RA and RCODE are disjoint (the Z bits are unused) *)
Lemma header_masks_disjoint :
  N.lor (N.lor (N.lor (N.lor HEADER_MASK_QR HEADER_MASK_OPCODE) HEADER_MASK_AA) HEADER_MASK_TC) HEADER_MASK_RD = 255
  /\ HEADER_MASK_QR + HEADER_MASK_OPCODE + HEADER_MASK_AA + HEADER_MASK_TC + HEADER_MASK_RD = 255
  /\ N.land HEADER_MASK_RA HEADER_MASK_RCODE = 0
  /\ HEADER_MASK_OPCODE = N.shiftl 15 HEADER_OFFSET_OPCODE
  /\ HEADER_MASK_RCODE = N.shiftl 15 HEADER_OFFSET_RCODE.
Proof. repeat split; vm_compute; reflexivity. Qed.

(* the limits RFC 1035 gives *)
Lemma name_limits : LABEL_MAX_LEN = 63 /\ DOMAINNAME_MAX_LEN = 255.
Proof. split; vm_compute; reflexivity. Qed.

(* every &self method of SharedCache takes the mutex exactly once (syntactic fact about cache.rs read by the
   table translator): each call is one critical section, so a concurrent history of calls is one of the
   sequential histories the cache theorems (C05, C15) quantify over.  The mutual exclusion itself is
   std::sync::Mutex's. *)
Lemma shared_cache_methods_atomic : shared_cache_single_lock = true.
Proof. vm_compute. reflexivity. Qed.

(* the critical sections around zones_lock in crates/resolved/src/main.rs have the shape
   Config/ConfigConcurrent.v models (syntactic facts read by the table translator): the request handler
   takes the read lock exactly once, binds the guard before resolve(...) and never drops it early;
   reload_task loads first and, only on success, takes the write lock exactly once and stores the loaded
   value; nothing else touches the lock (no try_* / blocking_* variants, no further site). *)
Lemma zones_lock_sections_ok : zones_lock_shape = true.
Proof. vm_compute. reflexivity. Qed.
