(* Config/ConfigText.v -- configuration loaded from TEXT: ties C12 / C19 (Config/ConfigModel.v, where a
   file is already-parsed data) to C11 / C17 (ZoneFile/ZoneFileModel.v, Zone::deserialise) and C14
   (Hosts/HostsModel.v, Hosts::deserialise) at the model level.

   fs.rs:  zone_from_file(path)  = read_to_string(path).await?  then  Zone::deserialise(&data)
           hosts_from_file(path) = read_to_string(path).await?  then  Hosts::deserialise(&data)
   A file of the TEXT file system [tfs] holds a list of Unicode scalar values ([None] = read_to_string
   fails: missing, no permission, not UTF-8); [parse_file] runs both parser models on it and
   [fs_of_text] turns a text file system into the data file system of ConfigModel.v;
   [load_text] = [load] after that.  A parse error makes the file unparsable in that role; so would a
   Panic / OutOfFuel of a parser MODEL, which the totality theorems (C17_parse_zone_total,
   C14_parse_hosts_total) exclude -- [load_text_total] restates that, so nothing hides there.

   Contents
     1. names read from a hosts file are well-formed DomainName values (C16: join_wf), which is
        what C12's [config_hosts_wf] premise asks for -- it is now discharged, not assumed;
     2. a record of a zone file that is not THE SOA never has type SOA (so C12's [soa_ok] holds of
        every file C11_parse_denotes covers);
     3. text file systems; the effective file sequences do not depend on the parsers;
     4. load_text_total, load_text_none_iff;
     5. load_text_denotes: the loaded configuration represents, per apex, the flat union (last SOA
        wins; hosts last-writer-wins, in the root zone, applied last) of the files' DENOTATIONS;
     6. reload over text (C19). *)
From Coq Require Import Permutation Sorting.Sorted.
From RV Require Import Base.Prelude Name.NameModel Name.NameSpec Name.NameProofs Wire.WireTypes
     Zone.ZoneModel Zone.ZoneFlat Zone.ZoneProofs Zone.ZoneMergeProofs Ip.IpModel.
From RV Require Hosts.HostsModel Hosts.HostsSpec Hosts.HostsProofs.
From RV Require ZoneFile.ZoneFileModel ZoneFile.ZoneFileSpec ZoneFile.ZoneFileProofs ZoneFile.ZoneRtLines
     ZoneFile.ZoneRtLoop ZoneFile.ZoneParseDenotes ZoneFile.ZfInstance ZoneFile.ZoneRtCodec.
From RV Require Import Resolver.LocalModel Config.ConfigModel Config.ConfigProofs Config.ConfigMerge.

Set Default Timeout 120.

(* ===================================== part 1 ===================================== *)

(* every name Hosts::deserialise puts into the maps is a well-formed DomainName *)
Module HostsNames.
  Import RV.Hosts.HostsModel RV.Hosts.HostsSpec RV.Hosts.HostsProofs.

  Definition names_wf (h : hosts) : Prop :=
    Forall wf_name (map fst (h_v4 h)) /\ Forall wf_name (map fst (h_v6 h)).

  Lemma asciic_scalar l : Forall asciic l -> Forall scalar l.
  Proof. apply Forall_impl. intros c H. unfold asciic, scalar in *. lia. Qed.

  Lemma set_insert_wf n s : wf_name n -> Forall wf_name s -> Forall wf_name (set_insert n s).
  Proof.
    intros Hn Hs. unfold set_insert. destruct (existsb _ s); [exact Hs|].
    apply Forall_app. split; [exact Hs|]. constructor; [exact Hn|constructor].
  Qed.

  (* the name field is ASCII (parse_line rejects anything else before it gets here), hence a list of
     scalar values, hence (C16_join relative to the root) a well-formed name *)
  Lemma finish_name_at_wf b acc ns ns' : Forall asciic acc -> Forall wf_name ns ->
    finish_name_at b (Some acc) ns = Ok ns' -> Forall wf_name ns'.
  Proof.
    intros Ha Hns. destruct b; cbn [finish_name_at finish_name]; [discriminate|].
    destruct (from_relative_dotted_string root_domain acc) as [n|] eqn:E; [|discriminate].
    intro H. inversion H; subst. apply set_insert_wf; [|exact Hns].
    exact (proj1 (join_wf root_domain acc n root_wf (asciic_scalar _ Ha) E)).
  Qed.

  Definition qok (q : qstate) : Prop :=
    match q with QAddr acc | QName acc => Forall asciic acc | _ => True end.

  Lemma snoc_ascii acc c : Forall asciic acc -> c < 128 -> Forall asciic (acc ++ [c]).
  Proof. intros H Hc. apply Forall_app. split; [exact H|]. constructor; [exact Hc|constructor]. Qed.

  Lemma ploop_wf rest : forall q a b ns q' a' b' ns',
    qok q -> Forall wf_name ns -> ploop rest q a b ns = Ok (q', a', b', ns') -> qok q' /\ Forall wf_name ns'.
  Proof.
    induction rest as [|c t IH]; intros q a b ns q' a' b' ns' Hq Hns H; cbn [ploop] in H.
    - inversion H; subst. auto.
    - destruct q as [|acc| |acc|].
      5:{ inversion H; subst. auto. }
      all: destruct (is_ascii c) eqn:Hasc; cbn [negb] in H; [|discriminate].
      all: apply is_ascii_true in Hasc.
      + (* QSkipAddr *)
        destruct (c =? 35); [eapply IH; [| |exact H]; [exact I|exact Hns]|].
        destruct (is_whitespace c); (eapply IH; [| |exact H]; [|exact Hns]); [exact I|].
        cbn [qok]. constructor; [exact Hasc|constructor].
      + (* QAddr *)
        destruct (c =? 35); [eapply IH; [| |exact H]; [exact I|exact Hns]|].
        destruct (c =? 37); [inversion H; subst; auto|].
        destruct (is_whitespace c).
        * destruct (parse_ip acc); (eapply IH; [| |exact H]; [exact I|exact Hns]).
        * eapply IH; [| |exact H]; [|exact Hns]. cbn [qok] in *. apply snoc_ascii; assumption.
      + (* QSkipName *)
        destruct (c =? 35); [eapply IH; [| |exact H]; [exact I|exact Hns]|].
        destruct (is_whitespace c); (eapply IH; [| |exact H]; [|exact Hns]); [exact I|].
        cbn [qok]. constructor; [exact Hasc|constructor].
      + (* QName *)
        cbn [qok] in Hq. destruct (c =? 35).
        * destruct (finish_name_at b (Some acc) ns) as [ns1| | |] eqn:F; cbn [bind] in H; try discriminate.
          eapply IH; [| |exact H]; [exact I|]. eapply finish_name_at_wf; eassumption.
        * destruct (is_whitespace c).
          -- destruct (finish_name_at b (Some acc) ns) as [ns1| | |] eqn:F; cbn [bind] in H; try discriminate.
             eapply IH; [| |exact H]; [exact I|]. eapply finish_name_at_wf; eassumption.
          -- eapply IH; [| |exact H]; [|exact Hns]. cbn [qok]. apply snoc_ascii; assumption.
  Qed.

  Lemma parse_line_wf line a ns : parse_line line = Ok (Some (a, ns)) -> Forall wf_name ns.
  Proof.
    rewrite parse_line_refines. unfold parse_line'.
    destruct (ploop line QSkipAddr LOCALHOST_V4 None []) as [[[[q a0] b] ns0]| | |] eqn:E; cbn [bind]; try discriminate.
    destruct (ploop_wf line QSkipAddr LOCALHOST_V4 None [] q a0 b ns0 I (Forall_nil _) E) as [Hq Hns].
    unfold tail_q.
    destruct q as [|acc| |acc|]; cbn [bind];
      try (destruct (is_nil ns0); intro H; inversion H; subst; exact Hns).
    destruct (finish_name_at b (Some acc) ns0) as [ns1| | |] eqn:F; cbn [bind]; try discriminate.
    destruct (is_nil ns1); intro H; inversion H; subst. eapply finish_name_at_wf; eassumption.
  Qed.

  Lemma ainsert_keys_wf {V} k (v : V) m :
    wf_name k -> Forall wf_name (map fst m) -> Forall wf_name (map fst (ainsert dname_eqb k v m)).
  Proof.
    intros Hk H. unfold ainsert. destruct (alookup dname_eqb k m).
    - rewrite areplace_keys. exact H.
    - rewrite map_app. apply Forall_app. split; [exact H|]. constructor; [exact Hk|constructor].
  Qed.

  Lemma hosts_insert_wf h n a : wf_name n -> names_wf h -> names_wf (hosts_insert h n a).
  Proof.
    intros Hn [H4 H6]. destruct a; cbn [hosts_insert]; split; cbn [h_v4 h_v6]; try assumption;
      apply ainsert_keys_wf; assumption.
  Qed.

  Lemma fold_insert_wf a l : forall h, Forall wf_name l -> names_wf h ->
    names_wf (fold_left (fun acc n => hosts_insert acc n a) l h).
  Proof.
    induction l as [|n l IH]; intros h Hl Hh; cbn [fold_left]; [exact Hh|].
    inversion Hl; subst. apply IH; [assumption|]. apply hosts_insert_wf; assumption.
  Qed.

  Lemma deserialise_lines_wf ls : forall h h', names_wf h -> deserialise_lines ls h = Ok h' -> names_wf h'.
  Proof.
    induction ls as [|l ls IH]; intros h h' Hh H; cbn [deserialise_lines] in H.
    - inversion H; subst. exact Hh.
    - destruct (parse_line l) as [[[a ns]|]| | |] eqn:E; cbn [bind] in H; try discriminate.
      + eapply IH; [|exact H]. apply fold_insert_wf; [eapply parse_line_wf; exact E|exact Hh].
      + eapply IH; eassumption.
  Qed.

  Theorem deserialise_names_wf data h : deserialise data = Ok h -> names_wf h.
  Proof. apply deserialise_lines_wf. split; constructor. Qed.
End HostsNames.

(* ===================================== part 2 ===================================== *)

(* in a zone file within the scope of C11_parse_denotes the SOA apart no record has type SOA: the
   denoted insertions satisfy the premise of C12_file_side_conditions *)
Module ZoneNoSoa.
  Import RV.ZoneFile.ZoneFileModel RV.ZoneFile.ZoneFileSpec RV.ZoneFile.ZoneRtLines RV.ZoneFile.ZoneRtLoop
         RV.ZoneFile.ZoneParseDenotes.

  Definition nosoa (s : sp) : Prop :=
    Forall (fun r => rr_type r <> RT_SOA) (p_norm s) /\ Forall (fun r => rr_type r <> RT_SOA) (p_wild s).

  Lemma denote_entry_nosoa s e s' : entry_ok s e -> denote_entry s e = Some s' -> nosoa s -> nosoa s'.
  Proof.
    intros He Hd [Hn Hw]. destruct e as [r|x]; cbn [denote_entry entry_ok] in *.
    - destruct (resolve (p_origin s) r); [|discriminate]. inversion Hd; subst. split; assumption.
    - destruct He as (_ & _ & _ & Hsh & _).
      destruct (match f_owner x with Some o => resolve_owner (p_origin s) o | None => p_owner s end) as [ow|]; [|discriminate].
      destruct (rda_resolve (p_origin s) (f_rd x)) as [d|] eqn:Ed; [|discriminate].
      pose proof (rda_resolve_shape _ _ _ Ed) as Hshape. rewrite Hsh in Hshape.
      assert (Hpush : forall ttl, not_soa_data d ->
                nosoa {| p_origin := p_origin s; p_owner := Some ow; p_ttl := Some ttl; p_soa := p_soa s;
                         p_norm := if fst ow then p_norm s else mk_rr (snd ow) (f_type x) ttl d :: p_norm s;
                         p_wild := if fst ow then mk_rr (snd ow) (f_type x) ttl d :: p_wild s else p_wild s |}).
      { intros ttl Hnd.
        assert (Hns : f_type x <> RT_SOA).
        { intro F. rewrite F in Hshape. destruct d; cbv in Hshape; try discriminate Hshape. eapply Hnd. reflexivity. }
        unfold nosoa. cbn [p_norm p_wild]. destruct (fst ow); split; try assumption; constructor; assumption. }
      destruct d;
        try (destruct (match f_ttl x with Some t => Some t | None => p_ttl s end); [|discriminate];
             inversion Hd; subst; apply Hpush; intros ? ? ? ? ? ? ? F; discriminate F).
      destruct (fst ow); [discriminate|]. destruct (p_soa s); [discriminate|]. inversion Hd; subst.
      split; assumption.
  Qed.

  Lemma denote_lines_nosoa ip : forall ls s s', lines_ok ip s ls -> denote_lines s ls = Some s' -> nosoa s -> nosoa s'.
  Proof.
    induction ls as [|l t IH]; intros s s' Hok Hd Hn; cbn [lines_ok denote_lines] in *.
    - inversion Hd; subst. exact Hn.
    - destruct Hok as (_ & _ & Hrest). destruct (l_entry l) as [e|].
      + destruct Hrest as [He Hrest]. destruct (denote_entry s e) as [s1|] eqn:Ede; [|discriminate].
        eapply IH; [exact Hrest|exact Hd|]. eapply denote_entry_nosoa; eassumption.
      + eapply IH; eassumption.
  Qed.

  Theorem denoted_ops_no_soa ip ls apex so ops :
    lines_ok ip sp_init ls -> denote ls = Some (apex, so, ops) -> Forall (fun o => op_type o <> RT_SOA) ops.
  Proof.
    intros Hok Hd. unfold denote in Hd. destruct (denote_lines sp_init ls) as [s|] eqn:El; [|discriminate].
    destruct (forallb _ _); [|discriminate]. inversion Hd; subst; clear Hd.
    destruct (denote_lines_nosoa ip ls sp_init s Hok El) as [Hn Hw]; [split; constructor|].
    unfold sp_ops. apply Forall_app. split; apply Forall_map, Forall_forall; intros r Hr; apply in_rev in Hr;
      cbn [op_of_rr op_type]; [rewrite Forall_forall in Hn; exact (Hn r Hr)|rewrite Forall_forall in Hw; exact (Hw r Hr)].
  Qed.
End ZoneNoSoa.

(* ===================================== part 3 ===================================== *)

Definition text := list N.                        (* a String: Unicode scalar values *)

(* a directory entry of the text file system *)
Inductive tentry := TFile (c : option text) | TSubdir.
Definition tdir := list (fname * tentry).

Record tfs := {
  tfs_files : list (ConfigModel.path * option text);        (* None: read_to_string fails *)
  tfs_dirs : list (ConfigModel.path * tdir) }.

Section FsMap.
  (* what becomes of the content of a file *)
  Variable pf : option text -> cfile.

  Definition dentry_of (e : tentry) : dentry := match e with TFile c => EFile (pf c) | TSubdir => ESubdir end.

  Definition fs_map (t : tfs) : fs :=
    {| fs_files := map (fun pc => (fst pc, pf (snd pc))) (tfs_files t);
       fs_dirs := map (fun pd => (fst pd, map (fun ne => (fst ne, dentry_of (snd ne))) (snd pd))) (tfs_dirs t) |}.
End FsMap.

(* the text behind a PathBuf *)
Definition tfs_read (t : tfs) (r : fref) : option text :=
  match r with
  | RFile p => match alookup leqb p (tfs_files t) with Some c => c | None => None end
  | RDirFile d n =>
    match alookup leqb d (tfs_dirs t) with
    | Some es => match alookup leqb n es with Some (TFile c) => c | _ => None end
    | None => None
    end
  end.

Lemma alookup_map_snd {K A B} (eqb : K -> K -> bool) (g : A -> B) k (l : list (K * A)) :
  alookup eqb k (map (fun p => (fst p, g (snd p))) l) = option_map g (alookup eqb k l).
Proof.
  induction l as [|[k' v] t IH]; cbn [map alookup fst snd option_map]; [reflexivity|].
  destruct (eqb k k'); [reflexivity|exact IH].
Qed.

Lemma files_lookup pf t p :
  alookup leqb p (fs_files (fs_map pf t)) = option_map pf (alookup leqb p (tfs_files t)).
Proof. unfold fs_map. cbn [fs_files]. apply (alookup_map_snd leqb pf). Qed.

Lemma dirs_lookup pf t d :
  alookup leqb d (fs_dirs (fs_map pf t))
  = option_map (map (fun ne : fname * tentry => (fst ne, dentry_of pf (snd ne)))) (alookup leqb d (tfs_dirs t)).
Proof.
  unfold fs_map. cbn [fs_dirs].
  apply (alookup_map_snd leqb (map (fun ne : fname * tentry => (fst ne, dentry_of pf (snd ne))))).
Qed.

Lemma entry_lookup pf (es : tdir) n :
  alookup leqb n (map (fun ne : fname * tentry => (fst ne, dentry_of pf (snd ne))) es)
  = option_map (dentry_of pf) (alookup leqb n es).
Proof. apply (alookup_map_snd leqb (dentry_of pf)). Qed.

Lemma fs_read_map pf t r : pf None = Unreadable -> fs_read (fs_map pf t) r = pf (tfs_read t r).
Proof.
  intro Hn. destruct r as [p|d n]; unfold fs_read, tfs_read.
  - rewrite files_lookup. destruct (alookup leqb p (tfs_files t)); cbn [option_map]; auto.
  - rewrite dirs_lookup. destruct (alookup leqb d (tfs_dirs t)) as [es|]; cbn [option_map]; [|auto].
    rewrite entry_lookup. destruct (alookup leqb n es) as [[c|]|]; cbn [option_map dentry_of]; auto.
Qed.

Lemma dir_lookup_map pf t d : alookup leqb d (fs_dirs (fs_map pf t)) = None <-> alookup leqb d (tfs_dirs t) = None.
Proof.
  rewrite dirs_lookup. destruct (alookup leqb d (tfs_dirs t)); cbn [option_map]; split; intro H; try discriminate; reflexivity.
Qed.

(* ---- the listings, hence the effective file sequences, do not depend on the parsers ---- *)

Definition is_tfile (e : fname * tentry) : bool := match snd e with TFile _ => true | TSubdir => false end.

Lemma file_names_map pf (es : tdir) :
  map fst (filter is_file_entry (map (fun ne => (fst ne, dentry_of pf (snd ne))) es)) = map fst (filter is_tfile es).
Proof.
  induction es as [|[n [c|]] es IH]; cbn [map filter is_file_entry is_tfile fst snd dentry_of]; [reflexivity| |exact IH].
  cbn [map fst]. f_equal. exact IH.
Qed.

Lemma get_files_map pf t d :
  get_files_from_dir (fs_map pf t) d =
  match alookup leqb d (tfs_dirs t) with
  | Some es => Some (map (RDirFile d) (sort_names (map fst (filter is_tfile es))))
  | None => None
  end.
Proof.
  unfold get_files_from_dir. rewrite dirs_lookup.
  destruct (alookup leqb d (tfs_dirs t)) as [es|]; cbn [option_map]; [|reflexivity].
  rewrite file_names_map. reflexivity.
Qed.

Lemma gather_dirs_ext f f' : (forall d, get_files_from_dir f d = get_files_from_dir f' d) ->
  forall dirs acc err, gather_dirs f dirs acc err = gather_dirs f' dirs acc err.
Proof.
  intro H. induction dirs as [|d t IH]; intros acc err; cbn [gather_dirs]; [reflexivity|].
  rewrite H. destruct (get_files_from_dir f' d); apply IH.
Qed.

(* the file system with every file unreadable: only the shape is left *)
Definition fs_shape (t : tfs) : fs := fs_map (fun _ => Unreadable) t.

(* the zone / hosts files of the configuration, in application order (C12_dir_sorted_order) *)
Definition tzone_seq (a : config_args) (t : tfs) : list fref := fst (zone_file_seq a (fs_shape t)).
Definition thosts_seq (a : config_args) (t : tfs) : list fref := fst (hosts_file_seq a (fs_shape t)).

Lemma zone_seq_map pf a t : zone_file_seq a (fs_map pf t) = zone_file_seq a (fs_shape t).
Proof. unfold zone_file_seq. apply gather_dirs_ext. intro d. unfold fs_shape. rewrite !get_files_map. reflexivity. Qed.
Lemma hosts_seq_map pf a t : hosts_file_seq a (fs_map pf t) = hosts_file_seq a (fs_shape t).
Proof. unfold hosts_file_seq. apply gather_dirs_ext. intro d. unfold fs_shape. rewrite !get_files_map. reflexivity. Qed.

(* ---- the two readers ---- *)

(* Zone::deserialise(&data): Err, and -- excluded by C17 -- a Panic / OutOfFuel of the model, is no zone *)
Definition parse_zone_text (ip : ZoneFileModel.ipcodec) (s : text) : option zone :=
  match ZoneFileModel.deserialise ip s with Ok z => Some z | _ => None end.

(* the Hosts record of Hosts/HostsModel.v as the (identical) record of ConfigModel.v *)
Definition conv_hosts (h : HostsModel.hosts) : hosts :=
  {| h_v4 := HostsModel.h_v4 h; h_v6 := HostsModel.h_v6 h |}.

(* Hosts::deserialise(&data) *)
Definition parse_hosts_text (s : text) : option hosts :=
  match HostsModel.deserialise s with Ok h => Some (conv_hosts h) | _ => None end.

(* zone_from_file / hosts_from_file on one path *)
Definition parse_file (ip : ZoneFileModel.ipcodec) (o : option text) : cfile :=
  match o with
  | None => Unreadable
  | Some s => Parsed (parse_zone_text ip s) (parse_hosts_text s)
  end.

Definition fs_of_text (ip : ZoneFileModel.ipcodec) (t : tfs) : fs := fs_map (parse_file ip) t.

(* load_zone_configuration on a file system of texts *)
Definition load_text_res (ip : ZoneFileModel.ipcodec) (a : config_args) (t : tfs) : res unit (option zones) :=
  load_res a (fs_of_text ip t).
Definition load_text (ip : ZoneFileModel.ipcodec) (a : config_args) (t : tfs) : option zones :=
  load a (fs_of_text ip t).

(* with std's address parsers as modelled in Ip/IpModel.v: the instance the drivers run *)
Definition load_text_zf : config_args -> tfs -> option zones := load_text ZfInstance.zf_codec.

Lemma fs_read_text ip t r : fs_read (fs_of_text ip t) r = parse_file ip (tfs_read t r).
Proof. apply fs_read_map. reflexivity. Qed.

Lemma read_zone_text ip t r :
  read_zone (fs_read (fs_of_text ip t) r) = match tfs_read t r with Some s => parse_zone_text ip s | None => None end.
Proof. rewrite fs_read_text. destruct (tfs_read t r); reflexivity. Qed.

Lemma read_hosts_text ip t r :
  read_hosts (fs_read (fs_of_text ip t) r) = match tfs_read t r with Some s => parse_hosts_text s | None => None end.
Proof. rewrite fs_read_text. destruct (tfs_read t r); reflexivity. Qed.

(* ===================================== part 4 ===================================== *)

(* the parsers are total: every text reads as a zone / hosts value or as an error *)
Lemma zone_text_cases ip s :
  (exists z, ZoneFileModel.deserialise ip s = Ok z) \/ (exists e, ZoneFileModel.deserialise ip s = Err e).
Proof.
  pose proof (ZoneFileProofs.parse_zone_total ip s) as H. unfold ZoneFileProofs.total in H.
  destruct (ZoneFileModel.deserialise ip s); [left|right| |]; eauto; contradiction.
Qed.

Lemma hosts_text_cases s :
  (exists h, HostsModel.deserialise s = Ok h) \/ (exists e, HostsModel.deserialise s = Err e).
Proof.
  destruct (HostsProofs.parse_hosts_total s) as [H1 H2].
  destruct (HostsModel.deserialise s); [left|right| |]; eauto; contradiction.
Qed.

Lemma conv_hosts_wf h : HostsNames.names_wf h -> hosts_wf (conv_hosts h).
Proof. intros [H4 H6]. split; assumption. Qed.

Lemma parse_hosts_text_wf s h : parse_hosts_text s = Some h -> hosts_wf h.
Proof.
  unfold parse_hosts_text. destruct (HostsModel.deserialise s) as [h0| | |] eqn:E; try discriminate.
  intro H. inversion H; subst. apply conv_hosts_wf. eapply HostsNames.deserialise_names_wf. exact E.
Qed.

Lemma readable_hosts_text_wf ip t : forall refs, Forall hosts_wf (readable_hosts (fs_of_text ip t) refs).
Proof.
  induction refs as [|r refs IH]; cbn [readable_hosts]; [constructor|].
  destruct (read_hosts (fs_read (fs_of_text ip t) r)) as [h|] eqn:E; [|exact IH].
  constructor; [|exact IH]. rewrite read_hosts_text in E. destruct (tfs_read t r) as [s|]; [|discriminate].
  eapply parse_hosts_text_wf. exact E.
Qed.

(* C12's premise holds of every configuration read from text *)
Theorem text_config_hosts_wf ip a t : config_hosts_wf a (fs_of_text ip t).
Proof. unfold config_hosts_wf. apply readable_hosts_text_wf. Qed.

(* (a) load_zone_configuration over texts never panics: neither parser model can (so the catch-all
   branches of parse_zone_text / parse_hosts_text are never taken for a Panic / OutOfFuel), and
   the loader cannot on what they return *)
Theorem load_text_total ip a t :
  (forall s, (exists z, ZoneFileModel.deserialise ip s = Ok z) \/ (exists e, ZoneFileModel.deserialise ip s = Err e))
  /\ (forall s, (exists h, HostsModel.deserialise s = Ok h) \/ (exists e, HostsModel.deserialise s = Err e))
  /\ exists o, load_text_res ip a t = Ok o.
Proof.
  split; [apply zone_text_cases|]. split; [apply hosts_text_cases|].
  unfold load_text_res.
  destruct (load_res_total a (fs_of_text ip t) (text_config_hosts_wf ip a t))
    as [[_ Hr]|(_ & zs & hz & zs' & _ & _ & _ & Hr)]; rewrite Hr; eauto.
Qed.

(* what makes a file bad in a role: it cannot be read, or the parser returns an error on its text *)
Definition zone_text_bad (ip : ZoneFileModel.ipcodec) (o : option text) : Prop :=
  o = None \/ exists s e, o = Some s /\ ZoneFileModel.deserialise ip s = Err e.
Definition hosts_text_bad (o : option text) : Prop :=
  o = None \/ exists s e, o = Some s /\ HostsModel.deserialise s = Err e.

Lemma read_zone_none_iff ip t r :
  read_zone (fs_read (fs_of_text ip t) r) = None <-> zone_text_bad ip (tfs_read t r).
Proof.
  rewrite read_zone_text. unfold zone_text_bad, parse_zone_text. destruct (tfs_read t r) as [s|].
  - destruct (zone_text_cases ip s) as [[z Hz]|[e He]].
    + rewrite Hz. split; [discriminate|]. intros [H|(s' & e & H & He)]; [discriminate|]. inversion H; subst. congruence.
    + rewrite He. split; [|reflexivity]. intros _. right. eauto.
  - split; [left|]; reflexivity.
Qed.

Lemma read_hosts_none_iff ip t r :
  read_hosts (fs_read (fs_of_text ip t) r) = None <-> hosts_text_bad (tfs_read t r).
Proof.
  rewrite read_hosts_text. unfold hosts_text_bad, parse_hosts_text. destruct (tfs_read t r) as [s|].
  - destruct (hosts_text_cases s) as [[h Hh]|[e He]].
    + rewrite Hh. split; [discriminate|]. intros [H|(s' & e & H & He)]; [discriminate|]. inversion H; subst. congruence.
    + rewrite He. split; [|reflexivity]. intros _. right. eauto.
  - split; [left|]; reflexivity.
Qed.

(* a configuration of texts is bad iff a directory cannot be listed, or a file of the effective
   sequence cannot be read, or its parser returns Err on its text *)
Definition text_config_bad (ip : ZoneFileModel.ipcodec) (a : config_args) (t : tfs) : Prop :=
  (exists d, In d (a_zone_dirs a ++ a_hosts_dirs a) /\ alookup leqb d (tfs_dirs t) = None) \/
  (exists r, In r (tzone_seq a t) /\ zone_text_bad ip (tfs_read t r)) \/
  (exists r, In r (thosts_seq a t) /\ hosts_text_bad (tfs_read t r)).

(* (b) *)
Theorem load_text_none_iff ip a t : load_text ip a t = None <-> text_config_bad ip a t.
Proof.
  unfold load_text, text_config_bad.
  rewrite (load_none_iff_bad a (fs_of_text ip t) (text_config_hosts_wf ip a t)), config_bad_spec.
  unfold fs_of_text at 2 4. rewrite zone_seq_map, hosts_seq_map. fold (tzone_seq a t) (thosts_seq a t).
  split.
  - intros [(d & Hin & Hd)|[(r & Hin & Hr)|(r & Hin & Hr)]].
    + left. exists d. split; [exact Hin|]. apply (dir_lookup_map (parse_file ip)). exact Hd.
    + right. left. exists r. split; [exact Hin|]. apply (read_zone_none_iff ip). exact Hr.
    + right. right. exists r. split; [exact Hin|]. apply (read_hosts_none_iff ip). exact Hr.
  - intros [(d & Hin & Hd)|[(r & Hin & Hr)|(r & Hin & Hr)]].
    + left. exists d. split; [exact Hin|]. apply (dir_lookup_map (parse_file ip)). exact Hd.
    + right. left. exists r. split; [exact Hin|]. apply (read_zone_none_iff ip). exact Hr.
    + right. right. exists r. split; [exact Hin|]. apply (read_hosts_none_iff ip). exact Hr.
Qed.

(* ===================================== part 5 ===================================== *)

(* ---- glue 1: the chain of Zone::merge against the flat chain, RELATIONALLY ----
   ConfigProofs.merge_chain_repr needs a FUNCTION zone -> fzone; two files with different
   denotations may parse to the same zone value, so here every input zone comes with its own flat
   reading instead. *)

(* what the loader merges for one apex: the apex and the flat file (records, SOA) *)
Definition finput := (dname * ffile)%type.

Definition zin (z : zone) (kf : finput) : Prop :=
  z_apex z = fst kf /\ zone_wf z /\ zrepr z (fst (snd kf)) /\ z_soa z = snd (snd kf).

Lemma merge_chain_rel k : forall (l : list zone) (fl : list finput) acc facc,
  Forall2 zin l fl -> Forall (fun kf => fst kf = k) fl ->
  z_apex acc = k -> zone_wf acc -> zrepr acc facc ->
  exists m fm, fold_left merge_step l (Some acc) = Some m /\
               fold_left fmerge_step (map snd fl) (Some facc) = Some fm /\
               z_apex m = k /\ zone_wf m /\ zrepr m fm.
Proof.
  induction l as [|z t IH]; intros fl acc facc HF Hk Ha Hw HR; inversion HF as [|? kf ? fl' Hz Ht]; subst;
    cbn [fold_left merge_step fmerge_step map].
  - exists acc, facc. auto.
  - destruct Hz as (Hzk & Hwz & HRz & Hsoa). inversion Hk as [|? ? Hk1 Hk2]; subst.
    destruct (zone_merge_same_apex acc z) as (m & Hm & Hma & _); [congruence|]. rewrite Hm.
    destruct (zone_merge_repr_wf acc z facc (fst (snd kf)) m Hw Hwz HR HRz Hm) as [Hwm HRm].
    apply IH; [exact Ht|exact Hk2|congruence|exact Hwm|].
    unfold is_auth. rewrite <- Hsoa.
    replace (match z_soa z with Some _ => true | None => false end) with (zone_is_authoritative z) by reflexivity.
    exact HRm.
Qed.

Definition inputs_for (k : dname) (ins : list finput) : list ffile :=
  map snd (filter (fun kf => dname_eqb (fst kf) k) ins).

Lemma for_apex_rel k : forall l fl, Forall2 zin l fl ->
  Forall2 zin (for_apex k l) (filter (fun kf => dname_eqb (fst kf) k) fl).
Proof.
  induction 1 as [|z kf l fl Hz _ IH]; cbn [for_apex filter]; [constructor|].
  destruct Hz as (Hzk & Hrest). rewrite Hzk. destruct (dname_eqb (fst kf) k); [constructor; [split; assumption|exact IH]|exact IH].
Qed.

Lemma chain_rel k l fl : Forall2 zin l fl ->
  match fold_left merge_step (for_apex k l) None, flat_chain (inputs_for k fl) with
  | Some m, Some fm => z_apex m = k /\ zrepr m fm
  | None, None => inputs_for k fl = []
  | _, _ => False
  end.
Proof.
  intro HF. pose proof (for_apex_rel k l fl HF) as HF'. unfold inputs_for, flat_chain.
  assert (Hk : Forall (fun kf : finput => fst kf = k) (filter (fun kf => dname_eqb (fst kf) k) fl)).
  { apply Forall_forall. intros kf Hin. apply filter_In in Hin as [_ Hin]. apply dname_eqb_eq. exact Hin. }
  destruct HF' as [|z kf l' fl' Hz Ht]; cbn [fold_left merge_step fmerge_step map]; [reflexivity|].
  inversion Hk as [|? ? Hk1 Hk2]; subst. destruct Hz as (Hzk & Hwz & HRz & _).
  destruct (merge_chain_rel (fst kf) l' fl' z (fst (snd kf)) Ht Hk2 Hzk Hwz HRz) as (m & fm & -> & -> & Hma & _ & HRm).
  auto.
Qed.

(* ---- glue 2: the three notions of "what a file denotes" ---- *)

(* a zone file: (apex, SOA, insertions) -- ZoneParseDenotes.denote, the flat zone being flat_of_ops *)
Definition zden := (dname * option soa * list zop)%type.
Definition den_input (d : zden) : finput :=
  (fst (fst d), (flat_of_ops (fst (fst d)) (snd (fst d)) (snd d), snd (fst d))).

(* the text behind [r] is a rendering (ANY layout of the family) of an abstract zone file in the
   scope of C11_parse_denotes that denotes [d] *)
Definition zone_described (ip : ZoneFileModel.ipcodec) (t : tfs) (r : fref) (d : zden) : Prop :=
  exists ls, tfs_read t r = Some (ZoneParseDenotes.render ls)
             /\ ZoneParseDenotes.lines_ok ip ZoneParseDenotes.sp_init ls /\ ZoneParseDenotes.denote ls = Some d.

(* the text behind [r] is the rendering of a hosts syntax tree with valid lines (C14_hosts_parse_denotes) *)
Definition hosts_described (t : tfs) (r : fref) (hf : HostsSpec.file) : Prop :=
  tfs_read t r = Some (HostsSpec.render hf) /\ Forall (fun le => HostsSpec.valid_line (fst le)) hf.

Lemma readable_zones_described ip (Hip : ZoneRtLines.codec_rt ip) t : forall refs dens,
  Forall2 (zone_described ip t) refs dens ->
  Forall2 zin (readable_zones (fs_of_text ip t) refs) (map den_input dens)
  /\ (forall r, In r refs -> read_zone (fs_read (fs_of_text ip t) r) <> None)
  /\ Forall (fun d => Forall (fun o => op_type o <> RT_SOA) (snd d)) dens.
Proof.
  induction 1 as [|r d refs dens Hd _ IH].
  - split; [constructor|]. split; [intros r []|constructor].
  - destruct Hd as (ls & Hr & Hok & Hden). destruct d as [[apex so] ops].
    destruct (ZoneParseDenotes.parse_denotes ip Hip ls apex so ops Hok Hden) as (z & Hz & Ha & Hs & Hb & HR).
    assert (Hread : read_zone (fs_read (fs_of_text ip t) r) = Some z).
    { rewrite read_zone_text, Hr. unfold parse_zone_text. rewrite Hz. reflexivity. }
    destruct IH as (IH1 & IH2 & IH3). cbn [readable_zones map]. rewrite Hread. split; [|split].
    + constructor; [|exact IH1]. unfold zin, den_input. cbn [fst snd].
      split; [exact Ha|]. split; [eapply zone_build_wf_tree; exact Hb|]. split; [unfold zrepr; rewrite Ha; exact HR|exact Hs].
    + intros r' [<-|Hin]; [congruence|apply IH2; exact Hin].
    + constructor; [|exact IH3]. cbn [snd]. eapply ZoneNoSoa.denoted_ops_no_soa; eassumption.
Qed.

(* the hosts value read from a file agrees with the file's denotation and has one entry per name *)
Definition hin (h : hosts) (hf : HostsSpec.file) : Prop :=
  (forall k, alookup dname_eqb k (h_v4 h) = HostsSpec.d4 (HostsSpec.denote hf) k
             /\ alookup dname_eqb k (h_v6 h) = HostsSpec.d6 (HostsSpec.denote hf) k)
  /\ hosts_unique h.

Lemma readable_hosts_described ip t : forall refs hfs,
  Forall2 (hosts_described t) refs hfs ->
  Forall2 hin (readable_hosts (fs_of_text ip t) refs) hfs
  /\ (forall r, In r refs -> read_hosts (fs_read (fs_of_text ip t) r) <> None).
Proof.
  induction 1 as [|r hf refs hfs Hd _ IH].
  - split; [constructor|intros r []].
  - destruct Hd as (Hr & Hv). destruct (HostsProofs.hosts_parse_denotes hf Hv) as (h & Hh & Hag & Hnd).
    assert (Hread : read_hosts (fs_read (fs_of_text ip t) r) = Some (conv_hosts h)).
    { rewrite read_hosts_text, Hr. unfold parse_hosts_text. rewrite Hh. reflexivity. }
    destruct IH as (IH1 & IH2). cbn [readable_hosts]. rewrite Hread. split.
    + constructor; [|exact IH1]. split; [exact Hag|exact Hnd].
    + intros r' [<-|Hin]; [congruence|apply IH2; exact Hin].
Qed.

Lemma last_defined_rel {A B V} (P : A -> B -> Prop) (g : A -> option V) (g' : B -> option V) l l' :
  Forall2 P l l' -> (forall x y, P x y -> g x = g' y) -> last_defined g l = last_defined g' l'.
Proof.
  intros HF Hg. induction HF as [|x y l l' Hxy _ IH]; cbn [last_defined]; [reflexivity|].
  rewrite IH, (Hg x y Hxy). reflexivity.
Qed.

Lemma in_iff_alookup {V} (m : list (dname * V)) n a :
  NoDup (map fst m) -> (In (n, a) m <-> alookup dname_eqb n m = Some a).
Proof.
  intro Hnd. split; [|apply (alookup_in dname_eqb dname_eqb_eq)].
  induction m as [|[k v] m IH]; [intros []|]. cbn [map fst] in Hnd. inversion Hnd as [|? ? Hk Hm]; subst.
  intros [Heq|Hin]; cbn [alookup].
  - inversion Heq; subst. rewrite dname_eqb_refl. reflexivity.
  - destruct (dname_eqb n k) eqn:E.
    + apply dname_eqb_eq in E. subst k. exfalso. apply Hk. apply in_map_iff. exists (n, a). auto.
    + apply IH; assumption.
Qed.

Lemma fold_hosts_merge_unique files : forall h0, hosts_unique h0 -> hosts_unique (fold_left hosts_merge files h0).
Proof.
  induction files as [|h t IH]; intros h0 H0; cbn [fold_left]; [exact H0|]. apply IH. apply hosts_merge_unique. exact H0.
Qed.

(* the hosts files together: per name and family the address of the LAST file defining it *)
Definition merged_v4 (hfiles : list HostsSpec.file) (n : dname) : option N :=
  last_defined (fun hf => HostsSpec.d4 (HostsSpec.denote hf) n) hfiles.
Definition merged_v6 (hfiles : list HostsSpec.file) (n : dname) : option (list N) :=
  last_defined (fun hf => HostsSpec.d6 (HostsSpec.denote hf) n) hfiles.

(* the flat zone the hosts files denote: no wildcard records; exactly one A (AAAA) record with TTL
   HOSTS_TTL per name the merged denotation maps to a v4 (v6) address *)
Definition hosts_flat_denotes (hfiles : list HostsSpec.file) (hfl : fzone) : Prop :=
  f_wild hfl = [] /\
  forall p r, In (p, r) (f_norm hfl) <->
    (exists n a, merged_v4 hfiles n = Some a /\ labels n = p ++ [[]] /\ r = rec_v4 a) \/
    (exists n a, merged_v6 hfiles n = Some a /\ labels n = p ++ [[]] /\ r = rec_v6 a).

(* everything the loader merges, in application order: the zone files' denotations, then the hosts *)
Definition text_inputs (zdens : list zden) (hfl : fzone) : list finput :=
  map den_input zdens ++ [(root_domain, (hfl, None))].

(* (c) Every zone file of the effective sequence is a rendering of an abstract zone file
   (C11_parse_denotes), every hosts file a rendering of a hosts syntax tree (C14_hosts_parse_denotes),
   every directory can be listed.  Then the configuration loads, and for every apex k the loaded zone
   REPRESENTS (the relation of C02 / C12) the flat chain -- union with duplicates removed, last SOA
   wins: C12_merge_union / C12_merge_one_soa, whose side conditions are part of the conclusion -- of
   the DENOTATIONS of the zone files with apex k in application order, followed, for k the root, by
   the flat zone the hosts files denote (last writer wins per name and family, no SOA). *)
Theorem load_text_denotes ip (Hip : ZoneRtLines.codec_rt ip) a t zdens hfiles :
  (forall d, In d (a_zone_dirs a ++ a_hosts_dirs a) -> alookup leqb d (tfs_dirs t) <> None) ->
  Forall2 (zone_described ip t) (tzone_seq a t) zdens ->
  Forall2 (hosts_described t) (thosts_seq a t) hfiles ->
  exists zs hfl,
    load_text ip a t = Some zs
    /\ hosts_flat_denotes hfiles hfl
    /\ Forall soa_ok (map snd (text_inputs zdens hfl))
    /\ Forall (fun fa => NoDup (f_norm (fst fa)) /\ NoDup (f_wild (fst fa))) (map snd (text_inputs zdens hfl))
    /\ forall k,
         match alookup dname_eqb k zs, flat_chain (inputs_for k (text_inputs zdens hfl)) with
         | Some m, Some fm => z_apex m = k /\ zrepr m fm
         | None, None => inputs_for k (text_inputs zdens hfl) = []
         | _, _ => False
         end.
Proof.
  intros Hdirs HZ HH. set (f := fs_of_text ip t).
  pose proof (text_config_hosts_wf ip a t) as Hwf. fold f in Hwf.
  assert (Ezs : fst (zone_file_seq a f) = tzone_seq a t) by (unfold f, fs_of_text; rewrite zone_seq_map; reflexivity).
  assert (Ehs : fst (hosts_file_seq a f) = thosts_seq a t) by (unfold f, fs_of_text; rewrite hosts_seq_map; reflexivity).
  destruct (readable_zones_described ip Hip t _ _ HZ) as (HZin & HZread & HZnosoa). fold f in HZin, HZread.
  destruct (readable_hosts_described ip t _ _ HH) as (HHin & HHread). fold f in HHin, HHread.
  (* the configuration is not bad *)
  assert (Hgood : config_bad a f = false).
  { destruct (config_bad a f) eqn:Eb; [exfalso|reflexivity].
    apply config_bad_spec in Eb as [(d & Hin & Hd)|[(r & Hin & Hr)|(r & Hin & Hr)]].
    - apply (Hdirs d Hin). apply (dir_lookup_map (parse_file ip)). exact Hd.
    - rewrite Ezs in Hin. exact (HZread r Hin Hr).
    - rewrite Ehs in Hin. exact (HHread r Hin Hr). }
  destruct (load a f) as [zs|] eqn:El.
  2:{ apply (load_none_iff_bad a f Hwf) in El. congruence. }
  destruct (load_by_apex a f zs Hwf El) as (hz & Hh & Hk).
  assert (Hhw : hosts_wf (loaded_hosts a f)).
  { rewrite loaded_hosts_fold. apply fold_hosts_merge_wf; [apply hosts_new_wf|exact Hwf]. }
  destruct (hosts_to_zone_spec _ Hhw) as (hz' & Hh' & Hha & Hhs & HhR). rewrite Hh in Hh'. inversion Hh'; subst hz'.
  exists zs, (hosts_flat (loaded_hosts a f)). split; [exact El|].
  (* the hosts: lookups of the merged value are the merged denotation *)
  assert (Huniq : Forall hosts_unique (readable_hosts f (thosts_seq a t))).
  { clear -HHin. induction HHin as [|h hf l l' [_ Hu] _ IH]; constructor; assumption. }
  assert (Hl4 : forall n, alookup dname_eqb n (h_v4 (loaded_hosts a f)) = merged_v4 hfiles n).
  { intro n. rewrite loaded_hosts_fold, Ehs, (fold_hosts_merge_v4 n _ hosts_new Huniq). unfold merged_v4.
    rewrite (last_defined_rel hin (fun h => alookup dname_eqb n (h_v4 h)) (fun hf => HostsSpec.d4 (HostsSpec.denote hf) n) _ _ HHin).
    - destruct (last_defined _ hfiles); reflexivity.
    - intros h hf [Hag _]. apply Hag. }
  assert (Hl6 : forall n, alookup dname_eqb n (h_v6 (loaded_hosts a f)) = merged_v6 hfiles n).
  { intro n. rewrite loaded_hosts_fold, Ehs, (fold_hosts_merge_v6 n _ hosts_new Huniq). unfold merged_v6.
    rewrite (last_defined_rel hin (fun h => alookup dname_eqb n (h_v6 h)) (fun hf => HostsSpec.d6 (HostsSpec.denote hf) n) _ _ HHin).
    - destruct (last_defined _ hfiles); reflexivity.
    - intros h hf [Hag _]. apply Hag. }
  assert (HU : hosts_unique (loaded_hosts a f)).
  { rewrite loaded_hosts_fold. apply fold_hosts_merge_unique. apply hosts_new_unique. }
  split.
  { destruct (hosts_flat_records _ Hhw) as [Ew Hrec]. split; [exact Ew|]. intros p r. rewrite Hrec.
    destruct HU as [U4 U6]. split.
    - intros [(n & x & Hin & Hl & ->)|(n & x & Hin & Hl & ->)]; [left|right]; exists n, x; (split; [|auto]).
      + rewrite <- Hl4. apply in_iff_alookup; assumption.
      + rewrite <- Hl6. apply in_iff_alookup; assumption.
    - intros [(n & x & Hm & Hl & ->)|(n & x & Hm & Hl & ->)]; [left|right]; exists n, x; (split; [|auto]).
      + rewrite <- Hl4 in Hm. apply in_iff_alookup in Hm; assumption.
      + rewrite <- Hl6 in Hm. apply in_iff_alookup in Hm; assumption. }
  split.
  { unfold text_inputs. rewrite map_app. apply Forall_app. split; [|constructor; [apply hosts_flat_soa_ok|constructor]].
    rewrite map_map. apply Forall_map. eapply Forall_impl; [|exact HZnosoa].
    intros [[apex so] ops] Hops. unfold den_input. cbn [fst snd] in *. apply flat_of_ops_soa_ok. exact Hops. }
  split.
  { unfold text_inputs. rewrite map_app. apply Forall_app. split.
    - rewrite map_map. apply Forall_map, Forall_forall. intros [[apex so] ops] _. unfold den_input. cbn [fst snd].
      apply flat_of_ops_nodup.
    - constructor; [|constructor]. cbn [map snd fst]. unfold hosts_flat. apply flat_of_ops_nodup. }
  (* per apex *)
  intro k. rewrite Hk. apply chain_rel. unfold zone_inputs, text_inputs. rewrite Ezs.
  apply Forall2_app; [exact HZin|]. constructor; [|constructor].
  unfold zin. cbn [fst snd]. split; [exact Hha|]. split; [|split; [exact HhR|exact Hhs]].
  unfold zone_wf. rewrite hosts_to_zone_build in Hh. eapply zone_build_wf_tree. exact Hh.
Qed.

(* ... and what that flat chain holds, spelled out (C12_merge_union + C12_merge_one_soa on the
   denotations): an ordinary record is in the zone loaded for apex k iff some file with that apex
   denotes it -- except that an apex SOA record is there only if no later file supplies a SOA --; a
   wildcard record iff some file denotes it; nothing twice; exactly one SOA record, that of the last
   file supplying one *)
Theorem load_text_records ip (Hip : ZoneRtLines.codec_rt ip) a t zdens hfiles :
  (forall d, In d (a_zone_dirs a ++ a_hosts_dirs a) -> alookup leqb d (tfs_dirs t) <> None) ->
  Forall2 (zone_described ip t) (tzone_seq a t) zdens ->
  Forall2 (hosts_described t) (thosts_seq a t) hfiles ->
  exists zs hfl,
    load_text ip a t = Some zs /\ hosts_flat_denotes hfiles hfl /\
    forall k m, alookup dname_eqb k zs = Some m ->
      let l := inputs_for k (text_inputs zdens hfl) in
      exists fm, z_apex m = k /\ zrepr m fm /\
        (forall x, In x (f_norm fm) <-> exists pre fa post, l = pre ++ fa :: post /\ In x (f_norm (fst fa)) /\ survives x post) /\
        (forall x, In x (f_wild fm) <-> exists fa, In fa l /\ In x (f_wild (fst fa))) /\
        NoDup (f_norm fm) /\ NoDup (f_wild fm) /\
        (forall r, (In ([], r) (f_norm fm) /\ zr_type r = RT_SOA) <-> exists so, last_defined snd l = Some so /\ r = soa_zrec so).
Proof.
  intros Hdirs HZ HH. destruct (load_text_denotes ip Hip a t zdens hfiles Hdirs HZ HH) as (zs & hfl & Hl & Hhf & Hsoa & Hnd & Hk).
  exists zs, hfl. split; [exact Hl|]. split; [exact Hhf|]. intros k m Hm l. specialize (Hk k). rewrite Hm in Hk. fold l in Hk.
  destruct (flat_chain l) as [fm|] eqn:Ec; [|contradiction]. destruct Hk as [Ha HR].
  assert (Hsub : forall P : ffile -> Prop, Forall P (map snd (text_inputs zdens hfl)) -> Forall P l).
  { intros P HP. unfold l, inputs_for. rewrite Forall_forall in *. intros fa Hin. apply in_map_iff in Hin as (kf & <- & Hin).
    apply filter_In in Hin as [Hin _]. apply HP. apply in_map. exact Hin. }
  exists fm. split; [exact Ha|]. split; [exact HR|].
  split; [intro x; apply chain_norm; exact Ec|]. split; [intro x; apply chain_wild; exact Ec|].
  destruct (chain_nodup l fm (Hsub _ Hnd) Ec) as [N1 N2]. split; [exact N1|]. split; [exact N2|].
  apply chain_one_soa; [apply Hsub; exact Hsoa|exact Ec].
Qed.

(* ===================================== part 6 ===================================== *)

(* one iteration of reload_task over the files as they are (texts) when they are read *)
Definition reload_text (ip : ZoneFileModel.ipcodec) (a : config_args) (st : state) (t : tfs) : state :=
  reload a st (fs_of_text ip t).

(* (d) all or nothing, with "nothing" characterised on the TEXTS: the previous state stays exactly when a
   directory cannot be listed, a file cannot be read, or a parser returns an error on a file's text
   -- one bad file among many keeps everything; otherwise the state becomes the freshly loaded
   configuration, whatever it was before *)
Theorem reload_text_all_or_nothing ip a st t :
  (text_config_bad ip a t -> load_text ip a t = None /\ reload_text ip a st t = st)
  /\ (~ text_config_bad ip a t ->
      exists z, load_text ip a t = Some z /\ reload_text ip a st t = z /\ forall st', reload_text ip a st' t = z).
Proof.
  split.
  - intro Hb. apply load_text_none_iff in Hb. split; [exact Hb|]. apply reload_failure. exact Hb.
  - intro Hg. destruct (load_text ip a t) as [z|] eqn:E.
    + exists z. split; [reflexivity|]. split; [apply reload_success; exact E|]. intro st'. apply reload_success. exact E.
    + exfalso. apply Hg. apply load_text_none_iff. exact E.
Qed.

(* a history of SIGUSR1s (each with the texts of the files at that moment) and queries *)
Inductive tevent := TEvReload (t : tfs) | TEvQuery (q : question).
Definition event_of (ip : ZoneFileModel.ipcodec) (e : tevent) : event :=
  match e with TEvReload t => EvReload (fs_of_text ip t) | TEvQuery q => EvQuery q end.
Definition run_text ip a st (evs : list tevent) : list (res unit answer) := run a st (map (event_of ip) evs).
Definition states_text ip a st (evs : list tevent) : list state := states a st (map (event_of ip) evs).

Lemma queries_text ip evs :
  queries (map (event_of ip) evs) = flat_map (fun e => match e with TEvQuery q => [q] | TEvReload _ => [] end) evs.
Proof. induction evs as [|[t|q] evs IH]; cbn [map event_of queries flat_map app]; [reflexivity|exact IH|f_equal; exact IH]. Qed.

(* every reply is computed from ONE state; every state is the initial one or the result of loading
   ONE text file system completely *)
Theorem run_text_one_config ip a st evs :
  Forall2 (fun q r => exists s, In s (states_text ip a st evs) /\ r = query s q)
          (flat_map (fun e => match e with TEvQuery q => [q] | TEvReload _ => [] end) evs) (run_text ip a st evs)
  /\ (forall s, In s (states_text ip a st evs) ->
        s = st \/ exists t, In (TEvReload t) evs /\ load_text ip a t = Some s /\ ~ text_config_bad ip a t).
Proof.
  split.
  - rewrite <- (queries_text ip). apply run_one_state.
  - intros s Hs. destruct (states_origin a _ st s Hs) as [->|(f & Hin & Hl)]; [left; reflexivity|right].
    apply in_map_iff in Hin as ([t|q] & He & Hin); cbn [event_of] in He; inversion He; subst.
    exists t. split; [exact Hin|]. split; [exact Hl|]. intro Hb. apply load_text_none_iff in Hb. unfold load_text in Hb. congruence.
Qed.

(* ===================================== examples ===================================== *)

(* "e. 5 IN A 1.2.3.4\n" -- a zone file without SOA (apex = the root); "1.2.3.4 h\n" -- a hosts file;
   "$INCLUDE x\n" -- rejected by Zone::deserialise *)
Definition ex_zone_text : text := [101;46;32;53;32;73;78;32;65;32;49;46;50;46;51;46;52;10].
Definition ex_hosts_text : text := [49;46;50;46;51;46;52;32;104;10].
Definition ex_bad_text : text := [36;73;78;67;76;85;68;69;32;120;10].

Definition ex_tfs : tfs :=
  {| tfs_files := [([122], Some ex_zone_text); ([104], Some ex_hosts_text)]; tfs_dirs := [] |}.
Definition ex_tfs_bad : tfs :=
  {| tfs_files := [([122], Some ex_bad_text); ([104], Some ex_hosts_text)]; tfs_dirs := [] |}.
Definition ex_targs : config_args :=
  {| a_hosts_files := [[104]]; a_hosts_dirs := []; a_zone_files := [[122]]; a_zone_dirs := [] |}.

Example ex_text_loads :
  option_map (fun zs => option_map (fun z => (zone_resolve z ex_apex RT_A, zone_resolve z ex_host RT_A)) (alookup dname_eqb root_domain zs))
             (load_text_zf ex_targs ex_tfs)
  = Some (Some (Some (Ok (ZAnswer [{| rr_name := ex_apex; rr_type := RT_A; rr_class := RC_IN; rr_ttl := 5; rr_data := RD_A 16909060 |}])),
                Some (Ok (ZAnswer [{| rr_name := ex_host; rr_type := RT_A; rr_class := RC_IN; rr_ttl := HOSTS_TTL; rr_data := RD_A 16909060 |}])))).
Proof. vm_compute. reflexivity. Qed.

Example ex_text_bad : load_text_zf ex_targs ex_tfs_bad = None /\ text_config_bad ZfInstance.zf_codec ex_targs ex_tfs_bad.
Proof.
  assert (H : load_text_zf ex_targs ex_tfs_bad = None) by (vm_compute; reflexivity).
  split; [exact H|]. apply load_text_none_iff. exact H.
Qed.
