(* Config/ConfigConcurrent.v -- reload and queries as concurrent tasks around zones_lock (C19).

   crates/resolved/src/main.rs: `zones_lock : Arc<RwLock<Zones>>`.
   * reload_task, per SIGUSR1: load_zone_configuration(...) into a FRESH value (no lock held); only if
     that is Some: `let mut lock = zones_lock.write().await; *lock = zones;` -- a write section whose
     body stores a value computed beforehand;
   * resolve_and_build_response, per query carrying one known question:
     `let zones = args.zones_lock.read().await;` then resolve(..., &zones, ...) -- a read section that
     dereferences the guard as often as the resolution needs (once per zone lookup, with awaits in
     between in recursive / forwarding mode) -- then drops the guard with the reply built.

   Base/Locks.v supplies the semantics of tasks around one reader-writer lock; Config/ConfigModel.v the
   sequential meaning ([load], [query]).  Here: for EVERY schedule of signals, queries, lock
   acquisitions, task steps and releases,

   * every reply is computed from ONE configuration, which is the initial one or the COMPLETE result of
     one successful load -- never a mixture, however the reload interleaves with the resolution;
   * a failed load changes nothing (it never reaches the lock);
   * every configuration the server is ever in is the initial one or [load a f] for a delivered signal.

   The handler's computation is a parameter [F] (what it computes from the values it saw); the only
   assumption is that on reads that all returned the same configuration it computes [query] of that
   configuration -- which is what ConfigModel.query models and the C09/C19 streams tie to the code.
   That the critical sections have this shape in the source is read by tools/tables.py
   (Base/TablesOk.zones_lock_sections_ok).  Outside: tokio's RwLock itself, signal delivery, liveness. *)
From RV Require Import Base.Prelude Base.Locks Name.NameModel Wire.WireTypes Zone.ZoneModel Config.ConfigModel Config.ConfigProofs.

Section Conc.
Variable a : config_args.

(* what a handler computes from the configurations it saw while holding the read guard *)
Variable F : list state -> question -> res unit answer.
Hypothesis F_consistent : forall s seen q, seen <> [] -> Forall (eq s) seen -> F seen q = query s q.

Definition zexec (now : N) (old : state) (z : state) : state * option (res unit answer) := (z, None).
Definition zrexec (seen : list state) (q : question) : option (res unit answer) := Some (F seen q).

Definition zev := ev state question.
Definition zsys := sys state state question (option (res unit answer)).

(* the events of the running server; task 0 is reload_task, task (S t) a request handler *)
Inductive cevent :=
| CTick (d : N)
| CSignal (f : fs)                 (* SIGUSR1 is handled with the files as in f *)
| CQuery (t : nat) (q : question)  (* handler t receives a question *)
| CAcq (t : nat) | CStep (t : nat) | CRel (t : nat).

Definition to_ev (e : cevent) : list zev :=
  match e with
  | CTick d => [Tick _ _ d]
  | CSignal f => match load a f with Some z => [CallW _ _ 0%nat z] | None => [] end
  | CQuery t q => [CallR _ _ (Datatypes.S t) q]
  | CAcq t => [Acq _ _ t]
  | CStep t => [Step _ _ t]
  | CRel t => [Rel _ _ t]
  end.

Definition crun (st0 : state) (cevs : list cevent) : zsys :=
  run_sched state state question (option (res unit answer)) zexec zrexec
    (init_sys state state question (option (res unit answer)) st0) (flat_map to_ev cevs).

Lemma callw_origin cevs t z : In (CallW state question t z) (flat_map to_ev cevs) ->
  exists f, In (CSignal f) cevs /\ load a f = Some z.
Proof.
  intro H. apply in_flat_map in H. destruct H as (e & He & Hin).
  destruct e as [d|f|t' q|t'|t'|t']; cbn [to_ev] in Hin.
  - destruct Hin as [E|[]]; discriminate.
  - destruct (load a f) as [z'|] eqn:L; [|contradiction]. destruct Hin as [E|[]]. injection E as _ <-. eauto.
  - destruct Hin as [E|[]]; discriminate.
  - destruct Hin as [E|[]]; discriminate.
  - destruct Hin as [E|[]]; discriminate.
  - destruct Hin as [E|[]]; discriminate.
Qed.

Lemma callr_origin cevs t q : In (CallR state question t q) (flat_map to_ev cevs) ->
  exists t', t = Datatypes.S t' /\ In (CQuery t' q) cevs.
Proof.
  intro H. apply in_flat_map in H. destruct H as (e & He & Hin).
  destruct e as [d|f|t' q'|t'|t'|t']; cbn [to_ev] in Hin.
  - destruct Hin as [E|[]]; discriminate.
  - destruct (load a f); [destruct Hin as [E|[]]; discriminate|contradiction].
  - destruct Hin as [E|[]]. injection E as <- <-. eauto.
  - destruct Hin as [E|[]]; discriminate.
  - destruct Hin as [E|[]]; discriminate.
  - destruct Hin as [E|[]]; discriminate.
Qed.

(* every configuration the server is ever in: the initial one, or the complete result of one load *)
Theorem concurrent_states_origin st0 cevs :
  forall v, In v (Locks.hist _ _ _ _ (crun st0 cevs)) ->
    v = st0 \/ exists f, In (CSignal f) cevs /\ load a f = Some v.
Proof.
  intros v Hv.
  pose proof (run_sched_inv state state question (option (res unit answer)) zexec zrexec st0 (flat_map to_ev cevs) _
                (inv_init _ _ _ _ zexec zrexec st0)) as I.
  fold (crun st0 cevs) in I.
  destruct (i_hist_w _ _ _ _ _ _ _ _ I v Hv) as [->|(l & s1 & Hl & _ & ->)]; [left; reflexivity|right].
  destruct (only_called_sections_run state state question (option (res unit answer)) zexec zrexec st0 (flat_map to_ev cevs)) as [Hc _].
  fold (crun st0 cevs) in Hc. cbn [zexec fst]. eapply callw_origin. apply Hc. exact Hl.
Qed.

(* every reply: to a question some handler really received, computed from ONE configuration of the
   history (old or new, never a mixture), whatever ran between the handler's reads *)
Theorem concurrent_query_sees_one_config st0 cevs :
  forall t q seen o, In (RRet state state question (option (res unit answer)) t q seen o) (rets _ _ _ _ (crun st0 cevs)) ->
    (exists t', t = Datatypes.S t' /\ In (CQuery t' q) cevs) /\
    (seen <> [] ->
       exists v, o = Some (query v q) /\ In v (Locks.hist _ _ _ _ (crun st0 cevs)) /\
                 (v = st0 \/ exists f, In (CSignal f) cevs /\ load a f = Some v)) /\
    (seen = [] -> o = Some (F [] q)).
Proof.
  intros t q seen o H.
  destruct (reads_consistent state state question (option (res unit answer)) zexec zrexec st0 (flat_map to_ev cevs) t q seen o H)
    as (Ho & v & Hf & Hv & _).
  destruct (only_called_sections_run state state question (option (res unit answer)) zexec zrexec st0 (flat_map to_ev cevs)) as [_ Hc].
  split; [eapply callr_origin; eapply Hc; exact H|]. split.
  - intro Hne. exists v. split; [|split; [exact Hv|apply concurrent_states_origin; exact Hv]].
    rewrite Ho. unfold zrexec. f_equal. apply F_consistent; assumption.
  - intros ->. exact Ho.
Qed.

(* a signal whose load fails contributes no event at all: the state, the lock and every task are
   exactly as if it had not been delivered *)
Theorem concurrent_failed_reload_is_noop st0 cevs1 f cevs2 :
  load a f = None -> crun st0 (cevs1 ++ CSignal f :: cevs2) = crun st0 (cevs1 ++ cevs2).
Proof.
  intro L. unfold crun. rewrite !flat_map_app. cbn [flat_map to_ev]. rewrite L. reflexivity.
Qed.

(* the current configuration is always the last value stored (or the initial one) *)
Theorem concurrent_current_in_history st0 cevs :
  exists tl, Locks.hist _ _ _ _ (crun st0 cevs) = shared _ _ _ _ (crun st0 cevs) :: tl.
Proof.
  pose proof (run_sched_inv state state question (option (res unit answer)) zexec zrexec st0 (flat_map to_ev cevs) _
                (inv_init _ _ _ _ zexec zrexec st0)) as I.
  fold (crun st0 cevs) in I. exact (i_hist _ _ _ _ _ _ _ _ I).
Qed.

End Conc.

(* Why the ONE read section matters: a handler that took the read lock twice (two sections for one
   query) can see two configurations.  Two consecutive read sections of handler 1 around a completed
   reload see the old and the new value. *)
Example two_sections_can_differ :
  let s := run_sched nat nat unit (list nat) (fun _ _ z => (z, [])) (fun seen _ => seen)
             (init_sys nat nat unit (list nat) 0%nat)
             [CallR _ _ 1%nat tt; Acq _ _ 1%nat; Step _ _ 1%nat; Rel _ _ 1%nat;
              CallW _ _ 0%nat 7%nat; Acq _ _ 0%nat; Step _ _ 0%nat; Rel _ _ 0%nat;
              CallR _ _ 1%nat tt; Acq _ _ 1%nat; Step _ _ 1%nat; Rel _ _ 1%nat] in
  map (fun r => match r with RRet _ _ _ _ _ _ seen _ => seen | WRet _ _ _ _ _ => [] end) (rets _ _ _ _ s)
  = [[7%nat]; []; [0%nat]].
Proof. vm_compute. reflexivity. Qed.

(* ... while inside ONE section the writer cannot get in: the same reload attempted between two reads
   of one section has to wait, and the section sees one value *)
Example one_section_sees_one :
  let s := run_sched nat nat unit (list nat) (fun _ _ z => (z, [])) (fun seen _ => seen)
             (init_sys nat nat unit (list nat) 0%nat)
             [CallR _ _ 1%nat tt; Acq _ _ 1%nat; Step _ _ 1%nat;
              CallW _ _ 0%nat 7%nat; Acq _ _ 0%nat; Step _ _ 0%nat; Rel _ _ 0%nat;
              Step _ _ 1%nat; Rel _ _ 1%nat; Acq _ _ 0%nat; Step _ _ 0%nat; Rel _ _ 0%nat] in
  map (fun r => match r with RRet _ _ _ _ _ _ seen _ => seen | WRet _ _ _ _ _ => [] end) (rets _ _ _ _ s)
  = [[]; [0%nat; 0%nat]] /\ shared _ _ _ _ s = 7%nat.
Proof. vm_compute. split; reflexivity. Qed.
