(* Config/ConfigModel.v -- executable model of
     crates/resolved/src/fs.rs      load_zone_configuration, get_files_from_dir
     crates/resolved/src/main.rs    reload_task (SIGUSR1), the zones lock, and the part of
                                    resolve_and_build_response that turns the resolver's result
                                    into the sections of the reply (authoritative-only mode)
     crates/dns-types/src/hosts/types.rs   Hosts, Hosts::merge, From<Hosts> for Zone
   Definitions only.

   A configuration FILE is already-parsed data here: what Zone::deserialise and
   Hosts::deserialise make of its text is the business of C11/C14 (other models);
   this model starts from their results.  The file system is data too: explicitly
   named files, and directories given by their listings. *)
From RV Require Import Base.Prelude Name.NameModel Wire.WireTypes Zone.ZoneModel Resolver.LocalModel.

(* ------------------------------------------------------------------------- *)
(* Hosts { v4 : HashMap<DomainName, Ipv4Addr>, v6 : HashMap<DomainName, Ipv6Addr> }            *)
(* ------------------------------------------------------------------------- *)

Record hosts := { h_v4 : list (dname * N); h_v6 : list (dname * list N) }.

Definition hosts_new : hosts := {| h_v4 := []; h_v6 := [] |}.

(* for (name, address) in other { self.insert(name, address) } *)
Definition amerge {V : Type} (self other : list (dname * V)) : list (dname * V) :=
  fold_left (fun m kv => ainsert dname_eqb (fst kv) (snd kv) m) other self.

(* Hosts::merge: "if the same name has records in both files, the new file will win" *)
Definition hosts_merge (self other : hosts) : hosts :=
  {| h_v4 := amerge (h_v4 self) (h_v4 other); h_v6 := amerge (h_v6 self) (h_v6 other) |}.

(* what the lines of one hosts file amount to, in line order (Hosts::deserialise does
   hosts.v4.insert / hosts.v6.insert per (address, name) pair) *)
Inductive hentry := HV4 (name : dname) (addr : N) | HV6 (name : dname) (segs : list N).
Definition hosts_add (h : hosts) (e : hentry) : hosts :=
  match e with
  | HV4 n a => {| h_v4 := ainsert dname_eqb n a (h_v4 h); h_v6 := h_v6 h |}
  | HV6 n a => {| h_v4 := h_v4 h; h_v6 := ainsert dname_eqb n a (h_v6 h) |}
  end.
Definition hosts_of_entries (es : list hentry) : hosts := fold_left hosts_add es hosts_new.

(* a for loop of Zone::insert calls *)
Fixpoint insert_all {A : Type} (f : zone -> A -> res unit zone) (z : zone) (l : list A) : res unit zone :=
  match l with
  | [] => Ok z
  | x :: t => let* z' := f z x in insert_all f z' t
  end.

(* From<Hosts> for Zone: Zone::default() = Zone::new(root, None); A records then AAAA
   records, TTL = hosts::types::TTL.  (HashMap iteration order = list order here; every
   name carries at most one address per family, so no Vec order depends on it.) *)
Definition hosts_to_zone (h : hosts) : res unit zone :=
  let* z := insert_all (fun z kv => zone_insert false z (fst kv) RT_A (RD_A (snd kv)) HOSTS_TTL)
                       (zone_new root_domain None) (h_v4 h) in
  insert_all (fun z kv => zone_insert false z (fst kv) RT_AAAA (RD_AAAA (snd kv)) HOSTS_TTL) z (h_v6 h).

(* ------------------------------------------------------------------------- *)
(* the file system as data                                                    *)
(* ------------------------------------------------------------------------- *)

Definition path := list byte.      (* a path as given on the command line: an opaque key *)
Definition fname := list byte.     (* one file-name component: no '/' inside *)

(* A file: unreadable (read_to_string fails: missing, no permission, not UTF-8, a dangling
   symlink), or a text, of which only the two readings matter: what Zone::deserialise
   returns (None = Err) and what Hosts::deserialise returns (None = Err). *)
Inductive cfile :=
| Unreadable
| Parsed (as_zone : option zone) (as_hosts : option hosts).

(* files meant for one role only *)
Definition ZoneFile (r : option zone) : cfile := Parsed r None.
Definition HostsFile (r : option hosts) : cfile := Parsed None r.

(* zone_from_file / hosts_from_file: Ok(Ok(_)) or one of the two error layers *)
Definition read_zone (c : cfile) : option zone := match c with Parsed z _ => z | Unreadable => None end.
Definition read_hosts (c : cfile) : option hosts := match c with Parsed _ h => h | Unreadable => None end.

(* a directory entry: a file, or something for which Path::is_dir() holds *)
Inductive dentry := EFile (c : cfile) | ESubdir.
Definition dir := list (fname * dentry).        (* in read_dir order (unspecified); names unique *)

Record fs := {
  fs_files : list (path * cfile);               (* files reachable by an explicit path *)
  fs_dirs : list (path * dir) }.                (* directories reachable by an explicit path;
                                                   a path not listed cannot be read_dir'ed *)

(* the four Vec<PathBuf> of Args *)
Record config_args := {
  a_hosts_files : list path;                    (* -a *)
  a_hosts_dirs : list path;                     (* -A *)
  a_zone_files : list path;                     (* -z *)
  a_zone_dirs : list path }.                    (* -Z *)

(* a PathBuf in hosts_file_paths / zone_file_paths *)
Inductive fref :=
| RFile (p : path)                              (* given with -z / -a *)
| RDirFile (d : path) (n : fname).              (* entry.path() = d.join(n) *)

Definition is_file_entry (e : fname * dentry) : bool :=
  match snd e with EFile _ => true | ESubdir => false end.

Definition fs_read (f : fs) (r : fref) : cfile :=
  match r with
  | RFile p => match alookup leqb p (fs_files f) with Some c => c | None => Unreadable end
  | RDirFile d n =>
    match alookup leqb d (fs_dirs f) with
    | Some es => match alookup leqb n es with Some (EFile c) => c | _ => Unreadable end
    | None => Unreadable
    end
  end.

(* Ord for PathBuf compares component-wise; two entries of one directory share every
   component but the last, which is compared as OsStr = byte-wise lexicographically
   (a proper prefix sorts first). *)
Fixpoint bytes_leb (a b : list byte) : bool :=
  match a, b with
  | [], _ => true
  | _ :: _, [] => false
  | x :: a', y :: b' => if x <? y then true else if y <? x then false else bytes_leb a' b'
  end.

(* out.sort(): stable; insertion sort (names in one directory are distinct anyway) *)
Fixpoint sort_insert (x : fname) (l : list fname) : list fname :=
  match l with
  | [] => [x]
  | y :: t => if bytes_leb x y then x :: l else y :: sort_insert x t
  end.
Definition sort_names (l : list fname) : list fname := fold_right sort_insert [] l.

(* get_files_from_dir: None = Err (read_dir failed: missing, not a directory, unreadable) *)
Definition get_files_from_dir (f : fs) (d : path) : option (list fref) :=
  match alookup leqb d (fs_dirs f) with
  | Some es => Some (map (RDirFile d) (sort_names (map fst (filter is_file_entry es))))
  | None => None
  end.

(* the two "for path in .._dirs" loops: append the listing, or flag the error and go on *)
Fixpoint gather_dirs (f : fs) (dirs : list path) (acc : list fref) (err : bool) : list fref * bool :=
  match dirs with
  | [] => (acc, err)
  | d :: t =>
    match get_files_from_dir f d with
    | Some ps => gather_dirs f t (acc ++ ps) err
    | None => gather_dirs f t acc true
    end
  end.

(* for path in &zone_file_paths: insert_merge on success, flag the error and go on otherwise *)
Fixpoint load_zone_files (f : fs) (refs : list fref) (zs : zones) (err : bool) : res unit (zones * bool) :=
  match refs with
  | [] => Ok (zs, err)
  | r :: t =>
    match read_zone (fs_read f r) with
    | Some z => let* zs' := zones_insert_merge zs z in load_zone_files f t zs' err
    | None => load_zone_files f t zs true
    end
  end.

(* for path in &hosts_file_paths *)
Fixpoint load_hosts_files (f : fs) (refs : list fref) (h : hosts) (err : bool) : hosts * bool :=
  match refs with
  | [] => (h, err)
  | r :: t =>
    match read_hosts (fs_read f r) with
    | Some h' => load_hosts_files f t (hosts_merge h h') err
    | None => load_hosts_files f t h true
    end
  end.

Definition zone_file_seq (a : config_args) (f : fs) : list fref * bool :=
  gather_dirs f (a_zone_dirs a) (map RFile (a_zone_files a)) false.
Definition hosts_file_seq (a : config_args) (f : fs) : list fref * bool :=
  gather_dirs f (a_hosts_dirs a) (map RFile (a_hosts_files a)) false.

(* load_zone_configuration.  Ok None = the function returns None; Panic = one of the two
   unwrap sites (Zone::merge's apex check inside insert_merge, from_labels inside
   Zone::insert) fires -- ConfigProofs shows neither can. *)
Definition load_res (a : config_args) (f : fs) : res unit (option zones) :=
  let '(zone_paths, e1) := zone_file_seq a f in
  let '(hosts_paths, e2) := hosts_file_seq a f in
  let* zse := load_zone_files f zone_paths [] (e1 || e2) in
  let '(zs, e3) := zse in
  let '(hs, e4) := load_hosts_files f hosts_paths hosts_new e3 in
  if e4 then Ok None
  else
    let* hz := hosts_to_zone hs in
    let* zs' := zones_insert_merge zs hz in
    Ok (Some zs').

Definition load (a : config_args) (f : fs) : option zones :=
  match load_res a f with Ok o => o | _ => None end.

(* ------------------------------------------------------------------------- *)
(* reload (main.rs)                                                           *)
(* ------------------------------------------------------------------------- *)

(* the value inside zones_lock : Arc<RwLock<Zones>> *)
Definition state := zones.

(* main(): exit(1) (None) if the configuration cannot be loaded *)
Definition start (a : config_args) (f : fs) : option state := load a f.

(* one iteration of reload_task's loop: load into a fresh value; only on success take the
   write lock and assign *)
Definition reload (a : config_args) (st : state) (f : fs) : state :=
  match load a f with
  | Some z => z
  | None => st
  end.

(* The reply sections for a standard query carrying exactly one question, as
   resolve_and_build_response fills them in authoritative-only mode (recursion_available =
   false, so resolve() runs resolve_local only; nothing ever enters the cache, so the cache
   is empty).  The read lock is taken once: [zs] is the one state the whole query sees. *)
Record answer := { an_rcode : N; an_aa : bool; an_answers : list rr; an_authority : list rr }.

Definition finish_answer (a : answer) : answer :=
  if is_nil (an_answers a) && is_nil (an_authority a) && (an_rcode a =? RCODE_NoError)
  then {| an_rcode := RCODE_ServerFailure; an_aa := false; an_answers := an_answers a; an_authority := an_authority a |}
  else a.

Definition query (zs : state) (q : question) : res unit answer :=
  if question_is_unknown q
  then Ok {| an_rcode := RCODE_Refused; an_aa := false; an_answers := []; an_authority := [] |}
  else
    match resolve_authoritative_only zs (fun _ _ => []) q with
    | Ok (Authoritative rrs soa_rr) =>
      Ok (finish_answer {| an_rcode := RCODE_NoError; an_aa := true; an_answers := rrs; an_authority := [soa_rr] |})
    | Ok (AuthoritativeNameError soa_rr) =>
      Ok (finish_answer {| an_rcode := RCODE_NameError; an_aa := true; an_answers := []; an_authority := [soa_rr] |})
    | Ok (NonAuthoritative rrs soa_rr) =>
      Ok (finish_answer {| an_rcode := RCODE_NoError; an_aa := false; an_answers := rrs;
                           an_authority := match soa_rr with Some s => [s] | None => [] end |})
    | Err _ =>
      Ok (finish_answer {| an_rcode := RCODE_NoError; an_aa := false; an_answers := []; an_authority := [] |})
    | Panic => Panic
    | OutOfFuel => OutOfFuel
    end.

(* A history of the running server: SIGUSR1 deliveries (each with the file system as it is
   when the files are read) interleaved with queries.  The write of a reload and the read of
   a query are each one step: that tokio's RwLock really serialises them is outside the
   model and is observed by the C19 stream against the real binary. *)
Inductive event := EvReload (f : fs) | EvQuery (q : question).

(* the replies, in the order of the queries *)
Fixpoint run (a : config_args) (st : state) (evs : list event) : list (res unit answer) :=
  match evs with
  | [] => []
  | EvReload f :: t => run a (reload a st f) t
  | EvQuery q :: t => query st q :: run a st t
  end.

(* the states the server goes through (the initial one first) *)
Fixpoint states (a : config_args) (st : state) (evs : list event) : list state :=
  match evs with
  | [] => [st]
  | EvReload f :: t => st :: states a (reload a st f) t
  | EvQuery _ :: t => states a st t
  end.
