(* Config/ConfigMerge.v -- discharges the premise of ConfigProofs.load_zone_repr with the lemmas of
   Zone/ZoneMergeProofs.v: the tree invariant is [wf_tree] (unique child labels), Zone::merge
   preserves it and refines the flat merge. *)
From RV Require Import Base.Prelude Name.NameModel Name.NameSpec Wire.WireTypes Zone.ZoneModel Zone.ZoneFlat
     Zone.ZoneProofs Zone.ZoneMergeProofs Config.ConfigModel Config.ConfigProofs.

Definition zone_wf (z : zone) : Prop := wf_tree (z_records z).

(* removing the SOA entry of the apex record map does not touch the children *)
Lemma wf_tree_this_irrelevant nsd this this' wild wild' cs :
  wf_tree (Node nsd this wild cs) -> wf_tree (Node nsd this' wild' cs).
Proof. intro H. apply wf_tree_unfold in H. apply wf_tree_unfold. exact H. Qed.

Lemma zone_merge_wf a b m : zone_wf a -> zone_wf b -> zone_merge a b = Some m -> zone_wf m.
Proof.
  unfold zone_wf, zone_merge. intros Ha Hb Hm.
  destruct (negb (dname_eqb (z_apex a) (z_apex b))); [discriminate|].
  destruct (z_soa b); inversion Hm; subst m; cbn [z_records].
  - apply node_merge_wf_tree; [|exact Hb].
    destruct (z_records a) as [nsd this wild cs]. cbn [n_nsdname n_this n_wild n_children].
    eapply wf_tree_this_irrelevant. exact Ha.
  - apply node_merge_wf_tree; assumption.
Qed.

Lemma zone_merge_repr_wf : forall a b fa fb m,
  zone_wf a -> zone_wf b -> zrepr a fa -> zrepr b fb -> zone_merge a b = Some m ->
  zone_wf m /\ zrepr m (fz_merge fa fb (zone_is_authoritative b)).
Proof.
  intros a b fa fb m Ha Hb Ra Rb Hm. split.
  - exact (zone_merge_wf a b m Ha Hb Hm).
  - unfold zrepr in *. destruct (zone_merge_repr a b fa fb m Ra Rb Hb Hm) as [_ H]. exact H.
Qed.

(* per apex, the loaded zone represents the flat chain (union, last SOA wins) of the files for that apex *)
Theorem load_zone_repr_closed :
  forall a f zs (flat_of : zone -> fzone), config_hosts_wf a f -> load a f = Some zs ->
  exists hz, hosts_to_zone (loaded_hosts a f) = Ok hz /\ z_apex hz = root_domain /\ z_soa hz = None /\
    forall k, Forall (fun z => zone_wf z /\ zrepr z (flat_of z)) (for_apex k (zone_inputs a f hz)) ->
      match alookup dname_eqb k zs, flat_chain (map (ffile_of flat_of) (for_apex k (zone_inputs a f hz))) with
      | Some m, Some fm => z_apex m = k /\ zrepr m fm
      | None, None => for_apex k (zone_inputs a f hz) = []
      | _, _ => False
      end.
Proof. exact (load_zone_repr zone_wf zone_merge_repr_wf). Qed.
