(* Config/ConfigProofs.v -- lemmas about Config/ConfigModel.v (C12, C19).

   Contents
     1. byte-wise order of file names; get_files_from_dir / the directory loops ([gather_dirs_spec])
     2. Zones stay keyed by apex, insert_merge never panics; the file loops; [load_res_spec]
     3. reload / run (C19); Hosts::merge is last-writer-wins; the loops as folds
     4. hosts -> zone: never panics on well-formed names, represents [hosts_flat] (uses
        Zone/ZoneProofs.v: R, zone_build_R); load is total; load = None iff the configuration is bad
     5. per apex the loaded zone is the chain of Zone::merge over the files of that apex in
        application order ([load_by_apex]); on flat zones (Zone/ZoneFlat.v) that chain is the union
        with duplicates removed and holds exactly the last SOA ([chain_norm], [chain_wild],
        [chain_nodup], [chain_one_soa]); tree and flat side are tied by [load_zone_repr] under ONE
        Section hypothesis, [zone_merge_repr] (Zone::merge refines fz_merge), which
        Zone/ZoneMergeProofs.v is to provide -- it did not exist when this file was written;
        [zone_answers_from_flat] (from ZoneProofs.resolve_R): a zone answers as RFC 1034 4.3.2 does on
        the flat zone it represents
     6. the side conditions hold for files given by insertions; examples *)
From Coq Require Import Permutation Sorting.Sorted PeanoNat.
From RV Require Import Base.Prelude Name.NameModel Name.NameSpec Name.NameProofs Wire.WireTypes
     Zone.ZoneModel Zone.ZoneFlat Zone.ZoneProofs Resolver.LocalModel Config.ConfigModel.

(* ===================================== part 1 ===================================== *)

Lemma dname_eqb_eq a b : dname_eqb a b = true <-> a = b.
Proof.
  destruct a as [la na], b as [lb nb]. unfold dname_eqb. cbn [labels nlen].
  rewrite andb_true_iff, lleqb_eq, N.eqb_eq. split.
  - intros [-> ->]. reflexivity.
  - intros H. inversion H. auto.
Qed.

Definition is_none {A} (o : option A) : bool := match o with Some _ => false | None => true end.

(* ---- byte-wise order ---- *)
Definition ble (a b : list byte) : Prop := bytes_leb a b = true.

Lemma bytes_leb_total a : forall b, bytes_leb a b = false -> bytes_leb b a = true.
Proof.
  induction a as [|x a IH]; intros [|y b]; cbn [bytes_leb]; try discriminate; try reflexivity.
  destruct (x <? y) eqn:E1, (y <? x) eqn:E2; try discriminate; try reflexivity. apply IH.
Qed.

Lemma bytes_leb_refl a : bytes_leb a a = true.
Proof. induction a as [|x a IH]; cbn [bytes_leb]; [reflexivity|]. rewrite N.ltb_irrefl. exact IH. Qed.

Lemma bytes_leb_trans a : forall b c, bytes_leb a b = true -> bytes_leb b c = true -> bytes_leb a c = true.
Proof.
  induction a as [|x a IH]; intros [|y b] [|z c]; cbn [bytes_leb]; try discriminate; try reflexivity.
  intros H1 H2. revert H1 H2.
  destruct (N.ltb_spec x y), (N.ltb_spec y x), (N.ltb_spec y z), (N.ltb_spec z y), (N.ltb_spec x z), (N.ltb_spec z x);
    try discriminate; try lia; try reflexivity. apply IH.
Qed.

Lemma bytes_leb_antisym a : forall b, bytes_leb a b = true -> bytes_leb b a = true -> a = b.
Proof.
  induction a as [|x a IH]; intros [|y b]; cbn [bytes_leb]; try discriminate; try reflexivity.
  destruct (N.ltb_spec x y), (N.ltb_spec y x); try discriminate; try lia.
  intros H1 H2. assert (x = y) by lia. subst. f_equal. apply IH; assumption.
Qed.

Lemma sort_insert_perm x l : Permutation (x :: l) (sort_insert x l).
Proof.
  induction l as [|y t IH]; cbn [sort_insert]; [reflexivity|].
  destruct (bytes_leb x y); [reflexivity|].
  eapply perm_trans; [apply perm_swap|]. apply perm_skip. exact IH.
Qed.

Lemma sort_names_perm l : Permutation l (sort_names l).
Proof.
  induction l as [|x t IH]; cbn [sort_names fold_right]; [reflexivity|].
  eapply perm_trans; [apply perm_skip; exact IH|]. apply sort_insert_perm.
Qed.

Lemma sort_insert_sorted x l : StronglySorted ble l -> StronglySorted ble (sort_insert x l).
Proof.
  induction l as [|y t IH]; cbn [sort_insert]; intro H.
  - constructor; constructor.
  - destruct (bytes_leb x y) eqn:E.
    + constructor; [exact H|]. inversion H; subst. constructor; [exact E|].
      eapply Forall_impl; [|eassumption]. intros a Ha. exact (bytes_leb_trans _ _ _ E Ha).
    + inversion H; subst. constructor; [apply IH; assumption|].
      eapply Permutation_Forall; [apply sort_insert_perm|]. constructor; [|assumption].
      apply bytes_leb_total. exact E.
Qed.

Lemma sort_names_sorted l : StronglySorted ble (sort_names l).
Proof.
  induction l as [|x t IH]; cbn [sort_names fold_right]; [constructor|]. apply sort_insert_sorted. exact IH.
Qed.

(* the sorted arrangement of a duplicate-free list is unique *)
Lemma sorted_perm_unique l : forall l', StronglySorted ble l -> StronglySorted ble l' -> Permutation l l' -> NoDup l -> l = l'.
Proof.
  induction l as [|x t IH]; intros l' Hs Hs' Hp Hn.
  - apply Permutation_nil in Hp. subst. reflexivity.
  - destruct l' as [|y t']; [apply Permutation_sym, Permutation_nil in Hp; discriminate|].
    inversion Hs as [|? ? Hst Hfx]; subst. inversion Hs' as [|? ? Hst' Hfy]; subst. inversion Hn as [|? ? Hnx Hnt]; subst.
    assert (x = y).
    { assert (Hx : In x (y :: t')) by (eapply Permutation_in; [exact Hp|left; reflexivity]).
      assert (Hy : In y (x :: t)) by (eapply Permutation_in; [apply Permutation_sym; exact Hp|left; reflexivity]).
      destruct Hx as [->|Hx]; [reflexivity|]. destruct Hy as [->|Hy]; [reflexivity|].
      rewrite Forall_forall in Hfx, Hfy. apply bytes_leb_antisym; [apply Hfx; exact Hy|apply Hfy; exact Hx]. }
    subst y. f_equal. apply IH; try assumption. eapply Permutation_cons_inv. exact Hp.
Qed.

(* ---- get_files_from_dir / gather ---- *)
Definition file_names (es : dir) : list fname := map fst (filter is_file_entry es).

(* what one -Z / -A directory contributes: its non-directory entries, in byte-wise sorted order *)
Definition dir_chunk (f : fs) (d : ConfigModel.path) (chunk : list fref) : Prop :=
  match alookup leqb d (fs_dirs f) with
  | Some es => exists names, chunk = map (RDirFile d) names /\ Permutation names (file_names es) /\ StronglySorted ble names
  | None => chunk = []
  end.

Definition dir_missing (f : fs) (d : ConfigModel.path) : bool := is_none (alookup leqb d (fs_dirs f)).

Lemma gather_dirs_spec f : forall dirs acc err,
  exists chunks, Forall2 (dir_chunk f) dirs chunks /\
    gather_dirs f dirs acc err = (acc ++ concat chunks, err || existsb (dir_missing f) dirs).
Proof.
  induction dirs as [|d t IH]; intros acc err; cbn [gather_dirs].
  - exists []. split; [constructor|]. cbn [concat existsb]. rewrite app_nil_r, orb_false_r. reflexivity.
  - unfold get_files_from_dir. destruct (alookup leqb d (fs_dirs f)) as [es|] eqn:E.
    + destruct (IH (acc ++ map (RDirFile d) (sort_names (map fst (filter is_file_entry es)))) err) as (chunks & HF & Hg).
      exists (map (RDirFile d) (sort_names (file_names es)) :: chunks). split.
      * constructor; [|exact HF]. unfold dir_chunk. rewrite E. exists (sort_names (file_names es)).
        split; [reflexivity|]. split; [apply Permutation_sym, sort_names_perm|apply sort_names_sorted].
      * rewrite Hg. cbn [concat existsb]. unfold dir_missing at 2. rewrite E. cbn [is_none orb].
        rewrite <- app_assoc. reflexivity.
    + destruct (IH acc true) as (chunks & HF & Hg). exists ([] :: chunks). split.
      * constructor; [|exact HF]. unfold dir_chunk. rewrite E. reflexivity.
      * rewrite Hg. cbn [concat existsb app]. unfold dir_missing at 2. rewrite E. cbn [is_none orb].
        rewrite orb_true_r. reflexivity.
Qed.

(* ===================================== part 2 ===================================== *)

(* ---- Zones keyed by apex; insert_merge never panics ---- *)
Definition zones_keyed (zs : zones) : Prop := forall k z, In (k, z) zs -> z_apex z = k.

Lemma in_areplace {K V} (keqb : K -> K -> bool) (keqb_eq : forall a b, keqb a b = true <-> a = b) k (v : V) m x :
  In x (areplace keqb k v m) -> In x m \/ x = (k, v).
Proof.
  induction m as [|[k0 v0] m IH]; cbn [areplace]; [intros []|].
  destruct (keqb k k0) eqn:E.
  - apply keqb_eq in E. subst k0. intros [<-|H]; [right; reflexivity|left; right; exact H].
  - intros [<-|H]; [left; left; reflexivity|]. destruct (IH H) as [H'|H']; [left; right; exact H'|right; exact H'].
Qed.

Lemma zone_merge_same_apex a b : z_apex a = z_apex b ->
  exists m, zone_merge a b = Some m /\ z_apex m = z_apex a /\
            z_soa m = match z_soa b with Some s => Some s | None => z_soa a end.
Proof.
  intro H. unfold zone_merge. rewrite H, dname_eqb_refl. cbn [negb].
  destruct (z_soa b); eexists; (split; [reflexivity|]); cbn [z_apex z_soa]; auto.
Qed.

Lemma insert_merge_ok zs z : zones_keyed zs ->
  exists zs', zones_insert_merge zs z = Ok zs' /\ zones_keyed zs'.
Proof.
  intro Hk. unfold zones_insert_merge. destruct (alookup dname_eqb (z_apex z) zs) as [mine|] eqn:E.
  - pose proof (alookup_in dname_eqb dname_eqb_eq _ _ _ E) as Hin. apply Hk in Hin.
    destruct (zone_merge_same_apex mine z Hin) as (m & Hm & Hap & _). rewrite Hm.
    eexists. split; [reflexivity|]. intros k v Hkv.
    apply (in_areplace dname_eqb dname_eqb_eq) in Hkv as [Hkv|Hkv]; [apply Hk; exact Hkv|].
    inversion Hkv; subst. congruence.
  - eexists. split; [reflexivity|]. unfold zones_insert, ainsert. rewrite E.
    intros k v Hkv. apply in_app_or in Hkv as [Hkv|[Hkv|[]]]; [apply Hk; exact Hkv|]. inversion Hkv; subst. reflexivity.
Qed.

Lemma zones_keyed_nil : zones_keyed [].
Proof. intros k z []. Qed.

(* ---- the two file loops ---- *)
Definition zone_unreadable (f : fs) (r : fref) : bool := is_none (read_zone (fs_read f r)).
Definition hosts_unreadable (f : fs) (r : fref) : bool := is_none (read_hosts (fs_read f r)).

Lemma load_zone_files_spec f : forall refs zs err, zones_keyed zs ->
  exists zs', load_zone_files f refs zs err = Ok (zs', err || existsb (zone_unreadable f) refs) /\ zones_keyed zs'.
Proof.
  induction refs as [|r t IH]; intros zs err Hk; cbn [load_zone_files existsb].
  - exists zs. rewrite orb_false_r. split; [reflexivity|exact Hk].
  - unfold zone_unreadable at 1. destruct (read_zone (fs_read f r)) as [z|]; cbn [is_none orb].
    + destruct (insert_merge_ok zs z Hk) as (zs1 & H1 & Hk1). rewrite H1. cbn [bind]. apply IH. exact Hk1.
    + destruct (IH zs true Hk) as (zs' & H' & Hk'). exists zs'. rewrite H', orb_true_r. split; [reflexivity|exact Hk'].
Qed.

Lemma load_hosts_files_err f : forall refs h err,
  snd (load_hosts_files f refs h err) = err || existsb (hosts_unreadable f) refs.
Proof.
  induction refs as [|r t IH]; intros h err; cbn [load_hosts_files existsb].
  - rewrite orb_false_r. reflexivity.
  - unfold hosts_unreadable at 1. destruct (read_hosts (fs_read f r)); cbn [is_none orb]; rewrite IH; [reflexivity|].
    rewrite orb_true_r. reflexivity.
Qed.

(* what makes a configuration bad: a directory that cannot be listed, a zone file that cannot be
   read or parsed, a hosts file that cannot be read or parsed *)
Definition config_bad (a : config_args) (f : fs) : bool :=
  existsb (dir_missing f) (a_zone_dirs a) || existsb (dir_missing f) (a_hosts_dirs a)
  || existsb (zone_unreadable f) (fst (zone_file_seq a f))
  || existsb (hosts_unreadable f) (fst (hosts_file_seq a f)).

Lemma seq_err_zone a f : snd (zone_file_seq a f) = existsb (dir_missing f) (a_zone_dirs a).
Proof.
  unfold zone_file_seq. destruct (gather_dirs_spec f (a_zone_dirs a) (map RFile (a_zone_files a)) false) as (c & _ & ->). reflexivity.
Qed.
Lemma seq_err_hosts a f : snd (hosts_file_seq a f) = existsb (dir_missing f) (a_hosts_dirs a).
Proof.
  unfold hosts_file_seq. destruct (gather_dirs_spec f (a_hosts_dirs a) (map RFile (a_hosts_files a)) false) as (c & _ & ->). reflexivity.
Qed.

(* the zones / hosts accumulated by the two loops, whatever the error flag *)
Definition loaded_zones (a : config_args) (f : fs) : res unit zones :=
  let* zse := load_zone_files f (fst (zone_file_seq a f)) [] false in Ok (fst zse).
Definition loaded_hosts (a : config_args) (f : fs) : hosts :=
  fst (load_hosts_files f (fst (hosts_file_seq a f)) hosts_new false).

Lemma load_zone_files_flag f : forall refs zs e e' zs',
  load_zone_files f refs zs e = Ok (zs', e') -> forall e2, exists e2', load_zone_files f refs zs e2 = Ok (zs', e2').
Proof.
  induction refs as [|r t IH]; intros zs e e' zs' H e2; cbn [load_zone_files] in *.
  - inversion H; subst. eexists; reflexivity.
  - destruct (read_zone (fs_read f r)).
    + destruct (zones_insert_merge zs z); cbn [bind] in *; try discriminate. eapply IH; exact H.
    + eapply IH; exact H.
Qed.

Lemma load_hosts_files_flag f : forall refs h e e2,
  fst (load_hosts_files f refs h e) = fst (load_hosts_files f refs h e2).
Proof.
  induction refs as [|r t IH]; intros h e e2; cbn [load_hosts_files]; [reflexivity|].
  destruct (read_hosts (fs_read f r)); apply IH.
Qed.

Theorem load_res_spec a f :
  exists zs, loaded_zones a f = Ok zs /\ zones_keyed zs /\
    load_res a f =
      if config_bad a f then Ok None
      else let* hz := hosts_to_zone (loaded_hosts a f) in
           let* zs' := zones_insert_merge zs hz in Ok (Some zs').
Proof.
  unfold load_res, loaded_zones, loaded_hosts, config_bad.
  pose proof (seq_err_zone a f) as Ez. pose proof (seq_err_hosts a f) as Eh.
  destruct (zone_file_seq a f) as [zp e1]. destruct (hosts_file_seq a f) as [hp e2]. cbn [fst snd] in *. subst e1 e2.
  destruct (load_zone_files_spec f zp [] false zones_keyed_nil) as (zs & Hz & Hk).
  exists zs. rewrite Hz. cbn [bind fst]. split; [reflexivity|]. split; [exact Hk|].
  destruct (load_zone_files_spec f zp [] (existsb (dir_missing f) (a_zone_dirs a) || existsb (dir_missing f) (a_hosts_dirs a)) zones_keyed_nil)
    as (zs2 & Hz2 & _).
  destruct (load_zone_files_flag f zp [] _ _ _ Hz2 false) as (e' & Hz3). rewrite Hz in Hz3. inversion Hz3; subst zs2.
  rewrite Hz2. cbn [bind].
  pose proof (load_hosts_files_err f hp hosts_new
               (existsb (dir_missing f) (a_zone_dirs a) || existsb (dir_missing f) (a_hosts_dirs a) || existsb (zone_unreadable f) zp)) as He.
  pose proof (load_hosts_files_flag f hp hosts_new
               (existsb (dir_missing f) (a_zone_dirs a) || existsb (dir_missing f) (a_hosts_dirs a) || existsb (zone_unreadable f) zp) false) as Hh.
  destruct (load_hosts_files f hp hosts_new _) as [hs e4]. cbn [fst snd] in *. subst e4. rewrite <- Hh. reflexivity.
Qed.

(* ===================================== part 3 ===================================== *)

(* ================= reload (C19) ================= *)

Lemma reload_success a st f z : load a f = Some z -> reload a st f = z.
Proof. unfold reload. intros ->. reflexivity. Qed.

Lemma reload_failure a st f : load a f = None -> reload a st f = st.
Proof. unfold reload. intros ->. reflexivity. Qed.

(* the new state is a function of the files only *)
Lemma reload_forgets a st st' f : load a f <> None -> reload a st f = reload a st' f.
Proof. unfold reload. destruct (load a f); [reflexivity|congruence]. Qed.

Fixpoint queries (evs : list event) : list question :=
  match evs with
  | [] => []
  | EvReload _ :: t => queries t
  | EvQuery q :: t => q :: queries t
  end.

(* every state of the history is the initial one or what ONE load produced *)
Lemma states_origin a : forall evs st s, In s (states a st evs) ->
  s = st \/ exists f, In (EvReload f) evs /\ load a f = Some s.
Proof.
  induction evs as [|[f|q] t IH]; intros st s H; cbn [states] in H.
  - destruct H as [<-|[]]. left. reflexivity.
  - destruct H as [<-|H]; [left; reflexivity|].
    destruct (IH _ _ H) as [->|(f' & Hin & Hl)].
    + unfold reload. destruct (load a f) as [z|] eqn:E; [|left; reflexivity].
      right. exists f. split; [left; reflexivity|exact E].
    + right. exists f'. split; [right; exact Hin|exact Hl].
  - destruct (IH _ _ H) as [->|(f' & Hin & Hl)]; [left; reflexivity|].
    right. exists f'. split; [right; exact Hin|exact Hl].
Qed.

Lemma states_head a evs st : In st (states a st evs).
Proof.
  revert st. induction evs as [|[f|q] t IH]; intro st; cbn [states]; [left; reflexivity|left; reflexivity|apply IH].
Qed.

Lemma Forall2_weaken {A B} (P Q : A -> B -> Prop) l l' :
  (forall x y, P x y -> Q x y) -> Forall2 P l l' -> Forall2 Q l l'.
Proof. intros H HF. induction HF; constructor; auto. Qed.

Lemma run_one_state a : forall evs st,
  Forall2 (fun q r => exists s, In s (states a st evs) /\ r = query s q) (queries evs) (run a st evs).
Proof.
  induction evs as [|[f|q] t IH]; intro st; cbn [queries run states].
  - constructor.
  - eapply Forall2_weaken; [|apply IH]. intros q r (s & Hin & ->). exists s. split; [right; exact Hin|reflexivity].
  - constructor.
    + exists st. split; [apply states_head|reflexivity].
    + apply IH.
Qed.

(* ================= hosts ================= *)

Section AL.
  Context {V : Type}.
  Notation al := (list (dname * V)).
  Notation lk := (alookup dname_eqb).

  Lemma lk_app n (m1 m2 : al) : lk n (m1 ++ m2) = match lk n m1 with Some v => Some v | None => lk n m2 end.
  Proof.
    induction m1 as [|[k v] m IH]; cbn [app alookup]; [reflexivity|]. destruct (dname_eqb n k); [reflexivity|exact IH].
  Qed.

  Lemma lk_ainsert n k (v : V) (m : al) :
    lk n (ainsert dname_eqb k v m) = if dname_eqb n k then Some v else lk n m.
  Proof.
    unfold ainsert. destruct (lk k m) as [v0|] eqn:E.
    - destruct (dname_eqb n k) eqn:En.
      + apply dname_eqb_eq in En. subst n. eapply (alookup_areplace_same dname_eqb). exact E.
      + apply (alookup_areplace_other dname_eqb dname_eqb_eq). intro H. subst. rewrite dname_eqb_refl in En. discriminate.
    - rewrite lk_app. cbn [alookup]. destruct (dname_eqb n k) eqn:En.
      + apply dname_eqb_eq in En. subst n. rewrite E. reflexivity.
      + destruct (lk n m); reflexivity.
  Qed.

  Lemma ainsert_nodup k (v : V) (m : al) : NoDup (map fst m) -> NoDup (map fst (ainsert dname_eqb k v m)).
  Proof.
    intro H. unfold ainsert. destruct (lk k m) eqn:E.
    - rewrite (areplace_keys dname_eqb). exact H.
    - rewrite map_app. cbn [map fst]. apply NoDup_snoc; [exact H|]. apply (alookup_none_notin dname_eqb dname_eqb_eq). exact E.
  Qed.

  Lemma amerge_nodup (other self : al) : NoDup (map fst self) -> NoDup (map fst (amerge self other)).
  Proof.
    unfold amerge. revert self. induction other as [|[k v] t IH]; intros self H; cbn [fold_left]; [exact H|].
    apply IH. apply ainsert_nodup. exact H.
  Qed.

  Lemma lk_rev_nodup n (m : al) : NoDup (map fst m) -> lk n (rev m) = lk n m.
  Proof.
    induction m as [|[k v] t IH]; intro H; [reflexivity|]. cbn [rev map fst] in *. inversion H; subst.
    rewrite lk_app, (IH H3). cbn [alookup]. destruct (dname_eqb n k) eqn:En.
    - apply dname_eqb_eq in En. subst n. rewrite (alookup_notin_none dname_eqb dname_eqb_eq _ _ H2). reflexivity.
    - destruct (lk n t); reflexivity.
  Qed.

  (* Hosts::merge on one family: the other file's entry wins *)
  Lemma lk_amerge n (other self : al) : NoDup (map fst other) ->
    lk n (amerge self other) = match lk n other with Some v => Some v | None => lk n self end.
  Proof.
    intro Hnd. rewrite <- (lk_rev_nodup n other Hnd). clear Hnd. unfold amerge. revert self.
    induction other as [|[k v] t IH]; intro self; cbn [fold_left rev]; [reflexivity|].
    rewrite IH, lk_app, lk_ainsert. cbn [alookup fst snd]. destruct (lk n (rev t)); [reflexivity|].
    destruct (dname_eqb n k); reflexivity.
  Qed.
End AL.

Definition hosts_unique (h : hosts) : Prop := NoDup (map fst (h_v4 h)) /\ NoDup (map fst (h_v6 h)).

Lemma hosts_new_unique : hosts_unique hosts_new.
Proof. split; constructor. Qed.

Lemma hosts_merge_unique a b : hosts_unique a -> hosts_unique (hosts_merge a b).
Proof. intros [H4 H6]. split; cbn [hosts_merge h_v4 h_v6]; apply amerge_nodup; assumption. Qed.

Lemma hosts_of_entries_unique es : hosts_unique (hosts_of_entries es).
Proof.
  unfold hosts_of_entries. generalize hosts_new_unique. generalize hosts_new.
  induction es as [|e t IH]; intros h H; cbn [fold_left]; [exact H|]. apply IH.
  destruct H as [H4 H6]. destruct e; split; cbn [hosts_add h_v4 h_v6]; try assumption; apply ainsert_nodup; assumption.
Qed.

(* first defined value, searching from the LAST file backwards *)
Fixpoint last_defined {A V} (get : A -> option V) (files : list A) : option V :=
  match files with
  | [] => None
  | h :: t => match last_defined get t with Some v => Some v | None => get h end
  end.

Lemma fold_hosts_merge_v4 n : forall files h0, Forall hosts_unique files ->
  alookup dname_eqb n (h_v4 (fold_left hosts_merge files h0)) =
  match last_defined (fun h => alookup dname_eqb n (h_v4 h)) files with Some v => Some v | None => alookup dname_eqb n (h_v4 h0) end.
Proof.
  induction files as [|h t IH]; intros h0 HF; cbn [fold_left last_defined]; [reflexivity|].
  inversion HF; subst. rewrite (IH _ H2). destruct (last_defined _ t); [reflexivity|].
  cbn [hosts_merge h_v4]. apply lk_amerge. apply H1.
Qed.

Lemma fold_hosts_merge_v6 n : forall files h0, Forall hosts_unique files ->
  alookup dname_eqb n (h_v6 (fold_left hosts_merge files h0)) =
  match last_defined (fun h => alookup dname_eqb n (h_v6 h)) files with Some v => Some v | None => alookup dname_eqb n (h_v6 h0) end.
Proof.
  induction files as [|h t IH]; intros h0 HF; cbn [fold_left last_defined]; [reflexivity|].
  inversion HF; subst. rewrite (IH _ H2). destruct (last_defined _ t); [reflexivity|].
  cbn [hosts_merge h_v6]. apply lk_amerge. apply H1.
Qed.

(* the hosts loop of load is that fold over the readable files *)
Fixpoint readable_hosts (f : fs) (refs : list fref) : list hosts :=
  match refs with
  | [] => []
  | r :: t => match read_hosts (fs_read f r) with Some h => h :: readable_hosts f t | None => readable_hosts f t end
  end.

Lemma load_hosts_files_fold f : forall refs h e,
  fst (load_hosts_files f refs h e) = fold_left hosts_merge (readable_hosts f refs) h.
Proof.
  induction refs as [|r t IH]; intros h e; cbn [load_hosts_files readable_hosts]; [reflexivity|].
  destruct (read_hosts (fs_read f r)); cbn [fold_left]; apply IH.
Qed.

Fixpoint readable_zones (f : fs) (refs : list fref) : list zone :=
  match refs with
  | [] => []
  | r :: t => match read_zone (fs_read f r) with Some z => z :: readable_zones f t | None => readable_zones f t end
  end.

(* insert_merge of a list of zones, in order *)
Fixpoint insert_merge_all (zs : zones) (l : list zone) : res unit zones :=
  match l with
  | [] => Ok zs
  | z :: t => let* zs' := zones_insert_merge zs z in insert_merge_all zs' t
  end.

Lemma load_zone_files_fold f : forall refs zs e zs' e',
  load_zone_files f refs zs e = Ok (zs', e') -> insert_merge_all zs (readable_zones f refs) = Ok zs'.
Proof.
  induction refs as [|r t IH]; intros zs e zs' e' H; cbn [load_zone_files readable_zones] in *.
  - inversion H; subst. reflexivity.
  - destruct (read_zone (fs_read f r)); cbn [insert_merge_all].
    + destruct (zones_insert_merge zs z); cbn [bind] in *; try discriminate. eapply IH; exact H.
    + eapply IH; exact H.
Qed.

(* ===================================== part 4 ===================================== *)

(* ================= a zone built by insertions represents the flat zone of the insertions ================= *)

(* the record tree of [z] holds exactly the records of the flat zone [fz] (Zone/ZoneProofs.v) *)
Definition zrepr (z : zone) (fz : fzone) : Prop := R (labels (z_apex z)) (z_records z) fz.

(* membership in the flat zone of a list of insertions *)
Lemma In_norm_apply apexl s fz o x :
  In x (f_norm (fz_apply apexl s fz o)) <->
  In x (f_norm fz) \/ (op_wild o = false /\ exists p, rel_path apexl (op_name o) = Some p /\ x = (p, op_zrec s o)).
Proof.
  unfold fz_apply. destruct (rel_path apexl (op_name o)) as [p|].
  - unfold fz_add. destruct (op_wild o); cbn [f_norm].
    + split; [intro H; left; exact H|intros [H|[H _]]; [exact H|discriminate]].
    + rewrite In_add_rec. split; intros [H|H]; auto.
      * right. split; [reflexivity|]. exists p. auto.
      * destruct H as (_ & p' & Hp & ->). inversion Hp; subst. right. reflexivity.
  - split; [intro H; left; exact H|intros [H|(_ & p & Hp & _)]; [exact H|discriminate]].
Qed.

Lemma In_wild_apply apexl s fz o x :
  In x (f_wild (fz_apply apexl s fz o)) <->
  In x (f_wild fz) \/ (op_wild o = true /\ exists p, rel_path apexl (op_name o) = Some p /\ x = (p, op_zrec s o)).
Proof.
  unfold fz_apply. destruct (rel_path apexl (op_name o)) as [p|].
  - unfold fz_add. destruct (op_wild o); cbn [f_wild].
    + rewrite In_add_rec. split; intros [H|H]; auto.
      * right. split; [reflexivity|]. exists p. auto.
      * destruct H as (_ & p' & Hp & ->). inversion Hp; subst. right. reflexivity.
    + split; [intro H; left; exact H|intros [H|[H _]]; [exact H|discriminate]].
  - split; [intro H; left; exact H|intros [H|(_ & p & Hp & _)]; [exact H|discriminate]].
Qed.

Lemma In_norm_fold apexl s : forall ops fz x,
  In x (f_norm (fold_left (fz_apply apexl s) ops fz)) <->
  In x (f_norm fz) \/ exists o p, In o ops /\ op_wild o = false /\ rel_path apexl (op_name o) = Some p /\ x = (p, op_zrec s o).
Proof.
  induction ops as [|o t IH]; intros fz x; cbn [fold_left].
  - split; [intro H; left; exact H|intros [H|(o & p & [] & _)]; exact H].
  - rewrite IH, In_norm_apply. split.
    + intros [[H|(Hw & p & Hp & Hx)]|(o' & p & Hin & H)]; auto.
      * right. exists o, p. split; [left; reflexivity|auto].
      * right. exists o', p. split; [right; exact Hin|exact H].
    + intros [H|(o' & p & [<-|Hin] & Hw & Hp & Hx)]; auto.
      * left. right. split; [exact Hw|]. exists p. auto.
      * right. exists o', p. auto.
Qed.

Lemma In_wild_fold apexl s : forall ops fz x,
  In x (f_wild (fold_left (fz_apply apexl s) ops fz)) <->
  In x (f_wild fz) \/ exists o p, In o ops /\ op_wild o = true /\ rel_path apexl (op_name o) = Some p /\ x = (p, op_zrec s o).
Proof.
  induction ops as [|o t IH]; intros fz x; cbn [fold_left].
  - split; [intro H; left; exact H|intros [H|(o & p & [] & _)]; exact H].
  - rewrite IH, In_wild_apply. split.
    + intros [[H|(Hw & p & Hp & Hx)]|(o' & p & Hin & H)]; auto.
      * right. exists o, p. split; [left; reflexivity|auto].
      * right. exists o', p. split; [right; exact Hin|exact H].
    + intros [H|(o' & p & [<-|Hin] & Hw & Hp & Hx)]; auto.
      * left. right. split; [exact Hw|]. exists p. auto.
      * right. exists o', p. auto.
Qed.

(* ================= hosts -> zone ================= *)

Definition op_v4 (kv : dname * N) : zop :=
  {| op_wild := false; op_name := fst kv; op_type := RT_A; op_data := RD_A (snd kv); op_ttl := HOSTS_TTL |}.
Definition op_v6 (kv : dname * list N) : zop :=
  {| op_wild := false; op_name := fst kv; op_type := RT_AAAA; op_data := RD_AAAA (snd kv); op_ttl := HOSTS_TTL |}.
Definition hosts_ops (h : hosts) : list zop := map op_v4 (h_v4 h) ++ map op_v6 (h_v6 h).

(* the flat zone the hosts data stands for: the root apex, no SOA, one A / AAAA record per entry *)
Definition hosts_flat (h : hosts) : fzone := flat_of_ops root_domain None (hosts_ops h).

Definition hosts_wf (h : hosts) : Prop := Forall wf_name (map fst (h_v4 h)) /\ Forall wf_name (map fst (h_v6 h)).

Lemma insert_all_apply {A} (g : A -> zop) l : forall z,
  insert_all (fun z x => zone_apply z (g x)) z l = zone_apply_all z (map g l).
Proof.
  induction l as [|x t IH]; intro z; cbn [insert_all map zone_apply_all]; [reflexivity|].
  destruct (zone_apply z (g x)); cbn [bind]; auto.
Qed.

Lemma zone_apply_all_app a : forall b z,
  zone_apply_all z (a ++ b) = let* z' := zone_apply_all z a in zone_apply_all z' b.
Proof.
  induction a as [|o t IH]; intros b z; cbn [app zone_apply_all bind]; [reflexivity|].
  destruct (zone_apply z o); cbn [bind]; auto.
Qed.

Lemma hosts_to_zone_build h : hosts_to_zone h = zone_build root_domain None (hosts_ops h).
Proof.
  unfold hosts_to_zone, zone_build, hosts_ops. rewrite zone_apply_all_app, <- (insert_all_apply op_v4).
  unfold bind.
  match goal with |- match ?a with _ => _ end = match ?b with _ => _ end => change a with b; destruct b; try reflexivity end.
  rewrite <- (insert_all_apply op_v6). reflexivity.
Qed.

Lemma hosts_ops_wf h : hosts_wf h -> Forall (fun o => wf_name (op_name o)) (hosts_ops h).
Proof.
  intros [H4 H6]. unfold hosts_ops. apply Forall_app. split; rewrite Forall_map; rewrite Forall_map in *;
    (eapply Forall_impl; [|eassumption]); intros kv Hkv; exact Hkv.
Qed.

Theorem hosts_to_zone_spec h : hosts_wf h ->
  exists hz, hosts_to_zone h = Ok hz /\ z_apex hz = root_domain /\ z_soa hz = None /\ zrepr hz (hosts_flat h).
Proof.
  intro Hwf. rewrite hosts_to_zone_build.
  destruct (zone_build_R root_domain None (hosts_ops h) root_wf (hosts_ops_wf h Hwf)) as (z & Hz & Ha & Hs & HR).
  exists z. unfold zrepr. rewrite Ha. auto.
Qed.

Definition rec_v4 (a : N) : zrec := {| zr_type := RT_A; zr_data := RD_A a; zr_ttl := HOSTS_TTL |}.
Definition rec_v6 (a : list N) : zrec := {| zr_type := RT_AAAA; zr_data := RD_AAAA a; zr_ttl := HOSTS_TTL |}.

Lemma wf_name_root_path n : wf_name n -> exists p, labels n = p ++ [[]].
Proof. intros [(front & H & _) _]. exists front. exact H. Qed.

Theorem hosts_flat_records h : hosts_wf h ->
  f_wild (hosts_flat h) = [] /\
  forall p r, In (p, r) (f_norm (hosts_flat h)) <->
    (exists n a, In (n, a) (h_v4 h) /\ labels n = p ++ [[]] /\ r = rec_v4 a) \/
    (exists n a, In (n, a) (h_v6 h) /\ labels n = p ++ [[]] /\ r = rec_v6 a).
Proof.
  intros [H4 H6]. unfold hosts_flat, flat_of_ops. cbn [root_domain labels].
  set (F := fold_left (fz_apply [[]] None) (hosts_ops h) (fz_init None)). split.
  - destruct (f_wild F) as [|x l] eqn:E; [reflexivity|exfalso].
    assert (Hin : In x (f_wild F)) by (rewrite E; left; reflexivity).
    unfold F in Hin. apply In_wild_fold in Hin as [Hin|(o & p & Hin & Hw & _)]; [cbn in Hin; contradiction|].
    unfold hosts_ops in Hin.
    apply in_app_or in Hin as [Hin|Hin]; apply in_map_iff in Hin as (kv & <- & _); discriminate.
  - intros p r. unfold F. rewrite In_norm_fold. split.
    + intros [Hin|(o & p' & Hin & _ & Hp & Hx)]; [cbn in Hin; contradiction|].
      inversion Hx; subst p' r. apply rel_path_some in Hp.
      unfold hosts_ops in Hin. apply in_app_or in Hin as [Hin|Hin]; apply in_map_iff in Hin as ([n a] & <- & Hin); [left|right];
        exists n, a; cbn [op_v4 op_v6 op_name fst] in *; auto.
    + intros [(n & a & Hin & Hl & ->)|(n & a & Hin & Hl & ->)]; right.
      * exists (op_v4 (n, a)), p. split; [unfold hosts_ops; apply in_or_app; left; apply in_map; exact Hin|].
        split; [reflexivity|]. split; [apply rel_path_intro; exact Hl|reflexivity].
      * exists (op_v6 (n, a)), p. split; [unfold hosts_ops; apply in_or_app; right; apply in_map; exact Hin|].
        split; [reflexivity|]. split; [apply rel_path_intro; exact Hl|reflexivity].
Qed.

(* ================= load never panics; None exactly for a bad configuration ================= *)

Lemma ainsert_keys_forall {V} (P : dname -> Prop) k (v : V) m :
  P k -> Forall P (map fst m) -> Forall P (map fst (ainsert dname_eqb k v m)).
Proof.
  intros Hk H. unfold ainsert. destruct (alookup dname_eqb k m).
  - rewrite (areplace_keys dname_eqb). exact H.
  - rewrite map_app. apply Forall_app. split; [exact H|]. repeat constructor. exact Hk.
Qed.

Lemma amerge_keys_forall {V} (P : dname -> Prop) (other self : list (dname * V)) :
  Forall P (map fst self) -> Forall P (map fst other) -> Forall P (map fst (amerge self other)).
Proof.
  unfold amerge. revert self. induction other as [|[k v] t IH]; intros self Hs Ho; cbn [fold_left]; [exact Hs|].
  cbn [map fst] in Ho. inversion Ho; subst. apply IH; [|assumption]. apply ainsert_keys_forall; assumption.
Qed.

Lemma hosts_merge_wf a b : hosts_wf a -> hosts_wf b -> hosts_wf (hosts_merge a b).
Proof. intros [A4 A6] [B4 B6]. split; cbn [hosts_merge h_v4 h_v6]; apply amerge_keys_forall; assumption. Qed.

Lemma fold_hosts_merge_wf files : forall h0, hosts_wf h0 -> Forall hosts_wf files -> hosts_wf (fold_left hosts_merge files h0).
Proof.
  induction files as [|h t IH]; intros h0 H0 HF; cbn [fold_left]; [exact H0|]. inversion HF; subst.
  apply IH; [apply hosts_merge_wf; assumption|assumption].
Qed.

Lemma hosts_new_wf : hosts_wf hosts_new.
Proof. split; constructor. Qed.

(* the names of every readable hosts file are well-formed DomainName values (C16: the parser
   builds them through the checked constructors) *)
Definition config_hosts_wf (a : config_args) (f : fs) : Prop :=
  Forall hosts_wf (readable_hosts f (fst (hosts_file_seq a f))).

Lemma loaded_hosts_fold a f : loaded_hosts a f = fold_left hosts_merge (readable_hosts f (fst (hosts_file_seq a f))) hosts_new.
Proof. unfold loaded_hosts. apply load_hosts_files_fold. Qed.

Theorem load_res_total a f : config_hosts_wf a f ->
  (config_bad a f = true /\ load_res a f = Ok None) \/
  (config_bad a f = false /\ exists zs hz zs', loaded_zones a f = Ok zs /\ hosts_to_zone (loaded_hosts a f) = Ok hz
                                               /\ zones_insert_merge zs hz = Ok zs' /\ load_res a f = Ok (Some zs')).
Proof.
  intro Hwf. destruct (load_res_spec a f) as (zs & Hz & Hk & Hl). rewrite Hl.
  destruct (config_bad a f); [left; auto|right]. split; [reflexivity|].
  assert (Hh : hosts_wf (loaded_hosts a f)).
  { rewrite loaded_hosts_fold. apply fold_hosts_merge_wf; [apply hosts_new_wf|exact Hwf]. }
  destruct (hosts_to_zone_spec _ Hh) as (hz & Hhz & _).
  destruct (insert_merge_ok zs hz Hk) as (zs' & Hm & _).
  exists zs, hz, zs'. rewrite Hhz. cbn [bind]. rewrite Hm. cbn [bind]. repeat split; try assumption; try reflexivity. 
Qed.

Theorem load_none_iff_bad a f : config_hosts_wf a f -> (load a f = None <-> config_bad a f = true).
Proof.
  intro Hwf. unfold load. destruct (load_res_total a f Hwf) as [[Hb ->]|(Hb & zs & hz & zs' & _ & _ & _ & ->)]; rewrite Hb.
  - split; reflexivity.
  - split; discriminate.
Qed.

Lemma existsb_is_none {A B} (g : A -> option B) l : existsb (fun x => is_none (g x)) l = true <-> exists x, In x l /\ g x = None.
Proof.
  rewrite existsb_exists. split; intros (x & Hin & H); exists x; (split; [exact Hin|]); destruct (g x); try discriminate; reflexivity.
Qed.

Theorem config_bad_spec a f : config_bad a f = true <->
  (exists d, In d (a_zone_dirs a ++ a_hosts_dirs a) /\ alookup leqb d (fs_dirs f) = None) \/
  (exists r, In r (fst (zone_file_seq a f)) /\ read_zone (fs_read f r) = None) \/
  (exists r, In r (fst (hosts_file_seq a f)) /\ read_hosts (fs_read f r) = None).
Proof.
  unfold config_bad, dir_missing, zone_unreadable, hosts_unreadable.
  rewrite !orb_true_iff, !existsb_is_none. split.
  - intros [[[(d & Hin & H)|(d & Hin & H)]|H]|H]; auto; left; exists d; (split; [apply in_or_app; auto|exact H]).
  - intros [(d & Hin & H)|[H|H]]; auto. apply in_app_or in Hin as [Hin|Hin]; left; left; [left|right]; exists d; auto.
Qed.

(* ===================================== part 5 ===================================== *)

(* ================= per apex: the zone is the chain of merges of the files for that apex ================= *)

Definition merge_step (acc : option zone) (z : zone) : option zone :=
  match acc with
  | None => Some z
  | Some a => match zone_merge a z with Some m => Some m | None => Some a end
  end.

Definition for_apex (k : dname) (l : list zone) : list zone := filter (fun z => dname_eqb (z_apex z) k) l.

Lemma insert_merge_all_lookup k : forall l zs zs', zones_keyed zs -> insert_merge_all zs l = Ok zs' ->
  alookup dname_eqb k zs' = fold_left merge_step (for_apex k l) (alookup dname_eqb k zs).
Proof.
  induction l as [|z t IH]; intros zs zs' Hk H; cbn [insert_merge_all for_apex filter fold_left] in *.
  - inversion H; subst. reflexivity.
  - destruct (insert_merge_ok zs z Hk) as (zs1 & H1 & Hk1). rewrite H1 in H. cbn [bind] in H.
    fold (for_apex k t). rewrite (IH _ _ Hk1 H). clear IH H.
    assert (Hstep : alookup dname_eqb k zs1 =
                    if dname_eqb (z_apex z) k then merge_step (alookup dname_eqb k zs) z else alookup dname_eqb k zs).
    { unfold zones_insert_merge in H1. destruct (alookup dname_eqb (z_apex z) zs) as [mine|] eqn:E.
      - destruct (zone_merge mine z) as [m|] eqn:Em; [|discriminate]. inversion H1; subst zs1. clear H1.
        destruct (dname_eqb (z_apex z) k) eqn:Ek.
        + apply dname_eqb_eq in Ek. subst k. rewrite E. cbn [merge_step]. rewrite Em.
          eapply (alookup_areplace_same dname_eqb). exact E.
        + apply (alookup_areplace_other dname_eqb dname_eqb_eq).
          intro Heq. subst k. rewrite dname_eqb_refl in Ek. discriminate.
      - inversion H1; subst zs1. clear H1. unfold zones_insert, ainsert. rewrite E.
        destruct (dname_eqb (z_apex z) k) eqn:Ek.
        + apply dname_eqb_eq in Ek. subst k. rewrite E. cbn [merge_step].
          apply (alookup_app_new dname_eqb dname_eqb_eq). exact E.
        + apply (alookup_app_other dname_eqb dname_eqb_eq).
          intro Heq. subst k. rewrite dname_eqb_refl in Ek. discriminate. }
    rewrite Hstep. destruct (dname_eqb (z_apex z) k); reflexivity.
Qed.

Lemma insert_merge_all_app l1 : forall l2 zs,
  insert_merge_all zs (l1 ++ l2) = let* zs' := insert_merge_all zs l1 in insert_merge_all zs' l2.
Proof.
  induction l1 as [|z t IH]; intros l2 zs; cbn [app insert_merge_all bind]; [reflexivity|].
  destruct (zones_insert_merge zs z); cbn [bind]; auto.
Qed.

(* the zones of a loaded configuration: the readable zone files in application order, then the
   zone made of the merged hosts *)
Definition zone_inputs (a : config_args) (f : fs) (hz : zone) : list zone :=
  readable_zones f (fst (zone_file_seq a f)) ++ [hz].

Theorem load_by_apex a f zs : config_hosts_wf a f -> load a f = Some zs ->
  exists hz, hosts_to_zone (loaded_hosts a f) = Ok hz /\
    forall k, alookup dname_eqb k zs = fold_left merge_step (for_apex k (zone_inputs a f hz)) None.
Proof.
  intros Hwf Hl. unfold load in Hl.
  destruct (load_res_total a f Hwf) as [[_ Hr]|(_ & zs0 & hz & zs' & Hz & Hh & Hm & Hr)]; rewrite Hr in Hl; [discriminate|].
  inversion Hl; subst zs'. exists hz. split; [exact Hh|]. intro k.
  unfold loaded_zones in Hz. destruct (load_zone_files f (fst (zone_file_seq a f)) [] false) as [[zs1 e]|u| |] eqn:E; try discriminate.
  cbn [bind fst] in Hz. inversion Hz; subst zs1.
  pose proof (load_zone_files_fold f _ _ _ _ _ E) as Hfold.
  assert (Hall : insert_merge_all [] (zone_inputs a f hz) = Ok zs).
  { unfold zone_inputs. rewrite insert_merge_all_app, Hfold. cbn [bind insert_merge_all]. rewrite Hm. reflexivity. }
  rewrite (insert_merge_all_lookup k _ _ _ zones_keyed_nil Hall). reflexivity.
Qed.

(* ================= the flat side: union, duplicates, SOA ================= *)

Definition apex_soa (x : ZoneFlat.path * zrec) : Prop := fst x = [] /\ zr_type (snd x) = RT_SOA.

Lemma In_add_all extra : forall l x, In x (add_all l extra) <-> In x l \/ In x extra.
Proof.
  unfold add_all. induction extra as [|[p r] t IH]; intros l x; cbn [fold_left fst snd].
  - split; [intro H; left; exact H|intros [H|[]]; exact H].
  - rewrite IH, In_add_rec. cbn [In]. split.
    + intros [[H|H]|H]; auto.
    + intros [H|[H|H]]; auto.
Qed.

Lemma add_rec_nodup p r l : NoDup l -> NoDup (add_rec p r l).
Proof.
  intro H. unfold add_rec. destruct (existsb (zrec_eqb r) (recs_at l p (zr_type r))) eqn:E; [exact H|].
  apply NoDup_snoc; [exact H|]. intro Hin.
  assert (Hex : existsb (zrec_eqb r) (recs_at l p (zr_type r)) = true).
  { apply existsb_zrec_In. apply In_recs_at. split; [exact Hin|reflexivity]. }
  congruence.
Qed.

Lemma add_all_nodup extra : forall l, NoDup l -> NoDup (add_all l extra).
Proof.
  unfold add_all. induction extra as [|[p r] t IH]; intros l H; cbn [fold_left]; [exact H|].
  apply IH. apply add_rec_nodup. exact H.
Qed.

Lemma In_drop_soa z x : In x (f_norm (fz_drop_soa z)) <-> In x (f_norm z) /\ ~ apex_soa x.
Proof.
  unfold fz_drop_soa, apex_soa. cbn [f_norm]. rewrite filter_In. destruct x as [p r]. cbn [fst snd].
  split; intros [H1 H2]; (split; [exact H1|]).
  - intros [-> Ht]. rewrite Ht in H2. cbn in H2. discriminate.
  - destruct p as [|l p]; [|reflexivity]. cbn [is_nil andb]. destruct (zr_type r =? RT_SOA) eqn:E; [|reflexivity].
    exfalso. apply H2. split; [reflexivity|]. apply N.eqb_eq. exact E.
Qed.

(* Zone::merge on flat zones: ordinary records *)
Lemma In_merge_norm a b auth x :
  In x (f_norm (fz_merge a b auth)) <-> (In x (f_norm a) /\ (auth = true -> ~ apex_soa x)) \/ In x (f_norm b).
Proof.
  unfold fz_merge, fz_union. cbn [f_norm]. rewrite In_add_all. destruct auth.
  - rewrite In_drop_soa. split; intros [[H1 H2]|H]; auto.
  - split; intros [H|H]; auto; [left; split; [exact H|discriminate]|left; tauto].
Qed.

(* ... and wildcard records *)
Lemma In_merge_wild a b auth x : In x (f_wild (fz_merge a b auth)) <-> In x (f_wild a) \/ In x (f_wild b).
Proof. unfold fz_merge, fz_union. cbn [f_wild]. rewrite In_add_all. destruct auth; reflexivity. Qed.

Lemma merge_nodup a b auth : NoDup (f_norm a) -> NoDup (f_wild a) ->
  NoDup (f_norm (fz_merge a b auth)) /\ NoDup (f_wild (fz_merge a b auth)).
Proof.
  intros Hn Hw. unfold fz_merge, fz_union. cbn [f_norm f_wild]. split; apply add_all_nodup.
  - destruct auth; [|exact Hn]. unfold fz_drop_soa. cbn [f_norm]. apply NoDup_filter. exact Hn.
  - destruct auth; exact Hw.
Qed.

(* a file for one apex as flat data: its records and its SOA (None = non-authoritative) *)
Definition ffile := (fzone * option soa)%type.
Definition is_auth (fa : ffile) : bool := match snd fa with Some _ => true | None => false end.

Definition fmerge_step (acc : option fzone) (fa : ffile) : option fzone :=
  match acc with
  | None => Some (fst fa)
  | Some a => Some (fz_merge a (fst fa) (is_auth fa))
  end.

(* the flat zone of the files for one apex, in application order *)
Definition flat_chain (l : list ffile) : option fzone := fold_left fmerge_step l None.

(* an apex SOA record survives the later files iff none of them supplies a SOA *)
Definition survives (x : ZoneFlat.path * zrec) (later : list ffile) : Prop :=
  apex_soa x -> Forall (fun fa => is_auth fa = false) later.

Definition chain_from (acc : fzone) (l : list ffile) : fzone :=
  fold_left (fun a fa => fz_merge a (fst fa) (is_auth fa)) l acc.

Lemma fold_fmerge_some l : forall acc, fold_left fmerge_step l (Some acc) = Some (chain_from acc l).
Proof. induction l as [|fa t IH]; intro acc; cbn [fold_left fmerge_step chain_from]; [reflexivity|apply IH]. Qed.

Lemma chain_norm_acc x : forall l acc,
  In x (f_norm (chain_from acc l)) <->
  (In x (f_norm acc) /\ survives x l) \/
  exists pre fa post, l = pre ++ fa :: post /\ In x (f_norm (fst fa)) /\ survives x post.
Proof.
  unfold chain_from. induction l as [|fa t IH]; intro acc; cbn [fold_left].
  - split.
    + intro H. left. split; [exact H|]. intros _. constructor.
    + intros [[H _]|(pre & fa & post & Heq & _)]; [exact H|]. destruct pre; discriminate.
  - rewrite IH, In_merge_norm. split.
    + intros [[[[Ha Hs]|Hb] Ht]|(pre & fa' & post & -> & Hin & Hs)].
      * left. split; [exact Ha|]. intro Hx. constructor; [|apply Ht; exact Hx].
        destruct (is_auth fa) eqn:E; [|reflexivity]. exfalso. apply (Hs eq_refl). exact Hx.
      * right. exists [], fa, t. auto.
      * right. exists (fa :: pre), fa', post. auto.
    + intros [[Ha Hs]|(pre & fa' & post & Heq & Hin & Hs)].
      * left. split.
        -- left. split; [exact Ha|]. intros E Hx. specialize (Hs Hx). inversion Hs; subst. congruence.
        -- intro Hx. specialize (Hs Hx). inversion Hs; subst. assumption.
      * destruct pre as [|y pre]; cbn [app] in Heq; inversion Heq; subst.
        -- left. split; [right; exact Hin|exact Hs].
        -- right. exists pre, fa', post. auto.
Qed.

(* merge_union, ordinary records, 1..k files: a record is in the zone iff some file defines it --
   except that an apex SOA record is there only if no later file supplies a SOA *)
Theorem chain_norm x l z : flat_chain l = Some z ->
  (In x (f_norm z) <-> exists pre fa post, l = pre ++ fa :: post /\ In x (f_norm (fst fa)) /\ survives x post).
Proof.
  unfold flat_chain. destruct l as [|fa t]; cbn [fold_left fmerge_step]; [discriminate|].
  rewrite fold_fmerge_some. intro H. inversion H; subst z. rewrite chain_norm_acc. split.
  - intros [[Hin Hs]|(pre & fa' & post & -> & Hin & Hs)].
    + exists [], fa, t. auto.
    + exists (fa :: pre), fa', post. auto.
  - intros (pre & fa' & post & Heq & Hin & Hs). destruct pre as [|y pre]; cbn [app] in Heq; inversion Heq; subst.
    + left. auto.
    + right. exists pre, fa', post. auto.
Qed.

Lemma chain_wild_acc x : forall l acc,
  In x (f_wild (chain_from acc l)) <->
  In x (f_wild acc) \/ exists fa, In fa l /\ In x (f_wild (fst fa)).
Proof.
  unfold chain_from. induction l as [|fa t IH]; intro acc; cbn [fold_left].
  - split; [intro H; left; exact H|intros [H|(fa & [] & _)]; exact H].
  - rewrite IH, In_merge_wild. cbn [In]. split.
    + intros [[H|H]|(fa' & Hin & H)]; auto; right; [exists fa|exists fa']; auto.
    + intros [H|(fa' & [<-|Hin] & H)]; auto. right. exists fa'. auto.
Qed.

(* merge_union, wildcard records: exactly the wildcard records some file defines *)
Theorem chain_wild x l z : flat_chain l = Some z ->
  (In x (f_wild z) <-> exists fa, In fa l /\ In x (f_wild (fst fa))).
Proof.
  unfold flat_chain. destruct l as [|fa t]; cbn [fold_left fmerge_step]; [discriminate|].
  rewrite fold_fmerge_some. intro H. inversion H; subst z. rewrite chain_wild_acc. cbn [In]. split.
  - intros [Hin|(fa' & Hin & Hx)]; [exists fa|exists fa']; auto.
  - intros (fa' & [<-|Hin] & Hx); auto. right. exists fa'. auto.
Qed.

(* duplicates removed *)
Theorem chain_nodup : forall l z, Forall (fun fa => NoDup (f_norm (fst fa)) /\ NoDup (f_wild (fst fa))) l ->
  flat_chain l = Some z -> NoDup (f_norm z) /\ NoDup (f_wild z).
Proof.
  unfold flat_chain. intros [|fa t] z HF; cbn [fold_left fmerge_step]; [discriminate|].
  inversion HF as [|? ? Hfa Ht]; subst. clear HF. revert Hfa. generalize (fst fa). clear fa.
  induction t as [|fb t IH]; intros acc [Hn Hw] H; cbn [fold_left fmerge_step] in H.
  - inversion H; subst. auto.
  - inversion Ht; subst. eapply IH; [assumption| |exact H]. apply merge_nodup; assumption.
Qed.

(* each file holds exactly its own SOA record at the apex (Zone::new puts it there, the parser
   keeps every other SOA out) *)
Definition soa_ok (fa : ffile) : Prop :=
  forall r, (In ([], r) (f_norm (fst fa)) /\ zr_type r = RT_SOA) <-> exists so, snd fa = Some so /\ r = soa_zrec so.

Lemma last_defined_none_iff {A V} (get : A -> option V) l :
  last_defined get l = None <-> Forall (fun x => get x = None) l.
Proof.
  induction l as [|h t IH]; cbn [last_defined]; [split; [constructor|reflexivity]|].
  destruct (last_defined get t) eqn:E.
  - split; [discriminate|]. intro H. inversion H; subst. apply IH in H3. discriminate.
  - split; intro H; [constructor; [exact H|apply IH; reflexivity]|inversion H; assumption].
Qed.

Lemma last_defined_split {A V} (get : A -> option V) l v :
  last_defined get l = Some v <-> exists pre x post, l = pre ++ x :: post /\ get x = Some v /\ Forall (fun y => get y = None) post.
Proof.
  induction l as [|h t IH]; cbn [last_defined].
  - split; [discriminate|]. intros (pre & x & post & H & _). destruct pre; discriminate.
  - destruct (last_defined get t) as [v'|] eqn:E.
    + split.
      * intro H. inversion H; subst v'. destruct (proj1 IH eq_refl) as (pre & x & post & -> & Hx & Hp).
        exists (h :: pre), x, post. auto.
      * intros (pre & x & post & Heq & Hx & Hp). destruct pre as [|y pre]; cbn [app] in Heq; inversion Heq; subst.
        -- apply last_defined_none_iff in Hp. congruence.
        -- f_equal. assert (Hs : Some v' = Some v); [|inversion Hs; reflexivity].
           apply IH. exists pre, x, post. auto.
    + apply last_defined_none_iff in E. split.
      * intro H. exists [], h, t. auto.
      * intros (pre & x & post & Heq & Hx & Hp). destruct pre as [|y pre]; cbn [app] in Heq; inversion Heq; subst; [exact Hx|].
        apply Forall_app in E as [_ E]. inversion E; subst. congruence.
Qed.

(* merge_one_soa, 1..k files: the zone holds exactly one SOA record at its apex, that of the last
   file supplying one (none if no file does) *)
Theorem chain_one_soa l z : Forall soa_ok l -> flat_chain l = Some z ->
  forall r, (In ([], r) (f_norm z) /\ zr_type r = RT_SOA) <-> exists so, last_defined snd l = Some so /\ r = soa_zrec so.
Proof.
  intros Hok Hc r. rewrite (chain_norm ([], r) l z Hc). split.
  - intros [(pre & fa & post & -> & Hin & Hs) Ht].
    apply Forall_app in Hok as [_ Hok]. inversion Hok as [|? ? Hfa _]; subst.
    destruct (proj1 (Hfa r) (conj Hin Ht)) as (so & Hso & ->). exists so. split; [|reflexivity].
    apply last_defined_split. exists pre, fa, post. split; [reflexivity|]. split; [exact Hso|].
    assert (Hx : apex_soa ([], soa_zrec so)) by (split; reflexivity).
    specialize (Hs Hx). eapply Forall_impl; [|exact Hs]. intros fb Hfb. unfold is_auth in Hfb. destruct (snd fb); [discriminate|reflexivity].
  - intros (so & Hl & ->). apply last_defined_split in Hl as (pre & fa & post & -> & Hso & Hp).
    apply Forall_app in Hok as [_ Hok]. inversion Hok as [|? ? Hfa _]; subst.
    destruct (proj2 (Hfa (soa_zrec so))) as [Hin Ht]; [exists so; auto|]. split; [|exact Ht].
    exists pre, fa, post. split; [reflexivity|]. split; [exact Hin|]. intros _.
    eapply Forall_impl; [|exact Hp]. intros fb Hfb. unfold is_auth. rewrite Hfb. reflexivity.
Qed.

(* the SOA field of the merged zone value is that same last SOA *)
Lemma merge_chain_soa : forall l acc, Forall (fun z => z_apex z = z_apex acc) l ->
  exists m, fold_left merge_step l (Some acc) = Some m /\ z_apex m = z_apex acc /\
            z_soa m = match last_defined z_soa l with Some s => Some s | None => z_soa acc end.
Proof.
  induction l as [|z t IH]; intros acc HF; cbn [fold_left merge_step last_defined].
  - exists acc. auto.
  - inversion HF as [|? ? Hz Ht]; subst.
    destruct (zone_merge_same_apex acc z (eq_sym Hz)) as (m & Hm & Ha & Hs). rewrite Hm.
    destruct (IH m) as (m' & Hm' & Ha' & Hs').
    { eapply Forall_impl; [|exact Ht]. intros y Hy. cbn beta in Hy. congruence. }
    exists m'. split; [exact Hm'|]. split; [congruence|]. rewrite Hs'.
    destruct (last_defined z_soa t); [reflexivity|]. rewrite Hs. destruct (z_soa z); reflexivity.
Qed.

(* ================= tree and flat side together ================= *)

Section WithMergeLemma.
  (* Zone::merge refines the flat merge.  This is the statement Zone/ZoneMergeProofs.v is to
     provide (merge_flat_union + zone_merge_one_soa); it did not exist when this file was written, so
     it is a Section hypothesis here and every theorem of this section carries it as an explicit
     premise.  [zone_wf] stands for whatever structural invariant of record trees that proof needs
     beyond [zrepr] (which only speaks about what lookups see) -- e.g. that the child labels of a
     node are pairwise distinct, which Zone::insert and Zone::merge maintain; it is a parameter, the
     files' zones must satisfy it. *)
  Variable zone_wf : zone -> Prop.
  Hypothesis zone_merge_repr : forall a b fa fb m,
    zone_wf a -> zone_wf b -> zrepr a fa -> zrepr b fb -> zone_merge a b = Some m ->
    zone_wf m /\ zrepr m (fz_merge fa fb (zone_is_authoritative b)).

  Definition ffile_of (flat_of : zone -> fzone) (z : zone) : ffile := (flat_of z, z_soa z).

  Lemma merge_chain_repr (flat_of : zone -> fzone) k : forall l acc facc,
    Forall (fun z => z_apex z = k /\ zone_wf z /\ zrepr z (flat_of z)) l ->
    z_apex acc = k -> zone_wf acc -> zrepr acc facc ->
    exists m fm, fold_left merge_step l (Some acc) = Some m /\
                 fold_left fmerge_step (map (ffile_of flat_of) l) (Some facc) = Some fm /\
                 z_apex m = k /\ zone_wf m /\ zrepr m fm.
  Proof.
    induction l as [|z t IH]; intros acc facc HF Ha Hw HR; cbn [fold_left merge_step fmerge_step map].
    - exists acc, facc. auto.
    - inversion HF as [|? ? (Hz & Hwz & HRz) Ht]; subst.
      destruct (zone_merge_same_apex acc z) as (m & Hm & Hma & _); [congruence|]. rewrite Hm.
      destruct (zone_merge_repr acc z facc (flat_of z) m Hw Hwz HR HRz Hm) as [Hwm HRm].
      apply IH; [exact Ht|congruence|exact Hwm|].
      unfold ffile_of at 1, is_auth. cbn [fst snd].
      replace (match z_soa z with Some _ => true | None => false end) with (zone_is_authoritative z) by reflexivity.
      exact HRm.
  Qed.

  (* C12, tree level: after loading, the zone of every apex represents the flat chain of the files
     for that apex (the hosts zone last), for any flat reading [flat_of] of the individual files *)
  Theorem load_zone_repr a f zs (flat_of : zone -> fzone) : config_hosts_wf a f -> load a f = Some zs ->
    exists hz, hosts_to_zone (loaded_hosts a f) = Ok hz /\ z_apex hz = root_domain /\ z_soa hz = None /\
      forall k, Forall (fun z => zone_wf z /\ zrepr z (flat_of z)) (for_apex k (zone_inputs a f hz)) ->
        match alookup dname_eqb k zs, flat_chain (map (ffile_of flat_of) (for_apex k (zone_inputs a f hz))) with
        | Some m, Some fm => z_apex m = k /\ zrepr m fm
        | None, None => for_apex k (zone_inputs a f hz) = []
        | _, _ => False
        end.
  Proof.
    intros Hwf Hl. destruct (load_by_apex a f zs Hwf Hl) as (hz & Hh & Hk).
    assert (Hhw : hosts_wf (loaded_hosts a f)).
    { rewrite loaded_hosts_fold. apply fold_hosts_merge_wf; [apply hosts_new_wf|exact Hwf]. }
    destruct (hosts_to_zone_spec _ Hhw) as (hz' & Hh' & Ha & Hs & _). rewrite Hh in Hh'. inversion Hh'; subst hz'.
    exists hz. split; [exact Hh|]. split; [exact Ha|]. split; [exact Hs|].
    intros k HF. rewrite Hk. unfold flat_chain. destruct (for_apex k (zone_inputs a f hz)) as [|z t] eqn:E; [reflexivity|].
    cbn [fold_left merge_step map fmerge_step].
    assert (Hall : Forall (fun z0 => z_apex z0 = k /\ zone_wf z0 /\ zrepr z0 (flat_of z0)) (z :: t)).
    { rewrite <- E. apply Forall_forall. intros y Hy. split.
      - unfold for_apex in Hy. apply filter_In in Hy as [_ Hy]. apply dname_eqb_eq. exact Hy.
      - rewrite E in Hy. rewrite Forall_forall in HF. apply HF. exact Hy. }
    inversion Hall as [|? ? (Hzk & Hwz & HRz) Ht]; subst.
    destruct (merge_chain_repr flat_of (z_apex z) t z (flat_of z) Ht eq_refl Hwz HRz) as (m & fm & -> & Hfm & Hma & _ & HRm).
    cbn [ffile_of fst] in *. rewrite Hfm. auto.
  Qed.
End WithMergeLemma.

(* C12 with C02: a zone that represents a flat zone answers every question as RFC 1034 4.3.2 does on
   that flat zone; with load_zone_repr: every loaded zone answers from the union of its files *)
Theorem zone_answers_from_flat z fz name qt p :
  zrepr z fz -> no_occlusion fz -> recs_ok fz -> wf_name name ->
  rel_path (labels (z_apex z)) name = Some p ->
  exists r, zone_resolve z name qt = Some (Ok r) /\
            zres_equiv r (flat_resolve (labels (z_apex z)) fz name p qt).
Proof.
  intros HR Hd Hok Hn Hp. unfold zone_resolve. rewrite relative_rp_rel, Hp. cbn [option_map].
  pose proof (rel_path_some _ _ _ Hp) as Hl.
  destruct (resolve_R (labels (z_apex z)) (z_records z) fz name qt (rev p) HR Hd Hok) as (r & Hr & Heq & _).
  - rewrite rev_involutive, <- Hl. apply Hn.
  - exists r. rewrite rev_involutive in Heq. rewrite Hr. auto.
Qed.

(* ===================================== part 6 ===================================== *)

(* ================= the hypotheses of the chain theorems hold for files given by insertions ================= *)

Lemma flat_of_ops_soa_ok apex s ops : Forall (fun o => op_type o <> RT_SOA) ops -> soa_ok (flat_of_ops apex s ops, s).
Proof.
  intros HF r. cbn [fst snd]. unfold flat_of_ops. rewrite In_norm_fold. split.
  - intros [[Hin|(o & p & Hin & _ & _ & Hx)] Ht].
    + destruct s as [so|]; cbn [fz_init f_norm In] in Hin; [|contradiction]. destruct Hin as [Hin|[]].
      inversion Hin; subst. exists so. auto.
    + inversion Hx; subst. rewrite Forall_forall in HF. exfalso. apply (HF o Hin). exact Ht.
  - intros (so & -> & ->). split; [|reflexivity]. left. cbn [fz_init f_norm In]. left. reflexivity.
Qed.

Lemma hosts_flat_soa_ok h : soa_ok (hosts_flat h, None).
Proof.
  unfold hosts_flat. apply flat_of_ops_soa_ok. unfold hosts_ops. apply Forall_app. split; apply Forall_map, Forall_forall;
    intros kv _; cbn [op_v4 op_v6 op_type]; intro H; discriminate H.
Qed.

Lemma fz_apply_nodup apexl s fz o : NoDup (f_norm fz) -> NoDup (f_wild fz) ->
  NoDup (f_norm (fz_apply apexl s fz o)) /\ NoDup (f_wild (fz_apply apexl s fz o)).
Proof.
  intros Hn Hw. unfold fz_apply. destruct (rel_path apexl (op_name o)); [|auto].
  unfold fz_add. destruct (op_wild o); cbn [f_norm f_wild]; split; try assumption; apply add_rec_nodup; assumption.
Qed.

Lemma flat_of_ops_nodup apex s ops : NoDup (f_norm (flat_of_ops apex s ops)) /\ NoDup (f_wild (flat_of_ops apex s ops)).
Proof.
  unfold flat_of_ops. assert (H0 : NoDup (f_norm (fz_init s)) /\ NoDup (f_wild (fz_init s))).
  { destruct s; cbn [fz_init f_norm f_wild]; split; repeat constructor. intros []. }
  revert H0. generalize (fz_init s). induction ops as [|o t IH]; intros fz [Hn Hw]; cbn [fold_left]; [auto|].
  apply IH. apply fz_apply_nodup; assumption.
Qed.

(* ================= examples: the hypotheses are satisfiable, the statements are not vacuous ================= *)

Definition ex_apex : dname := {| labels := [[101]; []]; nlen := 3 |}.        (* "e." *)
Definition ex_host : dname := {| labels := [[104]; []]; nlen := 3 |}.        (* "h." *)
Definition ex_soa (serial : N) : soa :=
  {| soa_mname := ex_apex; soa_rname := ex_apex; soa_serial := serial; soa_refresh := 1; soa_retry := 1;
     soa_expire := 1; soa_minimum := 5 |}.
Definition ex_zone (serial addr : N) : option zone :=
  match zone_insert false (zone_new ex_apex (Some (ex_soa serial))) ex_apex RT_A (RD_A addr) 5 with
  | Ok z => Some z
  | _ => None
  end.
Definition ex_hosts (addr : N) : hosts := hosts_of_entries [HV4 ex_host addr].
(* directory "z" holding "9", "10" and a sub-directory "s"; directory "h" holding "b", "a" *)
Definition ex_fs : fs :=
  {| fs_files := [];
     fs_dirs := [([122], [([57], EFile (ZoneFile (ex_zone 1 1))); ([49; 48], EFile (ZoneFile (ex_zone 2 2))); ([115], ESubdir)]);
                 ([104], [([98], EFile (HostsFile (Some (ex_hosts 7)))); ([97], EFile (HostsFile (Some (ex_hosts 8))))])] |}.
Definition ex_args : config_args :=
  {| a_hosts_files := []; a_hosts_dirs := [[104]]; a_zone_files := []; a_zone_dirs := [[122]] |}.
(* the same with "9" replaced by an unparsable file *)
Definition ex_fs_bad : fs :=
  {| fs_files := [];
     fs_dirs := [([122], [([57], EFile (ZoneFile None)); ([49; 48], EFile (ZoneFile (ex_zone 2 2)))]);
                 ([104], [([98], EFile (HostsFile (Some (ex_hosts 7))))])] |}.

(* "10" sorts before "9"; the sub-directory is skipped *)
Example ex_sorted_order : zone_file_seq ex_args ex_fs = ([RDirFile [122] [49; 48]; RDirFile [122] [57]], false).
Proof. vm_compute. reflexivity. Qed.

Example ex_hosts_wf : config_hosts_wf ex_args ex_fs.
Proof.
  assert (Hw : wf_name ex_host).
  { split; [|reflexivity]. exists [[104]]. split; [reflexivity|]. split.
    - repeat constructor; try discriminate; cbn; try lia.
    - cbn. lia. }
  assert (Hh : forall a, hosts_wf (ex_hosts a)).
  { intro a. split; cbn; [constructor; [exact Hw|constructor]|constructor]. }
  unfold config_hosts_wf. 
  replace (readable_hosts ex_fs (fst (hosts_file_seq ex_args ex_fs))) with [ex_hosts 8; ex_hosts 7] by (vm_compute; reflexivity).
  constructor; [apply Hh|]. constructor; [apply Hh|constructor].
Qed.

(* the SOA of the file applied last ("9", serial 1) wins; the hosts entry of the file applied last ("b") wins *)
Example ex_last_wins :
  option_map (fun zs => (option_map (fun z => option_map soa_serial (z_soa z)) (alookup dname_eqb ex_apex zs),
                         option_map (fun z => zone_resolve z ex_host RT_A) (alookup dname_eqb root_domain zs)))
             (load ex_args ex_fs)
  = Some (Some (Some 1),
          Some (Some (Ok (ZAnswer [{| rr_name := ex_host; rr_type := RT_A; rr_class := RC_IN; rr_ttl := HOSTS_TTL; rr_data := RD_A 7 |}])))).
Proof. vm_compute. reflexivity. Qed.

Example ex_bad_is_none : load ex_args ex_fs_bad = None /\ config_bad ex_args ex_fs_bad = true.
Proof. split; vm_compute; reflexivity. Qed.

(* a failed reload keeps the state, a successful one replaces it whatever it was *)
Example ex_reload : forall st, reload ex_args st ex_fs_bad = st /\ load ex_args ex_fs <> None /\ reload ex_args st ex_fs = reload ex_args [] ex_fs.
Proof.
  intro st. split; [apply reload_failure; vm_compute; reflexivity|].
  assert (H : load ex_args ex_fs <> None) by (vm_compute; discriminate).
  split; [exact H|]. apply reload_forgets. exact H.
Qed.

