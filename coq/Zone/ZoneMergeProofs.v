(* Zone/ZoneMergeProofs.v -- Zone::merge / ZoneRecords::merge / merge_zrs_helper on the record
   tree refine the union of flat zones (Zone/ZoneFlat.v: fz_union, fz_drop_soa, fz_merge).
   Used by C12.

   [merge_flat_union] is stated in the pointwise form of Zone/ZoneProofs.v: if the tree [a]
   represents the flat zone [za] and [b] represents [zb] ([R]), then [node_merge a b] represents
   [fz_union za zb] -- ordinary and wildcard records alike, duplicates dropped, every name that
   exists in either exists in the result.  With ZoneProofs.resolve_R this gives "the merged zone
   answers every question from the union".

   The tree [b] must have unique child labels ([wf_tree]): the model's association lists stand
   for HashMaps, whose keys are unique; Zone::new and insert/insert_wildcard establish it
   ([zone_build_wf_tree]) and merge preserves it ([node_merge_wf_tree]). *)
Set Default Timeout 120.
From RV Require Import Base.Prelude Name.NameModel Name.NameSpec Name.NameProofs Wire.WireTypes
     Zone.ZoneModel Zone.ZoneFlat Zone.ZoneProofs.

(* ================= push_new ================= *)

Lemma push_new_In l r x : In x (push_new l r) <-> In x l \/ x = r.
Proof.
  unfold push_new. destruct (existsb (zrec_eqb r) l) eqn:E.
  - apply existsb_zrec_In in E. split; [auto|]. intros [H| ->]; assumption.
  - rewrite in_app_iff. cbn [In]. split; [intros [H|[H|[]]]; auto | intros [H|H]; auto].
Qed.

Lemma push_new_NoDup l r : NoDup l -> NoDup (push_new l r).
Proof.
  intro H. unfold push_new. destruct (existsb (zrec_eqb r) l) eqn:E; [exact H|].
  apply NoDup_snoc; [exact H|]. intro Hin. apply existsb_zrec_In in Hin. congruence.
Qed.

Lemma fold_push_In : forall l acc x, In x (fold_left push_new l acc) <-> In x acc \/ In x l.
Proof.
  induction l as [|r l IH]; intros acc x; cbn [fold_left In]; [tauto|].
  rewrite IH, push_new_In. split; [intros [[H|H]|H]; auto | intros [H|[H|H]]; auto].
Qed.

Lemma fold_push_NoDup : forall l acc, NoDup acc -> NoDup (fold_left push_new l acc).
Proof.
  induction l as [|r l IH]; intros acc H; cbn [fold_left]; [exact H|]. apply IH, push_new_NoDup, H.
Qed.

Lemma fold_push_fresh : forall l acc, NoDup (acc ++ l) -> fold_left push_new l acc = acc ++ l.
Proof.
  induction l as [|r l IH]; intros acc H; cbn [fold_left]; [symmetry; apply app_nil_r|].
  assert (Hn : existsb (zrec_eqb r) acc = false).
  { apply not_true_is_false. intro E. apply existsb_zrec_In in E.
    apply NoDup_remove_2 in H. apply H. apply in_or_app. left. exact E. }
  unfold push_new at 2. rewrite Hn. rewrite IH; rewrite <- app_assoc; [reflexivity|exact H].
Qed.

Lemma fold_push_nil l : NoDup l -> fold_left push_new l [] = l.
Proof. intro H. apply (fold_push_fresh l []). exact H. Qed.

(* ================= merge_zrs_helper ================= *)

Lemma merge_one_inner l my :
  fold_left (fun acc new => if existsb (zrec_eqb new) acc then acc else acc ++ [new]) l my = fold_left push_new l my.
Proof. reflexivity. Qed.

Lemma rget_merge_one t x k l : NoDup l ->
  rget t (merge_zrs_one x (k, l)) = if t =? k then fold_left push_new l (rget k x) else rget t x.
Proof.
  intro Hl. unfold merge_zrs_one, rget. cbn [fst snd].
  destruct (alookup N.eqb k x) as [my|] eqn:E.
  - destruct (N.eqb_spec t k) as [->|Hne].
    + rewrite (alookup_areplace_same N.eqb _ _ _ _ E). reflexivity.
    + rewrite (alookup_areplace_other N.eqb N.eqb_eq); [reflexivity|exact Hne].
  - destruct (N.eqb_spec t k) as [->|Hne].
    + rewrite (alookup_app_new N.eqb N.eqb_eq _ _ _ E). symmetry. apply fold_push_nil, Hl.
    + rewrite (alookup_app_other N.eqb N.eqb_eq); [reflexivity|exact Hne].
Qed.

Lemma rget_merge_zrs t : forall y x, wf_rmap y ->
  rget t (merge_zrs x y) = fold_left push_new (rget t y) (rget t x).
Proof.
  unfold merge_zrs. induction y as [|[k l] y IH]; intros x [Hk Hall]; cbn [fold_left]; [reflexivity|].
  cbn [map fst] in Hk. inversion Hk as [|? ? Hnotin Hk']; subst.
  apply Forall_cons_iff in Hall as [[_ Hl] Hall]. cbn [snd] in Hl.
  rewrite (IH _ (conj Hk' Hall)), (rget_merge_one _ _ _ _ Hl).
  destruct (N.eqb_spec t k) as [->|Hne].
  - replace (rget k ((k, l) :: y)) with l by (unfold rget; cbn [alookup]; rewrite N.eqb_refl; reflexivity).
    replace (rget k y) with (@nil zrec)
      by (unfold rget; rewrite (alookup_notin_none N.eqb N.eqb_eq _ _ Hnotin); reflexivity).
    reflexivity.
  - replace (rget t ((k, l) :: y)) with (rget t y); [reflexivity|].
    unfold rget. cbn [alookup]. apply N.eqb_neq in Hne. rewrite Hne. reflexivity.
Qed.

Lemma wf_rmap_merge_one x k l :
  wf_rmap x -> Forall (fun z => zr_type z = k) l -> NoDup l -> wf_rmap (merge_zrs_one x (k, l)).
Proof.
  intros [Hk Hall] Ht Hl. unfold merge_zrs_one. cbn [fst snd].
  destruct (alookup N.eqb k x) as [my|] eqn:E.
  - split; [rewrite areplace_keys; exact Hk|].
    apply Forall_areplace; [exact Hall|]. cbn [fst snd]. rewrite merge_one_inner.
    apply (alookup_in N.eqb N.eqb_eq) in E. rewrite Forall_forall in Hall. destruct (Hall _ E) as [Hmt Hmd].
    cbn [fst snd] in *. split; [|apply fold_push_NoDup, Hmd].
    apply Forall_forall. intros z Hz. apply fold_push_In in Hz as [Hz|Hz]; [rewrite Forall_forall in Hmt|rewrite Forall_forall in Ht]; auto.
  - split.
    + rewrite map_app. cbn [map fst]. apply NoDup_snoc; [exact Hk|]. apply (alookup_none_notin N.eqb N.eqb_eq). exact E.
    + apply Forall_app. split; [exact Hall|]. constructor; [|constructor]. cbn [fst snd]. auto.
Qed.

Lemma wf_rmap_merge_zrs : forall y x, wf_rmap x -> wf_rmap y -> wf_rmap (merge_zrs x y).
Proof.
  unfold merge_zrs. induction y as [|[k l] y IH]; intros x Hx [Hk Hall]; cbn [fold_left]; [exact Hx|].
  cbn [map fst] in Hk. inversion Hk as [|? ? _ Hk']; subst.
  apply Forall_cons_iff in Hall as [[Ht Hl] Hall]. cbn [fst snd] in *.
  apply IH; [apply wf_rmap_merge_one; assumption|split; assumption].
Qed.

(* ================= union of flat zones ================= *)

Lemma recs_at_add_all p t : forall lb la,
  recs_at (add_all la lb) p t = fold_left push_new (recs_at lb p t) (recs_at la p t).
Proof.
  unfold add_all. induction lb as [|[q r] lb IH]; intros la; cbn [fold_left]; [reflexivity|].
  rewrite IH. cbn [fst snd]. rewrite recs_at_add.
  assert (E : recs_at ((q, r) :: lb) p t
              = if lleqb q p && (zr_type r =? t) then r :: recs_at lb p t else recs_at lb p t).
  { unfold recs_at. cbn [filter fst snd]. destruct (lleqb q p && (zr_type r =? t)); reflexivity. }
  rewrite E. destruct (lleqb q p && (zr_type r =? t)); reflexivity.
Qed.

Lemma In_add_all x : forall lb la, In x (add_all la lb) <-> In x la \/ In x lb.
Proof.
  unfold add_all. induction lb as [|[q r] lb IH]; intros la; cbn [fold_left In]; [tauto|].
  rewrite IH. cbn [fst snd]. rewrite In_add_rec. split; [intros [[H|H]|H]; auto | intros [H|[H|H]]; auto].
Qed.

Lemma In_entries_union x a b : In x (entries (fz_union a b)) <-> In x (entries a) \/ In x (entries b).
Proof. unfold entries, fz_union. cbn [f_norm f_wild]. rewrite !in_app_iff, !In_add_all. tauto. Qed.

Lemma exists_node_union a b q : exists_node (fz_union a b) q <-> exists_node a q \/ exists_node b q.
Proof.
  unfold exists_node. split.
  - intros [->|(q' & r & Hin & Hs)]; [left; left; reflexivity|].
    apply In_entries_union in Hin as [Hin|Hin]; [left|right]; right; exists q', r; auto.
  - intros [[->|(q' & r & Hin & Hs)]|[->|(q' & r & Hin & Hs)]]; try (left; reflexivity);
      right; exists q', r; (split; [apply In_entries_union; auto|exact Hs]).
Qed.

Lemma has_wild_union a b q : has_wild (fz_union a b) q = has_wild a q || has_wild b q.
Proof.
  destruct (has_wild a q || has_wild b q) eqn:E.
  - apply has_wild_spec. apply orb_true_iff in E as [E|E]; apply has_wild_spec in E as [r Hr]; exists r;
      cbn [fz_union f_wild]; apply In_add_all; auto.
  - apply not_true_is_false. intro H. apply has_wild_spec in H as [r Hr]. cbn [fz_union f_wild] in Hr.
    apply orb_false_iff in E as [Ea Eb].
    apply In_add_all in Hr as [Hr|Hr]; [assert (has_wild a q = true)|assert (has_wild b q = true)];
      try (apply has_wild_spec; eauto); congruence.
Qed.

(* ================= the tree merge, unfolded ================= *)

Fixpoint merge_children (oc mine : list (label * node)) : list (label * node) :=
  match oc with
  | [] => mine
  | (k, ochild) :: t =>
    match alookup leqb k mine with
    | Some mchild => merge_children t (areplace leqb k (node_merge mchild ochild) mine)
    | None => merge_children t (mine ++ [(k, ochild)])
    end
  end.

Definition merge_wild (mine other : option rmap) : option rmap :=
  match other with
  | Some ow => match mine with Some mw => Some (merge_zrs mw ow) | None => Some ow end
  | None => mine
  end.

Lemma node_merge_unfold a b :
  node_merge a b = Node (n_nsdname a) (merge_zrs (n_this a) (n_this b)) (merge_wild (n_wild a) (n_wild b))
                        (merge_children (n_children b) (n_children a)).
Proof. destruct b as [nsd this wild children]. reflexivity. Qed.

Lemma alookup_merge_children k : forall oc mine, NoDup (map fst oc) ->
  alookup leqb k (merge_children oc mine)
  = match alookup leqb k oc with
    | Some o => Some (match alookup leqb k mine with Some m => node_merge m o | None => o end)
    | None => alookup leqb k mine
    end.
Proof.
  induction oc as [|[k0 o0] t IH]; intros mine Hnd; cbn [merge_children alookup]; [reflexivity|].
  cbn [map fst] in Hnd. inversion Hnd as [|? ? Hnotin Hnd']; subst.
  destruct (alookup leqb k0 mine) as [m|] eqn:Em; rewrite (IH _ Hnd').
  - destruct (leqb k k0) eqn:Ek.
    + apply leqb_eq in Ek. subst k0. rewrite (alookup_notin_none leqb leqb_eq _ _ Hnotin).
      rewrite (alookup_areplace_same leqb _ _ _ _ Em), Em. reflexivity.
    + assert (Hne : k <> k0) by (intro E; subst; rewrite leqb_refl in Ek; discriminate).
      rewrite (alookup_areplace_other leqb leqb_eq _ _ _ _ Hne). reflexivity.
  - destruct (leqb k k0) eqn:Ek.
    + apply leqb_eq in Ek. subst k0. rewrite (alookup_notin_none leqb leqb_eq _ _ Hnotin).
      rewrite (alookup_app_new leqb leqb_eq _ _ _ Em), Em. reflexivity.
    + assert (Hne : k <> k0) by (intro E; subst; rewrite leqb_refl in Ek; discriminate).
      rewrite (alookup_app_other leqb leqb_eq _ _ _ _ Hne). reflexivity.
Qed.

(* ================= unique child labels ================= *)

Fixpoint wf_tree (n : node) : Prop :=
  match n with
  | Node _ _ _ children =>
    NoDup (map fst children) /\
    (fix all (cs : list (label * node)) : Prop :=
       match cs with [] => True | (_, c) :: t => wf_tree c /\ all t end) children
  end.

Lemma wf_tree_unfold n :
  wf_tree n <-> NoDup (map fst (n_children n)) /\ Forall (fun kc => wf_tree (snd kc)) (n_children n).
Proof.
  destruct n as [nsd this wild children]. cbn [wf_tree n_children].
  assert (H : (fix all (cs : list (label * node)) : Prop :=
                 match cs with [] => True | (_, c) :: t => wf_tree c /\ all t end) children
              <-> Forall (fun kc => wf_tree (snd kc)) children).
  { induction children as [|[k c] t IH]; [split; [constructor|exact (fun _ => I)]|].
    rewrite Forall_cons_iff. cbn [snd]. tauto. }
  tauto.
Qed.

Lemma wf_tree_child n l c : wf_tree n -> alookup leqb l (n_children n) = Some c -> wf_tree c.
Proof.
  intros H Hl. apply wf_tree_unfold in H as [_ H]. apply (alookup_in leqb leqb_eq) in Hl.
  rewrite Forall_forall in H. exact (H _ Hl).
Qed.

Lemma wf_tree_new nsd : wf_tree (node_new nsd).
Proof. cbn. split; [constructor|exact I]. Qed.

Lemma Forall_areplace_l {V} (P : label * V -> Prop) k v (m : list (label * V)) :
  Forall P m -> P (k, v) -> Forall P (areplace leqb k v m).
Proof.
  intros Hm Hk. induction m as [|[k0 v0] m IH]; cbn [areplace]; [constructor|].
  apply Forall_cons_iff in Hm as [H0 Hm].
  destruct (leqb k k0) eqn:E; constructor; auto.
  apply leqb_eq in E. subst k0. exact Hk.
Qed.

Lemma node_insert_wf_tree w r : forall rp nd nd',
  wf_tree nd -> node_insert w rp r nd = Ok nd' -> wf_tree nd'.
Proof.
  induction rp as [|l rest IH]; intros nd nd' Hwf H; cbn [node_insert] in H.
  - apply wf_tree_unfold in Hwf. destruct w; inversion H; subst; apply wf_tree_unfold; exact Hwf.
  - apply wf_tree_unfold in Hwf as [Hk Hall].
    destruct (alookup leqb l (n_children nd)) as [child|] eqn:El.
    + destruct (node_insert w rest r child) as [child'| | |] eqn:Ec; cbn [bind] in H; try discriminate.
      inversion H; subst. apply wf_tree_unfold. cbn [n_children]. split; [rewrite areplace_keys; exact Hk|].
      apply Forall_areplace_l; [exact Hall|]. cbn [snd]. eapply IH; [|exact Ec].
      apply (alookup_in leqb leqb_eq) in El. rewrite Forall_forall in Hall. exact (Hall _ El).
    + destruct (from_labels (l :: labels (n_nsdname nd))) as [nsd|]; [|discriminate].
      destruct (node_insert w rest r (node_new nsd)) as [child'| | |] eqn:Ec; cbn [bind] in H; try discriminate.
      inversion H; subst. apply wf_tree_unfold. cbn [n_children]. split.
      * rewrite map_app. cbn [map fst]. apply NoDup_snoc; [exact Hk|]. apply (alookup_none_notin leqb leqb_eq). exact El.
      * apply Forall_app. split; [exact Hall|]. constructor; [|constructor]. cbn [snd].
        eapply IH; [apply wf_tree_new|exact Ec].
Qed.

Lemma zone_apply_all_wf_tree : forall ops z z',
  wf_tree (z_records z) -> zone_apply_all z ops = Ok z' -> wf_tree (z_records z').
Proof.
  induction ops as [|o ops IH]; intros z z' Hwf H; cbn [zone_apply_all] in H; [inversion H; subst; exact Hwf|].
  destruct (zone_apply z o) as [z1| | |] eqn:E1; cbn [bind] in H; try discriminate.
  apply (IH z1 z'); [|exact H]. unfold zone_apply, zone_insert in E1.
  destruct (relative_rp z (op_name o)) as [rp|]; [|inversion E1; subst; exact Hwf].
  destruct (node_insert _ rp _ (z_records z)) as [nd| | |] eqn:En; cbn [bind] in E1; try discriminate.
  inversion E1; subst. cbn [z_records]. eapply node_insert_wf_tree; eassumption.
Qed.

Theorem zone_build_wf_tree apex s ops z : zone_build apex s ops = Ok z -> wf_tree (z_records z).
Proof.
  unfold zone_build. apply zone_apply_all_wf_tree. destruct s; cbn; (split; [constructor|exact I]).
Qed.

(* merge keeps child labels unique *)
Lemma merge_children_keys : forall oc mine, NoDup (map fst mine) -> NoDup (map fst oc) ->
  NoDup (map fst (merge_children oc mine)).
Proof.
  induction oc as [|[k o] t IH]; intros mine Hm Ho; cbn [merge_children]; [exact Hm|].
  cbn [map fst] in Ho. inversion Ho; subst.
  destruct (alookup leqb k mine) eqn:E; apply IH; try assumption.
  - rewrite areplace_keys. exact Hm.
  - rewrite map_app. cbn [map fst]. apply NoDup_snoc; [exact Hm|]. apply (alookup_none_notin leqb leqb_eq). exact E.
Qed.

Lemma node_ind_nested (P : node -> Prop) :
  (forall nsd this wild children, Forall (fun kc => P (snd kc)) children -> P (Node nsd this wild children)) ->
  forall n, P n.
Proof.
  intro H. fix IH 1. intros [nsd this wild children]. apply H.
  induction children as [|[k c] t IHt]; constructor; [apply IH|exact IHt].
Qed.

Lemma merge_children_wf : forall oc mine,
  Forall (fun kc => wf_tree (snd kc)) mine ->
  Forall (fun kc => wf_tree (snd kc) /\ forall a, wf_tree a -> wf_tree (node_merge a (snd kc))) oc ->
  Forall (fun kc => wf_tree (snd kc)) (merge_children oc mine).
Proof.
  induction oc as [|[k o] t IH]; intros mine Hm Ho; cbn [merge_children]; [exact Hm|].
  apply Forall_cons_iff in Ho as [[Hwo Hmo] Ho]. cbn [snd] in *.
  destruct (alookup leqb k mine) as [m|] eqn:E; apply IH; try exact Ho.
  - apply Forall_areplace_l; [exact Hm|]. cbn [snd]. apply Hmo.
    apply (alookup_in leqb leqb_eq) in E. rewrite Forall_forall in Hm. exact (Hm _ E).
  - apply Forall_app. split; [exact Hm|]. constructor; [exact Hwo|constructor].
Qed.

Theorem node_merge_wf_tree : forall b a, wf_tree a -> wf_tree b -> wf_tree (node_merge a b).
Proof.
  induction b as [nsd this wild children IH] using node_ind_nested. intros a Ha Hb.
  rewrite node_merge_unfold. apply wf_tree_unfold. cbn [n_children].
  apply wf_tree_unfold in Ha as [Hak Hac]. apply wf_tree_unfold in Hb as [Hbk Hbc]. cbn [n_children] in *.
  split; [apply merge_children_keys; assumption|].
  apply merge_children_wf; [exact Hac|].
  rewrite Forall_forall in *. intros kc Hkc. split; [apply Hbc, Hkc|].
  intros a' Ha'. apply (IH kc Hkc); [exact Ha'|apply Hbc, Hkc].
Qed.

(* ================= ZoneRecords::merge refines the union ================= *)

Lemma fold_push_nil_l acc : fold_left push_new [] acc = acc.
Proof. reflexivity. Qed.

Lemma node_ok_union_left apexl za zb q n :
  node_ok apexl za q n -> ~ exists_node zb (rev q) -> node_ok apexl (fz_union za zb) q n.
Proof.
  intros [A B C D E F] Hn. destruct (no_node_no_recs zb (rev q) Hn) as (Hnorm & Hwild & Hhas).
  constructor; try assumption.
  - intro t. cbn [fz_union f_norm]. rewrite recs_at_add_all, Hnorm. apply C.
  - intro t. cbn [fz_union f_wild]. rewrite recs_at_add_all, Hwild. apply E.
  - rewrite has_wild_union, Hhas, orb_false_r. exact F.
Qed.

Lemma node_ok_union_right apexl za zb q n :
  node_ok apexl zb q n -> ~ exists_node za (rev q) -> node_ok apexl (fz_union za zb) q n.
Proof.
  intros [A B C D E F] Hn. destruct (no_node_no_recs za (rev q) Hn) as (Hnorm & Hwild & Hhas).
  constructor; try assumption.
  - intro t. cbn [fz_union f_norm]. rewrite recs_at_add_all, Hnorm, <- C.
    rewrite fold_push_nil; [reflexivity|]. apply wf_rmap_get, B.
  - intro t. cbn [fz_union f_wild]. rewrite recs_at_add_all, Hwild, <- E.
    rewrite fold_push_nil; [reflexivity|]. apply wf_rmap_get, D.
  - rewrite has_wild_union, Hhas. exact F.
Qed.

Lemma entry_union_left apexl pre za zb rq o :
  entry apexl pre za rq o -> ~ exists_node zb (rev (pre ++ rq)) -> entry apexl pre (fz_union za zb) rq o.
Proof.
  destruct o as [n|]; cbn [entry]; intros H Hn.
  - destruct H as [Hex Hok]. split; [intro Hrq; apply exists_node_union; left; exact (Hex Hrq)|].
    apply node_ok_union_left; assumption.
  - intro Hex. apply exists_node_union in Hex as [Hex|Hex]; contradiction.
Qed.

Lemma entry_union_right apexl pre za zb rq o :
  entry apexl pre zb rq o -> ~ exists_node za (rev (pre ++ rq)) -> entry apexl pre (fz_union za zb) rq o.
Proof.
  destruct o as [n|]; cbn [entry]; intros H Hn.
  - destruct H as [Hex Hok]. split; [intro Hrq; apply exists_node_union; right; exact (Hex Hrq)|].
    apply node_ok_union_right; assumption.
  - intro Hex. apply exists_node_union in Hex as [Hex|Hex]; contradiction.
Qed.

Lemma node_ok_merge apexl za zb q a b :
  node_ok apexl za q a -> node_ok apexl zb q b -> node_ok apexl (fz_union za zb) q (node_merge a b).
Proof.
  intros [A1 B1 C1 D1 E1 F1] [A2 B2 C2 D2 E2 F2]. rewrite node_merge_unfold.
  assert (Hw : wf_rmap (wmap (Node (n_nsdname a) (merge_zrs (n_this a) (n_this b)) (merge_wild (n_wild a) (n_wild b))
                                   (merge_children (n_children b) (n_children a)))) /\
               forall t, rget t (wmap (Node (n_nsdname a) (merge_zrs (n_this a) (n_this b)) (merge_wild (n_wild a) (n_wild b))
                                            (merge_children (n_children b) (n_children a))))
                         = fold_left push_new (rget t (wmap b)) (rget t (wmap a))).
  { unfold wmap in *. cbn [n_wild]. destruct (n_wild b) as [ow|], (n_wild a) as [mw|]; cbn [merge_wild].
    - split; [apply wf_rmap_merge_zrs; assumption|]. intro t. apply rget_merge_zrs. exact D2.
    - split; [exact D2|]. intro t. symmetry. apply fold_push_nil. apply wf_rmap_get, D2.
    - split; [exact D1|]. reflexivity.
    - split; [exact D1|]. reflexivity. }
  destruct Hw as [Hw1 Hw2].
  constructor; cbn [n_nsdname n_this]; try assumption.
  - apply wf_rmap_merge_zrs; assumption.
  - intro t. cbn [fz_union f_norm]. rewrite (rget_merge_zrs t _ _ B2), C1, C2, recs_at_add_all. reflexivity.
  - intro t. cbn [fz_union f_wild]. rewrite Hw2, E1, E2, recs_at_add_all. reflexivity.
  - rewrite has_wild_union, <- F1, <- F2. cbn [n_wild]. destruct (n_wild a), (n_wild b); reflexivity.
Qed.

Theorem merge_Rsub apexl za zb : forall rq a b pre,
  Rsub apexl pre a za -> Rsub apexl pre b zb -> wf_tree b ->
  entry apexl pre (fz_union za zb) rq (node_at rq (node_merge a b)).
Proof.
  induction rq as [|l rq IH]; intros a b pre Ha Hb Hwf.
  - cbn [node_at entry]. split; [intro F; contradiction|].
    pose proof (Ha []) as Ha0. pose proof (Hb []) as Hb0. cbn [node_at entry] in Ha0, Hb0.
    apply node_ok_merge; [apply Ha0|apply Hb0].
  - rewrite node_merge_unfold. cbn [node_at n_children].
    pose proof (proj1 (wf_tree_unfold b) Hwf) as [Hbk _].
    rewrite (alookup_merge_children l _ _ Hbk).
    pose proof (Ha [l]) as Hal. pose proof (Hb [l]) as Hbl. cbn [node_at] in Hal, Hbl.
    destruct (alookup leqb l (n_children b)) as [o|] eqn:Eb.
    + destruct (alookup leqb l (n_children a)) as [m|] eqn:Ea.
      * apply entry_shift.
        -- apply IH; [eapply Rsub_child; eassumption|eapply Rsub_child; eassumption|eapply wf_tree_child; eassumption].
        -- apply exists_node_union. left. destruct Hal as [Hex _]. apply Hex. discriminate.
      * pose proof (Hb (l :: rq)) as Hbq. cbn [node_at] in Hbq. rewrite Eb in Hbq.
        apply entry_union_right; [exact Hbq|].
        cbn [entry] in Hal. intro Hex. apply Hal. eapply exists_node_anc; [|exact Hex].
        replace (pre ++ l :: rq) with ((pre ++ [l]) ++ rq) by (rewrite <- app_assoc; reflexivity).
        apply is_suffix_rev_app.
    + pose proof (Ha (l :: rq)) as Haq. cbn [node_at] in Haq.
      apply entry_union_left; [exact Haq|].
      cbn [entry] in Hbl. intro Hex. apply Hbl. eapply exists_node_anc; [|exact Hex].
      replace (pre ++ l :: rq) with ((pre ++ [l]) ++ rq) by (rewrite <- app_assoc; reflexivity).
      apply is_suffix_rev_app.
Qed.

(* flat (node_merge a b) = dedup (flat a ++ flat b), ordinary and wildcard records alike *)
Theorem merge_flat_union apexl a b za zb :
  R apexl a za -> R apexl b zb -> wf_tree b -> R apexl (node_merge a b) (fz_union za zb).
Proof. intros Ha Hb Hwf rq. apply merge_Rsub; assumption. Qed.

(* ================= Zone::merge ================= *)

Lemma rget_aremove t k : forall m, NoDup (map fst m) ->
  rget t (aremove N.eqb k m) = if t =? k then [] else rget t m.
Proof.
  unfold rget. induction m as [|[k0 v0] m IH]; intro Hnd; cbn [aremove alookup].
  - destruct (t =? k); reflexivity.
  - cbn [map fst] in Hnd. inversion Hnd as [|? ? Hnotin Hnd']; subst.
    destruct (N.eqb_spec k k0) as [<-|Hne].
    + destruct (N.eqb_spec t k) as [->|Hne']; [|reflexivity].
      rewrite (alookup_notin_none N.eqb N.eqb_eq _ _ Hnotin). reflexivity.
    + cbn [alookup]. destruct (N.eqb_spec t k0) as [->|Hne'].
      * apply not_eq_sym in Hne. apply N.eqb_neq in Hne. rewrite Hne. reflexivity.
      * apply IH, Hnd'.
Qed.

Lemma aremove_incl {V} k (m : list (N * V)) x : In x (aremove N.eqb k m) -> In x m.
Proof.
  induction m as [|[k0 v0] m IH]; cbn [aremove]; [auto|].
  destruct (k =? k0); [intro H; right; exact H|]. intros [H|H]; [left; exact H|right; exact (IH H)].
Qed.

Lemma aremove_keys_NoDup {V} k (m : list (N * V)) : NoDup (map fst m) -> NoDup (map fst (aremove N.eqb k m)).
Proof.
  induction m as [|[k0 v0] m IH]; cbn [aremove map fst]; intro H; [exact H|].
  inversion H as [|? ? Hnotin H']; subst. destruct (k =? k0); [exact H'|].
  cbn [map fst]. constructor; [|exact (IH H')].
  intro Hin. apply Hnotin. apply in_map_iff in Hin as (x & Hx & Hin). apply in_map_iff. exists x. split; [exact Hx|].
  eapply aremove_incl; exact Hin.
Qed.

Lemma wf_rmap_aremove k m : wf_rmap m -> wf_rmap (aremove N.eqb k m).
Proof.
  intros [Hk Hall]. split; [apply aremove_keys_NoDup, Hk|].
  rewrite Forall_forall in *. intros x Hx. apply Hall. eapply aremove_incl; exact Hx.
Qed.

Lemma recs_at_drop_soa p t : forall l,
  recs_at (filter (fun pr => negb (is_nil (fst pr) && (zr_type (snd pr) =? RT_SOA))) l) p t
  = if is_nil p && (t =? RT_SOA) then [] else recs_at l p t.
Proof.
  induction l as [|[q r] l IH]; [destruct (is_nil p && (t =? RT_SOA)); reflexivity|].
  remember (lleqb q p && (zr_type r =? t)) as cnd eqn:Ecnd.
  assert (Hc : forall l', recs_at ((q, r) :: l') p t = if cnd then r :: recs_at l' p t else recs_at l' p t).
  { intro l'. subst cnd. unfold recs_at. cbn [filter fst snd]. destruct (lleqb q p && (zr_type r =? t)); reflexivity. }
  cbn [filter fst snd]. destruct (is_nil q && (zr_type r =? RT_SOA)) eqn:Ed; cbn [negb].
  - rewrite IH. apply andb_true_iff in Ed as [Hq Hr]. destruct q; [|discriminate]. apply N.eqb_eq in Hr.
    destruct (is_nil p && (t =? RT_SOA)) eqn:Ec; [reflexivity|].
    assert (E : cnd = false).
    { subst cnd. apply not_true_is_false. intro E. apply andb_true_iff in E as [E1 E2].
      apply lleqb_eq in E1. apply N.eqb_eq in E2. subst p. rewrite Hr in E2. subst t. discriminate. }
    rewrite Hc, E. reflexivity.
  - rewrite !Hc, IH. destruct (is_nil p && (t =? RT_SOA)) eqn:Ec; [|reflexivity].
    assert (E : cnd = false).
    { subst cnd. apply not_true_is_false. intro E.
      apply andb_true_iff in Ec as [Hp Ht]. destruct p; [|discriminate]. apply N.eqb_eq in Ht.
      apply andb_true_iff in E as [E1 E2]. apply lleqb_eq in E1. apply N.eqb_eq in E2. subst q t.
      rewrite E2, N.eqb_refl in Ed. discriminate. }
    rewrite E. reflexivity.
Qed.

Lemma exists_node_drop_soa z q : exists_node (fz_drop_soa z) q <-> exists_node z q.
Proof.
  unfold exists_node, entries, fz_drop_soa. cbn [f_norm f_wild]. split.
  - intros [->|(q' & r & Hin & Hs)]; [left; reflexivity|]. right. exists q', r. split; [|exact Hs].
    apply in_app_or in Hin as [Hin|Hin]; apply in_or_app; [left|right; exact Hin].
    apply filter_In in Hin. tauto.
  - intros [->|(q' & r & Hin & Hs)]; [left; reflexivity|].
    destruct q as [|x q]; [left; reflexivity|]. right. exists q', r. split; [|exact Hs].
    apply in_app_or in Hin as [Hin|Hin]; apply in_or_app; [left|right; exact Hin].
    apply filter_In. split; [exact Hin|]. cbn [fst snd].
    destruct q' as [|y q']; [apply is_suffix_of_nil in Hs; discriminate|reflexivity].
Qed.

Lemma R_drop_soa apexl a za :
  R apexl a za ->
  R apexl (Node (n_nsdname a) (aremove N.eqb RT_SOA (n_this a)) (n_wild a) (n_children a)) (fz_drop_soa za).
Proof.
  intros H rq. pose proof (H rq) as Hrq. destruct rq as [|l rq].
  - cbn [node_at entry app] in *. destruct Hrq as [_ [A B C D E F]]. split; [intro X; contradiction|].
    constructor; cbn [n_nsdname n_this n_wild wmap]; try assumption.
    + apply wf_rmap_aremove, B.
    + intro t. rewrite (rget_aremove t RT_SOA _ (proj1 B)). cbn [fz_drop_soa f_norm rev].
      rewrite recs_at_drop_soa. cbn [is_nil andb]. rewrite C. reflexivity.
  - cbn [node_at n_children] in *. unfold entry in *. cbn [app] in *.
    assert (Hne : is_nil (rev (l :: rq)) = false) by (rewrite is_nil_rev; reflexivity).
    destruct (match alookup leqb l (n_children a) with Some c => node_at rq c | None => None end) as [n|].
    + destruct Hrq as [Hex [A B C D E F]]. split; [intro X; apply exists_node_drop_soa, Hex, X|].
      constructor; try assumption.
      intro t. cbn [fz_drop_soa f_norm]. rewrite recs_at_drop_soa, Hne. apply C.
    + intro Hex. apply Hrq. exact (proj1 (exists_node_drop_soa _ _) Hex).
Qed.

(* Zone::merge on trees representing flat zones gives a tree representing fz_merge:
   the union, the first zone's apex SOA record dropped when the second supplies a SOA *)
Theorem zone_merge_repr a b fa fb m :
  R (labels (z_apex a)) (z_records a) fa -> R (labels (z_apex b)) (z_records b) fb ->
  wf_tree (z_records b) -> zone_merge a b = Some m ->
  z_apex m = z_apex a /\
  R (labels (z_apex m)) (z_records m) (fz_merge fa fb (zone_is_authoritative b)).
Proof.
  intros Ha Hb Hwf Hm. unfold zone_merge in Hm.
  destruct (dname_eqb (z_apex a) (z_apex b)) eqn:E; cbn [negb] in Hm; [|discriminate].
  apply dname_eqb_eq in E. rewrite <- E in Hb.
  unfold zone_is_authoritative, fz_merge. destruct (z_soa b) as [so|]; inversion Hm; subst m; cbn [z_apex z_records].
  - split; [reflexivity|]. apply merge_flat_union; [apply R_drop_soa, Ha|exact Hb|exact Hwf].
  - split; [reflexivity|]. apply merge_flat_union; assumption.
Qed.

(* the SOA record set at the apex is the singleton of the zone's SOA (empty if it has none) *)
Definition soa_inv (z : zone) : Prop :=
  rget RT_SOA (n_this (z_records z)) = match z_soa z with Some so => [soa_zrec so] | None => [] end.

Lemma soa_inv_new apex s : soa_inv (zone_new apex s).
Proof. unfold soa_inv. destruct s; reflexivity. Qed.

(* after a merge the zone's SOA is the last one supplied, and the apex holds exactly that one SOA RR *)
Theorem zone_merge_one_soa a b m :
  wf_rmap (n_this (z_records a)) -> wf_rmap (n_this (z_records b)) ->
  soa_inv a -> soa_inv b -> zone_merge a b = Some m ->
  z_soa m = match z_soa b with Some so => Some so | None => z_soa a end /\ soa_inv m.
Proof.
  intros Hwa Hwb Hia Hib Hm. unfold zone_merge in Hm.
  destruct (negb (dname_eqb (z_apex a) (z_apex b))); [discriminate|].
  unfold soa_inv in *. destruct (z_soa b) as [sb|] eqn:Eb; inversion Hm; subst m; cbn [z_soa z_records];
    (split; [reflexivity|]); rewrite node_merge_unfold; cbn [n_this]; rewrite (rget_merge_zrs _ _ _ Hwb), Hib.
  - rewrite (rget_aremove _ _ _ (proj1 Hwa)), N.eqb_refl. reflexivity.
  - exact Hia.
Qed.

(* ordinary insertions other than a SOA-typed record at the apex keep [soa_inv]; in particular
   every zone read from a zone file or built from hosts satisfies it *)
Lemma node_insert_this_other w r : forall rp nd nd',
  node_insert w rp r nd = Ok nd' -> (w = true \/ rp <> [] \/ zr_type r <> RT_SOA) ->
  rget RT_SOA (n_this nd') = rget RT_SOA (n_this nd).
Proof.
  intros rp nd nd' H Hc. destruct rp as [|l rest]; cbn [node_insert] in H.
  - destruct w; inversion H; subst; cbn [n_this]; [reflexivity|].
    rewrite rget_insert. destruct Hc as [Hc|[Hc|Hc]]; [discriminate|contradiction|].
    apply N.eqb_neq in Hc. rewrite Hc. reflexivity.
  - destruct (alookup leqb l (n_children nd)).
    + destruct (node_insert w rest r n); cbn [bind] in H; inversion H; subst. reflexivity.
    + destruct (from_labels (l :: labels (n_nsdname nd))); [|discriminate].
      destruct (node_insert w rest r (node_new d)); cbn [bind] in H; inversion H; subst. reflexivity.
Qed.

Lemma zone_apply_soa_inv z o z' :
  soa_inv z -> zone_apply z o = Ok z' ->
  (op_wild o = true \/ rel_path (labels (z_apex z)) (op_name o) <> Some [] \/ op_type o <> RT_SOA) ->
  soa_inv z'.
Proof.
  intros Hi H Hc. unfold zone_apply, zone_insert in H. rewrite relative_rp_rel in H.
  destruct (rel_path (labels (z_apex z)) (op_name o)) as [p|] eqn:Ep; cbn [option_map] in H; [|inversion H; subst; exact Hi].
  destruct (node_insert _ (rev p) _ (z_records z)) as [nd| | |] eqn:En; cbn [bind] in H; try discriminate.
  inversion H; subst. unfold soa_inv in *. cbn [z_soa z_records]. rewrite <- Hi.
  eapply node_insert_this_other; [exact En|]. cbn [zr_type].
  destruct Hc as [Hc|[Hc|Hc]]; [left; exact Hc| |right; right; exact Hc].
  right. left. intro E. apply Hc. destruct p; [reflexivity|]. cbn [rev] in E. apply app_eq_nil in E as [_ E]. discriminate.
Qed.
