(* Zone/ZoneFlat.v -- the specification side of C02 (and of the merge lemmas C12 uses):
   a zone as two flat lists of (relative owner, record) -- ordinary records and
   wildcard records -- and the lookup algorithm of RFC 1034 section 4.3.2 with the
   wildcard rules of RFC 4592 on that flat data.  Independent of the record tree
   of zones/types.rs: nothing here mentions nodes, children or descent.
   Only the *data types* zrec / zresult / soa of ZoneModel.v are shared.

   A relative owner ([path]) is the list of labels of the owner name to the left
   of the apex, leftmost label first (as in a name); [] is the apex.  A wildcard
   record with path q stands for the owner "*.q".

   Everything is executable, so the specification can be run next to the model
   (the model driver does so on every case of the C02 stream). *)
From RV Require Import Base.Prelude Name.NameModel Name.NameSpec Wire.WireTypes Zone.ZoneModel.

Definition path := list label.
Record fzone := { f_norm : list (path * zrec); f_wild : list (path * zrec) }.

Definition entries (z : fzone) : list (path * zrec) := f_norm z ++ f_wild z.

(* [p] is [q] or an ancestor of [q] *)
Fixpoint is_suffixb (p q : path) : bool :=
  lleqb p q || match q with [] => false | _ :: t => is_suffixb p t end.

(* a name exists if it is the apex, or owns a record, or lies above an owner
   (empty non-terminal); the owner of a wildcard record "*.q" makes q exist *)
Definition exists_node (z : fzone) (p : path) : Prop :=
  p = [] \/ exists q r, In (q, r) (entries z) /\ is_suffix p q.
Definition exists_nodeb (z : fzone) (p : path) : bool :=
  is_nil p || existsb (fun pr => is_suffixb p (fst pr)) (entries z).

(* the records of one type / of all types at an owner, in zone order *)
Definition recs_at (l : list (path * zrec)) (p : path) (ty : N) : list zrec :=
  map snd (filter (fun pr => lleqb (fst pr) p && (zr_type (snd pr) =? ty)) l).
Definition all_at (l : list (path * zrec)) (p : path) : list zrec :=
  map snd (filter (fun pr => lleqb (fst pr) p) l).
Definition of_type (ty : N) (rs : list zrec) : list zrec := filter (fun r => zr_type r =? ty) rs.

Definition has_wild (z : fzone) (p : path) : bool := existsb (fun pr => lleqb (fst pr) p) (f_wild z).

(* the name with these labels *)
Definition mkname (ls : list label) : dname := {| labels := ls; nlen := sum_lens ls |}.

(* RFC 1034 4.3.2 step 3.a on a record set found for the query name (the records
   at the name, or the wildcard set it is synthesised from): the CNAME unless the
   question matches CNAME, else the records matching the question (ANY: all;
   AXFR/MAILA/MAILB: none; otherwise the type).  Owner = the query name. *)
Definition classify (name : dname) (qtype : N) (rs : list zrec) : zresult :=
  match (if rtype_matches RT_CNAME qtype then [] else of_type RT_CNAME rs) with
  | r :: _ =>
    match zr_data r with
    | RD_Name c => ZCname c (zr_to_rr r name)
    | _ => ZNameError                    (* a CNAME record without a name: not a record (wf_zrec) *)
    end
  | [] => ZAnswer (map (fun r => zr_to_rr r name) (filter (fun r => rtype_matches (zr_type r) qtype) rs))
  end.

(* non-empty ancestors-or-self of p, nearest the apex first *)
Fixpoint ancestors (p : path) : list path :=
  match p with [] => [] | _ :: t => ancestors t ++ [p] end.

(* a delegation cut on the way to p: a name strictly below the apex, at or above
   p, holding NS -- except p itself when the question is NS *)
Definition cut (z : fzone) (p : path) (qtype : N) (c : path) : Prop :=
  c <> [] /\ is_suffix c p /\ recs_at (f_norm z) c RT_NS <> [] /\ ~ (c = p /\ qtype = RT_NS).
Definition is_cut (z : fzone) (p : path) (qtype : N) (c : path) : bool :=
  negb (is_nil (recs_at (f_norm z) c RT_NS)) && negb (lleqb c p && (qtype =? RT_NS)).

(* for a name that does not exist: its closest existing ancestor e (the closest
   encloser) and the label l such that l.e is at or above the name *)
Fixpoint wild_source (z : fzone) (p : path) : option (label * path) :=
  match p with
  | [] => None
  | l :: t => if exists_nodeb z t then Some (l, t) else wild_source z t
  end.

Definition closest_encloser (z : fzone) (p e : path) : Prop :=
  is_suffix e p /\ exists_node z e /\ forall e', is_suffix e' p -> exists_node z e' -> is_suffix e' e.

(* The lookup.  [apexl] = labels of the apex, [name] = the query name, [p] = its
   relative path.

   Wildcard NS (RFC 4592 4.2 leaves it undefined): a wildcard set holding NS is
   read as a delegation of l.e where e is the closest encloser and l the next
   label of the query name -- the query name is at or beneath that synthesised
   delegation point. *)
Definition flat_resolve (apexl : list label) (z : fzone) (name : dname) (p : path) (qtype : N) : zresult :=
  match find (is_cut z p qtype) (ancestors p) with
  | Some c => ZDelegation (map (fun r => zr_to_rr r (mkname (c ++ apexl))) (recs_at (f_norm z) c RT_NS))
  | None =>
    if exists_nodeb z p then classify name qtype (all_at (f_norm z) p)
    else match wild_source z p with
         | Some (l, e) =>
           if has_wild z e then
             let ws := all_at (f_wild z) e in
             if negb (is_nil (of_type RT_NS ws)) && negb (qtype =? RT_NS)
             then ZDelegation (map (fun r => zr_to_rr r (mkname (l :: e ++ apexl))) (of_type RT_NS ws))
             else classify name qtype ws
           else ZNameError
         | None => ZNameError             (* p = [] exists: not reached *)
         end
  end.

(* equality of lookup results up to the order of the type groups of an answer
   (the order of the records of one type is significant) *)
Definition zres_equiv (a b : zresult) : Prop :=
  match a, b with
  | ZAnswer x, ZAnswer y =>
    forall t, filter (fun r => rr_type r =? t) x = filter (fun r => rr_type r =? t) y
  | ZCname c r, ZCname c' r' => c = c' /\ r = r'
  | ZDelegation x, ZDelegation y => x = y
  | ZNameError, ZNameError => True
  | _, _ => False
  end.

Fixpoint rrs_eqb (a b : list rr) : bool :=
  match a, b with
  | [], [] => true
  | x :: a', y :: b' => rr_eqb x y && rrs_eqb a' b'
  | _, _ => false
  end.
Definition zres_equivb (a b : zresult) : bool :=
  match a, b with
  | ZAnswer x, ZAnswer y =>
    forallb (fun r => let t := rr_type r in
                      rrs_eqb (filter (fun r => rr_type r =? t) x) (filter (fun r => rr_type r =? t) y)) (x ++ y)
  | ZCname c r, ZCname c' r' => dname_eqb c c' && rr_eqb r r'
  | ZDelegation x, ZDelegation y => rrs_eqb x y
  | ZNameError, ZNameError => true
  | _, _ => false
  end.

(* deviation D1: no record strictly beneath, and no wildcard at (its owner "*.c"
   is beneath c too), a non-apex name holding NS *)
Definition no_occlusion (z : fzone) : Prop :=
  forall c rns, c <> [] -> In (c, rns) (f_norm z) -> zr_type rns = RT_NS ->
    (forall q r, In (q, r) (f_norm z) -> is_suffix c q -> q = c) /\
    (forall q r, In (q, r) (f_wild z) -> ~ is_suffix c q).
Definition no_occlusionb (z : fzone) : bool :=
  forallb (fun pr =>
             if (zr_type (snd pr) =? RT_NS) && negb (is_nil (fst pr))
             then forallb (fun qr => negb (is_suffixb (fst pr) (fst qr)) || lleqb (fst qr) (fst pr)) (f_norm z)
                  && forallb (fun qr => negb (is_suffixb (fst pr) (fst qr))) (f_wild z)
             else true) (f_norm z).

(* ---- a zone given by a list of insertions ---- *)
Record zop := { op_wild : bool; op_name : dname; op_type : N; op_data : rdata; op_ttl : N }.

(* sets: a record already present at that owner is not added again *)
Definition add_rec (p : path) (r : zrec) (l : list (path * zrec)) : list (path * zrec) :=
  if existsb (zrec_eqb r) (recs_at l p (zr_type r)) then l else l ++ [(p, r)].
Definition fz_add (wild : bool) (p : path) (r : zrec) (z : fzone) : fzone :=
  if wild then {| f_norm := f_norm z; f_wild := add_rec p r (f_wild z) |}
  else {| f_norm := add_rec p r (f_norm z); f_wild := f_wild z |}.

(* name = p ++ apex *)
Definition rel_path (apexl : list label) (name : dname) : option path :=
  if ends_with (labels name) apexl
  then Some (firstn (length (labels name) - length apexl) (labels name))
  else None.

(* the SOA MINIMUM is a lower bound on every TTL of an authoritative zone *)
Definition clamp (s : option soa) (ttl : N) : N :=
  match s with Some so => N.max (soa_minimum so) ttl | None => ttl end.

Definition soa_zrec (so : soa) : zrec :=
  {| zr_type := RT_SOA; zr_data := soa_to_rdata so; zr_ttl := soa_minimum so |}.
Definition fz_init (s : option soa) : fzone :=
  {| f_norm := match s with Some so => [([], soa_zrec so)] | None => [] end; f_wild := [] |}.

Definition op_zrec (s : option soa) (o : zop) : zrec :=
  {| zr_type := op_type o; zr_data := op_data o; zr_ttl := clamp s (op_ttl o) |}.

Definition fz_apply (apexl : list label) (s : option soa) (z : fzone) (o : zop) : fzone :=
  match rel_path apexl (op_name o) with
  | Some p => fz_add (op_wild o) p (op_zrec s o) z
  | None => z                             (* not under the apex: ignored *)
  end.
Definition flat_of_ops (apex : dname) (s : option soa) (ops : list zop) : fzone :=
  fold_left (fz_apply (labels apex) s) ops (fz_init s).

(* union of two flat zones for the same apex (merge): the second zone's records
   are added to the first one's, duplicates dropped *)
Definition add_all (l extra : list (path * zrec)) : list (path * zrec) :=
  fold_left (fun acc pr => add_rec (fst pr) (snd pr) acc) extra l.
Definition fz_union (a b : fzone) : fzone :=
  {| f_norm := add_all (f_norm a) (f_norm b); f_wild := add_all (f_wild a) (f_wild b) |}.

(* Zone::merge on flat zones: when the second zone is authoritative its SOA
   replaces the first one's *)
Definition fz_drop_soa (z : fzone) : fzone :=
  {| f_norm := filter (fun pr => negb (is_nil (fst pr) && (zr_type (snd pr) =? RT_SOA))) (f_norm z);
     f_wild := f_wild z |}.
Definition fz_merge (a b : fzone) (b_has_soa : bool) : fzone :=
  fz_union (if b_has_soa then fz_drop_soa a else a) b.

(* ---- the model's side of "a zone given by a list of insertions" ---- *)
Definition zone_apply (z : zone) (o : zop) : res unit zone :=
  zone_insert (op_wild o) z (op_name o) (op_type o) (op_data o) (op_ttl o).
Fixpoint zone_apply_all (z : zone) (ops : list zop) : res unit zone :=
  match ops with
  | [] => Ok z
  | o :: t => let* z' := zone_apply z o in zone_apply_all z' t
  end.
Definition zone_build (apex : dname) (s : option soa) (ops : list zop) : res unit zone :=
  zone_apply_all (zone_new apex s) ops.
