(* Zone/ZoneProofs.v -- the record tree of zones/types.rs (Zone/ZoneModel.v) refines
   the flat specification (Zone/ZoneFlat.v).

   Route: an abstraction relation [Rsub]/[R] between a (sub)tree and a flat zone,
   stated pointwise ("the node reached by path rq holds exactly the flat zone's
   records at rq, and is reachable iff the name exists");
     - [R] holds between Zone::new and fz_init                    ([R_zone_new])
     - insert / insert_wildcard preserve it and never panic for
       names within the 255-octet limit                           ([insert_Rsub])
     - under it and D1, ZoneRecords::resolve agrees with
       flat_resolve                                               ([resolve_R])
   and from these [resolve_refines_flat] for zones given by a list of insertions,
   followed by the corollaries named after the sentences of C02. *)
From Coq Require Import Permutation.
Set Default Timeout 120.   (* no single proof step may run away (the build lock is shared) *)
From RV Require Import Base.Prelude Name.NameModel Name.NameSpec Name.NameProofs Wire.WireTypes
     Zone.ZoneModel Zone.ZoneFlat.

(* ================= equality tests ================= *)

Lemma leqb_refl a : leqb a a = true.
Proof. apply leqb_eq. reflexivity. Qed.
Lemma lleqb_refl a : lleqb a a = true.
Proof. apply lleqb_eq. reflexivity. Qed.
Lemma dname_eqb_refl a : dname_eqb a a = true.
Proof. apply dname_eqb_eq. reflexivity. Qed.

Lemma lleqb_false a b : a <> b -> lleqb a b = false.
Proof. intro H. destruct (lleqb a b) eqn:E; [|reflexivity]. apply lleqb_eq in E. contradiction. Qed.

Lemma rdata_eqb_eq a b : rdata_eqb a b = true <-> a = b.
Proof.
  destruct a, b; cbn [rdata_eqb]; try (split; [discriminate|intro H; inversion H]);
    rewrite ?andb_true_iff, ?N.eqb_eq, ?dname_eqb_eq, ?leqb_eq.
  - split; [intros ->; reflexivity | intro H; inversion H; reflexivity].
  - split; [intros ->; reflexivity | intro H; inversion H; reflexivity].
  - split.
    + intros [[[[[[-> ->] ->] ->] ->] ->] ->]. reflexivity.
    + intro H; inversion H. repeat split; reflexivity.
  - split; [intros ->; reflexivity | intro H; inversion H; reflexivity].
  - split; [intros [-> ->]; reflexivity | intro H; inversion H; split; reflexivity].
  - split; [intros [-> ->]; reflexivity | intro H; inversion H; split; reflexivity].
  - split; [intros ->; reflexivity | intro H; inversion H; reflexivity].
  - split.
    + intros [[[-> ->] ->] ->]. reflexivity.
    + intro H; inversion H. repeat split; reflexivity.
Qed.

Lemma zrec_eqb_eq a b : zrec_eqb a b = true <-> a = b.
Proof.
  unfold zrec_eqb. rewrite !andb_true_iff, !N.eqb_eq, rdata_eqb_eq.
  destruct a as [ta da la], b as [tb db lb]; cbn [zr_type zr_data zr_ttl]. split.
  - intros [[-> ->] ->]. reflexivity.
  - intro H; inversion H. repeat split; reflexivity.
Qed.

Lemma existsb_zrec_In r l : existsb (zrec_eqb r) l = true <-> In r l.
Proof.
  rewrite existsb_exists. split.
  - intros (x & Hin & E). apply zrec_eqb_eq in E. subst x. exact Hin.
  - intro Hin. exists r. split; [exact Hin|]. apply zrec_eqb_eq. reflexivity.
Qed.

Lemma NoDup_snoc {A} (l : list A) x : NoDup l -> ~ In x l -> NoDup (l ++ [x]).
Proof.
  intros Hl Hx. induction l as [|y l IH]; cbn [app]; [constructor; [intros []|constructor]|].
  inversion Hl; subst. constructor.
  - rewrite in_app_iff. intros [Hin|[->|[]]]; [contradiction|]. apply Hx. left. reflexivity.
  - apply IH; [assumption|]. intro Hin. apply Hx. right. exact Hin.
Qed.

(* ================= association lists ================= *)

Section AssocFacts.
  Context {K V : Type} (keqb : K -> K -> bool).
  Hypothesis keqb_eq : forall a b, keqb a b = true <-> a = b.

  Lemma keqb_refl k : keqb k k = true.
  Proof. apply keqb_eq. reflexivity. Qed.
  Lemma keqb_neq a b : a <> b -> keqb a b = false.
  Proof. intro H. destruct (keqb a b) eqn:E; [|reflexivity]. apply keqb_eq in E. contradiction. Qed.

  Lemma alookup_areplace_same k (v v' : V) m :
    alookup keqb k m = Some v -> alookup keqb k (areplace keqb k v' m) = Some v'.
  Proof.
    induction m as [|[k0 v0] m IH]; cbn [alookup areplace]; [discriminate|].
    destruct (keqb k k0) eqn:E; cbn [alookup]; rewrite E; [reflexivity|exact IH].
  Qed.

  Lemma alookup_areplace_other k k' (v' : V) m :
    k' <> k -> alookup keqb k' (areplace keqb k v' m) = alookup keqb k' m.
  Proof.
    intro Hne. induction m as [|[k0 v0] m IH]; cbn [alookup areplace]; [reflexivity|].
    destruct (keqb k k0) eqn:E; cbn [alookup].
    - apply keqb_eq in E. subst k0. rewrite (keqb_neq k' k Hne). reflexivity.
    - destruct (keqb k' k0); [reflexivity|exact IH].
  Qed.

  Lemma alookup_app_new k (v : V) m :
    alookup keqb k m = None -> alookup keqb k (m ++ [(k, v)]) = Some v.
  Proof.
    induction m as [|[k0 v0] m IH]; cbn [alookup app].
    - rewrite keqb_refl. reflexivity.
    - destruct (keqb k k0); [discriminate|exact IH].
  Qed.

  Lemma alookup_app_other k k' (v : V) m :
    k' <> k -> alookup keqb k' (m ++ [(k, v)]) = alookup keqb k' m.
  Proof.
    intro Hne. induction m as [|[k0 v0] m IH]; cbn [alookup app].
    - rewrite (keqb_neq k' k Hne). reflexivity.
    - destruct (keqb k' k0); [reflexivity|exact IH].
  Qed.

  Lemma alookup_in k (v : V) m : alookup keqb k m = Some v -> In (k, v) m.
  Proof.
    induction m as [|[k0 v0] m IH]; cbn [alookup]; [discriminate|].
    destruct (keqb k k0) eqn:E.
    - apply keqb_eq in E. subst k0. intro H; inversion H. left. reflexivity.
    - intro H. right. exact (IH H).
  Qed.

  Lemma alookup_none_notin k m : alookup keqb k m = None -> ~ In k (map (@fst K V) m).
  Proof.
    induction m as [|[k0 v0] m IH]; cbn [alookup map fst]; [intros _ []|].
    destruct (keqb k k0) eqn:E; [discriminate|].
    intros H [Heq|Hin]; [|exact (IH H Hin)]. subst k0. rewrite keqb_refl in E. discriminate.
  Qed.

  Lemma alookup_notin_none k m : ~ In k (map (@fst K V) m) -> alookup keqb k m = None.
  Proof.
    induction m as [|[k0 v0] m IH]; cbn [alookup map fst]; [reflexivity|].
    intro H. destruct (keqb k k0) eqn:E.
    - apply keqb_eq in E. subst k0. exfalso. apply H. left. reflexivity.
    - apply IH. intro Hin. apply H. right. exact Hin.
  Qed.

  Lemma areplace_keys k (v : V) m : map fst (areplace keqb k v m) = map fst m.
  Proof.
    induction m as [|[k0 v0] m IH]; cbn [areplace map fst]; [reflexivity|].
    destruct (keqb k k0); cbn [map fst]; [reflexivity|]. rewrite IH. reflexivity.
  Qed.
End AssocFacts.

(* ================= record maps ================= *)

Definition rget (t : N) (m : rmap) : list zrec :=
  match alookup N.eqb t m with Some l => l | None => [] end.

(* keys unique; the records of a list have that type; no record twice in a list *)
Definition wf_rmap (m : rmap) : Prop :=
  NoDup (map fst m) /\
  Forall (fun kv => Forall (fun z => zr_type z = fst kv) (snd kv) /\ NoDup (snd kv)) m.

Lemma wf_rmap_nil : wf_rmap [].
Proof. split; constructor. Qed.

Lemma wf_rmap_get t m : wf_rmap m -> Forall (fun z => zr_type z = t) (rget t m) /\ NoDup (rget t m).
Proof.
  intros [_ Hall]. unfold rget. destruct (alookup N.eqb t m) as [l|] eqn:E; [|split; constructor].
  apply (alookup_in N.eqb N.eqb_eq) in E. rewrite Forall_forall in Hall. apply Hall in E. exact E.
Qed.

(* dedup-append: Vec push unless already present *)
Definition push_new (l : list zrec) (r : zrec) : list zrec :=
  if existsb (zrec_eqb r) l then l else l ++ [r].

Lemma rget_insert t m r :
  rget t (rmap_insert m r) = if zr_type r =? t then push_new (rget t m) r else rget t m.
Proof.
  unfold rmap_insert, rget, push_new.
  destruct (alookup N.eqb (zr_type r) m) as [entries|] eqn:E.
  - destruct (existsb (zrec_eqb r) entries) eqn:Ex.
    + destruct (N.eqb_spec (zr_type r) t) as [<-|Hne]; [|reflexivity]. rewrite E, Ex. reflexivity.
    + destruct (N.eqb_spec (zr_type r) t) as [<-|Hne].
      * rewrite (alookup_areplace_same N.eqb _ _ _ _ E), E, Ex. reflexivity.
      * rewrite (alookup_areplace_other N.eqb N.eqb_eq); [reflexivity|congruence].
  - destruct (N.eqb_spec (zr_type r) t) as [<-|Hne].
    + rewrite (alookup_app_new N.eqb N.eqb_eq _ _ _ E), E. reflexivity.
    + rewrite (alookup_app_other N.eqb N.eqb_eq); [reflexivity|congruence].
Qed.

Lemma Forall_areplace {V} (P : N * V -> Prop) k v (m : list (N * V)) :
  Forall P m -> P (k, v) -> Forall P (areplace N.eqb k v m).
Proof.
  intros Hm Hk. induction m as [|[k0 v0] m IH]; cbn [areplace]; [constructor|].
  apply Forall_cons_iff in Hm as [H0 Hm].
  destruct (N.eqb_spec k k0) as [<-|Hne]; constructor; auto.
Qed.

Lemma wf_rmap_insert m r : wf_rmap m -> wf_rmap (rmap_insert m r).
Proof.
  intros [Hk Hall]. unfold rmap_insert.
  destruct (alookup N.eqb (zr_type r) m) as [entries|] eqn:E.
  - destruct (existsb (zrec_eqb r) entries) eqn:Ex; [split; assumption|].
    split; [rewrite areplace_keys; exact Hk|].
    apply Forall_areplace; [exact Hall|]. cbn [fst snd].
    apply (alookup_in N.eqb N.eqb_eq) in E. rewrite Forall_forall in Hall. destruct (Hall _ E) as [Ht Hnd].
    cbn [fst snd] in *. split.
    + apply Forall_app. split; [exact Ht|]. constructor; [reflexivity|constructor].
    + apply NoDup_snoc; [exact Hnd|]. intro Hin. apply existsb_zrec_In in Hin. congruence.
  - split.
    + rewrite map_app. cbn [map fst]. apply NoDup_snoc; [exact Hk|].
      apply (alookup_none_notin N.eqb N.eqb_eq). exact E.
    + apply Forall_app. split; [exact Hall|]. constructor; [|constructor]. cbn [fst snd]. split.
      * constructor; [reflexivity|constructor].
      * constructor; [intros []|constructor].
Qed.

Lemma filter_all {A} (f : A -> bool) l : Forall (fun x => f x = true) l -> filter f l = l.
Proof.
  induction l as [|x l IH]; intro H; cbn [filter]; [reflexivity|].
  apply Forall_cons_iff in H as [Hx Hl]. rewrite Hx, (IH Hl). reflexivity.
Qed.
Lemma filter_none {A} (f : A -> bool) l : Forall (fun x => f x = false) l -> filter f l = [].
Proof.
  induction l as [|x l IH]; intro H; cbn [filter]; [reflexivity|].
  apply Forall_cons_iff in H as [Hx Hl]. rewrite Hx. exact (IH Hl).
Qed.

Lemma of_type_app t a b : of_type t (a ++ b) = of_type t a ++ of_type t b.
Proof. apply filter_app. Qed.

(* the records of one type among all the records of a node are that type's list *)
Lemma of_type_flat t m : wf_rmap m -> of_type t (flat_map snd m) = rget t m.
Proof.
  induction m as [|[k l] m IH]; intros [Hk Hall]; [reflexivity|].
  cbn [flat_map snd]. rewrite of_type_app.
  cbn [map fst] in Hk. inversion Hk as [|? ? Hnotin Hk']; subst.
  apply Forall_cons_iff in Hall as [[Hl _] Hall]. cbn [fst snd] in Hl.
  rewrite (IH (conj Hk' Hall)). unfold rget at 2. cbn [alookup].
  destruct (N.eqb_spec t k) as [->|Hne].
  - unfold of_type. rewrite filter_all.
    + unfold rget. rewrite (alookup_notin_none N.eqb N.eqb_eq _ _ Hnotin). apply app_nil_r.
    + rewrite Forall_forall in *. intros z Hz. apply N.eqb_eq. auto.
  - unfold of_type. rewrite filter_none; [reflexivity|].
    rewrite Forall_forall in *. intros z Hz. apply N.eqb_neq. rewrite (Hl z Hz). congruence.
Qed.

Lemma flat_map_map_snd {B} (f : zrec -> B) (m : rmap) :
  flat_map (fun kv => map f (snd kv)) m = map f (flat_map snd m).
Proof.
  induction m as [|kv m IH]; cbn [flat_map]; [reflexivity|]. rewrite map_app, IH. reflexivity.
Qed.

(* ================= the flat zone ================= *)

Lemma is_suffix_refl {A} (p : list A) : is_suffix p p.
Proof. exists []. reflexivity. Qed.
Lemma is_suffix_nil {A} (p : list A) : is_suffix [] p.
Proof. exists p. symmetry. apply app_nil_r. Qed.
Lemma is_suffix_trans {A} (a b c : list A) : is_suffix a b -> is_suffix b c -> is_suffix a c.
Proof. intros [x ->] [y ->]. exists (y ++ x). apply app_assoc. Qed.
Lemma is_suffix_of_nil {A} (p : list A) : is_suffix p [] -> p = [].
Proof. intros [pre H]. symmetry in H. apply app_eq_nil in H. tauto. Qed.
Lemma is_suffix_cons {A} (p q : list A) x : is_suffix p q -> is_suffix p (x :: q).
Proof. intros [pre ->]. exists (x :: pre). reflexivity. Qed.
Lemma is_suffix_app {A} (p q : list A) : is_suffix q (p ++ q).
Proof. exists p. reflexivity. Qed.
Lemma is_suffix_len_eq {A} (p q : list A) : is_suffix p q -> length p = length q -> p = q.
Proof.
  intros [pre ->] H. rewrite app_length in H. destruct pre; [reflexivity|cbn [length] in H; lia].
Qed.
Lemma is_suffix_antisym {A} (p q : list A) : is_suffix p q -> is_suffix q p -> p = q.
Proof.
  intros H1 H2. apply is_suffix_len_eq; [exact H1|].
  apply is_suffix_length in H1. apply is_suffix_length in H2. lia.
Qed.

Lemma is_suffixb_spec p q : is_suffixb p q = true <-> is_suffix p q.
Proof.
  induction q as [|x t IH]; cbn [is_suffixb].
  - rewrite orb_false_r, lleqb_eq. split; [intros ->; apply is_suffix_refl | apply is_suffix_of_nil].
  - rewrite orb_true_iff, lleqb_eq, IH. split.
    + intros [->|H]; [apply is_suffix_refl | apply is_suffix_cons, H].
    + apply is_suffix_cons_inv.
Qed.

Lemma exists_nodeb_spec z p : exists_nodeb z p = true <-> exists_node z p.
Proof.
  unfold exists_nodeb, exists_node. rewrite orb_true_iff, existsb_exists. split.
  - intros [H|([q r] & Hin & Hs)]; [left; destruct p; [reflexivity|discriminate]|].
    right. exists q, r. split; [exact Hin|]. apply is_suffixb_spec, Hs.
  - intros [->|(q & r & Hin & Hs)]; [left; reflexivity|].
    right. exists (q, r). split; [exact Hin|]. apply is_suffixb_spec, Hs.
Qed.

Lemma exists_nodeb_false z p : exists_nodeb z p = false <-> ~ exists_node z p.
Proof.
  rewrite <- exists_nodeb_spec. destruct (exists_nodeb z p); split; intro H.
  - discriminate.
  - exfalso. apply H. reflexivity.
  - discriminate.
  - reflexivity.
Qed.

(* existence is closed under taking ancestors *)
Lemma exists_node_anc z p' p : is_suffix p' p -> exists_node z p -> exists_node z p'.
Proof.
  intros Hs [->|(q & r & Hin & Hq)].
  - left. apply is_suffix_of_nil, Hs.
  - right. exists q, r. split; [exact Hin|]. eapply is_suffix_trans; eassumption.
Qed.

Lemma In_recs_at l p t r : In r (recs_at l p t) <-> In (p, r) l /\ zr_type r = t.
Proof.
  unfold recs_at. rewrite in_map_iff. split.
  - intros ([q x] & Hx & Hin). cbn [snd] in Hx. subst x. apply filter_In in Hin as [Hin Hc].
    cbn [fst snd] in Hc. apply andb_true_iff in Hc as [Hq Ht]. apply lleqb_eq in Hq. apply N.eqb_eq in Ht.
    subst q. auto.
  - intros [Hin Ht]. exists (p, r). split; [reflexivity|]. apply filter_In. split; [exact Hin|].
    cbn [fst snd]. rewrite lleqb_refl, Ht, N.eqb_refl. reflexivity.
Qed.

Lemma In_all_at l p r : In r (all_at l p) <-> In (p, r) l.
Proof.
  unfold all_at. rewrite in_map_iff. split.
  - intros ([q x] & Hx & Hin). cbn [snd] in Hx. subst x. apply filter_In in Hin as [Hin Hc].
    cbn [fst] in Hc. apply lleqb_eq in Hc. subst q. exact Hin.
  - intro Hin. exists (p, r). split; [reflexivity|]. apply filter_In. split; [exact Hin|].
    cbn [fst]. apply lleqb_refl.
Qed.

Lemma recs_at_exists z p t : recs_at (f_norm z) p t <> [] -> exists_node z p.
Proof.
  intro H. destruct (recs_at (f_norm z) p t) as [|r rs] eqn:E; [contradiction|].
  assert (Hin : In r (recs_at (f_norm z) p t)) by (rewrite E; left; reflexivity).
  apply In_recs_at in Hin as [Hin _]. right. exists p, r. split; [|apply is_suffix_refl].
  unfold entries. apply in_or_app. left. exact Hin.
Qed.

Lemma recs_at_app a b p t : recs_at (a ++ b) p t = recs_at a p t ++ recs_at b p t.
Proof. unfold recs_at. rewrite filter_app, map_app. reflexivity. Qed.
Lemma all_at_app a b p : all_at (a ++ b) p = all_at a p ++ all_at b p.
Proof. unfold all_at. rewrite filter_app, map_app. reflexivity. Qed.

Lemma of_type_all_at l p t : of_type t (all_at l p) = recs_at l p t.
Proof.
  unfold of_type, all_at, recs_at. induction l as [|[q r] l IH]; [reflexivity|].
  cbn [filter fst snd]. destruct (lleqb q p); cbn [andb map filter snd]; [|exact IH].
  destruct (zr_type r =? t); cbn [map snd]; rewrite IH; reflexivity.
Qed.

Lemma recs_at_add p r l q t :
  recs_at (add_rec p r l) q t
  = if lleqb p q && (zr_type r =? t) then push_new (recs_at l q t) r else recs_at l q t.
Proof.
  unfold add_rec, push_new.
  destruct (lleqb p q && (zr_type r =? t)) eqn:C.
  - apply andb_true_iff in C as [Hp Ht]. apply lleqb_eq in Hp. apply N.eqb_eq in Ht. subst q t.
    destruct (existsb (zrec_eqb r) (recs_at l p (zr_type r))); [reflexivity|].
    rewrite recs_at_app. unfold recs_at at 2. cbn [filter fst snd]. rewrite lleqb_refl, N.eqb_refl. reflexivity.
  - destruct (existsb (zrec_eqb r) (recs_at l p (zr_type r))); [reflexivity|].
    rewrite recs_at_app. unfold recs_at at 2. cbn [filter fst snd]. rewrite C. apply app_nil_r.
Qed.

Lemma In_add_rec x p r l : In x (add_rec p r l) <-> In x l \/ x = (p, r).
Proof.
  unfold add_rec. destruct (existsb (zrec_eqb r) (recs_at l p (zr_type r))) eqn:E.
  - split; [auto|]. intros [H| ->]; [exact H|]. apply existsb_zrec_In, In_recs_at in E. tauto.
  - rewrite in_app_iff. cbn [In]. split; [intros [H|[H|[]]]; auto | intros [H|H]; auto].
Qed.

Lemma In_entries_add x w p r z : In x (entries (fz_add w p r z)) <-> In x (entries z) \/ x = (p, r).
Proof.
  unfold entries, fz_add. destruct w; cbn [f_norm f_wild]; rewrite !in_app_iff, In_add_rec; tauto.
Qed.

Lemma exists_node_add w p r z q : exists_node (fz_add w p r z) q <-> exists_node z q \/ is_suffix q p.
Proof.
  unfold exists_node. split.
  - intros [->|(q' & r' & Hin & Hs)]; [left; left; reflexivity|].
    apply In_entries_add in Hin as [Hin|Heq].
    + left. right. exists q', r'. auto.
    + inversion Heq; subst. right. exact Hs.
  - intros [[->|(q' & r' & Hin & Hs)]|Hs]; [left; reflexivity| |].
    + right. exists q', r'. split; [|exact Hs]. apply In_entries_add. left. exact Hin.
    + right. exists p, r. split; [|exact Hs]. apply In_entries_add. right. reflexivity.
Qed.

Lemma has_wild_spec z p : has_wild z p = true <-> exists r, In (p, r) (f_wild z).
Proof.
  unfold has_wild. rewrite existsb_exists. split.
  - intros ([q r] & Hin & E). cbn [fst] in E. apply lleqb_eq in E. subst q. exists r. exact Hin.
  - intros [r Hin]. exists (p, r). split; [exact Hin|]. apply lleqb_refl.
Qed.

Lemma has_wild_add w p r z q :
  has_wild (fz_add w p r z) q = if w && lleqb p q then true else has_wild z q.
Proof.
  destruct w; cbn [andb fz_add]; [|reflexivity].
  destruct (lleqb p q) eqn:E.
  - apply lleqb_eq in E. subst q. apply has_wild_spec. exists r. cbn [f_wild]. apply In_add_rec. right. reflexivity.
  - destruct (has_wild z q) eqn:H.
    + apply has_wild_spec in H as [r' Hr]. apply has_wild_spec. exists r'. cbn [f_wild]. apply In_add_rec. left. exact Hr.
    + apply not_true_is_false. intro H'. apply has_wild_spec in H' as [r' Hr]. cbn [f_wild] in Hr.
      apply In_add_rec in Hr as [Hr|Heq].
      * assert (has_wild z q = true) by (apply has_wild_spec; eauto). congruence.
      * inversion Heq; subst. rewrite lleqb_refl in E. discriminate.
Qed.

Lemma norm_add w p r z q t :
  recs_at (f_norm (fz_add w p r z)) q t
  = if negb w && lleqb p q && (zr_type r =? t) then push_new (recs_at (f_norm z) q t) r
    else recs_at (f_norm z) q t.
Proof.
  destruct w; cbn [fz_add f_norm negb andb]; [reflexivity|]. apply recs_at_add.
Qed.
Lemma wild_add w p r z q t :
  recs_at (f_wild (fz_add w p r z)) q t
  = if w && lleqb p q && (zr_type r =? t) then push_new (recs_at (f_wild z) q t) r
    else recs_at (f_wild z) q t.
Proof.
  destruct w; cbn [fz_add f_wild andb]; [|reflexivity]. apply recs_at_add.
Qed.

Lemma no_node_no_recs z p : ~ exists_node z p ->
  (forall t, recs_at (f_norm z) p t = []) /\ (forall t, recs_at (f_wild z) p t = []) /\ has_wild z p = false.
Proof.
  intro Hn. repeat split.
  - intro t. destruct (recs_at (f_norm z) p t) eqn:E; [reflexivity|]. exfalso. apply Hn.
    apply (recs_at_exists z p t). rewrite E. discriminate.
  - intro t. destruct (recs_at (f_wild z) p t) as [|r rs] eqn:E; [reflexivity|]. exfalso. apply Hn.
    assert (Hin : In r (recs_at (f_wild z) p t)) by (rewrite E; left; reflexivity).
    apply In_recs_at in Hin as [Hin _]. right. exists p, r. split; [|apply is_suffix_refl].
    unfold entries. apply in_or_app. right. exact Hin.
  - apply not_true_is_false. intro H. apply has_wild_spec in H as [r Hin]. apply Hn.
    right. exists p, r. split; [|apply is_suffix_refl]. unfold entries. apply in_or_app. right. exact Hin.
Qed.

(* ================= names ================= *)

Lemma wf_labels_suffix a b : wf_labels (a ++ b) -> b <> [] -> wf_labels b.
Proof.
  intros (front & Heq & Hf & Hs) Hb.
  destruct (exists_last Hb) as (b' & x & ->).
  rewrite app_assoc in Heq. apply app_inj_tail in Heq as [Hfront ->].
  exists b'. split; [reflexivity|]. split.
  - rewrite <- Hfront in Hf. apply Forall_app in Hf. tauto.
  - rewrite sum_lens_app in Hs. lia.
Qed.

Lemma from_labels_mkname ls : wf_labels ls -> from_labels ls = Some (mkname ls).
Proof.
  intro Hw. destruct (wf_labels_from_labels ls Hw) as [n Hn]. rewrite Hn. f_equal.
  apply from_labels_inv in Hn as (Hl & Hlen & _). destruct n as [l k]. cbn [labels nlen] in *. subst. reflexivity.
Qed.

Lemma rev_prefix {A} (a b : list A) : is_suffix (rev a) (rev b) -> exists c, b = a ++ c.
Proof.
  intros [pre H]. exists (rev pre). rewrite <- (rev_involutive b), H, rev_app_distr, rev_involutive. reflexivity.
Qed.

Lemma is_suffix_rev_app {A} (a c : list A) : is_suffix (rev a) (rev (a ++ c)).
Proof. rewrite rev_app_distr. apply is_suffix_app. Qed.

Lemma diverge_not_suffix {A} (pre : list A) l l' x y :
  l' <> l -> ~ is_suffix (rev (pre ++ l' :: x)) (rev (pre ++ l :: y)).
Proof.
  intros Hne H. apply rev_prefix in H as [c H]. rewrite <- app_assoc in H. apply app_inv_head in H.
  cbn [app] in H. inversion H. congruence.
Qed.

Lemma longer_not_suffix {A} (pre : list A) l x : ~ is_suffix (rev (pre ++ l :: x)) (rev pre).
Proof.
  intro H. apply is_suffix_length in H. rewrite !rev_length, app_length in H. cbn [length] in H. lia.
Qed.

(* ================= the abstraction relation ================= *)

Fixpoint node_at (rq : list label) (nd : node) : option node :=
  match rq with
  | [] => Some nd
  | l :: rest => match alookup leqb l (n_children nd) with
                 | Some c => node_at rest c
                 | None => None
                 end
  end.

Definition wmap (n : node) : rmap := match n_wild n with Some w => w | None => [] end.
Definition is_some {A} (o : option A) : bool := match o with Some _ => true | None => false end.

(* the node reached by the (reversed) path rq holds the flat zone's records at rq *)
Record node_ok (apexl : list label) (z : fzone) (rq : list label) (n : node) : Prop := {
  ok_nsd : n_nsdname n = mkname (rev rq ++ apexl);
  ok_this_wf : wf_rmap (n_this n);
  ok_this : forall t, rget t (n_this n) = recs_at (f_norm z) (rev rq) t;
  ok_wild_wf : wf_rmap (wmap n);
  ok_wild : forall t, rget t (wmap n) = recs_at (f_wild z) (rev rq) t;
  ok_has_wild : is_some (n_wild n) = has_wild z (rev rq) }.

Definition entry (apexl pre : list label) (z : fzone) (rq : list label) (o : option node) : Prop :=
  match o with
  | Some n => (rq <> [] -> exists_node z (rev (pre ++ rq))) /\ node_ok apexl z (pre ++ rq) n
  | None => ~ exists_node z (rev (pre ++ rq))
  end.

(* [nd] is the subtree at path [pre] of a tree representing [z] *)
Definition Rsub (apexl pre : list label) (nd : node) (z : fzone) : Prop :=
  forall rq, entry apexl pre z rq (node_at rq nd).
Definition R (apexl : list label) (nd : node) (z : fzone) : Prop := Rsub apexl [] nd z.

Lemma node_ok_ext apexl z rq n n' :
  n_nsdname n' = n_nsdname n -> n_this n' = n_this n -> n_wild n' = n_wild n ->
  node_ok apexl z rq n -> node_ok apexl z rq n'.
Proof.
  intros H1 H2 H3 [A B C D E F]. unfold wmap in *.
  constructor; unfold wmap; rewrite ?H1, ?H2, ?H3; assumption.
Qed.

Lemma node_ok_add_other apexl z rq n w p r :
  rev rq <> p -> node_ok apexl z rq n -> node_ok apexl (fz_add w p r z) rq n.
Proof.
  intros Hne [A B C D E F].
  assert (Hl : lleqb p (rev rq) = false) by (apply lleqb_false; congruence).
  constructor; try assumption.
  - intro t. rewrite norm_add, Hl, andb_false_r. apply C.
  - intro t. rewrite wild_add, Hl, andb_false_r. apply E.
  - rewrite has_wild_add, Hl, andb_false_r. exact F.
Qed.

Lemma entry_transfer apexl pre z rq o w p r :
  entry apexl pre z rq o ->
  (is_some o = true -> rev (pre ++ rq) <> p) ->
  (o = None -> ~ is_suffix (rev (pre ++ rq)) p) ->
  entry apexl pre (fz_add w p r z) rq o.
Proof.
  destruct o as [n|]; cbn [entry is_some]; intros H Hs Hn.
  - destruct H as [Hex Hok]. split.
    + intro Hrq. apply exists_node_add. left. exact (Hex Hrq).
    + apply node_ok_add_other; [apply Hs; reflexivity|exact Hok].
  - intro Hex. apply exists_node_add in Hex as [Hex|Hex]; [exact (H Hex)|exact (Hn eq_refl Hex)].
Qed.

Lemma entry_shift apexl pre z l rq o :
  entry apexl (pre ++ [l]) z rq o -> exists_node z (rev (pre ++ [l])) -> entry apexl pre z (l :: rq) o.
Proof.
  unfold entry. rewrite <- app_assoc. cbn [app]. destruct o as [n|]; [|auto].
  intros [Hex Hok] Hl. split; [|exact Hok]. intros _.
  destruct rq as [|x rq]; [exact Hl|]. apply Hex. discriminate.
Qed.

Lemma Rsub_child apexl pre nd z l c :
  Rsub apexl pre nd z -> alookup leqb l (n_children nd) = Some c -> Rsub apexl (pre ++ [l]) c z.
Proof.
  intros H Hl rq. specialize (H (l :: rq)). cbn [node_at] in H. rewrite Hl in H.
  unfold entry in *. rewrite <- app_assoc. cbn [app].
  destruct (node_at rq c) as [n|]; [|exact H]. destruct H as [Hex Hok]. split; [|exact Hok].
  intros _. apply Hex. discriminate.
Qed.

Lemma Rsub_fresh apexl pre z :
  ~ exists_node z (rev pre) -> Rsub apexl pre (node_new (mkname (rev pre ++ apexl))) z.
Proof.
  intros Hn [|l rq]; cbn [node_at node_new n_children alookup entry].
  - rewrite app_nil_r. split; [intro H; contradiction|].
    destruct (no_node_no_recs z (rev pre) Hn) as (Hnorm & Hwild & Hhas).
    constructor; cbn [n_nsdname n_this n_wild wmap is_some]; auto using wf_rmap_nil.
  - intro Hex. apply Hn. eapply exists_node_anc; [|exact Hex]. apply is_suffix_rev_app.
Qed.

(* Zone::new *)
Lemma R_zone_new apex s : nlen apex = sum_lens (labels apex) ->
  R (labels apex) (z_records (zone_new apex s)) (fz_init s).
Proof.
  intros Hlen rq. destruct apex as [al an]. cbn [labels nlen] in *. subst an.
  destruct rq as [|l rq].
  - cbn [node_at entry app rev]. split; [intro H; contradiction|].
    destruct s as [so|]; cbn [zone_new z_records fz_init].
    + constructor; cbn [n_nsdname n_this n_wild wmap is_some f_norm f_wild rev app]; try reflexivity;
        try apply wf_rmap_nil.
      * apply (wf_rmap_insert [] _ wf_rmap_nil).
      * intro t. rewrite rget_insert. unfold recs_at, fz_init, soa_zrec, rget, push_new.
        cbn [f_norm filter fst snd lleqb zr_type alookup existsb andb map app].
        destruct (RT_SOA =? t); reflexivity.
    + constructor; cbn [node_new n_nsdname n_this n_wild wmap is_some f_norm f_wild rev app]; try reflexivity;
        apply wf_rmap_nil.
  - cbn [app]. assert (Hnone : node_at (l :: rq) (z_records (zone_new {| labels := al; nlen := sum_lens al |} s)) = None).
    { destruct s; reflexivity. }
    rewrite Hnone. cbn [entry]. intros [H|(q & r & Hin & Hs)].
    + cbn [rev] in H. apply app_eq_nil in H as [_ H]. discriminate.
    + destruct s as [so|]; cbn [fz_init entries f_norm f_wild app In] in Hin; [|contradiction].
      destruct Hin as [Hin|[]]. inversion Hin; subst. apply is_suffix_of_nil in Hs.
      cbn [rev] in Hs. apply app_eq_nil in Hs as [_ Hs]. discriminate.
Qed.

(* ================= insert / insert_wildcard ================= *)

Lemma insert_step apexl pre nd z w r l rest child' children' :
  Rsub apexl pre nd z ->
  Rsub apexl (pre ++ [l]) child' (fz_add w (rev (pre ++ l :: rest)) r z) ->
  alookup leqb l children' = Some child' ->
  (forall l', l' <> l -> alookup leqb l' children' = alookup leqb l' (n_children nd)) ->
  Rsub apexl pre (Node (n_nsdname nd) (n_this nd) (n_wild nd) children') (fz_add w (rev (pre ++ l :: rest)) r z).
Proof.
  intros H Hc Hl Hother rq. destruct rq as [|l' rq].
  - cbn [node_at]. specialize (H []). cbn [node_at] in H.
    destruct H as [_ Hok]. split; [intro F; contradiction|].
    apply node_ok_add_other.
    + rewrite app_nil_r. intro E. apply (f_equal (@length _)) in E.
      rewrite !rev_length, app_length in E. cbn [length] in E. lia.
    + eapply node_ok_ext; [| | |exact Hok]; reflexivity.
  - cbn [node_at n_children]. destruct (list_eq_dec N.eq_dec l' l) as [->|Hne].
    + rewrite Hl. apply entry_shift; [apply Hc|].
      apply exists_node_add. right.
      replace (pre ++ l :: rest) with ((pre ++ [l]) ++ rest) by (rewrite <- app_assoc; reflexivity).
      apply is_suffix_rev_app.
    + rewrite (Hother l' Hne). specialize (H (l' :: rq)). cbn [node_at] in H.
      apply entry_transfer; [exact H| |].
      * intros _ E. apply (diverge_not_suffix pre l l' rq rest Hne). rewrite E. apply is_suffix_refl.
      * intros _. apply diverge_not_suffix. exact Hne.
Qed.

Lemma insert_Rsub apexl w r z : forall rp pre nd,
  Rsub apexl pre nd z -> wf_labels (rev (pre ++ rp) ++ apexl) ->
  exists nd', node_insert w rp r nd = Ok nd' /\ Rsub apexl pre nd' (fz_add w (rev (pre ++ rp)) r z).
Proof.
  induction rp as [|l rest IH]; intros pre nd H Hwf.
  - rewrite app_nil_r. cbn [node_insert].
    pose proof (H []) as H0. cbn [node_at entry] in H0. destruct H0 as [_ [A B C D E F]].
    rewrite app_nil_r in *.
    assert (Hrest : forall l rq o, o = node_at (l :: rq) nd -> entry apexl pre (fz_add w (rev pre) r z) (l :: rq) o).
    { intros l rq o ->. apply entry_transfer; [apply H| |]; intros _.
      - intro E'. apply (longer_not_suffix pre l rq). rewrite E'. apply is_suffix_refl.
      - apply longer_not_suffix. }
    destruct w; (eexists; split; [reflexivity|]); unfold Rsub; (intros [|l rq]; [|apply Hrest; reflexivity]).
    all: cbn [node_at entry]; rewrite app_nil_r.
    all: split; [intro X; contradiction|].
    all: constructor; cbn [n_nsdname n_this n_wild wmap is_some]; try assumption.
    + apply wf_rmap_insert. exact D.
    + intro t. rewrite rget_insert, wild_add, lleqb_refl. cbn [andb]. fold (wmap nd). rewrite E. reflexivity.
    + rewrite has_wild_add, lleqb_refl. reflexivity.
    + apply wf_rmap_insert. exact B.
    + intro t. rewrite rget_insert, norm_add, lleqb_refl. cbn [negb andb]. rewrite C. reflexivity.
  - pose proof (H []) as H0. cbn [node_at entry] in H0. destruct H0 as [_ Hok0].
    pose proof (ok_nsd _ _ _ _ Hok0) as Hnsd. rewrite app_nil_r in Hnsd.
    assert (Hsub : wf_labels (rev (pre ++ [l]) ++ apexl)).
    { replace (pre ++ l :: rest) with ((pre ++ [l]) ++ rest) in Hwf by (rewrite <- app_assoc; reflexivity).
      rewrite rev_app_distr, <- app_assoc in Hwf. apply wf_labels_suffix in Hwf; [exact Hwf|].
      rewrite rev_app_distr. discriminate. }
    cbn [node_insert]. destruct (alookup leqb l (n_children nd)) as [child|] eqn:El.
    + pose proof (Rsub_child _ _ _ _ _ _ H El) as Hc.
      destruct (IH (pre ++ [l]) child Hc) as (child' & Hins & HR').
      { rewrite <- app_assoc. exact Hwf. }
      rewrite Hins. cbn [bind]. eexists. split; [reflexivity|].
      rewrite <- app_assoc in HR'. cbn [app] in HR'.
      apply insert_step with (child' := child'); [exact H|exact HR'| |].
      * eapply (alookup_areplace_same leqb); exact El.
      * intros l' Hne. apply (alookup_areplace_other leqb leqb_eq). exact Hne.
    + assert (Hfl : from_labels (l :: labels (n_nsdname nd)) = Some (mkname (rev (pre ++ [l]) ++ apexl))).
      { rewrite Hnsd. cbn [mkname labels]. rewrite <- (from_labels_mkname _ Hsub).
        rewrite rev_app_distr. reflexivity. }
      rewrite Hfl.
      assert (Hno : ~ exists_node z (rev (pre ++ [l]))).
      { specialize (H [l]). cbn [node_at] in H. rewrite El in H. exact H. }
      pose proof (Rsub_fresh apexl (pre ++ [l]) z Hno) as Hc.
      destruct (IH (pre ++ [l]) _ Hc) as (child' & Hins & HR').
      { rewrite <- app_assoc. exact Hwf. }
      rewrite Hins. cbn [bind]. eexists. split; [reflexivity|].
      rewrite <- app_assoc in HR'. cbn [app] in HR'.
      apply insert_step with (child' := child'); [exact H|exact HR'| |].
      * apply (alookup_app_new leqb leqb_eq). exact El.
      * intros l' Hne. apply (alookup_app_other leqb leqb_eq). exact Hne.
Qed.

(* ================= zone_result_helper ================= *)

Definition cname_ok (rs : list zrec) : Prop :=
  forall r, In r rs -> zr_type r = RT_CNAME -> exists c, zr_data r = RD_Name c.

Lemma zres_equiv_refl r : zres_equiv r r.
Proof. destruct r; cbn [zres_equiv]; auto. Qed.

Lemma filter_true {A} (l : list A) : filter (fun _ => true) l = l.
Proof. induction l as [|x l IH]; cbn [filter]; [reflexivity|]. rewrite IH. reflexivity. Qed.
Lemma filter_false {A} (l : list A) : filter (fun _ => false) l = [].
Proof. induction l as [|x l IH]; cbn [filter]; [reflexivity|exact IH]. Qed.
Lemma filter_comm {A} (f g : A -> bool) l : filter f (filter g l) = filter g (filter f l).
Proof.
  induction l as [|x l IH]; cbn [filter]; [reflexivity|].
  destruct (f x) eqn:Ef, (g x) eqn:Eg; cbn [filter]; rewrite ?Ef, ?Eg, IH; reflexivity.
Qed.

Lemma helper_deleg name qt m nsd cd :
  zone_result_helper name qt m nsd cd
  = if cd && negb (is_nil (rget RT_NS m)) && negb (qt =? RT_NS)
    then Ok (ZDelegation (map (fun z => zr_to_rr z nsd) (rget RT_NS m)))
    else zone_result_helper name qt m nsd false.
Proof.
  unfold zone_result_helper. fold (rget RT_NS m).
  destruct cd; cbn [andb]; [|reflexivity].
  destruct (qt =? RT_NS), (is_nil (rget RT_NS m)); reflexivity.
Qed.

Lemma In_flat_rget r m : wf_rmap m -> In r (flat_map snd m) <-> In r (rget (zr_type r) m).
Proof.
  intro Hwf. rewrite <- (of_type_flat _ _ Hwf). unfold of_type. rewrite filter_In, N.eqb_refl. tauto.
Qed.

Lemma helper_classify name qt m nsd : wf_rmap m -> cname_ok (flat_map snd m) ->
  zone_result_helper name qt m nsd false = Ok (classify name qt (flat_map snd m)).
Proof.
  intros Hwf Hcn. unfold zone_result_helper, classify. cbn [andb].
  fold (rget RT_CNAME m). rewrite (of_type_flat RT_CNAME m Hwf).
  destruct (rtype_matches RT_CNAME qt) eqn:Em; cbn [negb].
  - unfold rtype_matches in *. destruct (qt =? QT_Wildcard) eqn:Ew.
    + rewrite flat_map_map_snd, filter_true. reflexivity.
    + destruct (existsb (fun p => fst p =? qt) qtype_table) eqn:Es; [discriminate|].
      cbv beta iota. change (filter (fun r => zr_type r =? qt) (flat_map snd m)) with (of_type qt (flat_map snd m)).
      rewrite (of_type_flat qt m Hwf). unfold rget. destruct (alookup N.eqb qt m); reflexivity.
  - destruct (rget RT_CNAME m) as [|r rs] eqn:Ec.
    + unfold rtype_matches in *. destruct (qt =? QT_Wildcard) eqn:Ew; [discriminate|].
      destruct (existsb (fun p => fst p =? qt) qtype_table) eqn:Es.
      * rewrite filter_false. reflexivity.
      * cbv beta iota. change (filter (fun r => zr_type r =? qt) (flat_map snd m)) with (of_type qt (flat_map snd m)).
        rewrite (of_type_flat qt m Hwf). unfold rget. destruct (alookup N.eqb qt m); reflexivity.
    + assert (Hin : In r (rget RT_CNAME m)) by (rewrite Ec; left; reflexivity).
      destruct (wf_rmap_get RT_CNAME m Hwf) as [Hty _]. rewrite Forall_forall in Hty. pose proof (Hty r Hin) as Ht.
      destruct (Hcn r) as [c Hc]; [apply In_flat_rget; [exact Hwf|rewrite Ht; exact Hin]|exact Ht|].
      rewrite Hc. reflexivity.
Qed.

Lemma filter_map_type name t l :
  filter (fun x => rr_type x =? t) (map (fun r => zr_to_rr r name) l) = map (fun r => zr_to_rr r name) (of_type t l).
Proof.
  unfold of_type. induction l as [|r l IH]; cbn [map filter zr_to_rr rr_type]; [reflexivity|].
  destruct (zr_type r =? t); cbn [map]; rewrite IH; reflexivity.
Qed.

Lemma classify_equiv name qt rs rs' : (forall t, of_type t rs = of_type t rs') ->
  zres_equiv (classify name qt rs) (classify name qt rs') /\
  (qt <> QT_Wildcard -> classify name qt rs = classify name qt rs').
Proof.
  intro H. unfold classify. rewrite (H RT_CNAME).
  destruct (if rtype_matches RT_CNAME qt then [] else of_type RT_CNAME rs') as [|r l].
  - split.
    + cbn [zres_equiv]. intro t. rewrite !filter_map_type. f_equal.
      unfold of_type. rewrite (filter_comm _ _ rs), (filter_comm _ _ rs'). f_equal. apply H.
    + intro Hq. do 2 f_equal. unfold rtype_matches.
      destruct (N.eqb_spec qt QT_Wildcard) as [->|_]; [contradiction|].
      destruct (existsb (fun p => fst p =? qt) qtype_table); [rewrite !filter_false; reflexivity|].
      apply H.
  - split; [apply zres_equiv_refl|reflexivity].
Qed.

(* ================= descent ================= *)

(* what ZoneRecords::resolve does at the deepest node it reaches *)
Definition final (name : dname) (qt : N) (n : node) (rem : list label) (at_apex : bool) : res unit zresult :=
  match rem with
  | [] => zone_result_helper name qt (n_this n) (n_nsdname n) (negb at_apex)
  | l :: _ =>
    match n_wild n with
    | Some ws =>
      match from_labels (l :: labels (n_nsdname n)) with
      | Some nsd => zone_result_helper name qt ws nsd true
      | None => Panic
      end
    | None =>
      match alookup N.eqb RT_NS (n_this n) with
      | Some ns_zrs =>
        if is_nil ns_zrs || at_apex then Ok ZNameError
        else Ok (ZDelegation (map (fun z => zr_to_rr z (n_nsdname n)) ns_zrs))
      | None => Ok ZNameError
      end
    end
  end.

Lemma resolve_descend name qt : forall rp nd fl,
  exists pre rem n, rp = pre ++ rem /\ node_at pre nd = Some n /\
    match rem with [] => True | l :: _ => node_at (pre ++ [l]) nd = None end /\
    node_resolve name qt rp nd fl = final name qt n rem (fl && is_nil pre).
Proof.
  induction rp as [|l rest IH]; intros nd fl.
  - exists [], [], nd. cbn [app node_at node_resolve final is_nil]. rewrite andb_true_r. auto.
  - cbn [node_resolve]. destruct (alookup leqb l (n_children nd)) as [c|] eqn:El.
    + destruct (IH c false) as (pre & rem & n & -> & Hat & Hrem & Hres).
      exists (l :: pre), rem, n. cbn [app node_at is_nil]. rewrite El, andb_false_r. cbn [andb] in Hres. auto.
    + exists [], (l :: rest), nd. cbn [app node_at final is_nil]. rewrite El, andb_true_r. auto.
Qed.

(* ================= resolve ================= *)

Definition recs_ok (z : fzone) : Prop :=
  forall q r, In (q, r) (entries z) -> zr_type r = RT_CNAME -> exists c, zr_data r = RD_Name c.

Lemma In_ancestors c p : In c (ancestors p) <-> c <> [] /\ is_suffix c p.
Proof.
  induction p as [|x t IH]; cbn [ancestors In].
  - split; [intros []|]. intros [Hc Hs]. apply is_suffix_of_nil in Hs. contradiction.
  - rewrite in_app_iff, IH. cbn [In]. split.
    + intros [[Hc Hs]|[<-|[]]]; [split; [exact Hc|apply is_suffix_cons, Hs]|split; [discriminate|apply is_suffix_refl]].
    + intros [Hc Hs]. apply is_suffix_cons_inv in Hs as [->|Hs]; auto.
Qed.

Lemma ancestors_app a b : ancestors (a ++ b) = ancestors b ++ map (fun x => x ++ b) (ancestors a).
Proof.
  induction a as [|x a IH]; cbn [app ancestors map]; [symmetry; apply app_nil_r|].
  rewrite IH, map_app, <- app_assoc. reflexivity.
Qed.

Lemma find_none_all {A} (f : A -> bool) l : (forall x, In x l -> f x = false) -> find f l = None.
Proof.
  induction l as [|x l IH]; intro H; cbn [find]; [reflexivity|].
  rewrite (H x (or_introl eq_refl)). apply IH. intros y Hy. apply H. right. exact Hy.
Qed.

Lemma find_app {A} (f : A -> bool) a b :
  find f (a ++ b) = match find f a with Some x => Some x | None => find f b end.
Proof.
  induction a as [|x a IH]; cbn [app find]; [reflexivity|]. destruct (f x); [reflexivity|exact IH].
Qed.

Lemma find_at_e (f : path -> bool) e more :
  (forall c, In c (ancestors e) -> c <> e -> f c = false) ->
  (forall c, In c more -> f c = false) ->
  find f (ancestors e ++ more) = if negb (is_nil e) && f e then Some e else None.
Proof.
  intros Ha Hm. destruct e as [|a t]; cbn [ancestors is_nil negb andb app].
  - apply find_none_all. exact Hm.
  - rewrite <- app_assoc, find_app, find_none_all.
    + cbn [app find]. destruct (f (a :: t)); [reflexivity|]. apply find_none_all. exact Hm.
    + intros c Hc. apply Ha.
      * cbn [ancestors]. apply in_or_app. left. exact Hc.
      * intros ->. apply In_ancestors in Hc as [_ Hs]. apply is_suffix_length in Hs. cbn [length] in Hs. lia.
Qed.

Lemma suffix_snoc {A} (c x : list A) l : c <> [] -> is_suffix c (x ++ [l]) -> exists c', c = c' ++ [l].
Proof.
  intros Hc [pre H]. destruct (exists_last Hc) as (c' & y & ->).
  rewrite app_assoc in H. apply app_inj_tail in H as [_ ->]. exists c'. reflexivity.
Qed.

Lemma wild_source_spec z l e : exists_node z e -> ~ exists_node z (l :: e) ->
  forall x, wild_source z (x ++ l :: e) = Some (l, e).
Proof.
  intros He Hn. induction x as [|a x IH]; cbn [app wild_source].
  - apply exists_nodeb_spec in He. rewrite He. reflexivity.
  - assert (Hx : exists_nodeb z (x ++ l :: e) = false).
    { apply exists_nodeb_false. intro H. apply Hn. eapply exists_node_anc; [|exact H]. apply is_suffix_app. }
    rewrite Hx. exact IH.
Qed.

(* D1: nothing at a proper ancestor of an existing name holds NS *)
Lemma no_ns_above z e c :
  no_occlusion z -> exists_node z e -> c <> [] -> is_suffix c e -> c <> e -> recs_at (f_norm z) c RT_NS = [].
Proof.
  intros Hd He Hc Hs Hne. destruct (recs_at (f_norm z) c RT_NS) as [|r rs] eqn:E; [reflexivity|]. exfalso.
  assert (Hin : In r (recs_at (f_norm z) c RT_NS)) by (rewrite E; left; reflexivity).
  apply In_recs_at in Hin as [Hin Ht]. destruct (Hd c r Hc Hin Ht) as [Hnorm Hwild].
  destruct He as [->|(q & r' & Hq & Hsq)]; [apply is_suffix_of_nil in Hs; contradiction|].
  assert (Hcq : is_suffix c q) by (eapply is_suffix_trans; eassumption).
  unfold entries in Hq. apply in_app_or in Hq as [Hq|Hq].
  - pose proof (Hnorm q r' Hq Hcq) as ->. apply Hne. apply is_suffix_antisym; assumption.
  - exact (Hwild q r' Hq Hcq).
Qed.

(* D1: a non-apex name with a wildcard below it holds no NS *)
Lemma no_ns_with_wild z e :
  no_occlusion z -> e <> [] -> has_wild z e = true -> recs_at (f_norm z) e RT_NS = [].
Proof.
  intros Hd He Hw. destruct (recs_at (f_norm z) e RT_NS) as [|r rs] eqn:E; [reflexivity|]. exfalso.
  assert (Hin : In r (recs_at (f_norm z) e RT_NS)) by (rewrite E; left; reflexivity).
  apply In_recs_at in Hin as [Hin Ht]. destruct (Hd e r He Hin Ht) as [_ Hwild].
  apply has_wild_spec in Hw as [r' Hr']. exact (Hwild e r' Hr' (is_suffix_refl e)).
Qed.

Lemma is_cut_no_ns z p qt c : recs_at (f_norm z) c RT_NS = [] -> is_cut z p qt c = false.
Proof. intro H. unfold is_cut. rewrite H. reflexivity. Qed.

Lemma node_ok_cname_this apexl z rq n : node_ok apexl z rq n -> recs_ok z -> cname_ok (flat_map snd (n_this n)).
Proof.
  intros Hok Hz r Hin Ht. apply (In_flat_rget _ _ (ok_this_wf _ _ _ _ Hok)) in Hin.
  rewrite (ok_this _ _ _ _ Hok) in Hin. apply In_recs_at in Hin as [Hin _].
  apply (Hz (rev rq) r); [|exact Ht]. unfold entries. apply in_or_app. left. exact Hin.
Qed.
Lemma node_ok_cname_wild apexl z rq n : node_ok apexl z rq n -> recs_ok z -> cname_ok (flat_map snd (wmap n)).
Proof.
  intros Hok Hz r Hin Ht. apply (In_flat_rget _ _ (ok_wild_wf _ _ _ _ Hok)) in Hin.
  rewrite (ok_wild _ _ _ _ Hok) in Hin. apply In_recs_at in Hin as [Hin _].
  apply (Hz (rev rq) r); [|exact Ht]. unfold entries. apply in_or_app. right. exact Hin.
Qed.

Lemma node_ok_of_type_this apexl z rq n : node_ok apexl z rq n ->
  forall t, of_type t (flat_map snd (n_this n)) = of_type t (all_at (f_norm z) (rev rq)).
Proof. intros Hok t. rewrite (of_type_flat _ _ (ok_this_wf _ _ _ _ Hok)), of_type_all_at. apply (ok_this _ _ _ _ Hok). Qed.
Lemma node_ok_of_type_wild apexl z rq n : node_ok apexl z rq n ->
  forall t, of_type t (flat_map snd (wmap n)) = of_type t (all_at (f_wild z) (rev rq)).
Proof. intros Hok t. rewrite (of_type_flat _ _ (ok_wild_wf _ _ _ _ Hok)), of_type_all_at. apply (ok_wild _ _ _ _ Hok). Qed.

Lemma self_app_ne {A} (e x : list A) l : e <> x ++ l :: e.
Proof. intro E. apply (f_equal (@length A)) in E. rewrite app_length in E. cbn [length] in E. lia. Qed.

(* ---- the flat lookup, by cases on the closest existing name (under D1) ---- *)

Definition deleg (owner : list label) (ns : list zrec) : zresult :=
  ZDelegation (map (fun r => zr_to_rr r (mkname owner)) ns).

Lemma flat_exists apexl z name e qt :
  no_occlusion z -> exists_node z e ->
  flat_resolve apexl z name e qt
  = if negb (is_nil e) && (negb (is_nil (recs_at (f_norm z) e RT_NS)) && negb (qt =? RT_NS))
    then deleg (e ++ apexl) (recs_at (f_norm z) e RT_NS)
    else classify name qt (all_at (f_norm z) e).
Proof.
  intros Hd He. unfold flat_resolve, deleg.
  rewrite <- (app_nil_r (ancestors e)), find_at_e.
  - unfold is_cut. rewrite lleqb_refl. cbn [andb]. apply exists_nodeb_spec in He. rewrite He.
    destruct (negb (is_nil e) && (negb (is_nil (recs_at (f_norm z) e RT_NS)) && negb (qt =? RT_NS))); reflexivity.
  - intros c Hc Hne. apply In_ancestors in Hc as [Hc Hs]. apply is_cut_no_ns. eapply no_ns_above; eassumption.
  - intros c [].
Qed.

Lemma flat_missing apexl z name e l x qt :
  no_occlusion z -> exists_node z e -> ~ exists_node z (l :: e) ->
  flat_resolve apexl z name (x ++ l :: e) qt
  = if negb (is_nil e) && negb (is_nil (recs_at (f_norm z) e RT_NS))
    then deleg (e ++ apexl) (recs_at (f_norm z) e RT_NS)
    else if has_wild z e
         then if negb (is_nil (of_type RT_NS (all_at (f_wild z) e))) && negb (qt =? RT_NS)
              then deleg (l :: e ++ apexl) (of_type RT_NS (all_at (f_wild z) e))
              else classify name qt (all_at (f_wild z) e)
         else ZNameError.
Proof.
  intros Hd He Hn. unfold flat_resolve, deleg.
  assert (Hbelow : forall y, ~ exists_node z (y ++ l :: e)).
  { intros y H. apply Hn. eapply exists_node_anc; [|exact H]. apply is_suffix_app. }
  replace (x ++ l :: e) with ((x ++ [l]) ++ e) at 2 by (rewrite <- app_assoc; reflexivity).
  rewrite ancestors_app, find_at_e.
  - assert (Hne : lleqb e (x ++ l :: e) = false).
    { apply lleqb_false. apply self_app_ne. }
    unfold is_cut at 1. rewrite Hne. cbn [andb negb]. rewrite andb_true_r.
    destruct (negb (is_nil e) && negb (is_nil (recs_at (f_norm z) e RT_NS))); [reflexivity|].
    assert (Hx : exists_nodeb z (x ++ l :: e) = false) by (apply exists_nodeb_false, Hbelow).
    rewrite Hx, (wild_source_spec z l e He Hn x). reflexivity.
  - intros c Hc Hne. apply In_ancestors in Hc as [Hc Hs]. apply is_cut_no_ns. eapply no_ns_above; eassumption.
  - intros c Hc. apply in_map_iff in Hc as (c0 & <- & Hc0). apply In_ancestors in Hc0 as [Hc0 Hs].
    destruct (suffix_snoc c0 x l Hc0 Hs) as [c' ->]. rewrite <- app_assoc. cbn [app].
    apply is_cut_no_ns. apply (no_node_no_recs z _ (Hbelow c')).
Qed.

(* ---- the tree's last step, by the same cases ---- *)

Lemma is_nil_rev {A} (l : list A) : is_nil (rev l) = is_nil l.
Proof.
  destruct l as [|x l]; [reflexivity|]. cbn [rev is_nil]. destruct (rev l ++ [x]) eqn:E; [|reflexivity].
  apply app_eq_nil in E as [_ E]. discriminate.
Qed.

Lemma tree_exists apexl z name pre n qt :
  node_ok apexl z pre n -> recs_ok z ->
  exists r, final name qt n [] (is_nil pre) = Ok r /\
    let f := if negb (is_nil (rev pre)) && (negb (is_nil (recs_at (f_norm z) (rev pre) RT_NS)) && negb (qt =? RT_NS))
             then deleg (rev pre ++ apexl) (recs_at (f_norm z) (rev pre) RT_NS)
             else classify name qt (all_at (f_norm z) (rev pre)) in
    zres_equiv r f /\ (qt <> QT_Wildcard -> r = f).
Proof.
  intros Hok Hz. cbn [final]. rewrite helper_deleg, (ok_this _ _ _ _ Hok), (ok_nsd _ _ _ _ Hok), is_nil_rev, <- andb_assoc.
  destruct (negb (is_nil pre) && (negb (is_nil (recs_at (f_norm z) (rev pre) RT_NS)) && negb (qt =? RT_NS))).
  - eexists. split; [reflexivity|]. cbv zeta. unfold deleg. split; [apply zres_equiv_refl|reflexivity].
  - rewrite helper_classify; [|exact (ok_this_wf _ _ _ _ Hok)|eapply node_ok_cname_this; eassumption].
    eexists. split; [reflexivity|]. cbv zeta. apply classify_equiv. eapply node_ok_of_type_this. exact Hok.
Qed.

Lemma tree_missing apexl z name pre n l rem qt :
  node_ok apexl z pre n -> recs_ok z -> no_occlusion z -> wf_labels (l :: rev pre ++ apexl) ->
  exists r, final name qt n (l :: rem) (is_nil pre) = Ok r /\
    let e := rev pre in
    let f := if negb (is_nil e) && negb (is_nil (recs_at (f_norm z) e RT_NS))
             then deleg (e ++ apexl) (recs_at (f_norm z) e RT_NS)
             else if has_wild z e
                  then if negb (is_nil (of_type RT_NS (all_at (f_wild z) e))) && negb (qt =? RT_NS)
                       then deleg (l :: e ++ apexl) (of_type RT_NS (all_at (f_wild z) e))
                       else classify name qt (all_at (f_wild z) e)
                  else ZNameError in
    zres_equiv r f /\ (qt <> QT_Wildcard -> r = f).
Proof.
  intros Hok Hz Hd Hwf. cbv zeta. cbn [final].
  pose proof (ok_has_wild _ _ _ _ Hok) as Hhw. pose proof (ok_nsd _ _ _ _ Hok) as Hnsd.
  destruct (n_wild n) as [ws|] eqn:Ew; cbn [is_some] in Hhw; rewrite <- Hhw.
  - (* wildcards here: by D1 no NS here unless this is the apex *)
    assert (Hnons : negb (is_nil (rev pre)) && negb (is_nil (recs_at (f_norm z) (rev pre) RT_NS)) = false).
    { destruct (is_nil (rev pre)) eqn:En; [reflexivity|]. cbn [negb andb].
      rewrite (no_ns_with_wild z (rev pre) Hd); [reflexivity| |symmetry; exact Hhw].
      intro E. rewrite E in En. discriminate. }
    rewrite Hnons. rewrite Hnsd. cbn [mkname labels]. rewrite (from_labels_mkname _ Hwf).
    assert (Hws : wmap n = ws) by (unfold wmap; rewrite Ew; reflexivity).
    rewrite helper_deleg. cbn [andb]. rewrite <- Hws, (ok_wild _ _ _ _ Hok), <- of_type_all_at.
    destruct (negb (is_nil (of_type RT_NS (all_at (f_wild z) (rev pre)))) && negb (qt =? RT_NS)).
    + eexists. split; [reflexivity|]. unfold deleg. split; [apply zres_equiv_refl|reflexivity].
    + rewrite helper_classify; [|exact (ok_wild_wf _ _ _ _ Hok)|eapply node_ok_cname_wild; eassumption].
      eexists. split; [reflexivity|]. apply classify_equiv. eapply node_ok_of_type_wild. exact Hok.
  - rewrite <- (ok_this _ _ _ _ Hok RT_NS), is_nil_rev. unfold rget.
    destruct (alookup N.eqb RT_NS (n_this n)) as [ns|]; cbn [is_nil negb andb].
    + rewrite andb_comm, <- negb_orb.
      destruct (is_nil ns || is_nil pre); cbn [negb].
      * eexists. split; [reflexivity|]. split; [exact I|reflexivity].
      * eexists. split; [reflexivity|]. rewrite Hnsd. unfold deleg. split; [apply zres_equiv_refl|reflexivity].
    + rewrite andb_false_r. eexists. split; [reflexivity|]. split; [exact I|reflexivity].
Qed.

(* ---- ZoneRecords::resolve refines the flat lookup ---- *)
Theorem resolve_R apexl nd z name qt rp :
  R apexl nd z -> no_occlusion z -> recs_ok z -> wf_labels (rev rp ++ apexl) ->
  exists r, node_resolve name qt rp nd true = Ok r /\
            zres_equiv r (flat_resolve apexl z name (rev rp) qt) /\
            (qt <> QT_Wildcard -> r = flat_resolve apexl z name (rev rp) qt).
Proof.
  intros HR Hd Hz Hwf.
  destruct (resolve_descend name qt rp nd true) as (pre & rem & n & -> & Hat & Hrem & Hres).
  rewrite Hres. cbn [andb]. clear Hres.
  pose proof (HR pre) as Hpre. rewrite Hat in Hpre. cbn [entry app] in Hpre. destruct Hpre as [Hexpre Hok].
  assert (He : exists_node z (rev pre)).
  { destruct pre; [left; reflexivity | apply Hexpre; discriminate]. }
  destruct rem as [|l rem].
  - rewrite app_nil_r. rewrite (flat_exists apexl z name (rev pre) qt Hd He).
    exact (tree_exists apexl z name pre n qt Hok Hz).
  - rewrite rev_app_distr. cbn [rev]. rewrite <- app_assoc. cbn [app].
    assert (Hn : ~ exists_node z (l :: rev pre)).
    { pose proof (HR (pre ++ [l])) as H. rewrite Hrem in H. cbn [entry app] in H.
      rewrite rev_app_distr in H. exact H. }
    rewrite (flat_missing apexl z name (rev pre) l (rev rem) qt Hd He Hn).
    apply (tree_missing apexl z name pre n l rem qt Hok Hz Hd).
    rewrite rev_app_distr in Hwf. cbn [rev] in Hwf. rewrite <- !app_assoc in Hwf. cbn [app] in Hwf.
    apply wf_labels_suffix in Hwf; [exact Hwf|discriminate].
Qed.

(* the tree never panics on names within the limits, with or without D1 *)
Lemma final_ok apexl z name pre n rem qt :
  node_ok apexl z pre n -> recs_ok z ->
  match rem with [] => True | l :: _ => wf_labels (l :: rev pre ++ apexl) end ->
  exists r, final name qt n rem (is_nil pre) = Ok r.
Proof.
  intros Hok Hz Hwf. destruct rem as [|l rem]; cbn [final].
  - rewrite helper_deleg. destruct (_ && _ && _); [eexists; reflexivity|].
    rewrite helper_classify; [eexists; reflexivity|exact (ok_this_wf _ _ _ _ Hok)|eapply node_ok_cname_this; eassumption].
  - destruct (n_wild n) as [ws|] eqn:Ew.
    + rewrite (ok_nsd _ _ _ _ Hok). cbn [mkname labels]. rewrite (from_labels_mkname _ Hwf).
      assert (Hws : wmap n = ws) by (unfold wmap; rewrite Ew; reflexivity).
      rewrite helper_deleg. destruct (_ && _ && _); [eexists; reflexivity|].
      rewrite helper_classify; [eexists; reflexivity| |]; rewrite <- Hws;
        [exact (ok_wild_wf _ _ _ _ Hok)|eapply node_ok_cname_wild; eassumption].
    + destruct (alookup N.eqb RT_NS (n_this n)) as [ns|]; [|eexists; reflexivity].
      destruct (is_nil ns || is_nil pre); eexists; reflexivity.
Qed.

Theorem resolve_no_panic apexl nd z name qt rp :
  R apexl nd z -> recs_ok z -> wf_labels (rev rp ++ apexl) ->
  exists r, node_resolve name qt rp nd true = Ok r.
Proof.
  intros HR Hz Hwf.
  destruct (resolve_descend name qt rp nd true) as (pre & rem & n & -> & Hat & Hrem & Hres).
  rewrite Hres. cbn [andb]. pose proof (HR pre) as Hpre. rewrite Hat in Hpre. destruct Hpre as [_ Hok].
  cbn [app] in Hok. eapply final_ok; [exact Hok|exact Hz|].
  destruct rem as [|l rem]; [exact I|].
  rewrite rev_app_distr in Hwf. cbn [rev] in Hwf. rewrite <- !app_assoc in Hwf. cbn [app] in Hwf.
  apply wf_labels_suffix in Hwf; [exact Hwf|discriminate].
Qed.

(* ================= zones given by a list of insertions ================= *)

Definition wf_zrec (r : zrec) : Prop := shape_of_rdata (zr_data r) = shape_of_type (zr_type r).
Definition op_ok (o : zop) : Prop :=
  wf_name (op_name o) /\ shape_of_rdata (op_data o) = shape_of_type (op_type o).

Lemma relative_rp_rel z name :
  relative_rp z name = option_map (@rev label) (rel_path (labels (z_apex z)) name).
Proof.
  unfold relative_rp, rel_path, is_subdomain_of. destruct (ends_with (labels name) (labels (z_apex z))); reflexivity.
Qed.

Lemma rel_path_some apexl name p : rel_path apexl name = Some p -> labels name = p ++ apexl.
Proof.
  unfold rel_path, ends_with.
  destruct (Nat.leb (length apexl) (length (labels name))); [|discriminate].
  destruct (lleqb (skipn (length (labels name) - length apexl) (labels name)) apexl) eqn:E; [|discriminate].
  intro H; inversion H; subst. apply lleqb_eq in E. rewrite <- E at 2. symmetry. apply firstn_skipn.
Qed.

Lemma rel_path_intro apexl name p : labels name = p ++ apexl -> rel_path apexl name = Some p.
Proof.
  intro H. unfold rel_path, ends_with. rewrite H, app_length.
  replace (length p + length apexl - length apexl)%nat with (length p) by lia.
  assert (E : Nat.leb (length apexl) (length p + length apexl) = true) by (apply PeanoNat.Nat.leb_le; lia).
  rewrite E, skipn_app, skipn_all, PeanoNat.Nat.sub_diag. cbn [skipn app]. rewrite lleqb_refl.
  rewrite firstn_app, firstn_all, PeanoNat.Nat.sub_diag. cbn [firstn]. rewrite app_nil_r. reflexivity.
Qed.

Lemma zone_apply_R apex s z fz o :
  z_apex z = apex -> z_soa z = s -> R (labels apex) (z_records z) fz -> wf_name (op_name o) ->
  exists z', zone_apply z o = Ok z' /\ z_apex z' = apex /\ z_soa z' = s /\
             R (labels apex) (z_records z') (fz_apply (labels apex) s fz o).
Proof.
  intros Ha Hs HR Hwf. unfold zone_apply, zone_insert, fz_apply. rewrite relative_rp_rel, Ha.
  destruct (rel_path (labels apex) (op_name o)) as [p|] eqn:Ep; cbn [option_map].
  - pose proof (rel_path_some _ _ _ Ep) as Hl.
    destruct (insert_Rsub (labels apex) (op_wild o)
                {| zr_type := op_type o; zr_data := op_data o; zr_ttl := actual_ttl z (op_ttl o) |}
                fz (rev p) [] (z_records z) HR) as (nd' & Hins & HR').
    { cbn [app]. rewrite rev_involutive, <- Hl. apply Hwf. }
    rewrite Hins. cbn [bind]. eexists. split; [reflexivity|]. cbn [z_apex z_soa z_records].
    split; [reflexivity|]. split; [exact Hs|]. cbn [app] in HR'. rewrite rev_involutive in HR'.
    unfold op_zrec, clamp. unfold actual_ttl in HR'. rewrite Hs in HR'. exact HR'.
  - exists z. auto.
Qed.

Lemma zone_apply_all_R apex s : forall ops z fz,
  z_apex z = apex -> z_soa z = s -> R (labels apex) (z_records z) fz ->
  Forall (fun o => wf_name (op_name o)) ops ->
  exists z', zone_apply_all z ops = Ok z' /\ z_apex z' = apex /\ z_soa z' = s /\
             R (labels apex) (z_records z') (fold_left (fz_apply (labels apex) s) ops fz).
Proof.
  induction ops as [|o ops IH]; intros z fz Ha Hs HR Hops; cbn [zone_apply_all fold_left].
  - exists z. auto.
  - apply Forall_cons_iff in Hops as [Ho Hops].
    destruct (zone_apply_R apex s z fz o Ha Hs HR Ho) as (z1 & E1 & Ha1 & Hs1 & HR1).
    rewrite E1. cbn [bind]. apply IH; assumption.
Qed.

(* building a zone never panics, and the tree represents exactly the inserted records *)
Theorem zone_build_R apex s ops :
  wf_name apex -> Forall (fun o => wf_name (op_name o)) ops ->
  exists z, zone_build apex s ops = Ok z /\ z_apex z = apex /\ z_soa z = s /\
            R (labels apex) (z_records z) (flat_of_ops apex s ops).
Proof.
  intros Hwf Hops. unfold zone_build, flat_of_ops. apply zone_apply_all_R; try assumption.
  - reflexivity.
  - reflexivity.
  - apply R_zone_new. apply Hwf.
Qed.

(* what flat_of_ops holds: exactly the SOA record and the inserted records that lie under the
   apex, TTL raised to the SOA minimum, nothing else changed *)
Definition from_ops (apexl : list label) (s : option soa) (ops : list zop) (w : bool) (q : path) (r : zrec) : Prop :=
  (w = false /\ q = [] /\ exists so, s = Some so /\ r = soa_zrec so) \/
  (exists o, In o ops /\ op_wild o = w /\ rel_path apexl (op_name o) = Some q /\ r = op_zrec s o).

Lemma fold_apply_sound apexl s : forall ops fz (w : bool) (q : path) (r : zrec),
  In (q, r) (if w then f_wild (fold_left (fz_apply apexl s) ops fz) else f_norm (fold_left (fz_apply apexl s) ops fz)) ->
  In (q, r) (if w then f_wild fz else f_norm fz) \/
  exists o, In o ops /\ op_wild o = w /\ rel_path apexl (op_name o) = Some q /\ r = op_zrec s o.
Proof.
  induction ops as [|o ops IH]; intros fz w q r Hin; cbn [fold_left] in Hin; [left; exact Hin|].
  apply IH in Hin as [Hin|(o' & Ho' & Hw & Hp & Hr)].
  - unfold fz_apply in Hin. destruct (rel_path apexl (op_name o)) as [p|] eqn:Ep; [|left; exact Hin].
    unfold fz_add in Hin. destruct (op_wild o) eqn:Eow, w; cbn [f_norm f_wild] in Hin;
      try (left; exact Hin); apply In_add_rec in Hin as [Hin|Heq]; try (left; exact Hin);
      inversion Heq; subst; right; exists o; cbn [In]; auto.
  - right. exists o'. cbn [In]. auto.
Qed.

Lemma flat_of_ops_sound apex s ops (w : bool) q r :
  In (q, r) (if w then f_wild (flat_of_ops apex s ops) else f_norm (flat_of_ops apex s ops)) ->
  from_ops (labels apex) s ops w q r.
Proof.
  intro Hin. unfold flat_of_ops in Hin. apply fold_apply_sound in Hin as [Hin|H]; [|right; exact H].
  left. destruct w; cbn [fz_init f_wild f_norm] in Hin; [destruct Hin|].
  destruct s as [so|]; [|destruct Hin]. destruct Hin as [Heq|[]]. inversion Heq; subst. eauto.
Qed.

Lemma fold_apply_mono apexl s : forall ops fz (w : bool) (q : path) (r : zrec),
  In (q, r) (if w then f_wild fz else f_norm fz) ->
  In (q, r) (if w then f_wild (fold_left (fz_apply apexl s) ops fz) else f_norm (fold_left (fz_apply apexl s) ops fz)).
Proof.
  induction ops as [|o ops IH]; intros fz w q r Hin; cbn [fold_left]; [exact Hin|].
  apply IH. unfold fz_apply. destruct (rel_path apexl (op_name o)); [|exact Hin].
  unfold fz_add. destruct (op_wild o), w; cbn [f_norm f_wild]; try exact Hin; apply In_add_rec; left; exact Hin.
Qed.

Lemma flat_of_ops_complete apex s ops o q :
  In o ops -> rel_path (labels apex) (op_name o) = Some q ->
  In (q, op_zrec s o) (if op_wild o then f_wild (flat_of_ops apex s ops) else f_norm (flat_of_ops apex s ops)).
Proof.
  unfold flat_of_ops. generalize (fz_init s). induction ops as [|o' ops IH]; intros fz Hin Hp; [destruct Hin|].
  cbn [fold_left]. destruct Hin as [->|Hin]; [|apply IH; assumption].
  apply fold_apply_mono. unfold fz_apply. rewrite Hp. unfold fz_add.
  destruct (op_wild o); cbn [f_norm f_wild]; apply In_add_rec; right; reflexivity.
Qed.

Lemma flat_of_ops_recs_ok apex s ops : Forall op_ok ops -> recs_ok (flat_of_ops apex s ops).
Proof.
  intros Hops q r Hin Ht. unfold entries in Hin.
  assert (Hfrom : exists w, from_ops (labels apex) s ops w q r).
  { apply in_app_or in Hin as [Hin|Hin]; [exists false|exists true]; apply flat_of_ops_sound; exact Hin. }
  destruct Hfrom as [w [(_ & _ & so & _ & ->)|(o & Ho & _ & _ & ->)]].
  - cbn [soa_zrec zr_type] in Ht. discriminate.
  - rewrite Forall_forall in Hops. destruct (Hops o Ho) as [_ Hsh]. cbn [op_zrec zr_type zr_data] in *.
    rewrite Ht in Hsh. destruct (op_data o); try discriminate. eauto.
Qed.

Lemma Forall_op_names ops : Forall op_ok ops -> Forall (fun o => wf_name (op_name o)) ops.
Proof. apply Forall_impl. intros o [H _]. exact H. Qed.

(* ---- C02, main theorem ---- *)
Theorem resolve_refines_flat apex s ops name qt :
  wf_name apex -> Forall op_ok ops -> wf_name name ->
  exists z, zone_build apex s ops = Ok z /\
    match rel_path (labels apex) name with
    | Some p =>
      exists r, zone_resolve z name qt = Some (Ok r) /\
        (no_occlusion (flat_of_ops apex s ops) ->
           zres_equiv r (flat_resolve (labels apex) (flat_of_ops apex s ops) name p qt) /\
           (qt <> QT_Wildcard -> r = flat_resolve (labels apex) (flat_of_ops apex s ops) name p qt))
    | None => zone_resolve z name qt = None
    end.
Proof.
  intros Hapex Hops Hname.
  destruct (zone_build_R apex s ops Hapex (Forall_op_names _ Hops)) as (z & Hb & Ha & Hs & HR).
  exists z. split; [exact Hb|]. unfold zone_resolve. rewrite relative_rp_rel, Ha.
  destruct (rel_path (labels apex) name) as [p|] eqn:Ep; cbn [option_map]; [|reflexivity].
  pose proof (rel_path_some _ _ _ Ep) as Hl.
  assert (Hwf : wf_labels (rev (rev p) ++ labels apex)) by (rewrite rev_involutive, <- Hl; apply Hname).
  pose proof (flat_of_ops_recs_ok apex s ops Hops) as Hz.
  destruct (resolve_no_panic _ _ _ name qt (rev p) HR Hz Hwf) as [r Hr].
  exists r. split; [rewrite Hr; reflexivity|]. intro Hd.
  destruct (resolve_R _ _ _ name qt (rev p) HR Hd Hz Hwf) as (r' & Hr' & Heq & Hex).
  rewrite rev_involutive in *. assert (r' = r) by congruence. subst r'. auto.
Qed.

(* ================= corollaries: the sentences of C02 ================= *)

Definition result_rrs (r : zresult) : list rr :=
  match r with ZAnswer l => l | ZCname _ x => [x] | ZDelegation l => l | ZNameError => [] end.

Lemma zres_equiv_rrs a b : zres_equiv a b -> forall x, In x (result_rrs a) <-> In x (result_rrs b).
Proof.
  destruct a, b; cbn [zres_equiv result_rrs]; try contradiction; try tauto.
  - intros H x. assert (Hf : forall l, In x l <-> In x (filter (fun r => rr_type r =? rr_type x) l)).
    { intro l. rewrite filter_In, N.eqb_refl. tauto. }
    rewrite (Hf rrs), (Hf rrs0), H. tauto.
  - intros [_ ->] x. tauto.
  - intros -> x. tauto.
Qed.

Lemma zres_equiv_nil r : zres_equiv r (ZAnswer []) -> r = ZAnswer [].
Proof.
  destruct r as [l| | |]; cbn [zres_equiv]; try contradiction. intro H.
  destruct l as [|x l]; [reflexivity|]. specialize (H (rr_type x)). cbn [filter] in H.
  rewrite N.eqb_refl in H. discriminate.
Qed.

Lemma zres_equiv_nameerror f : zres_equiv ZNameError f -> f = ZNameError.
Proof. destruct f; cbn [zres_equiv]; try contradiction. reflexivity. Qed.

(* the hypotheses of a lookup in a zone built from insertions *)
Definition lookup_ctx (apex : dname) (s : option soa) (ops : list zop) (name : dname) (p : path) (z : zone) : Prop :=
  wf_name apex /\ Forall op_ok ops /\ wf_name name /\ rel_path (labels apex) name = Some p /\
  no_occlusion (flat_of_ops apex s ops) /\ zone_build apex s ops = Ok z.

Lemma lookup_flat apex s ops name p z qt r :
  lookup_ctx apex s ops name p z -> zone_resolve z name qt = Some (Ok r) ->
  zres_equiv r (flat_resolve (labels apex) (flat_of_ops apex s ops) name p qt) /\
  (qt <> QT_Wildcard -> r = flat_resolve (labels apex) (flat_of_ops apex s ops) name p qt).
Proof.
  intros (Ha & Hops & Hn & Hp & Hd & Hb) Hr.
  destruct (resolve_refines_flat apex s ops name qt Ha Hops Hn) as (z' & Hb' & H).
  rewrite Hb in Hb'. inversion Hb'; subst z'. rewrite Hp in H. destruct H as (r' & Hr' & H).
  rewrite Hr in Hr'. inversion Hr'; subst r'. exact (H Hd).
Qed.

(* -- "with the query name as owner" -- *)
Definition owner_is (name : dname) (r : zresult) : Prop :=
  match r with
  | ZAnswer rrs => Forall (fun x => rr_name x = name) rrs
  | ZCname _ x => rr_name x = name
  | _ => True
  end.

Lemma classify_owner name qt rs : owner_is name (classify name qt rs).
Proof.
  unfold classify. destruct (if rtype_matches RT_CNAME qt then [] else of_type RT_CNAME rs) as [|r l].
  - cbn [owner_is]. apply Forall_forall. intros x Hx. apply in_map_iff in Hx as (r0 & <- & _). reflexivity.
  - destruct (zr_data r); cbn [owner_is]; auto.
Qed.

Lemma flat_owner apexl z name p qt : owner_is name (flat_resolve apexl z name p qt).
Proof.
  unfold flat_resolve. destruct (find _ _); [exact I|].
  destruct (exists_nodeb z p); [apply classify_owner|].
  destruct (wild_source z p) as [[l e]|]; [|exact I].
  destruct (has_wild z e); [|exact I]. destruct (_ && _); [exact I|apply classify_owner].
Qed.

Theorem owner_is_query_name apex s ops name p z qt r :
  lookup_ctx apex s ops name p z -> zone_resolve z name qt = Some (Ok r) -> owner_is name r.
Proof.
  intros Hc Hr. destruct (lookup_flat _ _ _ _ _ _ _ _ Hc Hr) as [Heq _].
  pose proof (flat_owner (labels apex) (flat_of_ops apex s ops) name p qt) as Hf.
  pose proof (zres_equiv_rrs _ _ Heq) as Hin.
  destruct r as [l|c x|l|], (flat_resolve (labels apex) (flat_of_ops apex s ops) name p qt) as [l'|c' x'|l'|];
    cbn [zres_equiv owner_is result_rrs] in *; try contradiction; try exact I.
  - rewrite Forall_forall in *. intros x Hx. apply Hf, Hin, Hx.
  - destruct Heq as [_ ->]. exact Hf.
Qed.

(* -- "every record returned is one the zone holds, with its configured TTL and data" -- *)
Definition rr_of_rec (x : rr) (rec : zrec) : Prop :=
  rr_type x = zr_type rec /\ rr_class x = RC_IN /\ rr_ttl x = zr_ttl rec /\ rr_data x = zr_data rec.

Definition held (z : fzone) (x : rr) : Prop :=
  exists (w : bool) q rec, In (q, rec) (if w then f_wild z else f_norm z) /\ rr_of_rec x rec.

Lemma held_map z (w : bool) q owner rs :
  (forall rec, In rec rs -> In (q, rec) (if w then f_wild z else f_norm z)) ->
  forall x, In x (map (fun r => zr_to_rr r owner) rs) -> held z x.
Proof.
  intros H x Hx. apply in_map_iff in Hx as (rec & <- & Hrec). exists w, q, rec. split; [apply H, Hrec|].
  repeat split.
Qed.

Lemma classify_held z (w : bool) q name qt rs :
  (forall rec, In rec rs -> In (q, rec) (if w then f_wild z else f_norm z)) ->
  forall x, In x (result_rrs (classify name qt rs)) -> held z x.
Proof.
  intros H x. unfold classify.
  destruct (if rtype_matches RT_CNAME qt then [] else of_type RT_CNAME rs) as [|r l] eqn:E.
  - cbn [result_rrs]. apply (held_map z w q). intros rec Hrec. apply filter_In in Hrec as [Hrec _]. apply H, Hrec.
  - assert (Hr : In r rs).
    { destruct (rtype_matches RT_CNAME qt); [discriminate|].
      assert (Hin : In r (of_type RT_CNAME rs)) by (rewrite E; left; reflexivity).
      apply filter_In in Hin. tauto. }
    destruct (zr_data r) eqn:Ed; cbn [result_rrs]; try (intros []; fail).
    intros [<-|[]]. exists w, q, r. split; [apply H, Hr|]. repeat split.
Qed.

Lemma flat_held apexl z name p qt : forall x, In x (result_rrs (flat_resolve apexl z name p qt)) -> held z x.
Proof.
  unfold flat_resolve. destruct (find _ _) as [c|].
  - cbn [result_rrs]. apply (held_map z false c). intros rec H. apply In_recs_at in H. tauto.
  - destruct (exists_nodeb z p).
    + apply (classify_held z false p). intros rec H. apply In_all_at, H.
    + destruct (wild_source z p) as [[l e]|]; [|intros x []].
      destruct (has_wild z e); [|intros x []]. destruct (_ && _).
      * cbn [result_rrs]. apply (held_map z true e). intros rec H. apply filter_In in H as [H _]. apply In_all_at, H.
      * apply (classify_held z true e). intros rec H. apply In_all_at, H.
Qed.

Theorem records_are_zone_records apex s ops name p z qt r :
  lookup_ctx apex s ops name p z -> zone_resolve z name qt = Some (Ok r) ->
  forall x, In x (result_rrs r) ->
    exists (w : bool) q rec, from_ops (labels apex) s ops w q rec /\ rr_of_rec x rec.
Proof.
  intros Hc Hr x Hx. destruct (lookup_flat _ _ _ _ _ _ _ _ Hc Hr) as [Heq _].
  apply (zres_equiv_rrs _ _ Heq) in Hx. apply flat_held in Hx as (w & q & rec & Hin & Hrr).
  exists w, q, rec. split; [apply flat_of_ops_sound, Hin|exact Hrr].
Qed.

(* -- "an existing name with no data of the asked type yields an empty answer" -- *)
Lemma classify_empty name qt rs :
  (rtype_matches RT_CNAME qt = true \/ of_type RT_CNAME rs = []) ->
  (forall rec, In rec rs -> rtype_matches (zr_type rec) qt = false) ->
  classify name qt rs = ZAnswer [].
Proof.
  intros Hcn Hno. unfold classify.
  assert (E : (if rtype_matches RT_CNAME qt then [] else of_type RT_CNAME rs) = []).
  { destruct Hcn as [-> | ->]; [reflexivity|]. destruct (rtype_matches RT_CNAME qt); reflexivity. }
  rewrite E, filter_none; [reflexivity|]. apply Forall_forall. exact Hno.
Qed.

Theorem ent_and_apex_give_empty_answer apex s ops name p z qt r :
  lookup_ctx apex s ops name p z -> zone_resolve z name qt = Some (Ok r) ->
  let fz := flat_of_ops apex s ops in
  exists_node fz p ->
  (forall c, c <> [] -> is_suffix c p -> recs_at (f_norm fz) c RT_NS = []) ->
  (rtype_matches RT_CNAME qt = true \/ recs_at (f_norm fz) p RT_CNAME = []) ->
  (forall rec, In (p, rec) (f_norm fz) -> rtype_matches (zr_type rec) qt = false) ->
  r = ZAnswer [].
Proof.
  intros Hc Hr fz Hex Hns Hcn Hno. destruct (lookup_flat _ _ _ _ _ _ _ _ Hc Hr) as [Heq _].
  destruct Hc as (_ & _ & _ & _ & Hd & _). fold fz in Heq, Hd.
  rewrite (flat_exists _ _ _ _ _ Hd Hex) in Heq.
  assert (Hcond : negb (is_nil p) && (negb (is_nil (recs_at (f_norm fz) p RT_NS)) && negb (qt =? RT_NS)) = false).
  { destruct p as [|a t]; [reflexivity|]. rewrite (Hns (a :: t)); [reflexivity|discriminate|apply is_suffix_refl]. }
  rewrite Hcond, classify_empty in Heq.
  - apply zres_equiv_nil, Heq.
  - rewrite of_type_all_at. exact Hcn.
  - intros rec Hrec. apply Hno, In_all_at, Hrec.
Qed.

(* the apex in particular, whatever NS records it carries *)
Corollary apex_gives_empty_answer apex s ops name z qt r :
  lookup_ctx apex s ops name [] z -> zone_resolve z name qt = Some (Ok r) ->
  let fz := flat_of_ops apex s ops in
  (rtype_matches RT_CNAME qt = true \/ recs_at (f_norm fz) [] RT_CNAME = []) ->
  (forall rec, In ([], rec) (f_norm fz) -> rtype_matches (zr_type rec) qt = false) ->
  r = ZAnswer [].
Proof.
  intros Hc Hr fz Hcn Hno. apply (ent_and_apex_give_empty_answer apex s ops name [] z qt r Hc Hr); try assumption.
  - left. reflexivity.
  - intros c Hne Hs. apply is_suffix_of_nil in Hs. contradiction.
Qed.

(* -- "a name error only when the name, everything beneath it and any covering wildcard are absent" -- *)
Lemma classify_not_nameerror name qt rs : cname_ok rs -> classify name qt rs <> ZNameError.
Proof.
  intro Hok. unfold classify. destruct (if rtype_matches RT_CNAME qt then [] else of_type RT_CNAME rs) as [|r l] eqn:E; [discriminate|].
  assert (Hin : In r (of_type RT_CNAME rs)).
  { destruct (rtype_matches RT_CNAME qt); [discriminate|]. rewrite E. left. reflexivity. }
  apply filter_In in Hin as [Hin Ht]. apply N.eqb_eq in Ht. destruct (Hok r Hin Ht) as [c ->]. discriminate.
Qed.

Lemma closest_split z p : ~ exists_node z p ->
  exists x l e, p = x ++ l :: e /\ exists_node z e /\ ~ exists_node z (l :: e).
Proof.
  induction p as [|a t IH]; intro Hn; [exfalso; apply Hn; left; reflexivity|].
  destruct (exists_nodeb z t) eqn:Et.
  - apply exists_nodeb_spec in Et. exists [], a, t. auto.
  - apply exists_nodeb_false in Et. destruct (IH Et) as (x & l & e & -> & He & Hl).
    exists (a :: x), l, e. auto.
Qed.

Lemma suffix_comparable {A} (a b p : list A) : is_suffix a p -> is_suffix b p -> is_suffix a b \/ is_suffix b a.
Proof.
  induction p as [|x t IH]; intros Ha Hb.
  - apply is_suffix_of_nil in Ha. subst a. left. apply is_suffix_nil.
  - apply is_suffix_cons_inv in Ha as [->|Ha]; [right; exact Hb|].
    apply is_suffix_cons_inv in Hb as [->|Hb]; [left; apply is_suffix_cons, Ha|]. auto.
Qed.

Lemma closest_unique z x l e e' :
  exists_node z e -> ~ exists_node z (l :: e) -> closest_encloser z (x ++ l :: e) e' -> e' = e.
Proof.
  intros He Hl (Hs & Hex & Hmax).
  assert (Hle : is_suffix (l :: e) (x ++ l :: e)) by apply is_suffix_app.
  destruct (suffix_comparable _ _ _ Hs Hle) as [H|H].
  - apply is_suffix_cons_inv in H as [->|H]; [contradiction|].
    apply is_suffix_antisym; [exact H|]. apply Hmax; [|exact He].
    eapply is_suffix_trans; [|exact Hle]. apply is_suffix_cons, is_suffix_refl.
  - exfalso. apply Hl. eapply exists_node_anc; eassumption.
Qed.

Theorem nameerror_only_if_absent apex s ops name p z qt :
  lookup_ctx apex s ops name p z -> zone_resolve z name qt = Some (Ok ZNameError) ->
  let fz := flat_of_ops apex s ops in
  ~ exists_node fz p /\ forall e, closest_encloser fz p e -> has_wild fz e = false.
Proof.
  intros Hc Hr fz. destruct (lookup_flat _ _ _ _ _ _ _ _ Hc Hr) as [Heq _].
  apply zres_equiv_nameerror in Heq. destruct Hc as (_ & Hops & _ & _ & Hd & _). fold fz in Heq, Hd.
  pose proof (flat_of_ops_recs_ok apex s ops Hops) as Hz. fold fz in Hz.
  assert (Hnex : ~ exists_node fz p).
  { intro Hex. rewrite (flat_exists _ _ _ _ _ Hd Hex) in Heq.
    destruct (_ && _); [discriminate|]. revert Heq. apply classify_not_nameerror.
    intros rec Hin Ht. apply In_all_at in Hin. apply (Hz p rec); [|exact Ht].
    unfold entries. apply in_or_app. left. exact Hin. }
  split; [exact Hnex|]. intros e' Hce.
  destruct (closest_split fz p Hnex) as (x & l & e & -> & He & Hl).
  rewrite (closest_unique _ _ _ _ _ He Hl Hce).
  rewrite (flat_missing _ _ _ _ _ _ _ Hd He Hl) in Heq.
  destruct (_ && _); [discriminate|]. destruct (has_wild fz e) eqn:Ew; [|reflexivity].
  destruct (_ && _); [discriminate|]. exfalso. revert Heq. apply classify_not_nameerror.
  intros rec Hin Ht. apply In_all_at in Hin. apply (Hz e rec); [|exact Ht].
  unfold entries. apply in_or_app. right. exact Hin.
Qed.

(* -- "an NS question at the delegation point itself is answered directly" -- *)
Theorem ns_question_at_cut_answered_directly apex s ops name p z r :
  lookup_ctx apex s ops name p z -> zone_resolve z name RT_NS = Some (Ok r) ->
  let fz := flat_of_ops apex s ops in
  recs_at (f_norm fz) p RT_NS <> [] -> recs_at (f_norm fz) p RT_CNAME = [] ->
  r = ZAnswer (map (fun rec => zr_to_rr rec name) (recs_at (f_norm fz) p RT_NS)).
Proof.
  intros Hc Hr fz Hns Hcn. destruct (lookup_flat _ _ _ _ _ _ _ _ Hc Hr) as [_ Heq].
  rewrite Heq by discriminate. destruct Hc as (_ & _ & _ & _ & Hd & _). fold fz in Hd |- *.
  rewrite (flat_exists _ _ _ _ _ Hd (recs_at_exists _ _ _ Hns)).
  rewrite N.eqb_refl. cbn [negb]. rewrite !andb_false_r.
  unfold classify. rewrite of_type_all_at, Hcn.
  replace (rtype_matches RT_CNAME RT_NS) with false by reflexivity.
  do 2 f_equal. rewrite <- of_type_all_at. reflexivity.
Qed.

(* -- "a referral carrying the delegation's NS set when the name is at or beneath a delegation
      point other than the zone apex" -- *)
Theorem referral_at_or_beneath_cut apex s ops name p z qt r c :
  lookup_ctx apex s ops name p z -> zone_resolve z name qt = Some (Ok r) ->
  let fz := flat_of_ops apex s ops in
  cut fz p qt c ->
  r = ZDelegation (map (fun rec => zr_to_rr rec (mkname (c ++ labels apex))) (recs_at (f_norm fz) c RT_NS)).
Proof.
  intros Hc Hr fz (Hne & Hs & Hns & Hq). destruct (lookup_flat _ _ _ _ _ _ _ _ Hc Hr) as [Heq _].
  destruct Hc as (_ & _ & _ & _ & Hd & _). fold fz in Heq, Hd.
  assert (Hexc : exists_node fz c) by (eapply recs_at_exists; exact Hns).
  assert (Hnil : is_nil c = false) by (destruct c; [contradiction|reflexivity]).
  assert (Hnn : is_nil (recs_at (f_norm fz) c RT_NS) = false) by (destruct (recs_at (f_norm fz) c RT_NS); [contradiction|reflexivity]).
  assert (Hf : flat_resolve (labels apex) fz name p qt = deleg (c ++ labels apex) (recs_at (f_norm fz) c RT_NS)).
  { destruct (list_eq_dec (list_eq_dec N.eq_dec) c p) as [->|Hcp].
    - rewrite (flat_exists _ _ _ _ _ Hd Hexc), Hnil, Hnn. cbn [negb andb].
      destruct (N.eqb_spec qt RT_NS) as [->|_]; [exfalso; apply Hq; auto|reflexivity].
    - (* c is a proper ancestor of p: by D1 nothing exists beneath c *)
      destruct Hs as [pre Hp]. destruct (exists_last (l := pre)) as (x & l & ->).
      { intros ->. apply Hcp. symmetry. exact Hp. }
      rewrite <- app_assoc in Hp. cbn [app] in Hp. subst p.
      assert (Hl : ~ exists_node fz (l :: c)).
      { intro H. assert (Hz : recs_at (f_norm fz) c RT_NS = []); [|contradiction].
        apply (no_ns_above fz (l :: c) c Hd H Hne); [apply is_suffix_cons, is_suffix_refl|].
        intro E. apply (f_equal (@length _)) in E. cbn [length] in E. lia. }
      rewrite (flat_missing _ _ _ _ _ _ _ Hd Hexc Hl), Hnil, Hnn. reflexivity. }
  rewrite Hf in Heq. unfold deleg in Heq. destruct r; cbn [zres_equiv] in Heq; try contradiction. subst. reflexivity.
Qed.

(* -- "returns the zone's records of the asked type at that name (all types for ANY) ...; the CNAME
      instead when one exists and neither CNAME nor ANY was asked" -- *)
Lemma classify_answer name qt rs :
  (rtype_matches RT_CNAME qt = true \/ of_type RT_CNAME rs = []) ->
  classify name qt rs = ZAnswer (map (fun r => zr_to_rr r name) (filter (fun r => rtype_matches (zr_type r) qt) rs)).
Proof.
  intro H. unfold classify.
  assert (E : (if rtype_matches RT_CNAME qt then [] else of_type RT_CNAME rs) = []).
  { destruct H as [-> | ->]; [reflexivity|]. destruct (rtype_matches RT_CNAME qt); reflexivity. }
  rewrite E. reflexivity.
Qed.

Lemma classify_cname name qt rs rc rest c :
  rtype_matches RT_CNAME qt = false -> of_type RT_CNAME rs = rc :: rest -> zr_data rc = RD_Name c ->
  classify name qt rs = ZCname c (zr_to_rr rc name).
Proof. intros Hm Hc Hd. unfold classify. rewrite Hm, Hc, Hd. reflexivity. Qed.

(* an existing name that is not a delegation point (or is asked for NS) is classified on its own records *)
Theorem existing_name_classified apex s ops name p z qt r :
  lookup_ctx apex s ops name p z -> zone_resolve z name qt = Some (Ok r) ->
  let fz := flat_of_ops apex s ops in
  exists_node fz p -> (p = [] \/ recs_at (f_norm fz) p RT_NS = [] \/ qt = RT_NS) ->
  zres_equiv r (classify name qt (all_at (f_norm fz) p)) /\
  (qt <> QT_Wildcard -> r = classify name qt (all_at (f_norm fz) p)).
Proof.
  intros Hc Hr fz Hex Hp. pose proof (lookup_flat _ _ _ _ _ _ _ _ Hc Hr) as Heq.
  destruct Hc as (_ & _ & _ & _ & Hd & _). fold fz in Heq, Hd.
  rewrite (flat_exists _ _ _ _ _ Hd Hex) in Heq.
  assert (Hcond : negb (is_nil p) && (negb (is_nil (recs_at (f_norm fz) p RT_NS)) && negb (qt =? RT_NS)) = false).
  { destruct Hp as [-> |[-> | ->]]; [reflexivity|rewrite andb_false_r; reflexivity|].
    rewrite N.eqb_refl. cbn [negb]. rewrite !andb_false_r. reflexivity. }
  rewrite Hcond in Heq. exact Heq.
Qed.

(* -- "records synthesised from the wildcard at the closest existing ancestor when the name itself
      does not exist" (for wildcard sets without NS, or an NS question) -- *)
Theorem missing_name_from_wildcard apex s ops name x l e z qt r :
  lookup_ctx apex s ops name (x ++ l :: e) z -> zone_resolve z name qt = Some (Ok r) ->
  let fz := flat_of_ops apex s ops in
  closest_encloser fz (x ++ l :: e) e ->
  (e = [] \/ recs_at (f_norm fz) e RT_NS = []) ->
  has_wild fz e = true ->
  (recs_at (f_wild fz) e RT_NS = [] \/ qt = RT_NS) ->
  zres_equiv r (classify name qt (all_at (f_wild fz) e)) /\
  (qt <> QT_Wildcard -> r = classify name qt (all_at (f_wild fz) e)).
Proof.
  intros Hc Hr fz (Hs & He & Hmax) Hns Hw Hwns. pose proof (lookup_flat _ _ _ _ _ _ _ _ Hc Hr) as Heq.
  destruct Hc as (_ & _ & _ & _ & Hd & _). fold fz in Heq, Hd.
  assert (Hl : ~ exists_node fz (l :: e)).
  { intro H. assert (Hle : is_suffix (l :: e) e) by (apply Hmax; [apply is_suffix_app|exact H]).
    apply is_suffix_length in Hle. cbn [length] in Hle. lia. }
  rewrite (flat_missing _ _ _ _ _ _ _ Hd He Hl), Hw in Heq.
  assert (H1 : negb (is_nil e) && negb (is_nil (recs_at (f_norm fz) e RT_NS)) = false).
  { destruct Hns as [-> | ->]; [reflexivity|apply andb_false_r]. }
  assert (H2 : negb (is_nil (of_type RT_NS (all_at (f_wild fz) e))) && negb (qt =? RT_NS) = false).
  { rewrite of_type_all_at. destruct Hwns as [-> | ->]; [reflexivity|]. rewrite N.eqb_refl. apply andb_false_r. }
  rewrite H1, H2 in Heq. exact Heq.
Qed.

(* ================= the boolean forms are the stated notions ================= *)

Lemma is_cut_spec z p qt c : c <> [] -> is_suffix c p -> (is_cut z p qt c = true <-> cut z p qt c).
Proof.
  intros Hc Hs. unfold is_cut, cut. rewrite andb_true_iff, !negb_true_iff. split.
  - intros [Hn Hq]. repeat split; try assumption.
    + intro E. rewrite E in Hn. discriminate.
    + intros [-> ->]. rewrite lleqb_refl, N.eqb_refl in Hq. discriminate.
  - intros (_ & _ & Hn & Hq). split.
    + destruct (recs_at (f_norm z) c RT_NS); [contradiction|reflexivity].
    + apply not_true_is_false. intro H. apply andb_true_iff in H as [H1 H2].
      apply lleqb_eq in H1. apply N.eqb_eq in H2. auto.
Qed.

Lemma no_occlusionb_spec z : no_occlusionb z = true -> no_occlusion z.
Proof.
  unfold no_occlusionb, no_occlusion. rewrite forallb_forall. intros H c rns Hc Hin Ht.
  specialize (H (c, rns) Hin). cbn [fst snd] in H. rewrite Ht, N.eqb_refl in H.
  assert (Hnil : is_nil c = false) by (destruct c; [contradiction|reflexivity]).
  rewrite Hnil in H. cbn [negb andb] in H. apply andb_true_iff in H as [H1 H2].
  rewrite forallb_forall in H1, H2. split.
  - intros q r Hq Hs. specialize (H1 (q, r) Hq). cbn [fst] in H1.
    apply is_suffixb_spec in Hs. rewrite Hs in H1. cbn [negb orb] in H1. apply lleqb_eq, H1.
  - intros q r Hq Hs. specialize (H2 (q, r) Hq). cbn [fst] in H2.
    apply is_suffixb_spec in Hs. rewrite Hs in H2. discriminate.
Qed.

(* ================= an instance meeting every hypothesis ================= *)

Definition nm (front : list label) : dname := mkname (front ++ [[]]).

Lemma nm_wf front : Forall (fun l => l <> [] /\ wf_label l) front -> sum_lens (front ++ [[]]) <= 255 -> wf_name (nm front).
Proof. intros Hf Hs. apply wf_name_intro; [exact Hf|reflexivity|exact Hs]. Qed.

Ltac wf_lab :=
  split; [discriminate
         | split; [unfold llen; cbn [length]; lia
                  | repeat (first [apply Forall_nil | apply Forall_cons; [split; [lia | reflexivity]|]])]].
Ltac wf_nm :=
  apply nm_wf;
  [ repeat (first [apply Forall_nil | apply Forall_cons; [wf_lab|]])
  | vm_compute; discriminate ].

Module Example.
  (* apex "z." with SOA minimum 300; NS at the apex; "a" with an A record (TTL 60, raised to 300);
     "c.b" making "b" an empty non-terminal with a wildcard TXT next to the existing child;
     a wildcard A under the empty non-terminals "e.e"; a delegation "d"; a CNAME next to an A at "f" *)
  Local Notation la := ([97] : label). Local Notation lb := ([98] : label). Local Notation lc := ([99] : label).
  Local Notation ld := ([100] : label). Local Notation le := ([101] : label). Local Notation lf := ([102] : label).
  Local Notation lx := ([120] : label). Local Notation ly := ([121] : label). Local Notation lz := ([122] : label).
  Definition apex := nm [lz].
  Definition so : soa := {| soa_mname := nm [la; lz]; soa_rname := nm [lb; lz]; soa_serial := 1;
                            soa_refresh := 2; soa_retry := 3; soa_expire := 4; soa_minimum := 300 |}.
  Definition mk w n t d ttl := {| op_wild := w; op_name := n; op_type := t; op_data := d; op_ttl := ttl |}.
  Definition ops : list zop :=
    [ mk false apex RT_NS (RD_Name (nm [la; lz])) 3600;
      mk false (nm [la; lz]) RT_A (RD_A 1) 60;
      mk false (nm [lc; lb; lz]) RT_A (RD_A 2) 3600;
      mk true (nm [lb; lz]) RT_TXT (RD_Octets [1]) 3600;
      mk true (nm [le; le; lz]) RT_A (RD_A 3) 3600;
      mk false (nm [ld; lz]) RT_NS (RD_Name (nm [lx; ly])) 3600;
      mk false (nm [lf; lz]) RT_CNAME (RD_Name (nm [la; lz])) 3600;
      mk false (nm [lf; lz]) RT_A (RD_A 4) 3600;
      mk false (nm [la; lz]) RT_A (RD_A 1) 60 ].

  Lemma apex_wf : wf_name apex. Proof. wf_nm. Qed.

  Lemma ops_ok : Forall op_ok ops.
  Proof.
    unfold ops.
    repeat (first [apply Forall_nil | apply Forall_cons; [split; [cbn [op_name mk]; first [exact apex_wf | wf_nm] | reflexivity]|]]).
  Qed.

  Lemma d1 : no_occlusion (flat_of_ops apex (Some so) ops).
  Proof. apply no_occlusionb_spec. vm_compute. reflexivity. Qed.

  Definition rr_at n t ttl d := {| rr_name := n; rr_type := t; rr_class := RC_IN; rr_ttl := ttl; rr_data := d |}.

  (* multi-label wildcard match under empty non-terminals: owner is the query name *)
  Example wildcard_synthesis : exists z,
    lookup_ctx apex (Some so) ops (nm [lx; ly; le; le; lz]) [lx; ly; le; le] z /\
    zone_resolve z (nm [lx; ly; le; le; lz]) RT_A
    = Some (Ok (ZAnswer [rr_at (nm [lx; ly; le; le; lz]) RT_A 3600 (RD_A 3)])).
  Proof.
    eexists. split.
    - refine (conj apex_wf (conj ops_ok (conj _ (conj _ (conj d1 _))))); [wf_nm|vm_compute; reflexivity|vm_compute; reflexivity].
    - vm_compute. reflexivity.
  Qed.

  (* the apex carries NS and SOA, the question is A: empty answer, not a referral *)
  Example apex_with_ns : exists z,
    lookup_ctx apex (Some so) ops apex [] z /\ zone_resolve z apex RT_A = Some (Ok (ZAnswer [])).
  Proof.
    eexists. split.
    - refine (conj apex_wf (conj ops_ok (conj apex_wf (conj _ (conj d1 _))))); vm_compute; reflexivity.
    - vm_compute. reflexivity.
  Qed.

  (* beneath the delegation: referral with the NS set, owner = the delegation point *)
  Example beneath_delegation : exists z,
    lookup_ctx apex (Some so) ops (nm [lx; ld; lz]) [lx; ld] z /\
    zone_resolve z (nm [lx; ld; lz]) RT_A
    = Some (Ok (ZDelegation [rr_at (nm [ld; lz]) RT_NS 3600 (RD_Name (nm [lx; ly]))])).
  Proof.
    eexists. split.
    - refine (conj apex_wf (conj ops_ok (conj _ (conj _ (conj d1 _))))); [wf_nm|vm_compute; reflexivity|vm_compute; reflexivity].
    - vm_compute. reflexivity.
  Qed.

  (* the empty non-terminal "b": empty answer; a sibling of "c.b": the wildcard; TTL 60 raised to 300;
     a missing name without covering wildcard: name error; CNAME next to other data *)
  Example more : exists z, zone_build apex (Some so) ops = Ok z /\
    zone_resolve z (nm [lb; lz]) RT_A = Some (Ok (ZAnswer [])) /\
    zone_resolve z (nm [lx; lb; lz]) RT_TXT = Some (Ok (ZAnswer [rr_at (nm [lx; lb; lz]) RT_TXT 3600 (RD_Octets [1])])) /\
    zone_resolve z (nm [la; lz]) RT_A = Some (Ok (ZAnswer [rr_at (nm [la; lz]) RT_A 300 (RD_A 1)])) /\
    zone_resolve z (nm [lx; lz]) RT_A = Some (Ok ZNameError) /\
    zone_resolve z (nm [lf; lz]) RT_A = Some (Ok (ZCname (nm [la; lz]) (rr_at (nm [lf; lz]) RT_CNAME 3600 (RD_Name (nm [la; lz]))))) /\
    zone_resolve z (nm [lx; ly]) RT_A = None.
  Proof.
    eexists. refine (conj _ (conj _ (conj _ (conj _ (conj _ (conj _ _)))))); vm_compute; reflexivity.
  Qed.
End Example.
