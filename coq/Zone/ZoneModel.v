(* Zone/ZoneModel.v -- executable model of crates/dns-types/src/zones/types.rs:
   Zones, Zone, ZoneRecords (insert, insert_wildcard, resolve, merge,
   all_records), zone_result_helper, merge_zrs_helper.  Definitions only.

   HashMaps are association lists in insertion order.  Paths are handled
   *reversed* ([rp] = the relative domain's labels, closest to the apex first),
   which is the order in which the Rust code consumes them
   (relative_domain[len-1] first). *)
From RV Require Import Base.Prelude Name.NameModel Wire.WireTypes.

(* ZoneRecord { rtype_with_data, ttl } *)
Record zrec := { zr_type : N; zr_data : rdata; zr_ttl : N }.

Definition zrec_eqb (a b : zrec) : bool :=
  (zr_type a =? zr_type b) && rdata_eqb (zr_data a) (zr_data b) && (zr_ttl a =? zr_ttl b).

Definition zr_to_rr (z : zrec) (name : dname) : rr :=
  {| rr_name := name; rr_type := zr_type z; rr_class := RC_IN; rr_ttl := zr_ttl z; rr_data := zr_data z |}.

Definition rmap := list (N * list zrec).          (* HashMap<RecordType, Vec<ZoneRecord>> *)

(* ZoneRecords *)
Inductive node :=
| Node (nsdname : dname) (this : rmap) (wild : option rmap) (children : list (label * node)).

Definition n_nsdname (n : node) := match n with Node a _ _ _ => a end.
Definition n_this (n : node) := match n with Node _ a _ _ => a end.
Definition n_wild (n : node) := match n with Node _ _ a _ => a end.
Definition n_children (n : node) := match n with Node _ _ _ a => a end.

Definition node_new (nsdname : dname) : node := Node nsdname [] None [].

(* the body shared by insert / insert_wildcard at the final node *)
Definition rmap_insert (m : rmap) (new : zrec) : rmap :=
  match alookup N.eqb (zr_type new) m with
  | Some entries => if existsb (zrec_eqb new) entries then m
                    else areplace N.eqb (zr_type new) (entries ++ [new]) m
  | None => m ++ [(zr_type new, [new])]
  end.

Inductive zresult :=
| ZAnswer (rrs : list rr)
| ZCname (cname : dname) (r : rr)
| ZDelegation (ns_rrs : list rr)
| ZNameError.

(* zone_result_helper (after the apex fix: [can_delegate]) *)
Definition zone_result_helper (name : dname) (qtype : N) (records : rmap) (nsdname : dname)
           (can_delegate : bool) : res unit zresult :=
  let ns := match alookup N.eqb RT_NS records with Some l => l | None => [] end in
  if can_delegate && negb (qtype =? RT_NS) && negb (is_nil ns)
  then Ok (ZDelegation (map (fun z => zr_to_rr z nsdname) ns))
  else
    let cn := match alookup N.eqb RT_CNAME records with Some l => l | None => [] end in
    match (if negb (rtype_matches RT_CNAME qtype) then cn else []) with
    | z :: _ =>
      match zr_data z with
      | RD_Name c => Ok (ZCname c (zr_to_rr z name))
      | _ => Panic                       (* panic!("got non-CNAME record for CNAME query") *)
      end
    | [] =>
      if qtype =? QT_Wildcard
      then Ok (ZAnswer (flat_map (fun kv => map (fun z => zr_to_rr z name) (snd kv)) records))
      else if existsb (fun p => N.eqb (fst p) qtype) qtype_table   (* AXFR MAILB MAILA *)
      then Ok (ZAnswer [])
      else Ok (ZAnswer (match alookup N.eqb qtype records with
                        | Some zs => map (fun z => zr_to_rr z name) zs
                        | None => []
                        end))
    end.

(* ZoneRecords::resolve; [rp] = remaining relative labels, nearest first *)
Fixpoint node_resolve (name : dname) (qtype : N) (rp : list label) (nd : node) (is_apex : bool)
  : res unit zresult :=
  match rp with
  | [] => zone_result_helper name qtype (n_this nd) (n_nsdname nd) (negb is_apex)
  | l :: rest =>
    match alookup leqb l (n_children nd) with
    | Some child => node_resolve name qtype rest child false
    | None =>
      match n_wild nd with
      | Some wildcards =>
        match from_labels (l :: labels (n_nsdname nd)) with
        | Some nsd => zone_result_helper name qtype wildcards nsd true
        | None => Panic                  (* DomainName::from_labels(labels).unwrap() *)
        end
      | None =>
        match alookup N.eqb RT_NS (n_this nd) with
        | Some ns_zrs =>
          if is_nil ns_zrs || is_apex then Ok ZNameError
          else Ok (ZDelegation (map (fun z => zr_to_rr z (n_nsdname nd)) ns_zrs))
        | None => Ok ZNameError
        end
      end
    end
  end.

(* ZoneRecords::insert / insert_wildcard *)
Fixpoint node_insert (wildcard : bool) (rp : list label) (new : zrec) (nd : node) : res unit node :=
  match rp with
  | [] =>
    if wildcard
    then Ok (Node (n_nsdname nd) (n_this nd)
                  (Some (rmap_insert (match n_wild nd with Some w => w | None => [] end) new))
                  (n_children nd))
    else Ok (Node (n_nsdname nd) (rmap_insert (n_this nd) new) (n_wild nd) (n_children nd))
  | l :: rest =>
    match alookup leqb l (n_children nd) with
    | Some child =>
      let* child' := node_insert wildcard rest new child in
      Ok (Node (n_nsdname nd) (n_this nd) (n_wild nd) (areplace leqb l child' (n_children nd)))
    | None =>
      match from_labels (l :: labels (n_nsdname nd)) with
      | Some nsd =>
        let* child' := node_insert wildcard rest new (node_new nsd) in
        Ok (Node (n_nsdname nd) (n_this nd) (n_wild nd) (n_children nd ++ [(l, child')]))
      | None => Panic                    (* from_labels(labels).unwrap() *)
      end
    end
  end.

(* merge_zrs_helper *)
Definition merge_zrs_one (this : rmap) (kv : N * list zrec) : rmap :=
  match alookup N.eqb (fst kv) this with
  | Some my_zrs =>
    areplace N.eqb (fst kv)
             (fold_left (fun acc new => if existsb (zrec_eqb new) acc then acc else acc ++ [new]) (snd kv) my_zrs)
             this
  | None => this ++ [kv]
  end.
Definition merge_zrs (this other : rmap) : rmap := fold_left merge_zrs_one other this.

(* ZoneRecords::merge (after the wildcard fix) *)
Fixpoint node_merge (self other : node) {struct other} : node :=
  match other with
  | Node _ othis owild ochildren =>
    let this' := merge_zrs (n_this self) othis in
    let wild' := match owild with
                 | Some ow => match n_wild self with
                              | Some mw => Some (merge_zrs mw ow)
                              | None => Some ow
                              end
                 | None => n_wild self
                 end in
    let children' :=
        (fix go (oc : list (label * node)) (mine : list (label * node)) : list (label * node) :=
           match oc with
           | [] => mine
           | (k, ochild) :: t =>
             match alookup leqb k mine with
             | Some mchild => go t (areplace leqb k (node_merge mchild ochild) mine)
             | None => go t (mine ++ [(k, ochild)])
             end
           end) ochildren (n_children self) in
    Node (n_nsdname self) this' wild' children'
  end.

(* all_records / all_wildcard_records: (name, records) per node with any *)
Fixpoint node_all_records (nd : node) : list (dname * list zrec) :=
  match nd with
  | Node nsd this _ children =>
    let zrs := flat_map snd this in
    (if is_nil zrs then [] else [(nsd, zrs)])
      ++ (fix go (cs : list (label * node)) : list (dname * list zrec) :=
            match cs with [] => [] | (_, c) :: t => node_all_records c ++ go t end) children
  end.
Fixpoint node_all_wildcard_records (nd : node) : list (dname * list zrec) :=
  match nd with
  | Node nsd _ wild children =>
    (match wild with
     | Some ws => let zrs := flat_map snd ws in if is_nil zrs then [] else [(nsd, zrs)]
     | None => []
     end)
      ++ (fix go (cs : list (label * node)) : list (dname * list zrec) :=
            match cs with [] => [] | (_, c) :: t => node_all_wildcard_records c ++ go t end) children
  end.

(* SOA *)
Record soa := { soa_mname : dname; soa_rname : dname; soa_serial : N; soa_refresh : N;
                soa_retry : N; soa_expire : N; soa_minimum : N }.
Definition soa_to_rdata (s : soa) : rdata :=
  RD_SOA (soa_mname s) (soa_rname s) (soa_serial s) (soa_refresh s) (soa_retry s) (soa_expire s) (soa_minimum s).
Definition soa_to_rr (s : soa) (name : dname) : rr :=
  {| rr_name := name; rr_type := RT_SOA; rr_class := RC_IN; rr_ttl := soa_minimum s; rr_data := soa_to_rdata s |}.

Record zone := { z_apex : dname; z_soa : option soa; z_records : node }.

(* Zone::new *)
Definition zone_new (apex : dname) (s : option soa) : zone :=
  {| z_apex := apex; z_soa := s;
     z_records := match s with
                  | Some so => Node apex (rmap_insert [] {| zr_type := RT_SOA; zr_data := soa_to_rdata so; zr_ttl := soa_minimum so |}) None []
                  | None => node_new apex
                  end |}.

Definition zone_is_authoritative (z : zone) : bool := match z_soa z with Some _ => true | None => false end.
Definition zone_soa_rr (z : zone) : option rr := option_map (fun s => soa_to_rr s (z_apex z)) (z_soa z).

(* relative_domain, reversed *)
Definition relative_rp (z : zone) (name : dname) : option (list label) :=
  if is_subdomain_of name (z_apex z)
  then Some (rev (firstn (length (labels name) - length (labels (z_apex z))) (labels name)))
  else None.

Definition actual_ttl (z : zone) (ttl : N) : N :=
  match z_soa z with Some s => N.max (soa_minimum s) ttl | None => ttl end.

(* Zone::resolve *)
Definition zone_resolve (z : zone) (name : dname) (qtype : N) : option (res unit zresult) :=
  option_map (fun rp => node_resolve name qtype rp (z_records z) true) (relative_rp z name).

(* Zone::insert / insert_wildcard *)
Definition zone_insert (wildcard : bool) (z : zone) (name : dname) (ty : N) (d : rdata) (ttl : N) : res unit zone :=
  match relative_rp z name with
  | Some rp =>
    let* nd := node_insert wildcard rp {| zr_type := ty; zr_data := d; zr_ttl := actual_ttl z ttl |} (z_records z) in
    Ok {| z_apex := z_apex z; z_soa := z_soa z; z_records := nd |}
  | None => Ok z
  end.

(* Zone::merge (after the SOA fix); None = Err(apex mismatch) *)
Definition zone_merge (self other : zone) : option zone :=
  if negb (dname_eqb (z_apex self) (z_apex other)) then None
  else
    let '(s, recs) :=
        match z_soa other with
        | Some so => (Some so, Node (n_nsdname (z_records self)) (aremove N.eqb RT_SOA (n_this (z_records self)))
                                    (n_wild (z_records self)) (n_children (z_records self)))
        | None => (z_soa self, z_records self)
        end in
    Some {| z_apex := z_apex self; z_soa := s; z_records := node_merge recs (z_records other) |}.

Definition zone_all_records (z : zone) := node_all_records (z_records z).
Definition zone_all_wildcard_records (z : zone) := node_all_wildcard_records (z_records z).

(* Zones *)
Definition zones := list (dname * zone).

Definition zones_insert (zs : zones) (z : zone) : zones := ainsert dname_eqb (z_apex z) z zs.

(* insert_merge: merge(..).unwrap() cannot fail, the apexes are equal *)
Definition zones_insert_merge (zs : zones) (other : zone) : res unit zones :=
  match alookup dname_eqb (z_apex other) zs with
  | Some mine => match zone_merge mine other with
                 | Some m => Ok (areplace dname_eqb (z_apex other) m zs)
                 | None => Panic
                 end
  | None => Ok (zones_insert zs other)
  end.

(* Zones::resolve *)
Definition zones_resolve (zs : zones) (name : dname) (qtype : N) : option (zone * res unit zresult) :=
  match zones_get zs name with
  | Some z => match zone_resolve z name qtype with
              | Some r => Some (z, r)
              | None => Some (z, Panic)           (* zone.resolve(..).unwrap() *)
              end
  | None => None
  end.
