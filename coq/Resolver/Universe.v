(* Resolver/Universe.v -- the DNS universe the resolver streams are played against,
   as data, and what it says.  Specification side of C07; independent of the
   resolver model (nothing here mentions candidates, caches or exchanges; only
   the data types of WireTypes and the address/oracle types of TransportModel
   are shared).  Everything is executable.

   A universe is a set of zones on the FLAT representation -- per zone: the SOA
   RR, the authoritative RRs (absolute owner names, apex NS included), the NS
   RRs of its delegation points (owner = the child apex) and the glue address
   RRs it holds for nameserver hosts -- and a set of servers: an IP address with
   the apexes of the zones that server is authoritative for.

     serve u ip q        the reply message of the server at [ip] to question [q]
     auth_answer u q     what the authoritative data says about [q]: the CNAME
                         chain followed by the final RRset, or no final RRs and
                         the SOA of the zone that denies them
     consistentb u       the delegation data agree with the children

   The second half defines how a table of replies (computed by [serve]) and a
   fault plan indexed by exchange number make an upstream ORACLE: this is what
   the model driver runs the resolver against, and what the Rust mock handler
   implements on its side. *)
From RV Require Import Base.Prelude Name.NameModel Wire.WireTypes Wire.WireModel Resolver.TransportModel.

Record uzone := {
  uz_apex : dname;
  uz_soa : rr;
  uz_rrs : list rr;          (* authoritative data, SOA excluded *)
  uz_cuts : list rr;         (* NS RRs at delegation points *)
  uz_glue : list rr }.       (* A / AAAA RRs below or outside the zone, kept for referrals *)

Record universe := { u_zones : list uzone; u_servers : list (ip * list dname) }.

Definition nlabels (n : dname) : N := llen (labels n).

(* the zone with the longest apex enclosing [n] *)
Fixpoint best_zone (zs : list uzone) (n : dname) (best : option uzone) : option uzone :=
  match zs with
  | [] => best
  | z :: t =>
    if is_subdomain_of n (uz_apex z)
    then match best with
         | Some b => if nlabels (uz_apex b) <? nlabels (uz_apex z) then best_zone t n (Some z) else best_zone t n best
         | None => best_zone t n (Some z)
         end
    else best_zone t n best
  end.

(* the delegation point of [z] at or above [n] nearest the apex *)
Fixpoint cut_owner_loop (cuts : list rr) (n : dname) (best : option dname) : option dname :=
  match cuts with
  | [] => best
  | c :: t =>
    if is_subdomain_of n (rr_name c)
    then match best with
         | Some b => if nlabels (rr_name c) <? nlabels b then cut_owner_loop t n (Some (rr_name c)) else cut_owner_loop t n best
         | None => cut_owner_loop t n (Some (rr_name c))
         end
    else cut_owner_loop t n best
  end.
Definition cut_owner (z : uzone) (n : dname) : option dname := cut_owner_loop (uz_cuts z) n None.

Definition zone_data (z : uzone) : list rr := uz_soa z :: uz_rrs z.
Definition rrs_at (z : uzone) (n : dname) : list rr := filter (fun r => dname_eqb (rr_name r) n) (zone_data z).

(* the name exists: it owns a record or lies above an owner or a delegation point *)
Definition name_exists (z : uzone) (n : dname) : bool :=
  existsb (fun r => is_subdomain_of (rr_name r) n) (zone_data z ++ uz_cuts z).

Definition cname_target (r : rr) : option dname :=
  if rr_type r =? RT_CNAME then match rr_data r with RD_Name c => Some c | _ => None end else None.
Definition ns_target (r : rr) : option dname :=
  if rr_type r =? RT_NS then match rr_data r with RD_Name c => Some c | _ => None end else None.

(* the CNAME at a name, when the question does not ask for CNAME itself *)
Definition cname_at (here : list rr) (qtype : N) : option (rr * dname) :=
  if rtype_matches RT_CNAME qtype then None
  else match find (fun r => match cname_target r with Some _ => true | None => false end) here with
       | Some r => match cname_target r with Some c => Some (r, c) | None => None end
       | None => None
       end.

Definition is_addr_rr (r : rr) : bool := (rr_type r =? RT_A) || (rr_type r =? RT_AAAA).

(* ---- what a server says ---- *)

Record sreply := { sr_answers : list rr; sr_authority : list rr; sr_additional : list rr; sr_aa : bool; sr_rcode : N }.

Definition sr_plain (ans : list rr) : sreply :=
  {| sr_answers := ans; sr_authority := []; sr_additional := []; sr_aa := true; sr_rcode := RCODE_NoError |}.

Definition referral (z : uzone) (c : dname) : sreply :=
  let ns := filter (fun r => dname_eqb (rr_name r) c) (uz_cuts z) in
  let hosts := flat_map (fun r => match ns_target r with Some h => [h] | None => [] end) ns in
  {| sr_answers := []; sr_authority := ns;
     sr_additional := filter (fun r => is_addr_rr r && existsb (dname_eqb (rr_name r)) hosts) (uz_glue z ++ uz_rrs z);
     sr_aa := false; sr_rcode := RCODE_NoError |}.

(* the answer built from the server's own zones [zs]: follows CNAMEs while the
   target stays inside them ([first] = this is the question name itself) *)
Fixpoint serve_name (fuel : nat) (zs : list uzone) (n : dname) (qtype : N) (first : bool) : sreply :=
  match fuel with
  | O => sr_plain []
  | S f =>
    match best_zone zs n None with
    | None =>
      if first
      then {| sr_answers := []; sr_authority := []; sr_additional := []; sr_aa := false; sr_rcode := RCODE_Refused |}
      else sr_plain []
    | Some z =>
      match cut_owner z n with
      | Some c => if first then referral z c else sr_plain []
      | None =>
        let here := rrs_at z n in
        match cname_at here qtype with
        | Some (cr, target) =>
          let rest := serve_name f zs target qtype false in
          {| sr_answers := cr :: sr_answers rest; sr_authority := []; sr_additional := [];
             sr_aa := true; sr_rcode := RCODE_NoError |}
        | None =>
          let ans := filter (fun r => rtype_matches (rr_type r) qtype) here in
          if negb (is_nil ans) then sr_plain ans
          else if first
               then {| sr_answers := []; sr_authority := [uz_soa z]; sr_additional := []; sr_aa := true;
                       sr_rcode := if name_exists z n then RCODE_NoError else RCODE_NameError |}
               else sr_plain []
        end
      end
    end
  end.

Definition CHAIN_FUEL : nat := 64.

Definition zones_of_server (u : universe) (a : ip) : option (list uzone) :=
  match find (fun s => ip_eqb (fst s) a) (u_servers u) with
  | Some s => Some (filter (fun z => existsb (dname_eqb (uz_apex z)) (snd s)) (u_zones u))
  | None => None
  end.

Definition reply_message (q : question) (r : sreply) : message :=
  {| m_header := {| h_id := 0; h_qr := true; h_opcode := OPCODE_Standard; h_aa := sr_aa r; h_tc := false;
                    h_rd := false; h_ra := false; h_rcode := sr_rcode r |};
     m_questions := [q]; m_answers := sr_answers r; m_authority := sr_authority r;
     m_additional := sr_additional r |}.

(* None: nobody listens at that address *)
Definition serve (u : universe) (a : ip) (q : question) : option message :=
  match zones_of_server u a with
  | Some zs => Some (reply_message q (serve_name CHAIN_FUEL zs (q_name q) (q_type q) true))
  | None => None
  end.

(* ---- what the authoritative data says ---- *)

Record aanswer := {
  aa_rrs : list rr;           (* the CNAME chain, in order, then the final RRset *)
  aa_soa : option rr;         (* the denying zone's SOA when there is no final RRset *)
  aa_defined : bool }.        (* false: the universe does not determine an answer (name beneath a
                                 delegation without a zone, alias loop, alias out of the universe) *)

Fixpoint auth_chain (fuel : nat) (u : universe) (n : dname) (qtype : N) (seen : list dname) : aanswer :=
  match fuel with
  | O => {| aa_rrs := []; aa_soa := None; aa_defined := false |}
  | S f =>
    match best_zone (u_zones u) n None with
    | None => {| aa_rrs := []; aa_soa := None; aa_defined := false |}
    | Some z =>
      match cut_owner z n with
      | Some _ => {| aa_rrs := []; aa_soa := None; aa_defined := false |}
      | None =>
        let here := rrs_at z n in
        match cname_at here qtype with
        | Some (cr, target) =>
          if existsb (dname_eqb target) (n :: seen)
          then {| aa_rrs := [cr]; aa_soa := None; aa_defined := false |}
          else let rest := auth_chain f u target qtype (n :: seen) in
               {| aa_rrs := cr :: aa_rrs rest; aa_soa := aa_soa rest; aa_defined := aa_defined rest |}
        | None =>
          let ans := filter (fun r => rtype_matches (rr_type r) qtype) here in
          if negb (is_nil ans) then {| aa_rrs := ans; aa_soa := None; aa_defined := true |}
          else {| aa_rrs := []; aa_soa := Some (uz_soa z); aa_defined := true |}
        end
      end
    end
  end.

Definition auth_answer (u : universe) (q : question) : aanswer :=
  auth_chain CHAIN_FUEL u (q_name q) (q_type q) [].

(* ---- consistency of the delegation data ---- *)

Definition rr_eq_nottl (a b : rr) : bool :=
  dname_eqb (rr_name a) (rr_name b) && (rr_type a =? rr_type b) && (rr_class a =? rr_class b)
  && rdata_eqb (rr_data a) (rr_data b).
Definition subset (a b : list rr) : bool := forallb (fun x => existsb (rr_eqb x) b) a.
Definition same_set (a b : list rr) : bool := subset a b && subset b a.

Definition find_zone (u : universe) (apex : dname) : option uzone :=
  find (fun z => dname_eqb (uz_apex z) apex) (u_zones u).

(* all address RRs the authoritative data holds for a host *)
Definition host_addrs (u : universe) (h : dname) : list rr :=
  match best_zone (u_zones u) h None with
  | Some z => match cut_owner z h with
              | Some _ => []
              | None => filter is_addr_rr (rrs_at z h)
              end
  | None => []
  end.

Definition addr_of_rr (r : rr) : option ip :=
  match rr_data r with
  | RD_A a => Some (inl a)
  | RD_AAAA s => Some (inr s)
  | _ => None
  end.

Definition serves (u : universe) (a : ip) (apex : dname) : bool :=
  existsb (fun s => ip_eqb (fst s) a && existsb (dname_eqb apex) (snd s)) (u_servers u).

(* every delegation has its zone; the NS set at the cut is the child's apex NS set;
   glue, where present, is the host's whole address set; every nameserver host
   has an address and every address of a host is a server of the zone;  every
   zone has a nameserver *)
Definition consistentb (u : universe) : bool :=
  forallb (fun z =>
    let apex_ns := filter (fun r => (rr_type r =? RT_NS) && dname_eqb (rr_name r) (uz_apex z)) (uz_rrs z) in
    negb (is_nil apex_ns)
    && forallb (fun r => match ns_target r with
                         | Some h => let ads := host_addrs u h in
                                     negb (is_nil ads)
                                     && forallb (fun ar => match addr_of_rr ar with
                                                           | Some a => serves u a (uz_apex z)
                                                           | None => false
                                                           end) ads
                         | None => false
                         end) apex_ns
    && forallb (fun c => match find_zone u (rr_name c) with
                         | Some child =>
                           same_set (filter (fun r => dname_eqb (rr_name r) (rr_name c)) (uz_cuts z))
                                    (filter (fun r => (rr_type r =? RT_NS) && dname_eqb (rr_name r) (uz_apex child)) (uz_rrs child))
                         | None => false
                         end) (uz_cuts z)
    && forallb (fun g => same_set (filter (fun r => dname_eqb (rr_name r) (rr_name g)) (uz_glue z))
                                  (host_addrs u (rr_name g))) (uz_glue z))
    (u_zones u).

(* ---------------------------------------------------------------------- *)
(* From a table of replies and a fault plan to an oracle                   *)
(* ---------------------------------------------------------------------- *)

Inductive fault :=
| FNone
| FDrop                       (* nothing ever comes back (TCP: accepted, open, silent) *)
| FDelay (ms : N)             (* the normal reply after ms *)
| FGarbage (bs : list byte)   (* these bytes instead (TCP: as the raw stream) *)
| FTrunc (n : N)              (* the message cut to n bytes (TCP: full length prefix, then closed) *)
| FTruncOpen (n : N)          (* same, but the TCP stream stays open *)
| FPrefix (n : N)             (* TCP: the length prefix says n *)
| FWrongId                    (* id + 1 *)
| FTc                         (* TC set *)
| FRcode (rc : N)             (* rcode replaced *)
| FNoQr                       (* QR cleared *)
| FRefuse.                    (* send / connect fails *)

Definition table := list ((ip * question) * list byte).
Definition fault_plan := list (nat * fault).

Fixpoint table_lookup (t : table) (a : ip) (q : question) : option (list byte) :=
  match t with
  | [] => None
  | ((a', q'), bs) :: rest => if ip_eqb a a' && question_eqb q q' then Some bs else table_lookup rest a q
  end.

Fixpoint plan_lookup (p : fault_plan) (n : nat) : fault :=
  match p with
  | [] => FNone
  | (k, f) :: rest => if Nat.eqb k n then f else plan_lookup rest n
  end.

Definition map_byte3 (f : N -> N) (bs : list byte) : list byte :=
  match bs with
  | a :: b :: c :: d :: t => a :: b :: c :: f d :: t
  | _ => bs
  end.

(* the id of the request patched into the message *)
Definition patch_id (req msg : list byte) (bump : N) : list byte :=
  match req, msg with
  | r0 :: r1 :: _, _ :: _ :: t => let id := (u16_be r0 r1 + bump) mod 65536 in u16_hi id :: u16_lo id :: t
  | _, _ => msg
  end.

Definition header_fault (f : fault) (req msg : list byte) : list byte :=
  match f with
  | FWrongId => patch_id req msg 1
  | FTc => set_tc (patch_id req msg 0)
  | FRcode rc => map_byte3 (fun b => N.lor (N.land b 240) (N.land rc 15)) (patch_id req msg 0)
  | FNoQr => map_byte2 (fun b => N.land b 127) (patch_id req msg 0)
  | _ => patch_id req msg 0
  end.

Definition frame (p : proto) (prefix : N) (bs : list byte) : list byte :=
  match p with Udp => bs | Tcp => u16_bytes prefix ++ bs end.

Definition mk_reply (b : option (list byte)) (d : N) (c : bool) : treply :=
  {| t_bytes := b; t_delay_ms := d; t_close := c; t_refuse := false |}.

(* [base]: the table's message for the question of the request, if any *)
Definition reply_of (f : fault) (p : proto) (req : list byte) (base : option (list byte)) : treply :=
  match p, req with
  | Tcp, [] =>                (* the connection attempt *)
    {| t_bytes := None; t_delay_ms := 0; t_close := false;
       t_refuse := match f with FRefuse => true | _ => false end |}
  | _, _ =>
    let m := option_map (header_fault f req) base in
    match f with
    | FRefuse => {| t_bytes := None; t_delay_ms := 0; t_close := false; t_refuse := true |}
    | FDrop => mk_reply None 0 false
    | FDelay ms => mk_reply (option_map (fun bs => frame p (llen bs) bs) m) ms true
    | FGarbage g => mk_reply (Some g) 0 true
    | FTrunc n => mk_reply (option_map (fun bs => frame p (llen bs) (firstn (N.to_nat n) bs)) m) 0 true
    | FTruncOpen n => mk_reply (option_map (fun bs => frame p (llen bs) (firstn (N.to_nat n) bs)) m) 0 false
    | FPrefix n => mk_reply (option_map (fun bs => frame p n bs) m) 0 true
    | _ => mk_reply (option_map (fun bs => frame p (llen bs) bs) m) 0 true
    end
  end.

Definition request_question (req : list byte) : option question :=
  match decode req with
  | Ok m => match m_questions m with q :: _ => Some q | [] => None end
  | _ => None
  end.

Definition table_oracle (t : table) (plan : fault_plan) : oracle := fun n p a req =>
  let base := match req with
              | [] => None
              | _ => match request_question req with
                     | Some q => table_lookup t (fst a) q
                     | None => None
                     end
              end in
  reply_of (plan_lookup plan n) p req base.

(* the oracle that asks the universe directly (what the table is computed from) *)
Definition universe_oracle (u : universe) (plan : fault_plan) : oracle := fun n p a req =>
  let base := match req with
              | [] => None
              | _ => match request_question req with
                     | Some q => match serve u (fst a) q with
                                 | Some m => match encode m with Ok bs => Some bs | _ => None end
                                 | None => None
                                 end
                     | None => None
                     end
              end in
  reply_of (plan_lookup plan n) p req base.
