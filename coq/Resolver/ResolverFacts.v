(* Resolver/ResolverFacts.v -- first lemmas about the transport model and the universe
   specification (C07, C08, C18).  This is the first step: facts that hold by
   construction of the transport combinators and of Universe.v.  Termination,
   provenance, the family rules and correctness of the recursive model are the
   follow-up. *)
From RV Require Import Base.Prelude Name.NameModel Wire.WireTypes Wire.WireModel Zone.ZoneModel
     Resolver.LocalModel Resolver.ValidateModel Resolver.TransportModel Resolver.RecursiveModel
     Resolver.ForwardingModel Resolver.Universe.

(* ---------------------------------------------------------------------- *)
(* time (C08)                                                             *)
(* ---------------------------------------------------------------------- *)

Lemma udp_outcome_cost : forall r, fst (udp_outcome r) <= UDP_TIMEOUT_MS.
Proof.
  intros r. unfold udp_outcome.
  destruct (t_refuse r); cbn [fst]; [apply N.le_0_l|].
  destruct (t_bytes r); cbn [fst]; [|lia].
  destruct (UDP_TIMEOUT_MS <? t_delay_ms r) eqn:E; cbn [fst]; [lia|].
  apply N.ltb_ge in E. exact E.
Qed.

Lemma tcp_outcome_cost : forall r, fst (tcp_outcome r) <= TCP_TIMEOUT_MS.
Proof.
  intros r. unfold tcp_outcome.
  destruct (TCP_TIMEOUT_MS <? t_delay_ms r) eqn:E; cbn [fst]; [lia|].
  apply N.ltb_ge in E.
  destruct (read_tcp_stream _ _) as [[b|]|]; cbn [fst]; lia.
Qed.

Definition time_step (bound : N) (s s' : tstate) : Prop :=
  ts_elapsed s <= ts_elapsed s' /\ ts_elapsed s' <= ts_elapsed s + bound /\ ts_elapsed s' <= BUDGET_MS.

Lemma charge_step : forall c bound s x s',
  c <= bound -> ts_elapsed s <= BUDGET_MS -> charge c s = (x, s') -> time_step bound s s'.
Proof.
  intros c bound s x s' Hc Hs H. unfold charge in H.
  destruct (BUDGET_MS <? ts_elapsed s + c) eqn:E; inversion H; subst; clear H; unfold time_step; cbn [ts_elapsed].
  - apply N.ltb_lt in E. lia.
  - apply N.ltb_ge in E. lia.
Qed.

Lemma charge_within_budget : forall c s x s',
  ts_elapsed s <= BUDGET_MS -> charge c s = (x, s') -> ts_elapsed s' <= BUDGET_MS.
Proof.
  intros c s x s' Hs H. unfold charge in H.
  destruct (BUDGET_MS <? ts_elapsed s + c) eqn:E; inversion H; subst; clear H; cbn [ts_elapsed].
  - lia.
  - apply N.ltb_ge in E. lia.
Qed.

Lemma time_step_refl : forall b s, ts_elapsed s <= BUDGET_MS -> time_step b s s.
Proof. intros. unfold time_step. lia. Qed.

Lemma log_call_elapsed : forall k a q rd n r s, ts_elapsed (log_call k a q rd n r s) = ts_elapsed s.
Proof. reflexivity. Qed.
Lemma next_exchange_elapsed : forall s, ts_elapsed (next_exchange s) = ts_elapsed s.
Proof. reflexivity. Qed.

Lemma udp_exchange_time : forall o a q rd req s x s',
  ts_elapsed s <= BUDGET_MS -> udp_exchange o a q rd req s = (x, s') -> time_step UDP_TIMEOUT_MS s s'.
Proof.
  intros o a q rd req s x s' Hs H. unfold udp_exchange in H.
  destruct (512 <? llen req). { inversion H; subst. apply time_step_refl; assumption. }
  destruct (llen req <? 12). { inversion H; subst. apply time_step_refl; assumption. }
  pose proof (udp_outcome_cost (o (ts_nexch s) Udp a (clear_tc req))) as Hc.
  destruct (udp_outcome _) as [cost dgram]. cbn [fst] in Hc.
  set (s1 := next_exchange _) in H.
  assert (H1 : ts_elapsed s1 = ts_elapsed s) by reflexivity.
  destruct (charge cost s1) as [[u|w] s2] eqn:Ec.
  - assert (Hst : time_step UDP_TIMEOUT_MS s1 s2) by (eapply charge_step; [exact Hc | rewrite H1; exact Hs | exact Ec]).
    unfold time_step in *. rewrite H1 in Hst.
    destruct (decode_opt dgram); inversion H; subst; exact Hst.
  - assert (Hst : time_step UDP_TIMEOUT_MS s1 s2) by (eapply charge_step; [exact Hc | rewrite H1; exact Hs | exact Ec]).
    unfold time_step in *. rewrite H1 in Hst. inversion H; subst; exact Hst.
Qed.

Lemma tcp_exchange_time : forall o a q rd req s x s',
  ts_elapsed s <= BUDGET_MS -> tcp_exchange o a q rd req s = (x, s') -> time_step TCP_TIMEOUT_MS s s'.
Proof.
  intros o a q rd req s x s' Hs H. unfold tcp_exchange in H.
  set (s1 := next_exchange _) in H.
  assert (H1 : ts_elapsed s1 = ts_elapsed s) by reflexivity.
  destruct (t_refuse _). { inversion H; subst. unfold time_step. rewrite H1. lia. }
  destruct (llen req <? 12). { inversion H; subst. unfold time_step. rewrite H1. lia. }
  set (r := o _ Tcp a _) in H.
  pose proof (tcp_outcome_cost r) as Hc.
  destruct (tcp_outcome r) as [cost bytes]. cbn [fst] in Hc.
  set (s2 := log_call _ _ _ _ _ _ _) in H.
  assert (H2 : ts_elapsed s2 = ts_elapsed s) by reflexivity.
  destruct (charge cost s2) as [[u|w] s3] eqn:Ec;
    (assert (Hst : time_step TCP_TIMEOUT_MS s2 s3) by (eapply charge_step; [exact Hc | rewrite H2; exact Hs | exact Ec]));
    unfold time_step in *; rewrite H2 in Hst.
  - destruct (decode_opt bytes); inversion H; subst; exact Hst.
  - inversion H; subst; exact Hst.
Qed.

Lemma time_step_trans : forall b1 b2 s1 s2 s3,
  time_step b1 s1 s2 -> time_step b2 s2 s3 -> time_step (b1 + b2) s1 s3.
Proof. unfold time_step. intros. lia. Qed.

Lemma time_step_weaken : forall b b' s s', b <= b' -> time_step b s s' -> time_step b' s s'.
Proof. unfold time_step. intros. lia. Qed.

(* query_nameserver: at most one UDP and one TCP attempt, 5 s each, never past the budget *)
Lemma query_nameserver_time : forall o a q rd s x s',
  ts_elapsed s <= BUDGET_MS -> query_nameserver o a q rd s = (x, s') ->
  time_step (UDP_TIMEOUT_MS + TCP_TIMEOUT_MS) s s'.
Proof.
  intros o a q rd s x s' Hs H. unfold query_nameserver in H.
  destruct (encode _) as [req|e| |].
  2-4: inversion H; subst; apply time_step_refl; assumption.
  destruct (udp_exchange o a q rd req s) as [[[om req1]|w] s1] eqn:Eu.
  - pose proof (udp_exchange_time _ _ _ _ _ _ _ _ Hs Eu) as Hu.
    destruct (gate _ om).
    + inversion H; subst. eapply time_step_weaken; [|exact Hu]. lia.
    + assert (Hs1 : ts_elapsed s1 <= BUDGET_MS) by (unfold time_step in Hu; lia).
      destruct (tcp_exchange o a q rd req1 s1) as [[om2|w] s2] eqn:Et;
        pose proof (tcp_exchange_time _ _ _ _ _ _ _ _ Hs1 Et) as Ht;
        inversion H; subst; eapply time_step_trans; eassumption.
  - pose proof (udp_exchange_time _ _ _ _ _ _ _ _ Hs Eu) as Hu.
    inversion H; subst. eapply time_step_weaken; [|exact Hu]. lia.
Qed.

(* ---------------------------------------------------------------------- *)
(* destinations (C18)                                                     *)
(* ---------------------------------------------------------------------- *)

(* the log of [s'] is the log of [s] plus new calls, all of them to [a] about [q] *)
Definition logged_to (a : addr) (q : question) (rd : bool) (s s' : tstate) : Prop :=
  exists new, ts_rlog s' = new ++ ts_rlog s
              /\ Forall (fun x => x_addr x = a /\ x_question x = q /\ x_rd x = rd) new.

Lemma logged_to_refl : forall a q rd s, logged_to a q rd s s.
Proof. intros. exists []. split; [reflexivity | constructor]. Qed.

Lemma logged_to_trans : forall a q rd s1 s2 s3,
  logged_to a q rd s1 s2 -> logged_to a q rd s2 s3 -> logged_to a q rd s1 s3.
Proof.
  intros a q rd s1 s2 s3 [n1 [E1 F1]] [n2 [E2 F2]]. exists (n2 ++ n1). split.
  - rewrite E2, E1, app_assoc. reflexivity.
  - apply Forall_app. split; assumption.
Qed.

Lemma charge_rlog : forall c s x s', charge c s = (x, s') -> ts_rlog s' = ts_rlog s.
Proof.
  intros c s x s' H. unfold charge in H. destruct (_ <? _); inversion H; subst; reflexivity.
Qed.

Lemma udp_exchange_dest : forall o a q rd req s x s',
  udp_exchange o a q rd req s = (x, s') -> logged_to a q rd s s'.
Proof.
  intros o a q rd req s x s' H. unfold udp_exchange in H.
  destruct (512 <? llen req). { inversion H; subst. apply logged_to_refl. }
  destruct (llen req <? 12). { inversion H; subst. apply logged_to_refl. }
  destruct (udp_outcome _) as [cost dgram].
  set (s1 := next_exchange _) in H.
  assert (L1 : logged_to a q rd s s1).
  { eexists [_]. split; [reflexivity|]. constructor; [|constructor]. cbn. auto. }
  destruct (charge cost s1) as [[u|w] s2] eqn:Ec; pose proof (charge_rlog _ _ _ _ Ec) as Hl.
  - assert (L2 : logged_to a q rd s s2).
    { destruct L1 as [n [E F]]. exists n. rewrite Hl. auto. }
    destruct (decode_opt dgram); inversion H; subst; exact L2.
  - inversion H; subst. destruct L1 as [n [E F]]. exists n. rewrite Hl. auto.
Qed.

Lemma tcp_exchange_dest : forall o a q rd req s x s',
  tcp_exchange o a q rd req s = (x, s') -> logged_to a q rd s s'.
Proof.
  intros o a q rd req s x s' H. unfold tcp_exchange in H.
  set (s1 := next_exchange _) in H.
  assert (L1 : logged_to a q rd s s1).
  { eexists [_]. split; [reflexivity|]. constructor; [|constructor]. cbn. auto. }
  destruct (t_refuse _). { inversion H; subst. exact L1. }
  destruct (llen req <? 12). { inversion H; subst. exact L1. }
  destruct (tcp_outcome _) as [cost bytes].
  set (s2 := log_call _ _ _ _ _ _ _) in H.
  assert (L2 : logged_to a q rd s s2).
  { eapply logged_to_trans; [exact L1|]. eexists [_]. split; [reflexivity|]. constructor; [|constructor]. cbn. auto. }
  destruct (charge cost s2) as [[u|w] s3] eqn:Ec; pose proof (charge_rlog _ _ _ _ Ec) as Hl;
    (assert (L3 : logged_to a q rd s s3) by (destruct L2 as [n [E F]]; exists n; rewrite Hl; auto)).
  - destruct (decode_opt bytes); inversion H; subst; exact L3.
  - inversion H; subst; exact L3.
Qed.

Lemma query_nameserver_dest : forall o a q rd s x s',
  query_nameserver o a q rd s = (x, s') -> logged_to a q rd s s'.
Proof.
  intros o a q rd s x s' H. unfold query_nameserver in H.
  destruct (encode _) as [req|e| |].
  2-4: inversion H; subst; apply logged_to_refl.
  destruct (udp_exchange o a q rd req s) as [[[om req1]|w] s1] eqn:Eu;
    pose proof (udp_exchange_dest _ _ _ _ _ _ _ _ Eu) as Lu.
  - destruct (gate _ om).
    + inversion H; subst. exact Lu.
    + destruct (tcp_exchange o a q rd req1 s1) as [[om2|w] s2] eqn:Et;
        pose proof (tcp_exchange_dest _ _ _ _ _ _ _ _ Et) as Lt;
        inversion H; subst; eapply logged_to_trans; eassumption.
  - inversion H; subst. exact Lu.
Qed.

(* every call query_nameserver logs goes to the given IP address and port *)
Lemma query_nameserver_port : forall o i port q rd s x s',
  query_nameserver o (i, port) q rd s = (x, s') ->
  exists new, ts_rlog s' = new ++ ts_rlog s /\ Forall (fun e => fst (x_addr e) = i /\ snd (x_addr e) = port) new.
Proof.
  intros o i port q rd s x s' H. apply query_nameserver_dest in H. destruct H as [new [E F]].
  exists new. split; [exact E|]. eapply Forall_impl; [|exact F].
  intros e [Ha _]. rewrite Ha. auto.
Qed.

(* the record types resolve_hostname_to_ip asks for, per mode *)
Lemma rtypes_of_mode_spec : forall m,
  match m with
  | OnlyV4 => rtypes_of_mode m = [RT_A]
  | OnlyV6 => rtypes_of_mode m = [RT_AAAA]
  | PreferV4 => rtypes_of_mode m = [RT_A; RT_AAAA]
  | PreferV6 => rtypes_of_mode m = [RT_AAAA; RT_A]
  end.
Proof. destruct m; reflexivity. Qed.

(* ---------------------------------------------------------------------- *)
(* the universe (C07)                                                     *)
(* ---------------------------------------------------------------------- *)

Lemma cut_owner_loop_spec : forall cuts n best c,
  cut_owner_loop cuts n best = Some c ->
  (best = Some c) \/ (is_subdomain_of n c = true /\ exists r, In r cuts /\ rr_name r = c).
Proof.
  induction cuts as [|x t IH]; intros n best c H; cbn [cut_owner_loop] in H.
  - left; exact H.
  - destruct (is_subdomain_of n (rr_name x)) eqn:Es.
    + destruct best as [b|].
      * destruct (nlabels (rr_name x) <? nlabels b).
        -- apply IH in H. destruct H as [H|[H1 [r [H2 H3]]]].
           ++ inversion H; subst. right. split; [exact Es|]. exists x. split; [left; reflexivity|reflexivity].
           ++ right. split; [exact H1|]. exists r. split; [right; exact H2|exact H3].
        -- apply IH in H. destruct H as [H|[H1 [r [H2 H3]]]]; [left; exact H|].
           right. split; [exact H1|]. exists r. split; [right; exact H2|exact H3].
      * apply IH in H. destruct H as [H|[H1 [r [H2 H3]]]].
        -- inversion H; subst. right. split; [exact Es|]. exists x. split; [left; reflexivity|reflexivity].
        -- right. split; [exact H1|]. exists r. split; [right; exact H2|exact H3].
    + apply IH in H. destruct H as [H|[H1 [r [H2 H3]]]]; [left; exact H|].
      right. split; [exact H1|]. exists r. split; [right; exact H2|exact H3].
Qed.

(* a referral names a delegation point of the zone that encloses the question name *)
Lemma cut_owner_spec : forall z n c,
  cut_owner z n = Some c -> is_subdomain_of n c = true /\ exists r, In r (uz_cuts z) /\ rr_name r = c.
Proof.
  intros z n c H. unfold cut_owner in H. apply cut_owner_loop_spec in H.
  destruct H as [H|H]; [discriminate|exact H].
Qed.

Lemma best_zone_spec : forall zs n best z,
  best_zone zs n best = Some z -> best = Some z \/ (In z zs /\ is_subdomain_of n (uz_apex z) = true).
Proof.
  induction zs as [|x t IH]; intros n best z H; cbn [best_zone] in H.
  - left; exact H.
  - destruct (is_subdomain_of n (uz_apex x)) eqn:Es.
    + destruct best as [b|].
      * destruct (_ <? _); apply IH in H; destruct H as [H|[H1 H2]].
        -- inversion H; subst. right. split; [left; reflexivity|exact Es].
        -- right. split; [right; exact H1|exact H2].
        -- left; exact H.
        -- right. split; [right; exact H1|exact H2].
      * apply IH in H. destruct H as [H|[H1 H2]].
        -- inversion H; subst. right. split; [left; reflexivity|exact Es].
        -- right. split; [right; exact H1|exact H2].
    + apply IH in H. destruct H as [H|[H1 H2]]; [left; exact H|].
      right. split; [right; exact H1|exact H2].
Qed.

Lemma rrs_at_in : forall z n r, In r (rrs_at z n) -> In r (zone_data z) /\ dname_eqb (rr_name r) n = true.
Proof. intros z n r H. unfold rrs_at in H. apply filter_In in H. exact H. Qed.

Lemma cname_at_in : forall here qtype cr target, cname_at here qtype = Some (cr, target) -> In cr here.
Proof.
  intros here qtype cr target H. unfold cname_at in H.
  destruct (rtype_matches RT_CNAME qtype); [discriminate|].
  destruct (find _ here) as [r|] eqn:Ef; [|discriminate].
  destruct (cname_target r); [|discriminate]. inversion H; subst.
  apply find_some in Ef. exact (proj1 Ef).
Qed.

(* every record of the expected answer is authoritative data of a zone of the universe
   that encloses its owner *)
Lemma auth_chain_from_universe : forall fuel u n qtype seen r,
  In r (aa_rrs (auth_chain fuel u n qtype seen)) ->
  exists z, In z (u_zones u) /\ In r (zone_data z) /\ is_subdomain_of (rr_name r) (uz_apex z) = true.
Proof.
  induction fuel as [|f IH]; intros u n qtype seen r H; cbn [auth_chain] in H.
  - destruct H.
  - destruct (best_zone (u_zones u) n None) as [z|] eqn:Eb; [|destruct H].
    destruct (cut_owner z n); [destruct H|].
    apply best_zone_spec in Eb. destruct Eb as [Eb|[Hz Hs]]; [discriminate|].
    assert (Hhere : forall x, In x (rrs_at z n) ->
              exists z0, In z0 (u_zones u) /\ In x (zone_data z0) /\ is_subdomain_of (rr_name x) (uz_apex z0) = true).
    { intros x Hx. apply rrs_at_in in Hx. destruct Hx as [Hx1 Hx2]. exists z. split; [exact Hz|]. split; [exact Hx1|].
      unfold dname_eqb in Hx2. apply andb_prop in Hx2. destruct Hx2 as [Hl _].
      unfold is_subdomain_of in *.
      assert (El : labels (rr_name x) = labels n).
      { clear - Hl. revert Hl. generalize (labels (rr_name x)) (labels n).
        induction l as [|a l IHl]; intros [|b l0] Hq; cbn in Hq; try discriminate; [reflexivity|].
        apply andb_prop in Hq. destruct Hq as [Hab Hq]. f_equal; [|apply IHl; exact Hq].
        clear - Hab. revert b Hab. induction a as [|c a IHa]; intros [|d b] Hq; cbn in Hq; try discriminate; [reflexivity|].
        apply andb_prop in Hq. destruct Hq as [Hcd Hq]. apply N.eqb_eq in Hcd. subst. f_equal. apply IHa; exact Hq. }
      rewrite El. exact Hs. }
    destruct (cname_at (rrs_at z n) qtype) as [[cr target]|] eqn:Ec.
    + apply cname_at_in in Ec.
      destruct (existsb _ _).
      * cbn [aa_rrs] in H. destruct H as [H|[]]. subst. apply Hhere. exact Ec.
      * cbn [aa_rrs] in H. destruct H as [H|H].
        -- subst. apply Hhere. exact Ec.
        -- eapply IH. exact H.
    + destruct (negb _); cbn [aa_rrs] in H; [|destruct H].
      apply filter_In in H. apply Hhere. exact (proj1 H).
Qed.

(* delegation points lie strictly below the apex of the zone that holds them *)
Definition wf_cuts (z : uzone) : Prop :=
  forall r, In r (uz_cuts z) ->
    is_subdomain_of (rr_name r) (uz_apex z) = true /\ nlabels (uz_apex z) < nlabels (rr_name r).

(* the referral a server gives from zone [z] names a delegation point that encloses the
   question name and is strictly deeper than the apex of [z] *)
Lemma referral_strictly_deeper : forall z n c,
  wf_cuts z -> cut_owner z n = Some c ->
  is_subdomain_of n c = true /\ nlabels (uz_apex z) < nlabels c.
Proof.
  intros z n c W H. apply cut_owner_spec in H. destruct H as [Hs [r [Hr Hc]]].
  split; [exact Hs|]. subst c. exact (proj2 (W r Hr)).
Qed.

Lemma auth_answer_from_universe : forall u q r,
  In r (aa_rrs (auth_answer u q)) ->
  exists z, In z (u_zones u) /\ In r (zone_data z) /\ is_subdomain_of (rr_name r) (uz_apex z) = true.
Proof. intros u q r. unfold auth_answer. apply auth_chain_from_universe. Qed.
