(* Resolver/RecursiveAlias.v -- C07 for ALIASES: a question whose authoritative answer is a CNAME
   chain n0 -> n1 -> ... -> nk (each link held by the zone owning its owner; the chain may cross
   zones) followed by the final RRset at nk, or NODATA / NXDOMAIN there.

   Contents:
     1. the reply filter on an alias answer: a run of CNAME records from the question name, followed
        or not by the final RRset -> NRAnswer (chain ++ finals) / NRCname chain target;
     2. the universe side: [achain] (the alias chain as the zones hold it), auth_answer of an alias
        question, and what [serve] replies at a server of the zone owning the alias: the chain as far
        as the server's zones go, then the final RRset if it holds it;
     3. resolve_local on a cached alias chain;
     4. the induction: resolve_recursive_notimeout on the question of any name of the chain, with
        the alias questions above it on the stack, from a consistent cache;
     5. the statement for [resolve]; a worked cross-zone alias. *)
From Coq Require Import Permutation.
From RV Require Import Base.Prelude Name.NameModel Name.NameSpec Name.NameProofs
     Wire.WireTypes Wire.WireModel Wire.WireGrammar Wire.WireEncodeProofs Wire.WireDecodeProofs
     Zone.ZoneModel Zone.ZoneFlat Zone.ZoneProofs
     Resolver.LocalModel Resolver.LocalSpec Resolver.LocalProofs
     Resolver.ValidateModel Resolver.ValidateSpec Resolver.ValidateProofs
     Resolver.TransportModel Resolver.RecursiveModel Resolver.ForwardingModel
     Resolver.RecursiveProofs Resolver.ForwardingProofs
     Resolver.Universe Resolver.ResolverFacts Resolver.RecursiveCorrect Resolver.RecursiveDepth1
     Resolver.RecursiveChain Resolver.RecursiveWarm.
Set Default Timeout 120.

(* ====================================================================== *)
(* 1. the reply filter on an alias answer                                   *)
(* ====================================================================== *)

(* cs are CNAME records c1..ck: c1 owned by n, each next owned by the target of the one before,
   the last pointing at f *)
Inductive cchain : dname -> list rr -> dname -> Prop :=
| cc_nil n : cchain n [] n
| cc_cons n c t cs f : rr_name c = n -> rr_type c = RT_CNAME -> rr_data c = RD_Name t -> cchain t cs f ->
                       cchain n (c :: cs) f.

(* the targets of a list of CNAME records *)
Definition ctargets (cs : list rr) : list dname :=
  flat_map (fun c => match rr_data c with RD_Name t => [t] | _ => [] end) cs.

Lemma cchain_app n pre post f : cchain n (pre ++ post) f -> exists m, cchain n pre m /\ cchain m post f.
Proof.
  revert n. induction pre as [|c pre IH]; intros n H; cbn [app] in H.
  - exists n. split; [constructor|exact H].
  - inversion H as [|? ? t ? ? H1 H2 H3 H4]; subst. destruct (IH t H4) as (m & Hp & Hq).
    exists m. split; [econstructor; eauto|exact Hq].
Qed.

Lemma ctargets_app a b : ctargets (a ++ b) = ctargets a ++ ctargets b.
Proof. unfold ctargets. apply flat_map_app. Qed.

(* the owners are the names but the last *)
Lemma cchain_owners n cs f : cchain n cs f -> map rr_name cs ++ [f] = n :: ctargets cs.
Proof.
  induction 1 as [n|n c t cs f H1 H2 H3 H4 IH]; [reflexivity|].
  cbn [map app ctargets flat_map]. rewrite H3. cbn [app]. fold (ctargets cs). rewrite IH, H1. reflexivity.
Qed.

Lemma cchain_nodup_owners n cs f : cchain n cs f -> NoDup (n :: ctargets cs) -> NoDup (map rr_name cs) /\ ~ In f (map rr_name cs).
Proof.
  intros H Hnd. rewrite <- (cchain_owners n cs f H) in Hnd. apply NoDup_remove in Hnd. rewrite app_nil_r in Hnd. exact Hnd.
Qed.

Lemma cchain_target_in n cs f : cchain n cs f -> forall c, In c cs ->
  rr_type c = RT_CNAME /\ exists t, rr_data c = RD_Name t.
Proof.
  induction 1 as [n|n c0 t cs f H1 H2 H3 H4 IH]; intros c Hc; [destruct Hc|].
  destruct Hc as [<-|Hc]; [eauto|exact (IH c Hc)].
Qed.

Lemma find_unique {A} (p : A -> bool) (c : A) : forall l, In c l -> p c = true ->
  (forall y, In y l -> p y = true -> y = c) -> find p l = Some c.
Proof.
  induction l as [|x l IH]; intros Hin Hp Hu; [destruct Hin|]. cbn [find].
  destruct (p x) eqn:E.
  - f_equal. apply Hu; [left; reflexivity|exact E].
  - destruct Hin as [->|Hin]; [congruence|]. apply IH; [exact Hin|exact Hp|]. intros y Hy. apply Hu. right. exact Hy.
Qed.

Lemma filter_none {A} (p : A -> bool) : forall l, (forall x, In x l -> p x = false) -> filter p l = [].
Proof.
  induction l as [|x l IH]; intro H; [reflexivity|]. cbn [filter]. rewrite (H x (or_introl eq_refl)).
  apply IH. intros y Hy. apply H. right. exact Hy.
Qed.

Section FilterAlias.
  Variable q : question.
  Hypothesis Hqc : concrete (q_type q).
  Hypothesis Hqcn : q_type q <> RT_CNAME.
  Variable cs fin : list rr.
  Variable f : dname.
  Hypothesis Hcs : cs <> [].
  Hypothesis Hchain : cchain (q_name q) cs f.
  Hypothesis Hnd : NoDup (q_name q :: ctargets cs).
  Hypothesis Hknown : Forall (fun r => rr_is_unknown r = false) (cs ++ fin).
  (* the final records: owned by f, of the asked type *)
  Hypothesis Hfin : Forall (fun r => rr_name r = f /\ rr_type r = q_type q) fin.

  Let answers := cs ++ fin.
  Let m := snd (cname_scan answers (q_name q) (q_type q) false []).

  Lemma fa_cname_in r k t : In r answers -> cname_rr r k t -> In r cs.
  Proof.
    intros Hin (Hn & Ht & Hd). apply in_app_or in Hin as [Hin|Hin]; [exact Hin|]. exfalso.
    rewrite Forall_forall in Hfin. destruct (Hfin r Hin) as [_ Ht']. congruence.
  Qed.

  Lemma fa_owner_unique r c : In r cs -> In c cs -> rr_name r = rr_name c -> r = c.
  Proof.
    intros Hr Hc E. destruct (cchain_nodup_owners _ _ _ Hchain Hnd) as [Hno _].
    clear - Hr Hc E Hno. induction cs as [|x l IH]; [destruct Hr|]. cbn [map] in Hno. inversion Hno; subst.
    destruct Hr as [->|Hr], Hc as [->|Hc]; try reflexivity.
    - exfalso. apply H1. rewrite E. apply in_map, Hc.
    - exfalso. apply H1. rewrite <- E. apply in_map, Hr.
    - apply IH; assumption.
  Qed.

  Lemma fa_lookup c t : In c cs -> rr_data c = RD_Name t -> alookup dname_eqb (rr_name c) m = Some t.
  Proof.
    intros Hc Hd. destruct (cchain_target_in _ _ _ Hchain c Hc) as (Hct & _).
    assert (Hk : known c) by (rewrite Forall_forall in Hknown; apply Hknown, in_or_app; left; exact Hc).
    destruct (alookup dname_eqb (rr_name c) m) as [t'|] eqn:E.
    - destruct (scan_map_sound _ _ _ _ _ _ _ E) as [H|(r & Hr & _ & Hcr)]; [discriminate|].
      pose proof (fa_cname_in r _ _ Hr Hcr) as Hrc. destruct Hcr as (Hn & _ & Hd').
      assert (r = c) by (apply fa_owner_unique; assumption). subst r. congruence.
    - exfalso. revert E. apply scan_map_complete. right. exists c, t. split; [apply in_or_app; left; exact Hc|].
      split; [exact Hk|]. split; [reflexivity|auto].
  Qed.

  Lemma fa_final_none : alookup dname_eqb f m = None.
  Proof.
    destruct (alookup dname_eqb f m) as [t|] eqn:E; [|reflexivity]. exfalso.
    destruct (scan_map_sound _ _ _ _ _ _ _ E) as [H|(r & Hr & _ & Hcr)]; [discriminate|].
    pose proof (fa_cname_in r _ _ Hr Hcr) as Hrc. destruct Hcr as (Hn & _).
    destruct (cchain_nodup_owners _ _ _ Hchain Hnd) as [_ Hnot]. apply Hnot. rewrite <- Hn. apply in_map, Hrc.
  Qed.

  Lemma fa_len : (length cs <= length m)%nat.
  Proof.
    destruct (cchain_nodup_owners _ _ _ Hchain Hnd) as [Hno _].
    rewrite <- (map_length rr_name cs), <- (map_length fst m). apply NoDup_incl_length; [exact Hno|].
    intros k Hk. apply in_map_iff in Hk as (c & <- & Hc).
    destruct (cchain_target_in _ _ _ Hchain c Hc) as (_ & t & Hd).
    pose proof (fa_lookup c t Hc Hd) as E. apply alookup_some in E. apply (in_map fst) in E. exact E.
  Qed.

  (* the walk follows the chain *)
  Lemma fa_walk : forall l n seen fuel o, cchain n l f -> (forall c, In c l -> In c cs) ->
    NoDup (seen ++ ctargets l) -> cname_walk fuel m seen n = Ok o -> o = Some (f, seen ++ ctargets l).
  Proof.
    induction l as [|c l IH]; intros n seen fuel o Hch Hsub Hnd' Hw; destruct fuel as [|fuel]; try discriminate Hw;
      cbn [cname_walk] in Hw; inversion Hch; subst.
    - rewrite fa_final_none in Hw. inversion Hw. cbn [ctargets flat_map]. rewrite app_nil_r. reflexivity.
    - rewrite (fa_lookup c t (Hsub c (or_introl eq_refl)) H4) in Hw.
      cbn [ctargets flat_map] in Hnd'. rewrite H4 in Hnd'. cbn [app] in Hnd'. fold (ctargets l) in Hnd'.
      assert (Hmem : set_mem t seen = false).
      { apply set_mem_false. intro Hin. apply NoDup_remove_2 in Hnd'. apply Hnd'. apply in_or_app. left. exact Hin. }
      rewrite Hmem in Hw.
      rewrite (IH t (seen ++ [t]) fuel o H6 (fun x Hx => Hsub x (or_intror Hx))) in *; try assumption.
      + cbn [ctargets flat_map]. rewrite H4. cbn [app]. fold (ctargets l). rewrite <- app_assoc. reflexivity.
      + rewrite <- app_assoc. exact Hnd'.
      + rewrite <- app_assoc. exact Hnd'.
  Qed.

  Lemma fa_follow : follow_cnames answers (q_name q) (q_type q) = Ok (Some (f, m)).
  Proof.
    unfold follow_cnames. fold answers.
    rewrite (surjective_pairing (cname_scan answers (q_name q) (q_type q) false [])). fold m.
    pose proof Hqcn as Hq'. apply N.eqb_neq in Hq'. rewrite Hq'.
    destruct (walk_ok m (S (S (length m))) [] (q_name q)) as [[o Hw]|Hw].
    - rewrite Hw.
      assert (Hnd0 : NoDup ([] ++ ctargets cs)) by (cbn [app]; apply NoDup_cons_iff in Hnd; exact (proj2 Hnd)).
      pose proof (fa_walk cs (q_name q) [] (S (S (length m))) o Hchain (fun c H => H) Hnd0 Hw) as Eo. subst o.
      cbn [app]. destruct (ctargets cs) as [|t l] eqn:Et.
      + exfalso. destruct cs as [|c l']; [congruence|]. inversion Hchain; subst.
        cbn [ctargets flat_map] in Et. rewrite H4 in Et. discriminate Et.
      + cbn [is_nil negb]. rewrite orb_true_r. reflexivity.
    - exfalso. revert Hw. apply walk_terminates; [constructor|intros x []|cbn [length]; lia].
  Qed.

  Lemma fa_path : forall l n fuel, cchain n l f -> (forall c, In c l -> In c cs) -> (length l < fuel)%nat ->
    path_cnames fuel answers m f n = l.
  Proof.
    induction l as [|c l IH]; intros n fuel Hch Hsub Hlen; (destruct fuel as [|fuel]; [cbn in Hlen; lia|]);
      cbn [path_cnames]; inversion Hch; subst.
    - rewrite dname_eqb_refl. reflexivity.
    - assert (Hc : In c cs) by (apply Hsub; left; reflexivity).
      assert (Hne : dname_eqb (rr_name c) f = false).
      { apply dname_eqb_neq. intro E. destruct (cchain_nodup_owners _ _ _ Hchain Hnd) as [_ Hnot]. apply Hnot.
        rewrite <- E. apply in_map, Hc. }
      rewrite Hne, (fa_lookup c t Hc H4). fold (path_pred (rr_name c) t).
      assert (Hk : known c) by (rewrite Forall_forall in Hknown; apply Hknown, in_or_app; left; exact Hc).
      rewrite (find_unique (path_pred (rr_name c) t) c answers).
      + cbn [app]. f_equal. apply IH; [exact H6|intros x Hx; apply Hsub; right; exact Hx|cbn [length] in Hlen; lia].
      + apply in_or_app. left. exact Hc.
      + apply path_pred_spec. split; [exact Hk|]. split; [reflexivity|auto].
      + intros y Hy Hp. apply path_pred_spec in Hp as [_ Hcr]. pose proof (fa_cname_in y _ _ Hy Hcr) as Hyc.
        apply fa_owner_unique; [exact Hyc|exact Hc|exact (proj1 Hcr)].
  Qed.

  Lemma fa_finals : filter (final_pred q f) answers = fin.
  Proof.
    unfold answers. rewrite filter_app.
    assert (H1 : filter (final_pred q f) cs = []).
    { apply filter_none. intros c Hc. unfold final_pred.
      destruct (cchain_target_in _ _ _ Hchain c Hc) as (Ht & _). rewrite Ht.
      assert (Hm : rtype_matches RT_CNAME (q_type q) = false).
      { destruct (rtype_matches RT_CNAME (q_type q)) eqn:E; [|reflexivity]. exfalso. apply Hqcn. symmetry.
        exact (concrete_matches _ _ Hqc E). }
      rewrite Hm, andb_false_r. reflexivity. }
    rewrite H1. cbn [app]. clear H1.
    assert (Hk : Forall (fun r => rr_is_unknown r = false) fin) by (apply Forall_app in Hknown; exact (proj2 Hknown)).
    clear - Hfin Hk Hqc. induction fin as [|r l IH]; [reflexivity|].
    inversion Hfin as [|? ? [Hn Ht] Hl]; inversion Hk as [|? ? Hkr Hkl]; subst.
    cbn [filter]. unfold final_pred at 1. rewrite Hkr, Ht, (concrete_matches_refl _ Hqc), dname_eqb_refl. cbn [negb andb].
    f_equal. apply IH; assumption.
  Qed.

  (* the filter keeps the chain and the final records, in order *)
  Theorem validate_alias aa rcode au ad mc :
    validate_nameserver_response q (msg q aa rcode (cs ++ fin) au ad) mc
    = Ok (Some (if is_nil fin then NRCname cs f else NRAnswer (cs ++ fin) None)).
  Proof.
    pose proof (validate_answer_eq q (msg q aa rcode (cs ++ fin) au ad) mc f m fa_follow) as E. cbv zeta in E.
    change (m_answers (msg q aa rcode (cs ++ fin) au ad)) with answers in E.
    rewrite fa_finals in E.
    rewrite (fa_path cs (q_name q) (S (length m)) Hchain (fun c H => H)) in E by (pose proof fa_len; lia).
    rewrite E. destruct fin; cbn [is_nil negb]; [rewrite app_nil_r|]; reflexivity.
  Qed.
End FilterAlias.

(* ====================================================================== *)
(* 2. the universe side: alias chains, auth_answer, serve                   *)
(* ====================================================================== *)

Lemma cname_at_spec z n t cr tg : cname_at (rrs_at z n) t = Some (cr, tg) ->
  In cr (zone_data z) /\ rr_name cr = n /\ rr_type cr = RT_CNAME /\ rr_data cr = RD_Name tg.
Proof.
  intro H. pose proof (cname_at_in _ _ _ _ H) as Hin. apply rrs_at_in in Hin as [Hin Hn]. apply dname_eqb_eq in Hn.
  unfold cname_at in H. destruct (rtype_matches RT_CNAME t); [discriminate|].
  destruct (find _ (rrs_at z n)) as [r|] eqn:Ef; [|discriminate].
  destruct (cname_target r) as [c|] eqn:Ec; [|discriminate]. inversion H; subst.
  unfold cname_target in Ec. destruct (rr_type cr =? RT_CNAME) eqn:Et; [|discriminate]. apply N.eqb_eq in Et.
  destruct (rr_data cr); try discriminate. inversion Ec; subst. auto.
Qed.

Section UniverseAlias.
  Variable u : universe.
  Variable t cl : N.
  Notation Q n := (mkq n t cl).

  (* the alias chain as the zones of the universe hold it: each name is owned (longest apex, no cut
     on the way) by a zone whose data at the name is a CNAME to the next *)
  Inductive achain : dname -> list rr -> dname -> Prop :=
  | ac_nil n : achain n [] n
  | ac_cons n z cr tg cs f : best_zone (u_zones u) n None = Some z -> cut_owner z n = None ->
      cname_at (rrs_at z n) t = Some (cr, tg) -> achain tg cs f -> achain n (cr :: cs) f.

  Lemma achain_cchain n cs f : achain n cs f -> cchain n cs f.
  Proof.
    induction 1 as [n|n z cr tg cs f Hb Hc Hn Ha IH]; [constructor|].
    destruct (cname_at_spec _ _ _ _ _ Hn) as (_ & H1 & H2 & H3). econstructor; eauto.
  Qed.

  Lemma achain_nil_inv n f : achain n [] f -> f = n.
  Proof. intro H. inversion H. reflexivity. Qed.

  Lemma achain_cons_inv n cr cs f : achain n (cr :: cs) f ->
    exists z tg, best_zone (u_zones u) n None = Some z /\ cut_owner z n = None
                 /\ cname_at (rrs_at z n) t = Some (cr, tg) /\ achain tg cs f.
  Proof. intro H. inversion H; subst. eauto 8. Qed.

  Lemma achain_app n pre post f : achain n (pre ++ post) f -> exists m, achain n pre m /\ achain m post f.
  Proof.
    revert n. induction pre as [|c pre IH]; intros n H; cbn [app] in H.
    - exists n. split; [constructor|exact H].
    - apply achain_cons_inv in H as (z & tg & H1 & H2 & H3 & H4). destruct (IH _ H4) as (m & Hp & Hq).
      exists m. split; [econstructor; eauto|exact Hq].
  Qed.

  Variable f : dname.
  Variable zf : uzone.
  Hypothesis Hf : owns_plainly u zf (Q f).
  Notation finals := (aa_rrs (auth_answer u (Q f))).

  Lemma auth_plain fuel seen : auth_chain (S fuel) u f t seen = auth_answer u (Q f).
  Proof.
    destruct Hf as (Hb & Hc & Hn). cbn [mkq q_name q_type] in *.
    unfold auth_answer. change CHAIN_FUEL with (S 63). cbn [mkq q_name q_type].
    rewrite !auth_chain_S, Hb, Hc. cbv zeta. rewrite Hn. reflexivity.
  Qed.

  Lemma finals_eq : finals = filter (fun r => rtype_matches (rr_type r) t) (rrs_at zf f).
  Proof.
    destruct Hf as (Hb & Hc & Hn). cbn [mkq q_name q_type] in *.
    unfold auth_answer. change CHAIN_FUEL with (S 63). cbn [mkq q_name q_type].
    rewrite auth_chain_S, Hb, Hc. cbv zeta. rewrite Hn. destruct (filter _ _); reflexivity.
  Qed.

  (* auth_answer of an alias question: the chain, then the final answer *)
  Lemma auth_chain_alias : forall cs n seen fuel, achain n cs f ->
    NoDup (n :: ctargets cs) -> (forall x, In x seen -> ~ In x (n :: ctargets cs)) ->
    let a := auth_chain (length cs + S fuel) u n t seen in
    aa_rrs a = cs ++ finals /\ aa_soa a = aa_soa (auth_answer u (Q f)) /\ aa_defined a = aa_defined (auth_answer u (Q f)).
  Proof.
    induction cs as [|cr cs IH]; intros n seen fuel Ha Hnd Hseen.
    - apply achain_nil_inv in Ha. subst n. cbn [length Nat.add app]. cbv zeta. rewrite auth_plain. auto.
    - apply achain_cons_inv in Ha as (z & tg & H1 & H2 & H4 & H7).
      cbn [length Nat.add]. cbv zeta. rewrite auth_chain_S, H1, H2. cbv zeta. rewrite H4.
      destruct (cname_at_spec _ _ _ _ _ H4) as (_ & _ & _ & Hd).
      cbn [ctargets flat_map] in Hnd, Hseen. rewrite Hd in Hnd, Hseen. cbn [app] in Hnd, Hseen. fold (ctargets cs) in Hnd, Hseen.
      assert (Hloop : existsb (dname_eqb tg) (n :: seen) = false).
      { destruct (existsb (dname_eqb tg) (n :: seen)) eqn:E; [|reflexivity]. exfalso.
        apply existsb_exists in E as (x & Hx & Hxe). apply dname_eqb_eq in Hxe. subst x. destruct Hx as [<-|Hx].
        - inversion Hnd as [|? ? Hnotin _]. apply Hnotin. left. reflexivity.
        - apply (Hseen tg Hx). right. left. reflexivity. }
      rewrite Hloop.
      destruct (IH tg (n :: seen) fuel H7) as (E1 & E2 & E3).
      + inversion Hnd; assumption.
      + intros x [<-|Hx] Hin; [inversion Hnd as [|? ? Hnotin _]; exact (Hnotin Hin)|]. apply (Hseen x Hx). right. exact Hin.
      + cbv zeta in E1, E2, E3. cbn [aa_rrs aa_soa aa_defined app]. rewrite E1, E2, E3. auto.
  Qed.

  Lemma auth_answer_alias n cs : achain n cs f -> NoDup (n :: ctargets cs) -> (length cs < 64)%nat ->
    aa_rrs (auth_answer u (Q n)) = cs ++ finals /\ aa_soa (auth_answer u (Q n)) = aa_soa (auth_answer u (Q f)).
  Proof.
    intros Ha Hnd Hlen. unfold auth_answer at 1 3. cbn [mkq q_name q_type].
    replace CHAIN_FUEL with (length cs + S (63 - length cs))%nat by (unfold CHAIN_FUEL; lia).
    destruct (auth_chain_alias cs n [] (63 - length cs) Ha Hnd ltac:(intros x [])) as (E1 & E2 & _). auto.
  Qed.

  (* a server that considers itself authoritative for a name of the chain (a zone of its enclosing the
     name, no delegation point of that zone on the way) has the zone that owns the name *)
  Definition srv_auth_ok (zsA : list uzone) (names : list dname) : Prop :=
    forall n' z', In n' names -> best_zone zsA n' None = Some z' -> cut_owner z' n' = None ->
                  best_zone (u_zones u) n' None = Some z'.

  (* what a server adds after the first alias: the chain as far as its zones go, then the final RRset
     if it has it *)
  Lemma serve_tail zsA : forall cs n fuel, achain n cs f -> srv_auth_ok zsA (n :: ctargets cs) -> (length cs < fuel)%nat ->
    exists pre post F, sr_answers (serve_name fuel zsA n t false) = pre ++ F /\ cs = pre ++ post
                       /\ (F = [] \/ (post = [] /\ F = finals /\ finals <> [])).
  Proof.
    induction cs as [|cr cs IH]; intros n fuel Ha Hsrv Hlen; (destruct fuel as [|fuel]; [cbn in Hlen; lia|]);
      rewrite serve_name_S; [apply achain_nil_inv in Ha; subst n|apply achain_cons_inv in Ha as (z & tg & H1 & H2 & H4 & H7)].
    - destruct (best_zone zsA f None) as [z'|] eqn:Eb; [|exists [], [], []; cbv beta iota; cbn [sr_plain sr_answers app]; auto].
      destruct (cut_owner z' f) eqn:Ec; [exists [], [], []; cbv beta iota; cbn [sr_plain sr_answers app]; auto|].
      pose proof (Hsrv f z' (or_introl eq_refl) Eb Ec) as Hb'.
      destruct Hf as (Hb & Hc & Hn). cbn [mkq q_name q_type] in Hb, Hc, Hn. assert (z' = zf) by congruence. subst z'.
      cbv zeta. rewrite Hn. rewrite <- finals_eq.
      destruct finals as [|r0 l0] eqn:Ef; cbn [is_nil negb]; [exists [], [], []; cbv beta iota; cbn [sr_plain sr_answers app]; auto|].
      exists [], [], (r0 :: l0). cbn [sr_plain sr_answers app]. split; [reflexivity|]. split; [reflexivity|].
      right. split; [reflexivity|]. split; [reflexivity|discriminate].
    - destruct (best_zone zsA n None) as [z'|] eqn:Eb; [|exists [], (cr :: cs), []; cbv beta iota; cbn [sr_plain sr_answers app]; auto].
      destruct (cut_owner z' n) eqn:Ec; [exists [], (cr :: cs), []; cbv beta iota; cbn [sr_plain sr_answers app]; auto|].
      pose proof (Hsrv n z' (or_introl eq_refl) Eb Ec) as Hb'. assert (z' = z) by congruence. subst z'.
      cbv zeta. rewrite H4. cbn [sr_answers].
      destruct (cname_at_spec _ _ _ _ _ H4) as (_ & _ & _ & Hd).
      destruct (IH tg fuel H7) as (pre & post & F & E1 & E2 & E3).
      + intros n' z' Hin. apply Hsrv. right. cbn [ctargets flat_map]. rewrite Hd. exact Hin.
      + cbn [length] in Hlen. lia.
      + exists (cr :: pre), post, F. cbn [app]. rewrite E1, E2. auto.
  Qed.

  (* the reply of a server whose closest zone for the alias name is its owner *)
  Lemma serve_alias a n z cr cs :
    achain n (cr :: cs) f -> serves_owner u a z (Q n) -> best_zone (u_zones u) n None = Some z ->
    (forall zsA, zones_of_server u a = Some zsA -> srv_auth_ok zsA (ctargets (cr :: cs))) ->
    (length cs < 63)%nat ->
    exists pre post F,
      serve u a (Q n) = Some (msg (Q n) true RCODE_NoError ((cr :: pre) ++ F) [] [])
      /\ cs = pre ++ post /\ (F = [] \/ (post = [] /\ F = finals /\ finals <> [])).
  Proof.
    intros Ha (zsA & Hz & Hbz) Hown Hsrv Hlen. cbn [mkq q_name] in Hbz.
    apply achain_cons_inv in Ha as (z0 & tg & H1 & H2 & H5 & H8). assert (z0 = z) by congruence. subst z0.
    destruct (cname_at_spec _ _ _ _ _ H5) as (_ & _ & _ & Hd).
    destruct (serve_tail zsA cs tg 63 H8) as (pre & post & F & E1 & E2 & E3).
    { intros n' z' Hin. apply (Hsrv zsA Hz). cbn [ctargets flat_map]. rewrite Hd. exact Hin. }
    { exact Hlen. }
    exists pre, post, F. split; [|auto].
    unfold serve. rewrite Hz. change CHAIN_FUEL with (S 63). cbn [mkq q_name q_type].
    rewrite serve_name_S, Hbz, H2. cbv zeta. rewrite H5. unfold msg. cbn [app]. rewrite E1. reflexivity.
  Qed.
End UniverseAlias.

(* ====================================================================== *)
(* 3. what is asked of an alias chain; resolve_local on a cached chain      *)
(* ====================================================================== *)

Section AliasDefs.
  Variable u : universe.
  Variable hints : list rr.
  Variable t cl : N.
  Notation Q n := (mkq n t cl).

  (* the alias at [n]: the zone [zk] owns n and holds the CNAME [cr] -> [tg] there; the universe holds
     no other record (cut, glue or data) owned by n; the CNAME has a positive TTL and is of a known
     class *)
  Record alias_at (n : dname) (zk : uzone) (cr : rr) (tg : dname) : Prop := {
    al_zone : best_zone (u_zones u) n None = Some zk;
    al_nocut : cut_owner zk n = None;
    al_cname : cname_at (rrs_at zk n) t = Some (cr, tg);
    al_sole : forall r, u_record u r -> rr_name r = n -> r = cr;
    al_ttl : 0 < rr_ttl cr;
    al_known : rr_is_unknown cr = false }.

  (* the alias chain from [n] to [f], every name with its delegation chain; the index bounds the fuel
     the resolution needs *)
  Inductive alias_path : nat -> dname -> list rr -> dname -> Prop :=
  | ap_end f zroot rest zk :
      warm_question u hints (Q f) zroot rest zk -> plain_question u (Q f) ->
      alias_path (length rest + 2) f [] f
  | ap_link k n cr tg cs f zroot rest zk :
      walk_question u hints (Q n) zroot rest zk -> alias_at n zk cr tg -> plain_question u (Q n) ->
      alias_path k tg cs f ->
      alias_path (length rest + 2 + k) n (cr :: cs) f.

  Lemma alias_path_achain k n cs f : alias_path k n cs f -> achain u t n cs f.
  Proof.
    induction 1 as [f zroot rest zk WQ PQ|k n cr tg cs f zroot rest zk WK AL PQ Hp IH]; [constructor|].
    econstructor; [exact (al_zone _ _ _ _ AL)|exact (al_nocut _ _ _ _ AL)|exact (al_cname _ _ _ _ AL)|exact IH].
  Qed.

  Lemma alias_path_final k n cs f : alias_path k n cs f ->
    exists zroot rest zk, warm_question u hints (Q f) zroot rest zk /\ plain_question u (Q f).
  Proof. induction 1; eauto. Qed.

  (* the part of the path after a prefix of the chain *)
  Lemma alias_path_split : forall pre k n post f m, alias_path k n (pre ++ post) f -> cchain n pre m ->
    exists k', (k' <= k)%nat /\ alias_path k' m post f.
  Proof.
    induction pre as [|c pre IH]; intros k n post f m Hp Hc; cbn [app] in Hp.
    - inversion Hc; subst. exists k. split; [lia|exact Hp].
    - inversion Hc as [|? ? t' ? ? H1 H2 H3 H4]; subst. inversion Hp as [|k0 ? ? tg ? ? zroot rest zk WK AL PQ Hp']; subst.
      destruct (cname_at_spec _ _ _ _ _ (al_cname _ _ _ _ AL)) as (_ & _ & _ & Hd).
      assert (tg = t') by congruence. subst tg.
      destruct (IH _ _ _ _ _ Hp' H4) as (k' & Hk & Hq). exists k'. split; [lia|exact Hq].
  Qed.

  (* every link of the path is an alias of the universe *)
  Lemma alias_path_links k n cs f : alias_path k n cs f ->
    Forall (fun cr => exists n' zk tg, alias_at n' zk cr tg /\ ~ ns_host_name u n') cs.
  Proof.
    induction 1 as [|k n cr tg cs f zroot rest zk WK AL PQ Hp IH]; constructor; [|exact IH].
    exists n, zk, tg. split; [exact AL|exact (wk_nothost _ _ _ _ _ _ WK)].
  Qed.
End AliasDefs.

Lemma rr_sim_sym a b : rr_sim a b -> rr_sim b a.
Proof. intros (H1 & H2 & H3). repeat split; congruence. Qed.

Section LocalAlias.
  Variable cache : Type.
  Variable cache_get : cache -> dname -> N -> list rr.
  Variable cache_insert_all : cache -> list rr -> cache.
  Hypothesis LAWS : cache_laws cache cache_get cache_insert_all.
  Variable zs : zones.
  Variable hints : list rr.
  Hypothesis Hz : hints_zones zs hints.
  Variable u : universe.
  Hypothesis UNS : universe_ns_ok u.
  Variable t cl : N.
  Notation Q n := (mkq n t cl).
  Variable c : cache.
  Hypothesis HC : cache_consistent u hints cache cache_get c.
  Notation cget := (cache_get c).

  Lemma zone_phase_miss q sub : wf_name (q_name q) -> q_type q <> QT_Wildcard ->
    (forall x, ~ hint_match hints (q_name q) (q_type q) x) -> zone_phase zs q sub = ZContinue [].
  Proof.
    intros Hn Hq Hno. unfold zone_phase.
    destruct (proj2 Hz (q_name q) (q_type q) Hn Hq) as (hz & zr & -> & -> & [[-> _]|(rrs & -> & Hin)]); [reflexivity|].
    assert (rrs = []) as ->.
    { destruct rrs as [|x l]; [reflexivity|]. exfalso. apply (Hno x), Hin. left. reflexivity. }
    cbn [is_nil negb]. rewrite andb_false_r. reflexivity.
  Qed.

  (* at an alias name the cache holds nothing of the asked type, and only the alias as CNAME *)
  Lemma alias_cache n zk cr tg : alias_at u t n zk cr tg -> concrete t -> t <> RT_CNAME ->
    cget n t = [] /\ forall x, In x (cget n RT_CNAME) -> rr_type x = RT_CNAME /\ rr_data x = RD_Name tg /\ rr_sim x cr.
  Proof.
    intros AL Hc Hcn. destruct HC as (S1 & _).
    destruct (cname_at_spec _ _ _ _ _ (al_cname _ _ _ _ _ _ AL)) as (_ & Hrn & Hrt & Hrd). split.
    - destruct (cget n t) as [|x l] eqn:E; [reflexivity|]. exfalso.
      destruct (S1 n t x Hc) as (r & Hr & Hn & Ht & _); [rewrite E; left; reflexivity|].
      rewrite (al_sole _ _ _ _ _ _ AL r Hr Hn) in Ht. congruence.
    - intros x Hx. destruct (L_shape _ _ _ LAWS c n RT_CNAME x concrete_CNAME Hx) as (Hxn & Hxt & _).
      destruct (S1 n RT_CNAME x concrete_CNAME Hx) as (r & Hr & Hn & Ht & Hd).
      rewrite (al_sole _ _ _ _ _ _ AL r Hr Hn) in Hd. split; [exact Hxt|]. split; [congruence|].
      repeat split; congruence.
  Qed.

  Definition local_miss_at (n : dname) (cs : list rr) : Prop :=
    match cs with [] => cget n t = [] | _ :: _ => cget n RT_CNAME = [] end.

  (* resolve_local follows the cached part of the chain: an error when the question is refused (stack)
     or nothing is cached at the name; the whole answer when the chain and the final RRset are cached;
     otherwise the cached prefix and the question for the first name that is not *)
  Lemma local_alias : forall k n cs f, alias_path u hints t cl k n cs f -> concrete t -> t <> RT_CNAME ->
    forall fuel stack, (length cs < fuel)%nat ->
    let R := resolve_local zs cget fuel stack (Q n) in
    ((exists e, R = Err e) /\ (at_recursion_limit stack = true \/ is_duplicate_question stack (Q n) = true \/ local_miss_at n cs))
    \/ (exists xs, R = Ok (LDone (NonAuthoritative (xs ++ cget f t) None)) /\ Forall2 rr_sim xs cs /\ cget f t <> [])
    \/ (exists xs pre post m, R = Ok (LCname xs (Q m)) /\ cs = pre ++ post /\ pre <> [] /\ Forall2 rr_sim xs pre /\ cchain n pre m).
  Proof.
    intros k n cs f Hp Hc Hcn.
    assert (Hwild : t <> QT_Wildcard) by exact (proj1 Hc).
    induction Hp as [f zroot rest zk (WK & PA) PQ|k n cr tg cs f zroot rest zk WK AL PQ Hp IH];
      intros fuel stack Hlen; (destruct fuel as [|fuel]; [cbn in Hlen; lia|]); cbv zeta.
    - (* the final name *)
      destruct (at_recursion_limit stack) eqn:Elim; [left; split; [rewrite resolve_local_eq, Elim; eauto|auto]|].
      destruct (is_duplicate_question stack (Q f)) eqn:Edup; [left; split; [rewrite resolve_local_eq, Elim, Edup; eauto|auto]|].
      pose proof (hints_no_match u zroot hints (Q f) (wk_hints _ _ _ _ _ _ WK)) as Hno.
      destruct (cget f t) as [|x l] eqn:E.
      + left. split; [|right; right; exact E]. eexists.
        apply (rl_miss zs hints Hz cget fuel stack (Q f) Elim Edup (wk_wf _ _ _ _ _ _ WK) Hwild Hno E).
        exact (plain_no_cached_alias cache cache_get hints u (Q f) zk PA c HC).
      + right. left. exists []. split; [|split; [apply Forall2_nil|discriminate]].
        cbn [app]. rewrite <- E.
        apply (rl_cache zs hints Hz cget fuel stack (Q f) Elim Edup (wk_wf _ _ _ _ _ _ WK) Hwild Hno).
        cbn [mkq q_name q_type]. rewrite E. discriminate.
    - (* an alias *)
      destruct (at_recursion_limit stack) eqn:Elim; [left; split; [rewrite resolve_local_eq, Elim; eauto|auto]|].
      destruct (is_duplicate_question stack (Q n)) eqn:Edup; [left; split; [rewrite resolve_local_eq, Elim, Edup; eauto|auto]|].
      pose proof (hints_no_match u zroot hints (Q n) (wk_hints _ _ _ _ _ _ WK)) as Hno.
      destruct (alias_cache n zk cr tg AL Hc Hcn) as (Hnone & Hcached).
      rewrite resolve_local_eq, Elim, Edup. unfold local_step.
      rewrite (zone_phase_miss (Q n) _ (wk_wf _ _ _ _ _ _ WK) Hwild Hno).
      unfold cache_phase, cache_part. cbn [mkq q_name q_type]. rewrite Hnone. cbn [is_nil andb].
      assert (Ecn : negb (t =? RT_CNAME) = true) by (apply negb_true_iff, N.eqb_neq; exact Hcn). rewrite Ecn.
      destruct (cget n RT_CNAME) as [|x l] eqn:E.
      + left. split; [eexists; reflexivity|right; right; exact E].
      + destruct (Hcached x (or_introl eq_refl)) as (Hxt & Hxd & Hxs).
        rewrite Hxt, N.eqb_refl, Hxd.
        change (subq (Q n) tg) with (Q tg).
        assert (Hw : (t =? QT_Wildcard) = false) by (apply N.eqb_neq; exact Hwild).
        destruct (IH fuel (stack ++ [Q n]) ltac:(cbn [length] in Hlen; lia)) as [((e & ->) & _)|[(xs & -> & Hys & Hne)|(xs & pre & post & m & -> & Hsplit & Hpre & Hys & Hcc)]];
          unfold ccombine; cbn [resolved_rrs]; rewrite merge_nil_l; cbn [app is_nil q_name mkq].
        * right. right. exists [x], [cr], cs, tg. split; [reflexivity|]. split; [reflexivity|]. split; [discriminate|].
          split; [constructor; [exact Hxs|constructor]|].
          destruct (cname_at_spec _ _ _ _ _ (al_cname _ _ _ _ _ _ AL)) as (_ & Hrn & Hrt & Hrd).
          econstructor; [exact Hrn|exact Hrt|exact Hrd|constructor].
        * right. left. exists (x :: xs). rewrite Hw. split; [reflexivity|]. split; [constructor; [exact Hxs|exact Hys]|exact Hne].
        * right. right. exists (x :: xs), (cr :: pre), post, m. split; [reflexivity|]. split; [rewrite Hsplit; reflexivity|].
          split; [discriminate|]. split; [constructor; [exact Hxs|exact Hys]|].
          destruct (cname_at_spec _ _ _ _ _ (al_cname _ _ _ _ _ _ AL)) as (_ & Hrn & Hrt & Hrd).
          econstructor; [exact Hrn|exact Hrt|exact Hrd|exact Hcc].
  Qed.
End LocalAlias.

(* ====================================================================== *)
(* 4. the induction over the alias chain                                    *)
(* ====================================================================== *)

Lemma limit_false' (l : list question) : (length l < 32)%nat -> at_recursion_limit l = false.
Proof. intro H. unfold at_recursion_limit, llen, RECURSION_LIMIT. apply N.eqb_neq. lia. Qed.

Lemma local_fuel_val : LOCAL_FUEL = 34%nat.
Proof. vm_compute. reflexivity. Qed.

Lemma NoDup_app_l {A} (a b : list A) : NoDup (a ++ b) -> NoDup a.
Proof.
  induction a as [|x a IH]; intro H; [constructor|]. cbn [app] in H. inversion H; subst. constructor.
  - intro Hin. apply H2. apply in_or_app. left. exact Hin.
  - apply IH. exact H3.
Qed.

Lemma NoDup_app_r {A} (a b : list A) : NoDup (a ++ b) -> NoDup b.
Proof. induction a as [|x a IH]; intro H; [exact H|]. cbn [app] in H. inversion H; subst. apply IH. assumption. Qed.

Lemma NoDup_app_disj {A} (a b : list A) x : NoDup (a ++ b) -> In x a -> ~ In x b.
Proof.
  induction a as [|y a IH]; intros H Hin Hb; [destruct Hin|]. cbn [app] in H. inversion H; subst.
  destruct Hin as [->|Hin]; [apply H2; apply in_or_app; right; exact Hb|exact (IH H3 Hin Hb)].
Qed.

(* the names of a chain split at a name of it *)
Lemma names_split n cr tg pre post m : rr_data cr = RD_Name tg -> cchain tg pre m ->
  n :: ctargets (cr :: pre ++ post) = (n :: map rr_name pre) ++ m :: ctargets post.
Proof.
  intros Hd Hc. cbn [ctargets flat_map]. rewrite Hd. cbn [app]. fold (ctargets (pre ++ post)).
  rewrite ctargets_app. pose proof (cchain_owners tg pre m Hc) as E.
  f_equal. change (tg :: ctargets pre ++ ctargets post) with ((tg :: ctargets pre) ++ ctargets post).
  rewrite <- E, <- app_assoc. reflexivity.
Qed.

Section AliasResolve.
  Variable cache : Type.
  Variable cache_get : cache -> dname -> N -> list rr.
  Variable cache_insert_all : cache -> list rr -> cache.
  Hypothesis LAWS : cache_laws cache cache_get cache_insert_all.
  Variable sort_names : list dname -> list dname.
  Hypothesis Hsort : forall l, Permutation (sort_names l) l.
  Variable port : N.
  Variable u : universe.
  Hypothesis UNS : universe_ns_ok u.
  Variable hints : list rr.
  Hypothesis Hh : Forall hint_ok hints.
  Variable hz : zone.
  Hypothesis Hbuilt : zone_build root_domain None (hint_ops hints) = Ok hz.
  Variable t cl : N.
  Hypothesis Hc : concrete t.
  Hypothesis Hcn : t <> RT_CNAME.
  Hypothesis Hns : t <> RT_NS.

  Notation Q n := (mkq n t cl).
  Notation zs := (zones_insert [] hz).
  Notation o := (universe_oracle u []).
  Notation rrn := (resolve_recursive_notimeout cache cache_get cache_insert_all sort_names zs o OnlyV4 port).
  Notation cloop := (candidate_loop cache cache_get cache_insert_all sort_names zs o OnlyV4 port).
  Notation cstep := (candidate_step cache cache_get cache_insert_all sort_names zs o OnlyV4 port).
  Notation rhi := (resolve_hostname_to_ip cache cache_get zs OnlyV4).
  Notation qav := (query_and_validate cache o).
  Notation consistent := (cache_consistent u hints cache cache_get).
  Notation finals f := (aa_rrs (auth_answer u (Q f))).

  Let Hz : hints_zones zs hints := hints_zones_built hints hz Hh Hbuilt.

  (* every server that considers itself authoritative for a name of the chain has the zone owning it *)
  Definition servers_ok (names : list dname) : Prop :=
    forall a zsA, zones_of_server u a = Some zsA -> srv_auth_ok u zsA names.

  Definition stack_ok (stk : list question) : Prop :=
    Forall (fun s => q_type s <> RT_NS /\ ~ ns_host_name u (q_name s)
                     /\ forall x, ~ hint_match hints (q_name s) (q_type s) x) stk.

  Lemma servers_ok_sub a b : (forall x, In x b -> In x a) -> servers_ok a -> servers_ok b.
  Proof. intros Hsub H ad zsA Hzs n' z' Hin. apply (H ad zsA Hzs). apply Hsub, Hin. Qed.

  Lemma not_dup_names stk n : (forall s, In s stk -> q_name s <> n) -> is_duplicate_question stk (Q n) = false.
  Proof.
    intro H. unfold is_duplicate_question. destruct (existsb (question_eqb (Q n)) stk) eqn:E; [|reflexivity]. exfalso.
    apply existsb_exists in E as (s & Hs & Hq). apply question_eqb_true in Hq as [H1 _]. cbn [mkq q_name] in H1.
    exact (H s Hs (eq_sym H1)).
  Qed.

  (* the loop ends with the continuation of an alias *)
  Lemma cstep_cname rec loop stack q combined mc cands next locally st candidate rest a st1 rrs cname st2 :
    pop_last cands = Some (candidate, rest) ->
    rhi rec stack locally candidate st = (Val (Some a), st1) ->
    qav (a, port) q mc st1 = (Val (Some (NRCname rrs cname)), st2) ->
    cstep rec loop stack q combined mc cands next locally st
    = match rec stack (mkq cname (q_type q) (q_class q)) (cache_insert_all (fst st2) rrs, snd st2) with
      | (Val (ROk resolved), st3) =>
        (Val (ROk (NonAuthoritative (prioritising_merge combined rrs ++ resolved_rrs resolved) (resolved_soa_rr resolved))), st3)
      | (Val (RErr _), st3) => (Val (RErr (EDeadEnd (mkq cname (q_type q) (q_class q)))), st3)
      | (Abort w, st3) => (Abort w, st3)
      end.
  Proof.
    intros Ep Eh Eq. unfold candidate_step. rewrite Ep. unfold rbind at 1. rewrite Eh.
    unfold rbind at 1. rewrite Eq.
    unfold resolve_with_nameserver_response.
    rewrite (cut_no_auth zs q (NRCname rrs cname) (proj1 Hz)).
    unfold lift_res, resolve_with_response_match, resolve_combined_recursive, rbind, insert_all, ret. cbn [fst snd].
    destruct (rec stack (mkq cname (q_type q) (q_class q)) (cache_insert_all (fst st2) rrs, snd st2)) as [[[r|e]|w] st3]; reflexivity.
  Qed.

  (* the finals of a plain name: records of its zone, owned by it, of the asked type, known *)
  Lemma finals_facts f zroot rest zk : warm_question u hints (Q f) zroot rest zk ->
    forall r, In r (finals f) -> In r (zone_data zk) /\ rr_name r = f /\ rr_type r = t /\ rr_is_unknown r = false.
  Proof.
    intros (WK & PA) r Hr. rewrite (answer_rrs u (Q f) zk PA) in Hr. apply filter_In in Hr as [Hr Hm].
    apply rrs_at_in in Hr as [Hr Hn]. apply dname_eqb_eq in Hn. cbn [mkq q_name q_type] in Hn, Hm.
    destruct (pa_owner _ _ _ PA) as (_ & Hknown & _). rewrite Forall_forall in Hknown.
    repeat split; [exact Hr|exact Hn|exact (concrete_matches _ _ Hc Hm)|exact (Hknown r Hr)].
  Qed.

  (* consistency is kept by the insert_all of an alias answer: links of the chain, then nothing or
     the final RRset *)
  Lemma consistent_insert_alias c links F f zroot rest zk :
    consistent c ->
    Forall (fun cr => exists n' zk' tg, alias_at u t n' zk' cr tg /\ ~ ns_host_name u n') links ->
    warm_question u hints (Q f) zroot rest zk -> (F = [] \/ F = finals f) ->
    consistent (cache_insert_all c (links ++ F)).
  Proof.
    intros HC Hlinks WQ HF. pose proof (finals_facts f zroot rest zk WQ) as Hfin. destruct WQ as (WK & PA).
    rewrite Forall_forall in Hlinks.
    assert (HFin : forall r, In r F -> In r (finals f)) by (destruct HF as [-> | ->]; [intros r []|auto]).
    apply (consistent_insert cache cache_get cache_insert_all LAWS u hints c (links ++ F) HC).
    - intros r Hr. apply in_app_or in Hr as [Hr|Hr].
      + destruct (Hlinks r Hr) as (n' & zk' & tg & AL & _).
        destruct (cname_at_spec _ _ _ _ _ (al_cname _ _ _ _ _ _ AL)) as (Hin & _).
        exists zk'. split; [|apply in_or_app; right; apply in_or_app; right; exact Hin].
        pose proof (al_zone _ _ _ _ _ _ AL) as Hb. apply best_zone_spec in Hb as [Hb|[Hb _]]; [discriminate|exact Hb].
      + exists zk. split; [exact (zk_in u (Q f) zk PA)|]. apply in_or_app; right; apply in_or_app; right.
        exact (proj1 (Hfin r (HFin r Hr))).
    - intros r h Hr Hh'. exfalso. apply is_ns_rr_spec in Hh' as [Ht _]. apply in_app_or in Hr as [Hr|Hr].
      + destruct (Hlinks r Hr) as (n' & zk' & tg & AL & _).
        destruct (cname_at_spec _ _ _ _ _ (al_cname _ _ _ _ _ _ AL)) as (_ & _ & Ht' & _). rewrite Ht in Ht'. discriminate Ht'.
      + destruct (Hfin r (HFin r Hr)) as (_ & _ & Ht' & _). congruence.
    - intros r Hr _ _ _ z r' Hz' Hr' Hn' Ht'. apply in_app_or in Hr as [Hr|Hr].
      + destruct (Hlinks r Hr) as (n' & zk' & tg & AL & _).
        destruct (cname_at_spec _ _ _ _ _ (al_cname _ _ _ _ _ _ AL)) as (_ & Hrn & _).
        assert (r' = r).
        { apply (al_sole _ _ _ _ _ _ AL); [|congruence]. exists z. split; [exact Hz'|]. apply in_or_app; right; apply in_or_app; right; exact Hr'. }
        subst r'. split; [apply in_or_app; left; exact Hr|exact (al_ttl _ _ _ _ _ _ AL)].
      + destruct (Hfin r (HFin r Hr)) as (_ & Hn & Ht & _).
        assert (Hzk : In r' (zone_data zk)) by (apply (pa_sole _ _ _ PA z r' Hz' Hr'); cbn [mkq q_name]; congruence).
        split; [|apply (pa_ttl _ _ _ PA r' Hzk); cbn [mkq q_name q_type]; congruence].
        apply in_or_app. right. destruct HF as [-> | ->]; [destruct Hr|].
        rewrite (answer_rrs u (Q f) zk PA). apply filter_In. split.
        * unfold rrs_at. apply filter_In. split; [exact Hzk|]. apply dname_eqb_eq. cbn [mkq q_name]. congruence.
        * cbn [mkq q_type]. rewrite Ht', Ht. apply concrete_matches_refl, Hc.
  Qed.

  (* the final, plain name of the chain, with the alias questions on the stack *)
  Lemma resolve_final f zroot rest zk stk c fuel ts :
    warm_question u hints (Q f) zroot rest zk -> plain_question u (Q f) ->
    stack_ok stk -> (forall s, In s stk -> q_name s <> f) -> (length stk + 1 < 32)%nat ->
    consistent c -> ts_elapsed ts <= BUDGET_MS -> (length rest + 2 <= fuel)%nat ->
    exists fr c' ts',
      rrn fuel stk (Q f) (c, ts) = (Val (ROk (NonAuthoritative fr (aa_soa (auth_answer u (Q f))))), (c', ts'))
      /\ same_data fr (finals f) /\ consistent c'.
  Proof.
    intros (WK & PA) (Hwf & Hq1 & Hq2 & Hreq & Hfits) Hstk Hnames Hlen HC Hbud Hfuel.
    destruct fuel as [|f1]; [lia|].
    destruct (warm_resolve cache cache_get cache_insert_all LAWS sort_names Hsort zs hints Hz Hh o port u UNS (Q f) zroot rest zk WK
                (universe_oracle_delivers_log u port (Q f) Hwf Hreq Hfits) stk Hlen (not_dup_names stk f Hnames) Hstk PA c f1 ts HC Hbud ltac:(lia))
      as (rrs & c' & ts' & es & E & _ & HC' & Hcases).
    exists rrs, c', ts'. split; [exact E|]. split; [|exact HC'].
    destruct Hcases as [(_ & _ & _ & _ & Hs)|(-> & _)]; [exact Hs|apply same_data_refl].
  Qed.

  Lemma Forall2_sim_refl l : Forall2 rr_sim l l.
  Proof. induction l; constructor; [apply rr_sim_refl|assumption]. Qed.

  (* THE INDUCTION: the question of any name of an alias chain, the alias questions above it on the
     stack, from a consistent cache: the chain from there (the records' data; TTLs are the server's
     or the cache's) in order, then the final answer *)
  Theorem alias_resolve : forall bound k n cs f,
    alias_path u hints t cl k n cs f -> (length cs <= bound)%nat ->
    forall stk c fuel ts,
    NoDup (n :: ctargets cs) -> servers_ok (n :: ctargets cs) ->
    stack_ok stk -> (forall s, In s stk -> ~ In (q_name s) (n :: ctargets cs)) ->
    (length stk + length cs + 1 < 32)%nat ->
    consistent c -> ts_elapsed ts <= BUDGET_MS -> (k <= fuel)%nat ->
    exists xs fr c' ts',
      rrn fuel stk (Q n) (c, ts) = (Val (ROk (NonAuthoritative (xs ++ fr) (aa_soa (auth_answer u (Q f))))), (c', ts'))
      /\ Forall2 rr_sim xs cs /\ same_data fr (finals f) /\ consistent c'.
  Proof.
    induction bound as [|bound IHb]; intros k n cs f Hp Hbound stk c fuel ts Hnd Hsrv Hstk Hnames Hlen HC Hbud Hfuel;
      destruct Hp as [f zroot rest zk WQ PQ|k n cr tg cs f zroot rest zk WK AL PQ Hp];
      try (cbn [length] in Hbound; lia).
    - destruct (resolve_final f zroot rest zk stk c fuel ts WQ PQ Hstk) as (fr & c' & ts' & E & Hs & HC'); try assumption.
      { intros s Hs E. apply (Hnames s Hs). left. exact (eq_sym E). } { lia. }
      exists [], fr, c', ts'. cbn [app]. auto using Forall2_nil.
    - destruct (resolve_final f zroot rest zk stk c fuel ts WQ PQ Hstk) as (fr & c' & ts' & E & Hs & HC'); try assumption.
      { intros s Hs E. apply (Hnames s Hs). left. exact (eq_sym E). } { lia. }
      exists [], fr, c', ts'. cbn [app]. auto using Forall2_nil.
    - (* an alias *)
      set (q := Q n) in *.
      destruct (alias_path_final _ _ _ _ _ _ _ _ Hp) as (zrootf & restf & zkf & WQf & PQf).
      pose proof WQf as (WKf & PAf).
      destruct (cname_at_spec _ _ _ _ _ (al_cname _ _ _ _ _ _ AL)) as (Hcrin & Hcrn & Hcrt & Hcrd).
      pose proof (alias_path_achain _ _ _ _ _ _ _ _ Hp) as Hach0.
      assert (Hach : achain u t n (cr :: cs) f).
      { econstructor; [exact (al_zone _ _ _ _ _ _ AL)|exact (al_nocut _ _ _ _ _ _ AL)|exact (al_cname _ _ _ _ _ _ AL)|exact Hach0]. }
      destruct PQ as (Hwf & Hq1 & Hq2 & Hreq & Hfits).
      pose proof (universe_oracle_delivers_log u port q Hwf Hreq Hfits) as Hdel.
      assert (Hstk_len : (length stk + 1 < 32)%nat) by lia.
      assert (Hlim_stk : at_recursion_limit stk = false) by (apply limit_false'; lia).
      assert (Hstk_q : is_duplicate_question stk q = false).
      { apply not_dup_names. intros s Hs E. apply (Hnames s Hs). left. exact (eq_sym E). }
      pose proof (hints_no_match u zroot hints q (wk_hints _ _ _ _ _ _ WK)) as Hnoh.
      assert (Hstk' : stack_ok (stk ++ [q])).
      { apply Forall_app. split; [exact Hstk|]. constructor; [|constructor].
        split; [exact Hns|]. split; [exact (wk_nothost _ _ _ _ _ _ WK)|exact Hnoh]. }
      destruct (alias_cache cache cache_get cache_insert_all LAWS hints u t c HC n zk cr tg AL Hc Hcn) as (Hnone & Hcached).
      destruct fuel as [|f1]; [lia|].
      (* what the rest of the chain from a later name needs *)
      assert (Hsub : forall pre post m, cs = pre ++ post -> cchain tg pre m ->
                NoDup (m :: ctargets post) /\ servers_ok (m :: ctargets post)
                /\ (forall s, In s (stk ++ [q]) -> ~ In (q_name s) (m :: ctargets post))
                /\ (length (stk ++ [q]) + length post + 1 < 32)%nat /\ (length post <= bound)%nat).
      { intros pre post m Ecs Hcc. pose proof (names_split n cr tg pre post m Hcrd Hcc) as Enames. rewrite <- Ecs in Enames.
        rewrite Enames in Hnd, Hsrv, Hnames.
        split; [exact (NoDup_app_r _ _ Hnd)|]. split; [apply (servers_ok_sub _ _ (fun x Hx => in_or_app _ _ x (or_intror Hx)) Hsrv)|].
        split; [|split].
        - intros s Hs Hin. apply in_app_or in Hs as [Hs|[<-|[]]].
          + apply (Hnames s Hs). apply in_or_app. right. exact Hin.
          + cbn [q mkq q_name] in Hin. exact (NoDup_app_disj _ _ n Hnd (or_introl eq_refl) Hin).
        - rewrite app_length. cbn [length] in *. rewrite Ecs, app_length in Hlen. lia.
        - cbn [length] in Hbound. rewrite Ecs, app_length in Hbound. lia. }
      destruct (cache_get c n RT_CNAME) as [|x0 l0] eqn:Ecn.
      + (* the alias is not cached: over the network *)
        destruct (warm_reach cache cache_get cache_insert_all LAWS sort_names Hsort zs hints Hz Hh o port u UNS q zroot rest zk WK Hdel
                    stk Hstk_len Hstk_q Hstk c f1 ts HC Hbud ltac:(lia) Hnone Ecn)
          as (f0 & c1 & ts1 & es & mc1 & cands1 & pre0 & visited & E & Hf0 & _ & _ & _ & HC1 & Hne1 & Hok1 & Hmc1 & Hbud1).
        rewrite E. clear E. destruct f0 as [|f2]; [lia|].
        destruct (pop_last_some _ Hne1) as (cand & rest1 & Ep & Hcand).
        destruct (Hok1 cand Hcand (rrn f2) ts1) as (a & Eh & Hsrvo).
        rewrite cloop_S.
        destruct (serve_alias u t cl f zkf (proj1 (pa_owner _ _ _ PAf)) (inl a) n zk cr cs Hach Hsrvo (al_zone _ _ _ _ _ _ AL))
          as (pre & post & F & Hserve & Hsplit & HF).
        { intros zsA Hzs n' z' Hin. apply (Hsrv (inl a) zsA Hzs). right. exact Hin. }
        { cbn [length] in Hlen. lia. }
        destruct (achain_app u t tg pre post f ltac:(rewrite <- Hsplit; exact Hach0)) as (m & Hpre & Hpost).
        pose proof (achain_cchain u t _ _ _ Hpre) as Hcc.
        assert (Hccn : cchain (q_name q) (cr :: pre) m) by (econstructor; [exact Hcrn|exact Hcrt|exact Hcrd|exact Hcc]).
        pose proof (alias_path_links _ _ _ _ _ _ _ _ Hp) as Hlinks0.
        assert (Hlinks : Forall (fun cr0 => exists n' zk' tg0, alias_at u t n' zk' cr0 tg0 /\ ~ ns_host_name u n') (cr :: pre)).
        { constructor; [exists n, zk, tg; split; [exact AL|exact (wk_nothost _ _ _ _ _ _ WK)]|].
          rewrite Hsplit in Hlinks0. apply Forall_app in Hlinks0. exact (proj1 Hlinks0). }
        assert (HFf : F = [] \/ F = finals f) by (destruct HF as [->|(_ & -> & _)]; auto).
        assert (Hv : validate_nameserver_response q (msg q true RCODE_NoError ((cr :: pre) ++ F) [] []) mc1
                     = Ok (Some (if is_nil F then NRCname (cr :: pre) m else NRAnswer ((cr :: pre) ++ F) None))).
        { apply (validate_alias q Hc Hcn (cr :: pre) F m); [discriminate|exact Hccn| | |].
          - pose proof (names_split n cr tg pre post m Hcrd Hcc) as Enames. rewrite <- Hsplit in Enames.
            cbn [q mkq q_name]. change (cr :: pre) with ([cr] ++ pre). 
            assert (En2 : n :: ctargets ([cr] ++ pre) = n :: map rr_name pre ++ [m]).
            { cbn [app ctargets flat_map]. rewrite Hcrd. cbn [app]. fold (ctargets pre). rewrite (cchain_owners tg pre m Hcc). reflexivity. }
            rewrite En2. rewrite Enames in Hnd. change (m :: ctargets post) with ([m] ++ ctargets post) in Hnd.
            rewrite app_assoc in Hnd. exact (NoDup_app_l _ _ Hnd).
          - apply Forall_app. split.
            + eapply Forall_impl; [|exact Hlinks]. intros r (n' & zk' & tg0 & AL0 & _). exact (al_known _ _ _ _ _ _ AL0).
            + apply Forall_forall. intros r Hr. destruct HFf as [-> | ->]; [destruct Hr|].
              exact (proj2 (proj2 (proj2 (finals_facts f zrootf restf zkf WQf r Hr)))).
          - apply Forall_forall. intros r Hr. destruct HF as [->|(Hpost0 & -> & _)]; [destruct Hr|].
            subst post. apply achain_nil_inv in Hpost. subst m.
            destruct (finals_facts f zrootf restf zkf WQf r Hr) as (_ & H1 & H2 & _). cbn [q mkq q_type]. auto. }
        destruct (qav_delivered_log cache o port u (inl a) q _ mc1 (c1, ts1) _ Hdel Hbud1 Hserve (msg_matches _ _ _ _ _ _ (or_introl eq_refl)) Hv)
          as (ts2 & Eq & Hbud2 & _).
        cbn [fst snd] in Eq.
        destruct HF as [->|(Hpost0 & -> & Hfne)].
        * (* the reply ends inside the chain: the continuation *)
          cbn [is_nil] in Eq. rewrite app_nil_r in *.
          rewrite (cstep_cname _ _ _ _ _ _ _ _ _ _ _ _ _ _ _ _ _ Ep Eh Eq). rewrite merge_nil_l. cbn [fst snd].
          change (mkq m (q_type q) (q_class q)) with (Q m).
          assert (HC2 : consistent (cache_insert_all c1 (cr :: pre))).
          { rewrite <- (app_nil_r (cr :: pre)). apply (consistent_insert_alias c1 (cr :: pre) [] f zrootf restf zkf HC1 Hlinks WQf). left. reflexivity. }
          destruct (alias_path_split u hints t cl pre k tg post f m ltac:(rewrite <- Hsplit; exact Hp) Hcc) as (k' & Hk' & Hp').
          destruct (Hsub pre post m Hsplit Hcc) as (S1 & S2 & S3 & S4 & S5).
          destruct (IHb k' m post f Hp' S5 (stk ++ [q]) (cache_insert_all c1 (cr :: pre)) f2 ts2 S1 S2 Hstk' S3 S4 HC2 Hbud2 ltac:(lia))
            as (xs' & fr & c' & ts' & E' & Hxs' & Hfr & HC').
          rewrite E'. cbn [resolved_rrs resolved_soa_rr].
          exists ((cr :: pre) ++ xs'), fr, c', ts'. split; [rewrite <- app_assoc; reflexivity|].
          split; [|auto]. rewrite Hsplit. change (cr :: pre ++ post) with ((cr :: pre) ++ post).
          apply Forall2_app; [apply Forall2_sim_refl|exact Hxs'].
        * (* the reply holds the rest of the chain and the final RRset *)
          subst post. rewrite app_nil_r in Hsplit. subst pre.
          assert (Enil : is_nil (finals f) = false) by (destruct (finals f); [congruence|reflexivity]).
          rewrite Enil in Eq.
          rewrite (cstep_answer cache cache_get cache_insert_all sort_names zs o OnlyV4 port _ _ _ _ _ _ _ _ _ _ _ _ _ _ _ _ _ Ep Eh Eq) by (intros; apply owned_elsewhere_no_auth, (proj1 Hz)).
          rewrite merge_nil_l. cbn [fst snd].
          rewrite (answer_soa_none u (Q f) zkf PAf Hfne).
          exists (cr :: cs), (finals f). eexists. eexists. split; [reflexivity|].
          split; [apply Forall2_sim_refl|]. split; [apply same_data_refl|].
          apply (consistent_insert_alias c1 (cr :: cs) (finals f) f zrootf restf zkf HC1 Hlinks WQf). right. reflexivity.
      + (* the alias is cached: resolve_local follows the cached part of the chain *)
        cbn [resolve_recursive_notimeout]. unfold recursive_body.
        rewrite Hlim_stk, Hstk_q.
        unfold rbind at 1. unfold local. cbn [fst].
        assert (HpAll : alias_path u hints t cl (length rest + 2 + k) n (cr :: cs) f).
        { econstructor; [exact WK|exact AL|exact (conj Hwf (conj Hq1 (conj Hq2 (conj Hreq Hfits))))|exact Hp]. }
        pose proof (local_alias cache cache_get cache_insert_all LAWS zs hints Hz u t cl c HC _ n (cr :: cs) f HpAll Hc Hcn
                      LOCAL_FUEL stk ltac:(rewrite local_fuel_val; cbn [length] in *; lia)) as HR.
        cbv zeta in HR. fold q in HR.
        destruct HR as [((e & HR) & [Hl|[Hd|Hm]])|[(xs & HR & Hxs & Hne)|(xs & pre & post & m & HR & Hsplit & Hpre & Hxs & Hcc)]].
        * rewrite Hlim_stk in Hl. discriminate Hl.
        * rewrite Hstk_q in Hd. discriminate Hd.
        * cbn [local_miss_at] in Hm. rewrite Ecn in Hm. discriminate Hm.
        * (* everything is cached *)
          rewrite HR. unfold ret.
          destruct (cached_same_data cache cache_get cache_insert_all LAWS hints u UNS (Q f) zrootf restf zkf WKf PAf c HC Hne) as (Hs & Hsoa).
          cbn [mkq q_name q_type] in Hs. rewrite Hsoa.
          exists xs, (cache_get c f t), c, ts. auto.
        * (* a prefix is cached: the nested resolution of the first name that is not *)
          rewrite HR. unfold resolve_combined_recursive. unfold rbind at 1.
          destruct pre as [|cr' pre']; [congruence|]. cbn [app] in Hsplit. inversion Hsplit as [[Ecr Ecs]]. subst cr'.
          inversion Hcc as [|? ? tg' ? ? H1 H2 H3 H4]; subst. assert (tg' = tg) by congruence. subst tg'.
          destruct (alias_path_split u hints t cl pre' k tg post f m Hp H4) as (k' & Hk' & Hp').
          destruct (Hsub pre' post m eq_refl H4) as (S1 & S2 & S3 & S4 & S5).
          destruct (IHb k' m post f Hp' S5 (stk ++ [q]) c f1 ts S1 S2 Hstk' S3 S4 HC Hbud ltac:(lia))
            as (xs' & fr & c' & ts' & E' & Hxs' & Hfr & HC').
          fold q. rewrite E'. cbn [resolved_rrs resolved_soa_rr]. unfold ret.
          exists (xs ++ xs'), fr, c', ts'. split; [rewrite <- app_assoc; reflexivity|].
          split; [|auto]. change (cr :: pre' ++ post) with ((cr :: pre') ++ post). apply Forall2_app; assumption.
  Qed.
End AliasResolve.

(* ====================================================================== *)
(* 5. the statement for [resolve]                                           *)
(* ====================================================================== *)

Section FinalAlias.
  Variable cache : Type.
  Variable cache_get : cache -> dname -> N -> list rr.
  Variable cache_insert_all : cache -> list rr -> cache.
  Hypothesis LAWS : cache_laws cache cache_get cache_insert_all.
  Variable sort_names : list dname -> list dname.
  Hypothesis Hsort : forall l, Permutation (sort_names l) l.
  Variable port : N.
  Variable u : universe.
  Hypothesis UNS : universe_ns_ok u.
  Variable hints : list rr.
  Variable hz : zone.
  Hypothesis Hbuilt : zone_build root_domain None (hint_ops hints) = Ok hz.
  Variable t cl : N.
  Notation Q n := (mkq n t cl).

  (* what the resolution of the alias question must look like: the authoritative answer is the chain
     followed by the final answer, and so is the result -- the chain's records in order (owner,
     type, data; the TTLs are the server's or the cache's), then records with exactly the data of
     the final RRset (or none), with the SOA of the final answer *)
  Definition alias_outcome (n : dname) (cs : list rr) (f : dname) (c : cache)
             (r : res rerror resolved * rstate cache) : Prop :=
    aa_rrs (auth_answer u (Q n)) = cs ++ aa_rrs (auth_answer u (Q f))
    /\ aa_soa (auth_answer u (Q n)) = aa_soa (auth_answer u (Q f))
    /\ exists xs fr c' ts',
         r = (Ok (NonAuthoritative (xs ++ fr) (aa_soa (auth_answer u (Q n)))), (c', ts'))
         /\ Forall2 rr_sim xs cs /\ same_data fr (aa_rrs (auth_answer u (Q f)))
         /\ cache_consistent u hints cache cache_get c'.

  Theorem alias_correct_abstract k n cs f c fuel :
    concrete t -> t <> RT_CNAME -> t <> RT_NS ->
    alias_path u hints t cl k n cs f -> NoDup (n :: ctargets cs) -> servers_ok u (n :: ctargets cs) ->
    (length cs + 1 < 32)%nat ->
    cache_consistent u hints cache cache_get c -> (k <= fuel)%nat ->
    alias_outcome n cs f c
      (resolve cache cache_get cache_insert_all sort_names (ModeRecursive OnlyV4) port (zones_insert [] hz)
               (universe_oracle u []) fuel (Q n) (c, tstate_init)).
  Proof.
    intros Hc Hcn Hns Hp Hnd Hsrv Hlen HC Hfuel.
    destruct (alias_path_final _ _ _ _ _ _ _ _ Hp) as (zrootf & restf & zkf & (WKf & PAf) & PQf).
    pose proof (wk_hints _ _ _ _ _ _ WKf) as Hhints. destruct Hhints as (Hh & _).
    destruct (auth_answer_alias u t cl f zkf (proj1 (pa_owner _ _ _ PAf)) n cs (alias_path_achain _ _ _ _ _ _ _ _ Hp) Hnd ltac:(lia))
      as (E1 & E2).
    split; [exact E1|]. split; [exact E2|].
    destruct (alias_resolve cache cache_get cache_insert_all LAWS sort_names Hsort port u UNS hints Hh hz Hbuilt t cl Hc Hcn Hns
                (length cs) k n cs f Hp (le_n _) [] c fuel tstate_init Hnd Hsrv (Forall_nil _) ltac:(intros s [])
                ltac:(cbn [length]; lia) HC ltac:(cbn; lia) Hfuel) as (xs & fr & c' & ts' & E & Hxs & Hfr & HC').
    exists xs, fr, c', ts'. split; [|auto]. unfold resolve, resolve_recursive. rewrite E, E2. reflexivity.
  Qed.
End FinalAlias.

(* for SimpleCache: what the model driver runs *)
Theorem alias_correct sort_names (Hsort : forall l, Permutation (sort_names l) l) port u hints hz t cl k n cs f c fuel :
  universe_ns_ok u -> zone_build root_domain None (hint_ops hints) = Ok hz ->
  concrete t -> t <> RT_CNAME -> t <> RT_NS ->
  alias_path u hints t cl k n cs f -> NoDup (n :: ctargets cs) -> servers_ok u (n :: ctargets cs) ->
  (length cs + 1 < 32)%nat ->
  cache_consistent u hints scache sc_get c -> (k <= fuel)%nat ->
  alias_outcome scache sc_get u hints t cl n cs f c
    (resolve scache sc_get sc_insert_all sort_names (ModeRecursive OnlyV4) port (zones_insert [] hz)
             (universe_oracle u []) fuel (mkq n t cl) (c, tstate_init)).
Proof.
  intros UNS Hb. exact (alias_correct_abstract scache sc_get sc_insert_all sc_cache_laws sort_names Hsort port u UNS hints hz Hb t cl k n cs f c fuel).
Qed.

(* ====================================================================== *)
(* 6. a worked cross-zone alias (the universe of RecursiveWarm.v, section 8) *)
(*      ext.com. CNAME alias.example.com. CNAME www.sub.example.com. A      *)
(* ====================================================================== *)

Lemma c4_alias_at_alias : alias_at c4_universe RT_A c4_n_alias c4_ex c4_cn_alias c3_n_www.
Proof.
  constructor; try (vm_compute; reflexivity).
  intros r Hr Hn. apply u_record_all in Hr. vm_compute in Hr. in_cases Hr; try (vm_compute in Hn; discriminate Hn); reflexivity.
Qed.

Lemma c4_alias_at_ext : alias_at c4_universe RT_A c4_n_ext c4_com c4_cn_ext c4_n_alias.
Proof.
  constructor; try (vm_compute; reflexivity).
  intros r Hr Hn. apply u_record_all in Hr. vm_compute in Hr. in_cases Hr; try (vm_compute in Hn; discriminate Hn); reflexivity.
Qed.

Lemma c4_path_www : alias_path c4_universe c3_hints RT_A RC_IN 5 c3_n_www [] c3_n_www.
Proof.
  exact (ap_end c4_universe c3_hints RT_A RC_IN c3_n_www c4_root [c4_com; c4_ex; c4_sub] c4_sub
           (c4_warm_question c3_q (or_introl eq_refl)) (c4_plain_question c3_q (or_introl eq_refl))).
Qed.

Lemma c4_path_alias : alias_path c4_universe c3_hints RT_A RC_IN 9 c4_n_alias [c4_cn_alias] c3_n_www.
Proof.
  refine (ap_link c4_universe c3_hints RT_A RC_IN 5 c4_n_alias c4_cn_alias c3_n_www [] c3_n_www c4_root [c4_com; c4_ex] c4_ex
            _ c4_alias_at_alias _ c4_path_www).
  - apply (c4_walk c4_q_alias). unfold c4_chains. in_solve.
  - apply (c4_plain_question_in c4_q_alias). unfold c4_qs. in_solve.
Qed.

Lemma c4_path_ext : alias_path c4_universe c3_hints RT_A RC_IN 12 c4_n_ext [c4_cn_ext; c4_cn_alias] c3_n_www.
Proof.
  refine (ap_link c4_universe c3_hints RT_A RC_IN 9 c4_n_ext c4_cn_ext c4_n_alias [c4_cn_alias] c3_n_www c4_root [c4_com] c4_com
            _ c4_alias_at_ext _ c4_path_alias).
  - apply (c4_walk c4_q_ext). unfold c4_chains. in_solve.
  - apply (c4_plain_question_in c4_q_ext). unfold c4_qs. in_solve.
Qed.

Lemma c4_names_nodup : NoDup (c4_n_ext :: ctargets [c4_cn_ext; c4_cn_alias]).
Proof.
  vm_compute. repeat (constructor; [intro H; cbn [In] in H; repeat (destruct H as [H|H]; [discriminate H|]); exact H|]). constructor.
Qed.

Lemma c4_servers_ok : servers_ok c4_universe (c4_n_ext :: ctargets [c4_cn_ext; c4_cn_alias]).
Proof.
  intros a zsA H. unfold zones_of_server in H. cbn [c4_universe u_servers find fst] in H.
  destruct (ip_eqb (inl c3_ip0) a);
    [|destruct (ip_eqb (inl c3_ip1) a); [|destruct (ip_eqb (inl c3_ip2) a); [|destruct (ip_eqb (inl c3_ip3) a); [|discriminate]]]];
    inversion H; subst zsA; clear H; intros n' z' Hin Hb Hc; vm_compute in Hin; in_cases Hin;
    vm_compute in Hb; try discriminate Hb; inversion Hb; subst z'; vm_compute in Hc; try discriminate Hc; vm_compute; reflexivity.
Qed.

Notation c4_arun q c :=
  (resolve scache sc_get sc_insert_all sort_names_ord (ModeRecursive OnlyV4) 53 (zones_insert [] c3_hz)
           (universe_oracle c4_universe []) 12%nat q (c, tstate_init)).

(* the hypotheses are satisfiable: ext.com. A from the empty cache, and from the cache left by
   www.sub.example.com. A (RecursiveWarm.c4_cache1) *)
Example alias_example :
  alias_outcome scache sc_get c4_universe c3_hints RT_A RC_IN c4_n_ext [c4_cn_ext; c4_cn_alias] c3_n_www sc_empty
    (c4_arun c4_q_ext sc_empty)
  /\ alias_outcome scache sc_get c4_universe c3_hints RT_A RC_IN c4_n_ext [c4_cn_ext; c4_cn_alias] c3_n_www c4_cache1
       (c4_arun c4_q_ext c4_cache1).
Proof.
  split.
  - exact (alias_correct sort_names_ord sort_names_ord_perm 53 c4_universe c3_hints c3_hz RT_A RC_IN 12 c4_n_ext
             [c4_cn_ext; c4_cn_alias] c3_n_www sc_empty 12%nat c4_universe_ns_ok c3_hz_built concrete_A ltac:(discriminate) ltac:(discriminate)
             c4_path_ext c4_names_nodup c4_servers_ok ltac:(cbn; lia) (sc_empty_consistent _ _) (le_n _)).
  - exact (alias_correct sort_names_ord sort_names_ord_perm 53 c4_universe c3_hints c3_hz RT_A RC_IN 12 c4_n_ext
             [c4_cn_ext; c4_cn_alias] c3_n_www c4_cache1 12%nat c4_universe_ns_ok c3_hz_built concrete_A ltac:(discriminate) ltac:(discriminate)
             c4_path_ext c4_names_nodup c4_servers_ok ltac:(cbn; lia) (proj1 warm_example_depth3) (le_n _)).
Qed.

(* the same runs evaluated inside Coq: from the empty cache six exchanges (root and com. for
   ext.com., com. and example.com. for alias.example.com., example.com. and sub.example.com. for
   www.sub.example.com.); the chain in order, then the address; asked again, from the cache *)
Example alias_example_eval :
  let r := c4_arun c4_q_ext sc_empty in
  let r' := c4_arun c4_q_ext (fst (snd r)) in
  fst r = Ok (NonAuthoritative [c4_cn_ext; c4_cn_alias; c3_rr c3_n_www RT_A 300 (RD_A 3221225985)] None)
  /\ map x_addr (ts_log (snd (snd r)))
     = [(inl c3_ip0, 53); (inl c3_ip1, 53); (inl c3_ip1, 53); (inl c3_ip2, 53); (inl c3_ip2, 53); (inl c3_ip3, 53)]
  /\ aa_rrs (auth_answer c4_universe c4_q_ext) = [c4_cn_ext; c4_cn_alias; c3_rr c3_n_www RT_A 300 (RD_A 3221225985)]
  /\ fst r' = fst r /\ ts_log (snd (snd r')) = [].
Proof. vm_compute. repeat split. Qed.

(* ====================================================================== *)
(* 7. sequences of alias and plain questions sharing one cache              *)
(* ====================================================================== *)
From RV Require Import Resolver.RecursiveSequence.

(* the records hold the authoritative answer: a chain part with the chain's records in order (owner,
   type, data), then a part with exactly the data of the final RRset *)
Definition chain_answer (rrs auth : list rr) : Prop :=
  exists xs fr cs fin, rrs = xs ++ fr /\ auth = cs ++ fin /\ Forall2 rr_sim xs cs /\ same_data fr fin.

Definition answer_is_auth_chain (u : universe) (q : question) (r : res rerror resolved) : Prop :=
  exists rrs, r = Ok (NonAuthoritative rrs (aa_soa (auth_answer u q))) /\ chain_answer rrs (aa_rrs (auth_answer u q)).

(* a question the alias theorem covers: a chain of k >= 0 aliases (k = 0: a plain question) *)
Definition alias_question (u : universe) (hints : list rr) (fuel : nat) (q : question) : Prop :=
  concrete (q_type q) /\ q_type q <> RT_CNAME /\ q_type q <> RT_NS /\
  exists k cs f, alias_path u hints (q_type q) (q_class q) k (q_name q) cs f /\ NoDup (q_name q :: ctargets cs)
                 /\ servers_ok u (q_name q :: ctargets cs) /\ (length cs + 1 < 32)%nat /\ (k <= fuel)%nat.

Lemma mkq_eta q : mkq (q_name q) (q_type q) (q_class q) = q.
Proof. destruct q; reflexivity. Qed.

Section AliasSequence.
  Variable cache : Type.
  Variable cache_get : cache -> dname -> N -> list rr.
  Variable cache_insert_all : cache -> list rr -> cache.
  Hypothesis LAWS : cache_laws cache cache_get cache_insert_all.
  Variable sort_names : list dname -> list dname.
  Hypothesis Hsort : forall l, Permutation (sort_names l) l.
  Variable port : N.
  Variable u : universe.
  Hypothesis UNS : universe_ns_ok u.
  Variable hints : list rr.
  Variable hz : zone.
  Hypothesis Hbuilt : zone_build root_domain None (hint_ops hints) = Ok hz.
  Variable fuel : nat.

  Notation consistent := (cache_consistent u hints cache cache_get).
  Notation rseq := (resolve_seq cache cache_get cache_insert_all sort_names port (zones_insert [] hz) (universe_oracle u []) fuel).

  Theorem alias_sequence_correct : forall qs c, Forall (alias_question u hints fuel) qs -> consistent c ->
    Forall2 (fun q out => answer_is_auth_chain u q (fst out)) qs (fst (rseq qs c)) /\ consistent (snd (rseq qs c)).
  Proof.
    induction qs as [|q qs IH]; intros c Hqs HC; cbn [resolve_seq fst snd]; [split; [constructor|exact HC]|].
    inversion Hqs as [|? ? (Hc & Hcn & Hns & k & cs & f & Hp & Hnd & Hsrv & Hlen & Hk) Hrest]; subst.
    destruct (alias_correct_abstract cache cache_get cache_insert_all LAWS sort_names Hsort port u UNS hints hz Hbuilt
                (q_type q) (q_class q) k (q_name q) cs f c fuel Hc Hcn Hns Hp Hnd Hsrv Hlen HC Hk)
      as (E1 & E2 & xs & fr & c' & ts' & E & Hxs & Hfr & HC').
    rewrite mkq_eta in *. rewrite E. cbn [fst snd].
    destruct (IH c' Hrest HC') as [H1 H2]. split; [|exact H2]. constructor; [|exact H1].
    cbn [fst]. exists (xs ++ fr). split; [reflexivity|]. exists xs, fr, cs, (aa_rrs (auth_answer u (mkq f (q_type q) (q_class q)))). auto.
  Qed.
End AliasSequence.
