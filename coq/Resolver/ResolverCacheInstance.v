(* Resolver/ResolverCacheInstance.v -- the real cache model (Cache/CacheModel.v, with its
   representation invariant, at a fixed virtual instant) is an instance of the abstract cache of
   the resolver models and meets the laws the resolver theorems assume (Resolver/RecursiveProofs.v,
   Resolver/ForwardingProofs.v): a read returns only records the cache holds, an insert adds only the
   inserted records, a read returns only records of the asked name and type.  So every theorem about
   resolve_recursive / resolve_forwarding proved for an abstract cache applies to the real cache
   model as well as to SimpleCache (the small instance the model driver runs).

   The cache type is the model's state together with its invariant ([Inv], Cache/CacheSpec.v): under
   the invariant insert_all never reaches a panic site (C15), so [rc_insert_all] is total.  A
   lookup's refresh of the LRU stamp is dropped: nothing but prune reads it, and the resolvers do
   not prune. *)
From RV Require Import Base.Prelude Name.NameModel Name.NameProofs Wire.WireTypes
     Cache.CacheFacts Cache.CacheModel Cache.CacheSpec Cache.CacheInsert Cache.CacheProofs
     Resolver.LocalSpec Resolver.RecursiveProofs.
Set Default Timeout 120.

Section RealCache.
  Variable now : N.                       (* the fixed virtual instant *)

  Definition rcache : Type := { c : cache | Inv c }.

  Definition rc_get (c : rcache) (n : dname) (t : N) : list rr := snd (get (proj1_sig c) now n t).

  Lemma insert_all_inv c rrs c' : Inv c -> shared_insert_all c now rrs = Ok c' -> Inv c'.
  Proof.
    intros HI E. destruct (shared_insert_all_ok rrs c now HI) as (c2 & E2 & I2 & _).
    rewrite E in E2. inversion E2; subst. exact I2.
  Qed.

  Definition rc_mk (c : rcache) (r : res unit cache) (E : forall c', r = Ok c' -> Inv c') : rcache :=
    match r as r0 return (forall c', r0 = Ok c' -> Inv c') -> rcache with
    | Ok c' => fun E0 => exist _ c' (E0 c' eq_refl)
    | _ => fun _ => c
    end E.

  (* SharedCache::insert_all *)
  Definition rc_insert_all (c : rcache) (rrs : list rr) : rcache :=
    rc_mk c (shared_insert_all (proj1_sig c) now rrs) (fun c' E => insert_all_inv _ _ _ (proj2_sig c) E).

  Lemma rc_mk_spec c r E : proj1_sig (rc_mk c r E) = match r with Ok c' => c' | _ => proj1_sig c end.
  Proof. destruct r; reflexivity. Qed.

  Lemma rc_insert_all_spec c rrs : shared_insert_all (proj1_sig c) now rrs = Ok (proj1_sig (rc_insert_all c rrs)).
  Proof.
    unfold rc_insert_all. rewrite rc_mk_spec.
    destruct (shared_insert_all_ok rrs (proj1_sig c) now (proj2_sig c)) as (c2 & E2 & _). rewrite E2. reflexivity.
  Qed.

  (* the records the cache holds: the keys of its abstraction (name, type, data) -> expiry *)
  Definition rc_content (c : rcache) (r : rr) : Prop := exists e, abs_map (proj1_sig c) (rr_key r) = Some e.

  Lemma key_eqb_sim a b : key_eqb (rr_key a) (rr_key b) = true -> rr_sim b a.
  Proof.
    unfold key_eqb, rr_key, key_name, key_type, key_data. cbn [fst snd].
    intro H. apply andb_prop in H. destruct H as [H H3]. apply andb_prop in H. destruct H as [H1 H2].
    apply dname_eqb_eq in H1. apply N.eqb_eq in H2. apply rdata_eqb_eq in H3. repeat split; congruence.
  Qed.

  Lemma a_insert_all_some : forall rs m k e, a_insert_all m now rs k = Some e ->
    (exists e', m k = Some e') \/ exists r, In r rs /\ key_eqb (rr_key r) k = true.
  Proof.
    induction rs as [|r rs IH]; intros m k e H; cbn [a_insert_all] in H; [left; eexists; exact H|].
    destruct (IH _ _ _ H) as [[e' H1]|[r' [H1 H2]]].
    - unfold a_insert in H1. destruct ((0 <? rr_ttl r) && key_eqb (rr_key r) k) eqn:E.
      + right. exists r. split; [left; reflexivity|]. apply andb_prop in E. exact (proj2 E).
      + left. eexists; exact H1.
    - right. exists r'. split; [right; exact H1|exact H2].
  Qed.

  Theorem rc_get_content c n t r : In r (rc_get c n t) -> exists r', rc_content c r' /\ rr_sim r r'.
  Proof.
    unfold rc_get. destruct (get (proj1_sig c) now n t) as [c' rrs] eqn:E. cbn [snd]. intro H.
    destruct (get_ok _ _ _ _ _ _ (proj2_sig c) E) as (_ & _ & [_ A] & _).
    apply A in H. destruct H as (_ & _ & _ & e & He & _).
    exists r. split; [exists e; exact He|apply rr_sim_refl].
  Qed.

  Theorem rc_insert_all_content c rrs r :
    rc_content (rc_insert_all c rrs) r -> rc_content c r \/ exists r', In r' rrs /\ rr_sim r r'.
  Proof.
    intros [e He].
    destruct (shared_insert_all_ok rrs (proj1_sig c) now (proj2_sig c)) as (c2 & E2 & _ & M & _).
    rewrite rc_insert_all_spec in E2. inversion E2 as [E3]. rewrite E3 in He. rewrite M in He.
    destruct (a_insert_all_some _ _ _ _ He) as [[e' H]|[r' [H1 H2]]].
    - left. exists e'. exact H.
    - right. exists r'. split; [exact H1|]. apply key_eqb_sim. exact H2.
  Qed.

  Theorem rc_get_ok c : cget_ok (rc_get c).
  Proof.
    intros name qt Hq. unfold rc_get. destruct (get (proj1_sig c) now name qt) as [c' rrs] eqn:E. cbn [snd].
    destruct (get_ok _ _ _ _ _ _ (proj2_sig c) E) as (_ & _ & [_ A] & _).
    apply Forall_forall. intros r H. apply A in H. destruct H as (H1 & _ & [Hw|[Ht _]] & _); [contradiction|auto].
  Qed.

  (* the empty cache (Cache::new) *)
  Definition rc_new : rcache := exist _ cache_new (inv_init DEFAULT_DESIRED_SIZE).
  Lemma rc_new_content r : ~ rc_content rc_new r.
  Proof. intros [e H]. discriminate. Qed.
End RealCache.
