(* Resolver/RecursiveModel.v -- executable model of crates/dns-resolver/src/recursive.rs:
   resolve_recursive (60 s budget), resolve_recursive_notimeout (candidate
   selection, the fast/slow candidate passes, referral handling),
   resolve_with_nameserver_response (cut_at_local_authority, cache inserts, the
   glue shortcut for A/AAAA questions, CNAME continuation), resolve_combined_recursive,
   resolve_hostname_to_ip (the four ProtocolModes), candidate_nameservers.
   Definitions only.

   Parameters (a Section): an abstract cache with its read function and
   insert_all; the order [sort_names] that hook H5 gives the candidate host
   list (Vec::sort on DomainName; the loop pop()s from the END); the local
   zones; the upstream oracle; the protocol mode and the upstream port.

   State threaded through: (cache, transport state) where the transport state is
   the exchange log, the virtual time spent and the exchange counter
   (TransportModel.v).  A computation ends with a value or is abandoned
   ([Abort]): the 60 s budget, a panic, or no fuel left.

   Fuel: one [nat], decremented on every call of resolve_recursive_notimeout
   and on every iteration of its candidate loop. *)
From RV Require Import Base.Prelude Name.NameModel Wire.WireTypes Zone.ZoneModel
     Resolver.LocalModel Resolver.ValidateModel Resolver.TransportModel.

(* util/types.rs ProtocolMode *)
Inductive protocol_mode := OnlyV4 | PreferV4 | PreferV6 | OnlyV6.

Definition rtypes_of_mode (m : protocol_mode) : list N :=
  match m with
  | OnlyV4 => [RT_A]
  | PreferV4 => [RT_A; RT_AAAA]
  | PreferV6 => [RT_AAAA; RT_A]
  | OnlyV6 => [RT_AAAA]
  end.

(* Result<ResolvedRecord, ResolutionError> *)
Inductive rres := ROk (r : resolved) | RErr (e : rerror).

(* Vec::pop *)
Fixpoint pop_last {A} (l : list A) : option (A * list A) :=
  match l with
  | [] => None
  | x :: t => match pop_last t with
              | None => Some (x, [])
              | Some (y, t') => Some (y, x :: t')
              end
  end.

(* Ord for DomainName (derived): the label vectors lexicographically, each label
   as its octets lexicographically; then len (determined by the labels). *)
Fixpoint label_cmp (a b : list N) : comparison :=
  match a, b with
  | [], [] => Eq
  | [], _ :: _ => Lt
  | _ :: _, [] => Gt
  | x :: a', y :: b' => match N.compare x y with Eq => label_cmp a' b' | c => c end
  end.
Fixpoint labels_cmp (a b : list label) : comparison :=
  match a, b with
  | [], [] => Eq
  | [], _ :: _ => Lt
  | _ :: _, [] => Gt
  | x :: a', y :: b' => match label_cmp x y with Eq => labels_cmp a' b' | c => c end
  end.
Definition dname_cmp (a b : dname) : comparison :=
  match labels_cmp (labels a) (labels b) with Eq => N.compare (nlen a) (nlen b) | c => c end.
Definition dname_leb (a b : dname) : bool := match dname_cmp a b with Gt => false | _ => true end.
Fixpoint insert_sorted (x : dname) (l : list dname) : list dname :=
  match l with
  | [] => [x]
  | y :: t => if dname_leb x y then x :: l else y :: insert_sorted x t
  end.
(* candidate_hostnames.sort() of hook H5 (stable; equal names are identical) *)
Definition sort_names_ord (l : list dname) : list dname := fold_right insert_sorted [] l.

(* Iterator::position *)
Fixpoint position {A} (p : A -> bool) (l : list A) : option nat :=
  match l with
  | [] => None
  | x :: t => if p x then Some O else option_map S (position p t)
  end.

(* the closure given to position in cut_at_local_authority and in
   resolve_forwarding_notimeout:
   rr.name != question.name && zones.get(&rr.name).is_some_and(Zone::is_authoritative) *)
Definition owned_elsewhere (zs : zones) (q : question) (r : rr) : bool :=
  negb (dname_eqb (rr_name r) (q_name q))
  && match zones_get zs (rr_name r) with
     | Some z => zone_is_authoritative z
     | None => false
     end.

(* rrs[..i].to_vec() and rrs[i].name.clone() for the i found by position: the
   slice and the index are panic sites (i >= len), never reached *)
Definition cut_rrs (zs : zones) (q : question) (rrs : list rr) : res unit (option (list rr * dname)) :=
  match position (owned_elsewhere zs q) rrs with
  | Some i => match nth_error rrs i with
              | Some r => Ok (Some (firstn i rrs, rr_name r))
              | None => Panic
              end
  | None => Ok None
  end.

(* cut_at_local_authority *)
Definition cut_at_local_authority (zs : zones) (q : question) (nr : nsresponse) : res unit nsresponse :=
  match nr with
  | NRDelegation _ _ => Ok nr
  | NRAnswer rrs _ | NRCname rrs _ =>
    match cut_rrs zs q rrs with
    | Ok (Some (prefix, name)) => Ok (NRCname prefix name)
    | Ok None => Ok nr
    | Err e => Err e
    | Panic => Panic
    | OutOfFuel => OutOfFuel
    end
  end.

Section Recursive.
  Variable cache : Type.
  Variable cache_get : cache -> dname -> N -> list rr.
  Variable cache_insert_all : cache -> list rr -> cache.
  Variable sort_names : list dname -> list dname.
  Variable zs : zones.
  Variable o : oracle.

  Definition rstate : Type := (cache * tstate)%type.
  Definition RM (A : Type) : Type := rstate -> out A * rstate.

  Definition ret {A} (a : A) : RM A := fun st => (Val a, st).
  Definition stop {A} (w : abort) : RM A := fun st => (Abort w, st).
  Definition rbind {A B} (m : RM A) (f : A -> RM B) : RM B := fun st =>
    match m st with
    | (Val a, st1) => f a st1
    | (Abort w, st1) => (Abort w, st1)
    end.
  Notation "'do' x '<-' m ';;' k" := (rbind m (fun x => k)) (at level 200, x pattern, m at level 100, k at level 200, right associativity).

  Definition lift_t {A} (m : TM A) : RM A := fun st =>
    match m (snd st) with (r, ts) => (r, (fst st, ts)) end.

  Definition lift_res {E A} (r : res E A) : RM A :=
    match r with
    | Ok a => ret a
    | Err _ => stop APanic            (* the helpers of ValidateModel have no error outcome *)
    | Panic => stop APanic
    | OutOfFuel => stop AFuel
    end.

  (* context.cache.insert_all(&rrs) *)
  Definition insert_all (rrs : list rr) : RM unit := fun st => (Val tt, (cache_insert_all (fst st) rrs, snd st)).

  (* resolve_local(context, question) where every caller discards the error:
     None = Err(_) *)
  Definition local (stack : list question) (q : question) : RM (option lresult) := fun st =>
    match resolve_local zs (cache_get (fst st)) LOCAL_FUEL stack q with
    | Ok l => (Val (Some l), st)
    | Err _ => (Val None, st)
    | Panic => (Abort APanic, st)
    | OutOfFuel => (Abort AFuel, st)
    end.

  Definition mkq (name : dname) (qtype qclass : N) : question :=
    {| q_name := name; q_type := qtype; q_class := qclass |}.

  (* candidate_nameservers: for i in 0..labels.len() over labels[i..] *)
  Fixpoint candidate_ns_loop (stack : list question) (sufs : list (list label)) : RM (option nameservers) :=
    match sufs with
    | [] => ret None
    | ls :: rest =>
      match from_labels ls with
      | Some name =>
        do l <- local stack (mkq name RT_NS RC_IN) ;;
        let hostnames := match l with
                         | Some (LDone r) => ns_hostnames_of (resolved_rrs r)
                         | _ => []
                         end in
        if is_nil hostnames then candidate_ns_loop stack rest
        else ret (Some {| ns_hostnames := hostnames; ns_name := name |})
      | None => candidate_ns_loop stack rest
      end
    end.
  Definition candidate_nameservers (stack : list question) (name : dname) : RM (option nameservers) :=
    candidate_ns_loop stack (suffixes (labels name)).

  Section Config.
    Variable pmode : protocol_mode.
    Variable port : N.

    (* ---- the parts that call resolve_recursive_notimeout, given as [rec] ---- *)
    Section Knot.
      Variable rec : list question -> question -> RM rres.

      (* resolve_combined_recursive *)
      Definition resolve_combined_recursive (stack : list question) (rrs : list rr) (q : question) : RM rres :=
        do r <- rec stack q ;;
        match r with
        | ROk resolved => ret (ROk (NonAuthoritative (rrs ++ resolved_rrs resolved) (resolved_soa_rr resolved)))
        | RErr _ => ret (RErr (EDeadEnd q))
        end.

      (* the glue shortcut of the Delegation arm: Some = answer found in the glue *)
      Definition glue_answer (combined rrs : list rr) (q : question) : option rres :=
        if q_type q =? RT_A then
          let glue := get_records rrs (q_name q) RT_A in
          if negb (is_nil glue) then Some (ROk (NonAuthoritative (prioritising_merge combined glue) None)) else None
        else if q_type q =? RT_AAAA then
          let glue := get_records rrs (q_name q) RT_AAAA in
          if negb (is_nil glue) then Some (ROk (NonAuthoritative (prioritising_merge combined glue) None)) else None
        else None.

      (* resolve_with_nameserver_response, the `match nameserver_response`:
         inl = Ok(result), inr = Err(delegation) *)
      Definition resolve_with_response_match (stack : list question) (combined : list rr)
                 (nr : nsresponse) (q : question) : RM (rres + nameservers) :=
        match nr with
        | NRAnswer rrs soa_rr =>
          do _ <- insert_all rrs ;;
          ret (inl (ROk (NonAuthoritative (prioritising_merge combined rrs) soa_rr)))
        | NRDelegation rrs delegation =>
          do _ <- insert_all rrs ;;
          match glue_answer combined rrs q with
          | Some r => ret (inl r)
          | None => ret (inr delegation)
          end
        | NRCname rrs cname =>
          do _ <- insert_all rrs ;;
          do r <- resolve_combined_recursive stack (prioritising_merge combined rrs)
                                          (mkq cname (q_type q) (q_class q)) ;;
          ret (inl r)
        end.

      (* resolve_with_nameserver_response:
         let nameserver_response = cut_at_local_authority(context.zones, question, nameserver_response);
         match nameserver_response { .. } *)
      Definition resolve_with_nameserver_response (stack : list question) (combined : list rr)
                 (nr : nsresponse) (q : question) : RM (rres + nameservers) :=
        do nr' <- lift_res (cut_at_local_authority zs q nr) ;;
        resolve_with_response_match stack combined nr' q.

      (* one round of the loop of resolve_hostname_to_ip *)
      Definition hostname_try (stack : list question) (locally : bool) (hostname : dname) (rtype : N)
        : RM (option ip) :=
        let q := mkq hostname rtype RC_IN in
        if locally then
          do l <- local stack q ;;
          match l with
          | Some (LDone resolved) => lift_res (get_ip (resolved_rrs resolved) hostname rtype)
          | _ => ret None
          end
        else
          do r <- rec stack q ;;
          match r with
          | ROk result => lift_res (get_ip (resolved_rrs result) hostname rtype)
          | RErr _ => ret None
          end.

      Fixpoint hostname_loop (stack : list question) (locally : bool) (hostname : dname) (rtypes : list N)
        : RM (option ip) :=
        match rtypes with
        | [] => ret None
        | rtype :: rest =>
          do a <- hostname_try stack locally hostname rtype ;;
          match a with
          | Some x => ret (Some x)
          | None => hostname_loop stack locally hostname rest
          end
        end.

      (* resolve_hostname_to_ip *)
      Definition resolve_hostname_to_ip (stack : list question) (locally : bool) (hostname : dname) : RM (option ip) :=
        hostname_loop stack locally hostname (rtypes_of_mode pmode).

      (* query_nameserver(..).and_then(validate_nameserver_response) *)
      Definition query_and_validate (a : addr) (q : question) (match_count : N) : RM (option nsresponse) :=
        do om <- lift_t (query_nameserver o a q false) ;;
        match om with
        | Some response => lift_res (validate_nameserver_response q response match_count)
        | None => ret None
        end.

      (* one iteration of `while let Some(candidate) = candidate_hostnames.pop()`;
         [loop] is the rest of the loop *)
      Definition candidate_step (loop : N -> list dname -> list dname -> bool -> RM rres)
                 (stack : list question) (q : question) (combined : list rr)
                 (match_count : N) (cands next : list dname) (locally : bool) : RM rres :=
        match pop_last cands with
        | None => ret (RErr (EDeadEnd q))                        (* out of candidates *)
        | Some (candidate, rest) =>
          do oip <- resolve_hostname_to_ip stack locally candidate ;;
          match oip with
          | Some a =>
            do onr <- query_and_validate (a, port) q match_count ;;
            match onr with
            | Some nr =>
              do r <- resolve_with_nameserver_response stack combined nr q ;;
              match r with
              | inl result => ret result
              | inr delegation =>
                loop (ns_match_count delegation) (sort_names (ns_hostnames delegation)) [] true
              end
            | None => ret (RErr (EDeadEnd q))                    (* the code's TODO: first failing candidate ends it *)
            end
          | None =>
            if locally then
              let next' := next ++ [candidate] in
              if is_nil rest then loop match_count next' [] false (* restarting with slow candidates *)
              else loop match_count rest next' true
            else loop match_count rest next false                (* dropping unresolvable candidate *)
          end
        end.

      (* resolve_recursive_notimeout up to the loop *)
      Definition recursive_body (loop : list question -> question -> list rr -> N -> list dname -> list dname -> bool -> RM rres)
                 (stack : list question) (q : question) : RM rres :=
        if at_recursion_limit stack then ret (RErr ERecursionLimit)
        else if is_duplicate_question stack q then ret (RErr (EDuplicateQuestion q))
        else
          do l <- local stack q ;;
          let stack' := stack ++ [q] in                          (* context.push_question(question) *)
          let continue (given : option nameservers) (combined : list rr) : RM rres :=
              do c <- match given with
                   | Some d => ret (Some d)
                   | None => candidate_nameservers stack' (q_name q)
                   end ;;
              match c with
              | Some d => loop stack' q combined (ns_match_count d) (sort_names (ns_hostnames d)) [] true
              | None => ret (RErr (EDeadEnd q))
              end in
          match l with
          | Some (LDone r) => ret (ROk r)
          | Some (LPartial rrs) => continue None rrs
          | Some (LDelegation _ _ delegation) => continue (Some delegation) []
          | Some (LCname rrs cq) => resolve_combined_recursive stack' rrs cq
          | None => continue None []
          end.
    End Knot.

    Fixpoint resolve_recursive_notimeout (fuel : nat) (stack : list question) (q : question) {struct fuel} : RM rres :=
      match fuel with
      | O => stop AFuel
      | S f => recursive_body (resolve_recursive_notimeout f) (candidate_loop f) stack q
      end
    with candidate_loop (fuel : nat) (stack : list question) (q : question) (combined : list rr)
                        (match_count : N) (cands next : list dname) (locally : bool) {struct fuel} : RM rres :=
      match fuel with
      | O => stop AFuel
      | S f => candidate_step (resolve_recursive_notimeout f) (candidate_loop f stack q combined)
                              stack q combined match_count cands next locally
      end.

    (* resolve_recursive: the 60 s wrapper *)
    Definition finish (r : out rres * rstate) : res rerror resolved * rstate :=
      match r with
      | (Val (ROk x), st) => (Ok x, st)
      | (Val (RErr e), st) => (Err e, st)
      | (Abort ATimeout, st) => (Err ETimeout, st)
      | (Abort APanic, st) => (Panic, st)
      | (Abort AFuel, st) => (OutOfFuel, st)
      end.
    Definition resolve_recursive (fuel : nat) (q : question) (st : rstate) : res rerror resolved * rstate :=
      finish (resolve_recursive_notimeout fuel [] q st).
  End Config.
End Recursive.

(* the fuel the drivers pass *)
Definition RESOLVER_FUEL : nat := N.to_nat 200000.
