(* Resolver/CutFacts.v -- facts about cut_at_local_authority (recursive.rs) and
   the same position test of resolve_forwarding_notimeout (forwarding.rs):
   [cut_rrs].  Proved once, reused by every proof about the resolver models. *)
From RV Require Import Base.Prelude Name.NameModel Name.NameProofs Wire.WireTypes Zone.ZoneModel
     Resolver.LocalModel Resolver.LocalSpec Resolver.ValidateModel Resolver.TransportModel Resolver.RecursiveModel.
From Coq Require Import Arith.
Set Default Timeout 120.

(* ---- Iterator::position ---- *)
Lemma position_some {A} (p : A -> bool) : forall l i, position p l = Some i ->
  exists x, nth_error l i = Some x /\ p x = true /\ (forall y, In y (firstn i l) -> p y = false).
Proof.
  induction l as [|a l IH]; intros i H; cbn [position] in H; [discriminate|].
  destruct (p a) eqn:Ea.
  - inversion H; subst. exists a. cbn. split; [reflexivity|]. split; [exact Ea|]. intros y [].
  - destruct (position p l) as [j|] eqn:Ej; [|discriminate]. cbn in H. inversion H; subst.
    destruct (IH j eq_refl) as (x & Hn & Hp & Hf). exists x. cbn [nth_error firstn]. split; [exact Hn|]. split; [exact Hp|].
    intros y [<-|Hy]; [exact Ea|apply Hf, Hy].
Qed.

Lemma position_none {A} (p : A -> bool) : forall l, position p l = None -> forall y, In y l -> p y = false.
Proof.
  induction l as [|a l IH]; intros H y Hy; [destruct Hy|]. cbn [position] in H.
  destruct (p a) eqn:Ea; [discriminate|]. destruct (position p l) eqn:Ej; [discriminate|].
  destruct Hy as [<-|Hy]; [exact Ea|apply IH; [reflexivity|exact Hy]].
Qed.

Lemma position_all_false {A} (p : A -> bool) l : (forall y, In y l -> p y = false) -> position p l = None.
Proof.
  induction l as [|a l IH]; intro H; [reflexivity|]. cbn [position].
  rewrite (H a (or_introl eq_refl)), IH; [reflexivity|]. intros y Hy. apply H. right. exact Hy.
Qed.

Lemma firstn_incl {A} (i : nat) (l : list A) : incl (firstn i l) l.
Proof. intros x Hx. rewrite <- (firstn_skipn i l). apply in_or_app. left. exact Hx. Qed.

Lemma nth_error_split_firstn {A} : forall (l : list A) i x, nth_error l i = Some x ->
  l = firstn i l ++ x :: skipn (S i) l.
Proof.
  induction l as [|a l IH]; intros [|i] x H; cbn in H; try discriminate.
  - inversion H; subst. reflexivity.
  - cbn [firstn skipn app]. f_equal. apply IH, H.
Qed.

(* ---- cut_rrs: never panics; its two outcomes ---- *)
Inductive cut_result (zs : zones) (q : question) (rrs : list rr) : option (list rr * dname) -> Prop :=
| CutNone : (forall r, In r rrs -> owned_elsewhere zs q r = false) -> cut_result zs q rrs None
| CutSome i r :
    nth_error rrs i = Some r ->
    owned_elsewhere zs q r = true ->
    (forall x, In x (firstn i rrs) -> owned_elsewhere zs q x = false) ->
    cut_result zs q rrs (Some (firstn i rrs, rr_name r)).

Lemma cut_rrs_ok zs q rrs : exists c, cut_rrs zs q rrs = Ok c /\ cut_result zs q rrs c.
Proof.
  unfold cut_rrs. destruct (position (owned_elsewhere zs q) rrs) as [i|] eqn:Ep.
  - destruct (position_some _ _ _ Ep) as (x & Hn & Hp & Hf). rewrite Hn.
    eexists. split; [reflexivity|]. econstructor; eassumption.
  - exists None. split; [reflexivity|]. constructor. apply position_none, Ep.
Qed.

(* no authoritative zone configured (the setting of the C07 theorems: only
   the root-hints zone): nothing is ever cut *)
Definition no_authoritative_zone (zs : zones) : Prop :=
  forall n z, zones_get zs n = Some z -> zone_is_authoritative z = false.

Lemma owned_elsewhere_no_auth zs q r : no_authoritative_zone zs -> owned_elsewhere zs q r = false.
Proof.
  intro H. unfold owned_elsewhere. destruct (zones_get zs (rr_name r)) as [z|] eqn:E.
  - rewrite (H _ _ E). apply andb_false_r.
  - apply andb_false_r.
Qed.

Lemma cut_rrs_no_auth zs q rrs : no_authoritative_zone zs -> cut_rrs zs q rrs = Ok None.
Proof.
  intro H. unfold cut_rrs. rewrite position_all_false; [reflexivity|].
  intros y _. apply owned_elsewhere_no_auth, H.
Qed.

Theorem cut_no_auth zs q nr : no_authoritative_zone zs -> cut_at_local_authority zs q nr = Ok nr.
Proof.
  intro H. destruct nr as [rrs s|rrs c|rrs d]; cbn [cut_at_local_authority]; rewrite ?cut_rrs_no_auth by exact H; reflexivity.
Qed.

(* a zone list in which every zone is a hints zone has no authoritative zone *)
Lemma zones_get_loop_in {Z} (zs : list (dname * Z)) : forall sufs z, zones_get_loop zs sufs = Some z -> exists n, In (n, z) zs.
Proof.
  induction sufs as [|ls rest IH]; intros z H; cbn [zones_get_loop] in H; [discriminate|].
  destruct (from_labels ls) as [nm|]; [|apply IH, H].
  destruct (alookup dname_eqb nm zs) as [z'|] eqn:E; [|apply IH, H].
  inversion H; subst. clear -E. induction zs as [|[k v] zs IHz]; cbn [alookup] in E; [discriminate|].
  destruct (dname_eqb nm k).
  - inversion E; subst. exists k. left. reflexivity.
  - destruct (IHz E) as [n Hn]. exists n. right. exact Hn.
Qed.

Lemma no_auth_of_all zs : (forall n z, In (n, z) zs -> zone_is_authoritative z = false) -> no_authoritative_zone zs.
Proof.
  intros H n z E. unfold zones_get in E. destruct (zones_get_loop_in _ _ _ E) as [k Hk]. eapply H, Hk.
Qed.

(* the records of a validated reply that are cached and used (the Vec of the
   Answer / CNAME / Delegation variant) *)
Definition nr_rrs (nr : nsresponse) : list rr :=
  match nr with NRAnswer rrs _ => rrs | NRCname rrs _ => rrs | NRDelegation rrs _ => rrs end.
Definition nr_soa (nr : nsresponse) : option rr :=
  match nr with NRAnswer _ s => s | _ => None end.

(* cut_shape: the response is unchanged, or it is a CNAME response holding a
   prefix of the records, continued at the owner of the first record cut *)
Inductive cut_shape (zs : zones) (q : question) (nr : nsresponse) : nsresponse -> Prop :=
| ShapeSame : (forall r, In r (nr_rrs nr) -> (exists x y, nr = NRDelegation x y) \/ owned_elsewhere zs q r = false) ->
              cut_shape zs q nr nr
| ShapeCut i r :
    (forall x y, nr <> NRDelegation x y) ->
    nth_error (nr_rrs nr) i = Some r ->
    owned_elsewhere zs q r = true ->
    (forall x, In x (firstn i (nr_rrs nr)) -> owned_elsewhere zs q x = false) ->
    cut_shape zs q nr (NRCname (firstn i (nr_rrs nr)) (rr_name r)).

Theorem cut_ok zs q nr : exists nr', cut_at_local_authority zs q nr = Ok nr' /\ cut_shape zs q nr nr'.
Proof.
  destruct nr as [rrs s|rrs c|rrs d]; cbn [cut_at_local_authority].
  - destruct (cut_rrs_ok zs q rrs) as (c0 & -> & Hc). destruct Hc as [Hn|i r Hn Ho Hf].
    + eexists. split; [reflexivity|]. constructor. intros r Hr. right. apply Hn, Hr.
    + eexists. split; [reflexivity|]. apply (ShapeCut zs q (NRAnswer rrs s) i r); try assumption. discriminate.
  - destruct (cut_rrs_ok zs q rrs) as (c0 & -> & Hc). destruct Hc as [Hn|i r Hn Ho Hf].
    + eexists. split; [reflexivity|]. constructor. intros r Hr. right. apply Hn, Hr.
    + eexists. split; [reflexivity|]. apply (ShapeCut zs q (NRCname rrs c) i r); try assumption. discriminate.
  - eexists. split; [reflexivity|]. constructor. intros r _. left. eauto.
Qed.

(* the records of the response after the cut are a prefix of those before it *)
Lemma cut_shape_prefix zs q nr nr' : cut_shape zs q nr nr' -> exists i, nr_rrs nr' = firstn i (nr_rrs nr).
Proof.
  intros [H|i r _ _ _ _].
  - exists (length (nr_rrs nr)). symmetry. apply firstn_all.
  - exists i. reflexivity.
Qed.

Lemma cut_shape_incl zs q nr nr' : cut_shape zs q nr nr' -> incl (nr_rrs nr') (nr_rrs nr).
Proof. intro H. destruct (cut_shape_prefix _ _ _ _ H) as [i ->]. apply firstn_incl. Qed.

Lemma cut_shape_soa zs q nr nr' : cut_shape zs q nr nr' -> nr_soa nr' = nr_soa nr \/ nr_soa nr' = None.
Proof. intros [H|i r _ _ _ _]; [left|right]; reflexivity. Qed.

(* cut_sound: after the cut, no record of an Answer / CNAME response other
   than those of the question name has a locally authoritative owner *)
Theorem cut_sound zs q nr nr' : cut_at_local_authority zs q nr = Ok nr' ->
  (forall x y, nr' <> NRDelegation x y) ->
  forall r, In r (nr_rrs nr') -> owned_elsewhere zs q r = false.
Proof.
  intros E Hd r Hr. destruct (cut_ok zs q nr) as (nr2 & E2 & Hs). rewrite E in E2. inversion E2; subst nr2.
  destruct Hs as [H|i r0 _ _ _ Hf].
  - destruct (H r Hr) as [(x & y & ->)|H1]; [exfalso; eapply Hd; reflexivity|exact H1].
  - apply Hf, Hr.
Qed.

(* ---- the cut and alias chains ---- *)
Lemma owned_elsewhere_name zs q a b : rr_name a = rr_name b -> owned_elsewhere zs q a = owned_elsewhere zs q b.
Proof. intro E. unfold owned_elsewhere. rewrite E. reflexivity. Qed.

Lemma chain_from_firstn : forall cn a b i r, chain_from a cn = Some b -> nth_error cn i = Some r ->
  chain_from a (firstn i cn) = Some (rr_name r).
Proof.
  induction cn as [|c cn IH]; intros a b i r H Hn; [destruct i; discriminate|].
  cbn [chain_from] in H. destruct (dname_eqb (rr_name c) a && (rr_type c =? RT_CNAME)) eqn:E; [|discriminate].
  destruct (rr_data c) eqn:Ed; try discriminate.
  destruct i.
  - cbn in Hn. inversion Hn; subst. cbn. apply andb_prop in E. destruct E as [E _]. apply dname_eqb_eq in E. rewrite E. reflexivity.
  - cbn [firstn chain_from]. rewrite E, Ed. eapply IH; eassumption.
Qed.

(* a list "alias chain from [a] to [last], then records owned by [last]", cut
   before its first record owned elsewhere, is an alias chain from [a] to the
   owner of that record *)
Lemma cut_chain zs q a cn fin last i r :
  chain_from a cn = Some last -> Forall (fun x => rr_name x = last) fin ->
  nth_error (cn ++ fin) i = Some r -> owned_elsewhere zs q r = true ->
  (forall x, In x (firstn i (cn ++ fin)) -> owned_elsewhere zs q x = false) ->
  chain_from a (firstn i (cn ++ fin)) = Some (rr_name r).
Proof.
  intros Hc Hf Hn Ho Hp.
  destruct (Nat.lt_ge_cases i (length cn)) as [Hl|Hl].
  - rewrite nth_error_app1 in Hn by exact Hl. rewrite firstn_app.
    replace (i - length cn)%nat with O by lia. cbn [firstn]. rewrite app_nil_r. eapply chain_from_firstn; eassumption.
  - rewrite nth_error_app2 in Hn by exact Hl.
    assert (Hr : rr_name r = last). { eapply Forall_forall in Hf; [exact Hf|eapply nth_error_In, Hn]. }
    assert (Hi : i = length cn).
    { destruct (Nat.eq_dec i (length cn)) as [e|ne]; [exact e|]. exfalso.
      destruct fin as [|f0 fin]. { destruct (i - length cn)%nat; discriminate. }
      assert (Hin : In f0 (firstn i (cn ++ f0 :: fin))).
      { rewrite firstn_app. apply in_or_app. right. destruct (i - length cn)%nat eqn:E; [lia|]. left. reflexivity. }
      apply Hp in Hin. rewrite (owned_elsewhere_name zs q f0 r) in Hin; [congruence|].
      inversion Hf; subst. congruence. }
    subst i. rewrite firstn_app, Nat.sub_diag, firstn_all. cbn [firstn]. rewrite app_nil_r, Hr. exact Hc.
Qed.

(* ---- responses the cut leaves alone ---- *)
Lemma owned_elsewhere_qname zs q r : rr_name r = q_name q -> owned_elsewhere zs q r = false.
Proof. intro E. unfold owned_elsewhere. rewrite E. replace (dname_eqb (q_name q) (q_name q)) with true; [reflexivity|]. symmetry. apply dname_eqb_eq. reflexivity. Qed.

Lemma cut_rrs_none zs q rrs : (forall r, In r rrs -> owned_elsewhere zs q r = false) -> cut_rrs zs q rrs = Ok None.
Proof. intro H. unfold cut_rrs. rewrite position_all_false by exact H. reflexivity. Qed.

Lemma cut_answer_same zs q rrs soa : (forall r, In r rrs -> owned_elsewhere zs q r = false) ->
  cut_at_local_authority zs q (NRAnswer rrs soa) = Ok (NRAnswer rrs soa).
Proof. intro H. cbn [cut_at_local_authority]. rewrite cut_rrs_none by exact H. reflexivity. Qed.

Lemma cut_cname_same zs q rrs c : (forall r, In r rrs -> owned_elsewhere zs q r = false) ->
  cut_at_local_authority zs q (NRCname rrs c) = Ok (NRCname rrs c).
Proof. intro H. cbn [cut_at_local_authority]. rewrite cut_rrs_none by exact H. reflexivity. Qed.

Lemma cut_delegation_same zs q rrs d : cut_at_local_authority zs q (NRDelegation rrs d) = Ok (NRDelegation rrs d).
Proof. reflexivity. Qed.

(* what resolve_with_nameserver_response caches after the cut: a prefix of the records of the
   response, and -- unless the response is a Delegation -- none of it owned elsewhere *)
Lemma cut_shape_insert zs q nr nr' : cut_shape zs q nr nr' ->
  exists i, nr_rrs nr' = firstn i (nr_rrs nr)
            /\ ((exists x y, nr = NRDelegation x y)
                \/ forall r, In r (firstn i (nr_rrs nr)) -> owned_elsewhere zs q r = false).
Proof.
  intros [H|i r Hnd Hn Ho Hf].
  - exists (length (nr_rrs nr)). rewrite firstn_all. split; [reflexivity|].
    destruct nr as [rrs s|rrs c|rrs d]; [right|right|left; eauto]; intros r Hr;
      (destruct (H r Hr) as [(x & y & E)|H1]; [discriminate|exact H1]).
  - exists i. split; [reflexivity|]. right. exact Hf.
Qed.

(* in terms of the specification (Resolver/LocalSpec.v): not owned elsewhere = owned by the
   question name, or the longest configured apex enclosing the owner is not an authoritative zone *)
Lemma owned_elsewhere_false_spec zs q r : owned_elsewhere zs q r = false ->
  rr_name r = q_name q \/ ~ in_auth_zone zs (rr_name r).
Proof.
  unfold owned_elsewhere. intro H. apply andb_false_iff in H. destruct H as [H|H].
  - left. apply negb_false_iff in H. apply dname_eqb_eq in H. exact H.
  - right. intros (z & Ez & Hs). rewrite Ez in H. unfold zone_is_authoritative in H. destruct (z_soa z); [discriminate|congruence].
Qed.

Lemma owned_elsewhere_true_spec zs q r : owned_elsewhere zs q r = true ->
  rr_name r <> q_name q /\ in_auth_zone zs (rr_name r).
Proof.
  unfold owned_elsewhere. intro H. apply andb_prop in H. destruct H as [H1 H2]. split.
  - intro E. rewrite E in H1. replace (dname_eqb (q_name q) (q_name q)) with true in H1; [discriminate|]. symmetry. apply dname_eqb_eq. reflexivity.
  - unfold in_auth_zone. destruct (zones_get zs (rr_name r)) as [z|]; [|discriminate]. exists z. split; [reflexivity|].
    unfold zone_is_authoritative in H2. destruct (z_soa z); [discriminate|discriminate].
Qed.
