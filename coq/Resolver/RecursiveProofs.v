(* Resolver/RecursiveProofs.v -- lemmas about the recursive resolver model
   (Resolver/RecursiveModel.v over Resolver/TransportModel.v) for C08 (termination
   for every oracle, no panic, provenance), C18 (whole-log theorems), C06
   (only_validated_is_cached), C01 / C10 (network-mode clauses) and C07
   (referral progress). *)
From Coq Require Import Permutation Wf_nat Arith.
From RV Require Import Base.Prelude Base.Cursor Name.NameModel Name.NameSpec Name.NameProofs
     Wire.WireTypes Wire.WireModel Wire.WireModelFacts Wire.WireGrammar Wire.WireEncodeProofs Wire.WireDecodeProofs
     Zone.ZoneModel Resolver.LocalModel Resolver.LocalSpec Resolver.LocalProofs
     Resolver.ValidateModel Resolver.ValidateSpec Resolver.ValidateProofs
     Resolver.TransportModel Resolver.RecursiveModel Resolver.ResolverFacts.
Set Default Timeout 120.

(* ====================================================================== *)
(* 0. the transport: totality for every oracle                             *)
(* ====================================================================== *)

(* octets are [N]; what a peer sends are octets *)
Definition oracle_bytes_ok (o : oracle) : Prop :=
  forall n p a req bs, t_bytes (o n p a req) = Some bs -> Forall (fun b => b < 256) bs.

Definition bad_abort (w : abort) : Prop := w = APanic \/ w = AFuel.

Lemma decode_opt_fine ob :
  (forall bs, ob = Some bs -> Forall (fun b => b < 256) bs) ->
  forall w, decode_opt ob = Abort w -> False.
Proof.
  intros H w. unfold decode_opt. destruct ob as [bs|]; [|discriminate].
  destruct (decode_total bs (H bs eq_refl)) as [HP HF].
  destruct (decode bs); try discriminate; congruence.
Qed.

Lemma Some_inj {A} (a b : A) : Some a = Some b -> a = b.
Proof. intro H; inversion H; reflexivity. Qed.

Lemma Forall_firstn {A} (P : A -> Prop) n : forall l, Forall P l -> Forall P (firstn n l).
Proof.
  induction n as [|n IH]; intros [|x l] H; cbn [firstn]; try constructor.
  - inversion H; assumption.
  - apply IH. inversion H; assumption.
Qed.

Lemma udp_outcome_bytes r bs :
  (forall b, t_bytes r = Some b -> Forall (fun x => x < 256) b) ->
  snd (udp_outcome r) = Some bs -> Forall (fun x => x < 256) bs.
Proof.
  intros H. unfold udp_outcome. destruct (t_refuse r); [discriminate|].
  destruct (t_bytes r) as [b|]; [|discriminate].
  destruct (UDP_TIMEOUT_MS <? t_delay_ms r); [discriminate|].
  cbn [snd]. intro E. apply Some_inj in E. subst bs. apply Forall_firstn. apply H. reflexivity.
Qed.

Lemma tcp_outcome_bytes r bs :
  (forall b, t_bytes r = Some b -> Forall (fun x => x < 256) b) ->
  snd (tcp_outcome r) = Some bs -> Forall (fun x => x < 256) bs.
Proof.
  intros H. unfold tcp_outcome. destruct (TCP_TIMEOUT_MS <? t_delay_ms r); [discriminate|].
  remember (match t_bytes r with Some b => b | None => [] end) as stream eqn:Es.
  assert (Hs : Forall (fun x => x < 256) stream).
  { subst stream. destruct (t_bytes r) as [b|]; [apply H; reflexivity|constructor]. }
  clear Es.
  unfold read_tcp_stream. destruct stream as [|hi [|lo rest]].
  1,2: destruct (t_close r); discriminate.
  destruct (u16_be hi lo <=? llen rest).
  - cbn [snd]. intro E. apply Some_inj in E. subst bs. apply Forall_firstn.
    apply Forall_inv_tail in Hs. apply Forall_inv_tail in Hs. exact Hs.
  - destruct (t_close r); discriminate.
Qed.

Lemma llen_map_byte2 f bs : llen (map_byte2 f bs) = llen bs.
Proof. unfold map_byte2. destruct bs as [|a [|b [|c t]]]; reflexivity. Qed.
Lemma llen_clear_tc bs : llen (clear_tc bs) = llen bs.
Proof. apply llen_map_byte2. Qed.

(* what udp_exchange returns: no panic and no fuel exhaustion for a complete request *)
Lemma udp_exchange_fine o a q rd req s :
  oracle_bytes_ok o -> 12 <= llen req ->
  (forall w, fst (udp_exchange o a q rd req s) = Abort w -> w = ATimeout)
  /\ (forall om req1, fst (udp_exchange o a q rd req s) = Val (om, req1) -> llen req1 = llen req).
Proof.
  intros Ho Hlen. unfold udp_exchange.
  destruct (512 <? llen req). { cbn [fst]. split; [discriminate|]. intros om r1 E. inversion E; reflexivity. }
  destruct (llen req <? 12) eqn:E12. { apply N.ltb_lt in E12. lia. }
  pose proof (udp_outcome_bytes (o (ts_nexch s) Udp a (clear_tc req))) as Hb.
  destruct (udp_outcome _) as [cost dgram]. cbn [snd] in Hb.
  set (s1 := next_exchange _).
  unfold charge. destruct (BUDGET_MS <? ts_elapsed s1 + cost).
  - cbn [fst]. split; [intros w E; inversion E; reflexivity|discriminate].
  - destruct (decode_opt dgram) as [om|w] eqn:Ed.
    + cbn [fst]. split; [discriminate|]. intros om' r1 E. inversion E; subst. apply llen_clear_tc.
    + exfalso. eapply decode_opt_fine; [|exact Ed]. intros bs Ebs. subst dgram.
      apply (Hb bs); [|reflexivity]. intros b Hbb. eapply Ho, Hbb.
Qed.

Lemma tcp_exchange_fine o a q rd req s :
  oracle_bytes_ok o -> 12 <= llen req ->
  forall w, fst (tcp_exchange o a q rd req s) = Abort w -> w = ATimeout.
Proof.
  intros Ho Hlen w. unfold tcp_exchange.
  destruct (t_refuse _); [discriminate|].
  destruct (llen req <? 12) eqn:E12. { apply N.ltb_lt in E12. lia. }
  set (r := o _ Tcp a _).
  pose proof (tcp_outcome_bytes r) as Hb.
  destruct (tcp_outcome r) as [cost bytes]. cbn [snd] in Hb.
  set (s2 := log_call _ _ _ _ _ _ _).
  unfold charge. destruct (BUDGET_MS <? ts_elapsed s2 + cost).
  - cbn [fst]. intro E; inversion E; reflexivity.
  - destruct (decode_opt bytes) as [om|w'] eqn:Ed; [discriminate|].
    exfalso. eapply decode_opt_fine; [|exact Ed]. intros bs Ebs. subst bytes.
    apply (Hb bs); [|reflexivity]. intros b Hbb. eapply Ho, Hbb.
Qed.

(* the encoder never fails on a single-question request, and writes at least the header *)
Lemma wb_octets_memoise n b : wb_octets (memoise_name n b) = wb_octets b.
Proof.
  unfold memoise_name. destruct (_ && _); [|reflexivity]. destruct (_ && _); reflexivity.
Qed.

Lemma ext_encode_name n c b : ext b (encode_name n c b).
Proof.
  unfold encode_name. destruct (if c then _ else _).
  - apply ext_write_octets.
  - destruct (write_labels_spec (labels n) (memoise_name n b)) as [E _].
    exists (wire_labels (labels n)). rewrite E, wb_octets_memoise. reflexivity.
Qed.

Lemma encode_request_ok q rd : exists req, encode (make_request q rd) = Ok req /\ 12 <= llen req.
Proof.
  unfold encode, make_request, from_question.
  cbn [m_questions m_answers m_authority m_additional m_header h_id h_qr h_opcode h_aa h_tc h_rd h_ra h_rcode].
  change (usize_to_u16 (llen [q])) with (@Ok serr N 1).
  change (usize_to_u16 (llen (@nil rr))) with (@Ok serr N 0).
  cbn [bind encode_rrs fold_left].
  eexists. split; [reflexivity|].
  unfold encode_question, write_u16.
  rewrite !octets_write_octets.
  destruct (ext_encode_name (q_name q) true
             (write_octets (u16_bytes 0) (write_octets (u16_bytes 0) (write_octets (u16_bytes 0) (write_octets (u16_bytes 1)
                (encode_header {| h_id := REQUEST_ID; h_qr := false; h_opcode := OPCODE_Standard; h_aa := false;
                                  h_tc := false; h_rd := rd; h_ra := false; h_rcode := RCODE_NoError |} wb_empty))))))
    as [os Eos].
  rewrite Eos. unfold encode_header, write_u8, write_u16. rewrite !octets_write_octets.
  rewrite !llen_app. unfold u16_bytes, llen at 2 3 4 5 6 7 8. cbn [length N.of_nat].
  change (wb_octets wb_empty) with (@nil byte). unfold llen at 1. cbn [length N.of_nat]. lia.
Qed.

Lemma query_nameserver_fine o a q rd s :
  oracle_bytes_ok o -> forall w, fst (query_nameserver o a q rd s) = Abort w -> w = ATimeout.
Proof.
  intros Ho w. unfold query_nameserver.
  destruct (encode_request_ok q rd) as [req [Ereq Hlen]]. rewrite Ereq.
  pose proof (udp_exchange_fine o a q rd req s Ho Hlen) as [Hu1 Hu2].
  destruct (udp_exchange o a q rd req s) as [[[om req1]|w1] s1].
  - cbn [fst] in Hu2. specialize (Hu2 om req1 eq_refl).
    destruct (gate _ om); [discriminate|].
    pose proof (tcp_exchange_fine o a q rd req1 s1 Ho) as Ht. rewrite Hu2 in Ht. specialize (Ht Hlen).
    destruct (tcp_exchange o a q rd req1 s1) as [[om2|w2] s2]; [discriminate|].
    cbn [fst] in *. intro E. inversion E; subst. apply Ht. reflexivity.
  - cbn [fst] in *. intro E. inversion E; subst. apply Hu1. reflexivity.
Qed.

(* ---------- what the log says about the reply that was used ---------- *)

(* the octets an exchange delivered (after the 5 s time-out, the 512-octet receive
   buffer, the TCP length prefix) and the message they decode to *)
Definition exchange_bytes (e : exchange) : option (list byte) :=
  match x_kind e with
  | KUdp => snd (udp_outcome (x_reply e))
  | KTcp => snd (tcp_outcome (x_reply e))
  | KTcpConnect => None
  end.
Definition exchange_message (e : exchange) : option message :=
  match exchange_bytes e with
  | Some bs => match decode bs with Ok m => Some m | _ => None end
  | None => None
  end.

Lemma decode_opt_some ob m : decode_opt ob = Val (Some m) -> exists bs, ob = Some bs /\ decode bs = Ok m.
Proof.
  unfold decode_opt. destruct ob as [bs|]; [|discriminate].
  destruct (decode bs) eqn:E; try discriminate. intro H. inversion H; subst. exists bs. auto.
Qed.

Definition reply_from (o : oracle) (e : exchange) : Prop := exists n p a req, x_reply e = o n p a req.
Definition logged_reply (o : oracle) (a : addr) (q : question) (rd : bool) (m : message) (e : exchange) : Prop :=
  x_addr e = a /\ x_question e = q /\ x_rd e = rd /\ exchange_message e = Some m /\ reply_from o e.

Lemma udp_exchange_logged o a q rd req s m req1 s' :
  udp_exchange o a q rd req s = (Val (Some m, req1), s') ->
  exists e, ts_rlog s' = e :: ts_rlog s /\ logged_reply o a q rd m e.
Proof.
  unfold udp_exchange.
  destruct (512 <? llen req); [discriminate|]. destruct (llen req <? 12); [discriminate|].
  set (r := o (ts_nexch s) Udp a (clear_tc req)).
  destruct (udp_outcome r) as [cost dgram] eqn:Eo.
  unfold charge. cbn [ts_elapsed next_exchange log_call ts_rlog ts_nexch].
  destruct (BUDGET_MS <? _); [discriminate|].
  destruct (decode_opt dgram) as [om|w] eqn:Ed; [|discriminate].
  intro H. inversion H; subst. cbn [ts_rlog].
  eexists. split; [reflexivity|]. unfold logged_reply, exchange_message, exchange_bytes. cbn [x_addr x_question x_rd x_kind x_reply].
  fold r. rewrite Eo. cbn [snd]. apply decode_opt_some in Ed. destruct Ed as [bs [-> Ed]]. rewrite Ed.
  repeat split; try reflexivity. unfold reply_from. cbn [x_reply]. do 4 eexists. reflexivity.
Qed.

Lemma tcp_exchange_logged o a q rd req s m s' :
  tcp_exchange o a q rd req s = (Val (Some m), s') ->
  exists e e0, ts_rlog s' = e :: e0 :: ts_rlog s /\ logged_reply o a q rd m e /\ x_addr e0 = a /\ x_question e0 = q /\ x_rd e0 = rd.
Proof.
  unfold tcp_exchange.
  destruct (t_refuse _); [discriminate|]. destruct (llen req <? 12); [discriminate|].
  set (r := o (ts_nexch s) Tcp a (fst (tcp_request req))).
  destruct (tcp_outcome r) as [cost bytes] eqn:Eo.
  unfold charge. cbn [ts_elapsed next_exchange log_call ts_rlog ts_nexch].
  destruct (BUDGET_MS <? _); [discriminate|].
  destruct (decode_opt bytes) as [om|w] eqn:Ed; [|discriminate].
  intro H. inversion H; subst. cbn [ts_rlog].
  do 2 eexists. split; [reflexivity|]. cbn [x_addr x_question x_rd]. split; [|auto].
  unfold logged_reply, exchange_message, exchange_bytes. cbn [x_addr x_question x_rd x_kind x_reply].
  fold r. rewrite Eo. cbn [snd]. apply decode_opt_some in Ed. destruct Ed as [bs [-> Ed]]. rewrite Ed.
  repeat split; try reflexivity. unfold reply_from. cbn [x_reply]. do 4 eexists. reflexivity.
Qed.

Lemma gate_some request om m : gate request om = Some m -> om = Some m /\ response_matches_request request m = true.
Proof.
  unfold gate. destruct om as [x|]; [|discriminate].
  destruct (response_matches_request request x) eqn:E; [|discriminate]. intro H; inversion H; subst. auto.
Qed.

(* a reply query_nameserver hands on is the decoding of what a logged exchange of this very
   call delivered, and passed the header gate against the request *)
Lemma query_nameserver_logged o a q rd s m s' :
  query_nameserver o a q rd s = (Val (Some m), s') ->
  exists new e, ts_rlog s' = new ++ ts_rlog s /\ In e new /\ logged_reply o a q rd m e
                /\ response_matches_request (make_request q rd) m = true
                /\ Forall (fun x => x_addr x = a /\ x_question x = q /\ x_rd x = rd) new.
Proof.
  intro H. pose proof (query_nameserver_dest _ _ _ _ _ _ _ H) as [new0 [Enew0 Fnew0]].
  unfold query_nameserver in H.
  destruct (encode _) as [req|e| |]; try discriminate.
  destruct (udp_exchange o a q rd req s) as [[[om req1]|w] s1] eqn:Eu; [|discriminate].
  destruct (gate _ om) as [resp|] eqn:Eg.
  - inversion H; subst. apply gate_some in Eg. destruct Eg as [-> Hm].
    destruct (udp_exchange_logged _ _ _ _ _ _ _ _ _ Eu) as [e [El Hl]].
    exists [e], e. split; [exact El|]. split; [left; reflexivity|]. split; [exact Hl|]. split; [exact Hm|].
    destruct Hl as (h1 & h2 & h3 & _). repeat constructor; assumption.
  - destruct (tcp_exchange o a q rd req1 s1) as [[om2|w] s2] eqn:Et; [|discriminate].
    inversion H; subst. apply gate_some in H1. destruct H1 as [-> Hm].
    destruct (tcp_exchange_logged _ _ _ _ _ _ _ _ Et) as [e [e0 [El [Hl _]]]].
    exists new0, e. split; [exact Enew0|]. split.
    + pose proof (udp_exchange_dest _ _ _ _ _ _ _ _ Eu) as [n1 [E1 _]].
      rewrite El, E1 in Enew0.
      assert (In e (new0 ++ ts_rlog s)) as Hin by (rewrite <- Enew0; left; reflexivity).
      (* e is among the new entries: the new list is e :: e0 :: n1 *)
      assert (new0 = e :: e0 :: n1).
      { apply (app_inv_tail (ts_rlog s)). rewrite <- Enew0. reflexivity. }
      subst new0. left. reflexivity.
    + split; [exact Hl|]. split; [exact Hm|exact Fnew0].
Qed.

Lemma logged_reply_wf o a q rd m e : oracle_bytes_ok o -> logged_reply o a q rd m e -> wf_message m.
Proof.
  intros Ho (_ & _ & _ & H & [n [p [a' [req Er]]]]). unfold exchange_message in H.
  destruct (exchange_bytes e) as [bs|] eqn:Eb; [|discriminate].
  destruct (decode bs) as [m'| | |] eqn:Ed; try discriminate. inversion H; subst m'.
  eapply decode_wf; [|exact Ed].
  unfold exchange_bytes in Eb. rewrite Er in Eb. destruct (x_kind e); [| discriminate |].
  - eapply udp_outcome_bytes; [|exact Eb]. intros b Hb. eapply Ho, Hb.
  - eapply tcp_outcome_bytes; [|exact Eb]. intros b Hb. eapply Ho, Hb.
Qed.

(* ====================================================================== *)
(* 1. the recursive model                                                  *)
(* ====================================================================== *)

Lemma pop_last_length {A} : forall (l : list A) x t, pop_last l = Some (x, t) -> length l = S (length t).
Proof.
  induction l as [|y l IH]; intros x t H; cbn [pop_last] in H; [discriminate|].
  destruct (pop_last l) as [[z t']|] eqn:E.
  - inversion H; subst. cbn [length]. f_equal. eapply IH. reflexivity.
  - inversion H; subst. destruct l; [reflexivity|]. cbn [pop_last] in E. destruct (pop_last l) as [[? ?]|]; discriminate.
Qed.

Lemma pop_last_app {A} : forall (l : list A) x t, pop_last l = Some (x, t) -> l = t ++ [x].
Proof.
  induction l as [|y l IH]; intros x t H; cbn [pop_last] in H; [discriminate|].
  destruct (pop_last l) as [[z t']|] eqn:E.
  - inversion H; subst. cbn [app]. f_equal. apply IH. reflexivity.
  - inversion H; subst. destruct l; [reflexivity|]. cbn [pop_last] in E. destruct (pop_last l) as [[? ?]|]; discriminate.
Qed.

(* ---------- where the records of a local result come from ---------- *)

Definition zresult_rrs (zr : zresult) : list rr :=
  match zr with ZAnswer rrs => rrs | ZCname _ r => [r] | ZDelegation ns => ns | ZNameError => [] end.
Definition lresult_soa (l : lresult) : option rr :=
  match l with LDone r => resolved_soa_rr r | LDelegation _ s _ => s | _ => None end.
Definition opt_list {A} (o : option A) : list A := match o with Some x => [x] | None => [] end.

Lemma Forall_merge (P : rr -> Prop) a b : Forall P a -> Forall P b -> Forall P (prioritising_merge a b).
Proof.
  intros Ha Hb. unfold prioritising_merge. apply Forall_app. split; [exact Ha|].
  apply Forall_forall. intros x Hx. apply filter_In in Hx. eapply Forall_forall in Hb; [exact Hb|tauto].
Qed.

Section LocalFrom.
  Variable zs : zones.
  Variable cget : dname -> N -> list rr.
  Variable P : rr -> Prop.
  Hypothesis Hz : forall name qt z zr r, zones_resolve zs name qt = Some (z, Ok zr) -> In r (zresult_rrs zr) -> P r.
  Hypothesis Hs : forall name qt z zr s, zones_resolve zs name qt = Some (z, zr) -> zone_soa_rr z = Some s -> P s.
  Hypothesis Hc : forall n t r, In r (cget n t) -> P r.

  Definition lgood (l : lresult) : Prop := Forall P (lresult_rrs l) /\ Forall P (opt_list (lresult_soa l)).

  Lemma local_from : forall f stack q l, resolve_local zs cget f stack q = Ok l -> lgood l.
  Proof.
    induction f as [|f IH]; intros stack q l H; [discriminate|].
    rewrite resolve_local_eq in H.
    destruct (at_recursion_limit stack); [discriminate|].
    destruct (is_duplicate_question stack q); [discriminate|].
    set (sub := fun name => resolve_local zs cget f (stack ++ [q]) (subq q name)) in H.
    assert (Hsub : forall n l', sub n = Ok l' -> lgood l') by (intros n l' E; eapply IH, E).
    clearbody sub. clear IH.
    assert (Hcache : forall rz, Forall P rz -> cache_phase cget q sub rz = Ok l -> lgood l).
    { intros rz Hrz Hcp. unfold cache_phase in Hcp.
      assert (Hpart : forall rc fc, cache_part cget q sub = Ok (rc, fc) -> Forall P rc).
      { intros rc fc Ep. unfold cache_part in Ep.
        assert (Hfc : Forall P (cget (q_name q) (q_type q))) by (apply Forall_forall; intros x Hx; eapply Hc, Hx).
        destruct (is_nil (cget (q_name q) (q_type q)) && negb (q_type q =? RT_CNAME)).
        2:{ inversion Ep; subst. exact Hfc. }
        destruct (cget (q_name q) RT_CNAME) as [|cr t] eqn:Ecn. { inversion Ep; subst. exact Hfc. }
        assert (Hcr : P cr) by (eapply (Hc (q_name q) RT_CNAME); rewrite Ecn; left; reflexivity).
        destruct (if rr_type cr =? RT_CNAME then rr_data cr else RD_A 0); try discriminate.
        unfold ccombine in Ep. destruct (sub n) as [l'| | |] eqn:Es; try discriminate.
        - specialize (Hsub _ _ Es). destruct Hsub as [Hl _].
          destruct l' as [r|rrs|rrs s d|rrs cq]; inversion Ep; subst; cbn [app lresult_rrs] in *;
            try (constructor; [exact Hcr|exact Hl]); constructor; [exact Hcr|constructor].
        - inversion Ep; subst. constructor; [exact Hcr|constructor]. }
      destruct (cache_part cget q sub) as [[rc fc]| | |] eqn:Ep; try discriminate.
      specialize (Hpart rc fc eq_refl).
      pose proof (Forall_merge P rz rc Hrz Hpart) as Hm.
      destruct (is_nil (prioritising_merge rz rc)); [discriminate|].
      destruct fc as [c|].
      - inversion Hcp; subst. split; [exact Hm|constructor].
      - destruct (q_type q =? QT_Wildcard); inversion Hcp; subst; (split; [exact Hm|constructor]). }
    unfold local_step, zone_phase in H.
    destruct (zones_resolve zs (q_name q) (q_type q)) as [[z r]|] eqn:Ez; [|apply (Hcache []); [constructor|exact H]].
    destruct r as [zr|e| |]; try discriminate.
    pose proof (fun r => Hz _ _ _ _ r Ez) as Hzr.
    destruct zr as [rrs|c cr|ns|]; cbn [zresult_rrs] in Hzr.
    - assert (Hrrs : Forall P rrs) by (apply Forall_forall; exact Hzr).
      destruct (zone_soa_rr z) as [s|] eqn:Esoa.
      + inversion H; subst. split; [exact Hrrs|]. constructor; [eapply Hs; eassumption|constructor].
      + destruct (negb (q_type q =? QT_Wildcard) && negb (is_nil rrs)).
        * inversion H; subst. split; [exact Hrrs|constructor].
        * apply (Hcache rrs Hrrs H).
    - assert (Hcr : P cr) by (apply Hzr; left; reflexivity).
      unfold zcombine in H. destruct (sub c) as [l'| | |] eqn:Es; try discriminate.
      + specialize (Hsub _ _ Es). destruct Hsub as [Hl Hso].
        destruct l' as [[rrs so|so|rrs so]|rrs|rrs so d|rrs cq]; inversion H; subst;
          cbn [app lresult_rrs lresult_soa resolved_rrs resolved_soa_rr opt_list] in *;
          (split; [try (constructor; [exact Hcr|]); try exact Hl; try constructor|try exact Hso; try constructor]).
      + inversion H; subst. split; [constructor; [exact Hcr|constructor]|constructor].
    - destruct (zone_soa_rr z) as [s|] eqn:Esoa; [|apply (Hcache []); [constructor|exact H]].
      destruct ns as [|first t]; [discriminate|]. inversion H; subst.
      split; [apply Forall_forall; exact Hzr|]. constructor; [eapply Hs; eassumption|constructor].
    - destruct (zone_soa_rr z) as [s|] eqn:Esoa; [|apply (Hcache []); [constructor|exact H]].
      inversion H; subst. split; [constructor|]. constructor; [eapply Hs; eassumption|constructor].
  Qed.
End LocalFrom.

(* two records that agree in owner, type and data (the cache does not keep the class, and
   hands back the TTL that remains) *)
Definition rr_sim (a b : rr) : Prop := rr_name a = rr_name b /\ rr_type a = rr_type b /\ rr_data a = rr_data b.
Lemma rr_sim_refl a : rr_sim a a.
Proof. repeat split. Qed.
Lemma rr_sim_trans a b c : rr_sim a b -> rr_sim b c -> rr_sim a c.
Proof. intros (h1 & h2 & h3) (k1 & k2 & k3). repeat split; congruence. Qed.

(* the shape of the RDATA is the one the type code demands (RecordTypeWithData) *)
Definition rr_typed (r : rr) : Prop := shape_of_rdata (rr_data r) = shape_of_type (rr_type r).
Lemma rr_typed_sim a b : rr_sim a b -> rr_typed b -> rr_typed a.
Proof. intros (_ & h2 & h3). unfold rr_typed. rewrite h2, h3. auto. Qed.
Lemma wf_rr_typed r : wf_rr r -> rr_typed r.
Proof. intros (_ & _ & _ & _ & [H _]). exact H. Qed.

Section RP.
  Variable cache : Type.
  Variable cache_get : cache -> dname -> N -> list rr.
  Variable cache_insert_all : cache -> list rr -> cache.
  Variable sort_names : list dname -> list dname.
  Variable zs : zones.
  Variable o : oracle.
  Variable pmode : protocol_mode.
  Variable port : N.

  Notation RM := (RM cache).
  Notation rstate := (rstate cache).
  Notation rrn := (resolve_recursive_notimeout cache cache_get cache_insert_all sort_names zs o pmode port).
  Notation cloop := (candidate_loop cache cache_get cache_insert_all sort_names zs o pmode port).
  Notation rlocal := (local cache cache_get zs).
  Notation rbody := (recursive_body cache cache_get sort_names zs).
  Notation cstep := (candidate_step cache cache_get cache_insert_all sort_names zs o pmode port).
  Notation rcr := (resolve_combined_recursive cache).
  Notation rwnr := (resolve_with_nameserver_response cache cache_insert_all).
  Notation htry := (hostname_try cache cache_get zs).
  Notation hloop := (hostname_loop cache cache_get zs).
  Notation rhi := (resolve_hostname_to_ip cache cache_get zs pmode).
  Notation qav := (query_and_validate cache o).
  Notation cns := (candidate_nameservers cache cache_get zs).
  Notation cnsl := (candidate_ns_loop cache cache_get zs).
  Notation rret := (ret cache).
  Notation rbind := (rbind cache).

  Lemma rrn_S f stack q : rrn (S f) stack q = rbody (rrn f) (cloop f) stack q.
  Proof. reflexivity. Qed.
  Lemma cloop_S f stack q combined mc cands next locally :
    cloop (S f) stack q combined mc cands next locally
    = cstep (rrn f) (cloop f stack q combined) stack q combined mc cands next locally.
  Proof. reflexivity. Qed.

  (* ---------- the primitives ---------- *)

  Lemma stack_le_32 (stack : list question) (q : question) :
    (length stack <= 32)%nat -> at_recursion_limit stack = false -> (length (stack ++ [q]) <= 32)%nat.
  Proof.
    intros H E. apply at_limit_false in E. rewrite app_length. cbn [length]. lia.
  Qed.

  Lemma at_limit_true (stack : list question) : length stack = 32%nat -> at_recursion_limit stack = true.
  Proof. intro E. unfold at_recursion_limit, llen. rewrite E. reflexivity. Qed.

  (* local: the state is untouched; never out of fuel while the stack is within the limit *)
  Lemma rlocal_state stack q st : snd (rlocal stack q st) = st.
  Proof. unfold local. destruct (resolve_local _ _ _ _ _); reflexivity. Qed.

  Lemma rlocal_cases stack q st :
    (length stack <= 32)%nat ->
    (exists ol, rlocal stack q st = (Val ol, st)
                /\ match ol with
                   | Some l => resolve_local zs (cache_get (fst st)) LOCAL_FUEL stack q = Ok l
                   | None => exists e, resolve_local zs (cache_get (fst st)) LOCAL_FUEL stack q = Err e
                   end)
    \/ (rlocal stack q st = (Abort APanic, st) /\ resolve_local zs (cache_get (fst st)) LOCAL_FUEL stack q = Panic).
  Proof.
    intro Hl. unfold local.
    pose proof (resolve_local_no_fuel zs (cache_get (fst st)) LOCAL_FUEL stack q Hl) as Hf.
    rewrite local_fuel_value in Hf. specialize (Hf ltac:(lia)). rewrite <- (local_fuel_value) in Hf.
    destruct (resolve_local zs (cache_get (fst st)) LOCAL_FUEL stack q) as [l|e| |] eqn:E.
    - left. exists (Some l). split; reflexivity.
    - left. exists None. split; [reflexivity|]. exists e. reflexivity.
    - right. split; reflexivity.
    - congruence.
  Qed.

  (* query_and_validate: the only way it is abandoned is the 60 s budget *)
  Lemma qav_fine (Ho : oracle_bytes_ok o) a q mc st w : fst (qav a q mc st) = Abort w -> w = ATimeout.
  Proof.
    unfold query_and_validate, RecursiveModel.rbind, lift_t.
    pose proof (query_nameserver_fine o a q false (snd st) Ho) as Hq.
    destruct (query_nameserver o a q false (snd st)) as [[om|w1] ts].
    - destruct om as [response|]; [|discriminate].
      destruct (never_panics q response mc) as [x Ex]. rewrite Ex. discriminate.
    - cbn [fst] in *. intro E. inversion E; subst. apply Hq. reflexivity.
  Qed.

  Lemma qav_some a q mc st nr st' :
    qav a q mc st = (Val (Some nr), st') ->
    exists response, validate_nameserver_response q response mc = Ok (Some nr)
                     /\ query_nameserver o a q false (snd st) = (Val (Some response), snd st') /\ fst st' = fst st.
  Proof.
    unfold query_and_validate, RecursiveModel.rbind, lift_t.
    destruct (query_nameserver o a q false (snd st)) as [[om|w1] ts]; [|discriminate].
    destruct om as [response|]; [|discriminate].
    destruct (never_panics q response mc) as [x Ex]. rewrite Ex. cbn [lift_res]. unfold ret.
    intro E. inversion E; subst. exists response. auto.
  Qed.

  Lemma get_ip_lift rrs h t (st : rstate) : exists oa, lift_res cache (get_ip rrs h t) st = (Val oa, st) /\ get_ip rrs h t = Ok oa.
  Proof. destruct (get_ip_total rrs h t) as [x E]. rewrite E. exists x. split; reflexivity. Qed.

  (* ---------- stabilisation: from some fuel on the result no longer changes ---------- *)

  Definition nofuel {A} (x : out A * rstate) : Prop := fst x <> Abort AFuel.

  Definition stab {A} (m : nat -> RM A) (st : rstate) : Prop :=
    exists f0 r, nofuel r /\ forall f, (f0 <= f)%nat -> m f st = r.

  Lemma stab_const {A} (m : RM A) st : nofuel (m st) -> stab (fun _ => m) st.
  Proof. intro H. exists O, (m st). split; [exact H|reflexivity]. Qed.

  Lemma stab_bind {A B} (m : nat -> RM A) (k : nat -> A -> RM B) st :
    stab m st ->
    (forall a st1, (exists f, m f st = (Val a, st1)) -> stab (fun f => k f a) st1) ->
    stab (fun f => rbind (m f) (k f)) st.
  Proof.
    intros [f1 [r1 [N1 H1]]] Hk. destruct r1 as [[a|w] st1].
    - destruct (Hk a st1) as [f2 [r2 [N2 H2]]]. { exists f1. apply H1. lia. }
      exists (Nat.max f1 f2), r2. split; [exact N2|]. intros f Hf. unfold RecursiveModel.rbind.
      rewrite H1 by lia. apply H2. lia.
    - exists f1, (Abort w, st1). split; [unfold nofuel in *; cbn [fst] in *; congruence|]. intros f Hf. unfold RecursiveModel.rbind. rewrite H1 by lia. reflexivity.
  Qed.

  Lemma stab_ext {A} (m m' : nat -> RM A) st : (forall f, m f st = m' f st) -> stab m st -> stab m' st.
  Proof. intros E [f0 [r [N H]]]. exists f0, r. split; [exact N|]. intros f Hf. rewrite <- E. apply H, Hf. Qed.

  Ltac stab_ret := apply stab_const; unfold nofuel, ret; cbn [fst]; discriminate.

  Section Stab.
    Hypothesis Ho : oracle_bytes_ok o.
    Variable stack : list question.
    Hypothesis Hlen : (length stack <= 32)%nat.
    (* nested resolutions on this stack stabilise *)
    Hypothesis Hrec : forall q st, stab (fun f => rrn f stack q) st.

    Lemma rlocal_nofuel q st : nofuel (rlocal stack q st).
    Proof.
      destruct (rlocal_cases stack q st Hlen) as [[ol [E _]]|[E _]]; unfold nofuel; rewrite E; discriminate.
    Qed.

    Lemma rcr_stab rrs q st : stab (fun f => rcr (rrn f) stack rrs q) st.
    Proof.
      unfold resolve_combined_recursive. apply stab_bind; [apply Hrec|].
      intros r st1 _. destruct r; stab_ret.
    Qed.

    Lemma rwnr_stab combined nr q st : stab (fun f => rwnr (rrn f) stack combined nr q) st.
    Proof.
      unfold resolve_with_nameserver_response. destruct nr as [rrs soa|rrs cname|rrs d].
      - stab_ret.
      - apply stab_bind; [stab_ret|]. intros _ st1 _.
        apply stab_bind; [apply rcr_stab|]. intros r st2 _. stab_ret.
      - apply stab_const. unfold nofuel, RecursiveModel.rbind, insert_all. destruct (glue_answer _ _ _); discriminate.
    Qed.

    Lemma htry_stab locally h t st : stab (fun f => htry (rrn f) stack locally h t) st.
    Proof.
      unfold hostname_try. destruct locally.
      - apply stab_bind; [apply stab_const, rlocal_nofuel|].
        intros l st1 _. destruct l as [[r| | |]|]; try stab_ret.
        apply stab_const. destruct (get_ip_lift (resolved_rrs r) h t st1) as [oa [E _]]. unfold nofuel. rewrite E. discriminate.
      - apply stab_bind; [apply Hrec|].
        intros r st1 _. destruct r as [r|e]; [|stab_ret].
        apply stab_const. destruct (get_ip_lift (resolved_rrs r) h t st1) as [oa [E _]]. unfold nofuel. rewrite E. discriminate.
    Qed.

    Lemma hloop_stab locally h : forall ts st, stab (fun f => hloop (rrn f) stack locally h ts) st.
    Proof.
      induction ts as [|t ts IH]; intro st; cbn [hostname_loop]; [stab_ret|].
      apply stab_bind; [apply htry_stab|]. intros a st1 _. destruct a; [stab_ret|apply IH].
    Qed.

    Lemma qav_nofuel a q mc st : nofuel (qav a q mc st).
    Proof. unfold nofuel. intro E. apply (qav_fine Ho) in E. discriminate. Qed.

    Definition cmeas (cands next : list dname) (locally : bool) : nat :=
      if locally then 2 * length cands + length next + 1 else length cands.

    Lemma rwnr_inr rec combined nr q st d st' :
      rwnr rec stack combined nr q st = (Val (inr d), st') -> exists rrs, nr = NRDelegation rrs d.
    Proof.
      unfold resolve_with_nameserver_response, RecursiveModel.rbind, insert_all, ret.
      destruct nr as [rrs soa|rrs cname|rrs d0].
      - discriminate.
      - destruct (resolve_combined_recursive _ _ _ _ _ _) as [[r|w] st2]; discriminate.
      - destruct (glue_answer _ _ _); [discriminate|]. intro E. inversion E; subst. exists rrs. reflexivity.
    Qed.

    Lemma cloop_stab q combined :
      forall k mc, N.to_nat (llen (labels (q_name q)) + 1 - mc) = k ->
      forall j cands next locally, cmeas cands next locally = j ->
      forall st, stab (fun f => cloop f stack q combined mc cands next locally) st.
    Proof.
      induction k as [k IHk] using lt_wf_ind. intros mc Hk.
      induction j as [j IHj] using lt_wf_ind. intros cands next locally Hj st.
      assert (Hshift : stab (fun f => cstep (rrn f) (cloop f stack q combined) stack q combined mc cands next locally) st
                       -> stab (fun f => cloop f stack q combined mc cands next locally) st).
      { intros [f0 [r [Nr H]]]. exists (S f0), r. split; [exact Nr|]. intros f Hf.
        destruct f as [|f]; [lia|]. rewrite cloop_S. apply H. lia. }
      apply Hshift. clear Hshift. unfold candidate_step.
      destruct (pop_last cands) as [[candidate rest]|] eqn:Ep; [|stab_ret].
      pose proof (pop_last_length _ _ _ Ep) as Hl.
      apply stab_bind; [apply hloop_stab|].
      intros oip st1 _. destruct oip as [a|].
      - apply stab_bind; [apply stab_const, qav_nofuel|].
        intros onr st2 [_ Hq]. destruct onr as [nr|]; [|stab_ret].
        apply stab_bind; [apply rwnr_stab|].
        intros r st3 [f3 Hr]. destruct r as [result|d]; [stab_ret|].
        apply rwnr_inr in Hr. destruct Hr as [rrs Enr]. subst nr.
        apply qav_some in Hq. destruct Hq as [response [Hv _]].
        destruct (delegation_progress _ _ _ _ _ Hv) as [Hlt [_ [pre Hanc]]].
        assert (Hle : ns_match_count d <= llen (labels (q_name q))).
        { unfold ns_match_count, llen. rewrite Hanc, app_length. lia. }
        apply (IHk (N.to_nat (llen (labels (q_name q)) + 1 - ns_match_count d)) ltac:(lia) _ eq_refl _ _ _ _ eq_refl).
      - destruct locally.
        + destruct (is_nil rest) eqn:En.
          * apply (IHj (cmeas (next ++ [candidate]) [] false)); [|reflexivity].
            destruct rest; [|discriminate]. subst j. unfold cmeas. rewrite app_length, Hl. cbn [length]. lia.
          * apply (IHj (cmeas rest (next ++ [candidate]) true)); [|reflexivity].
            subst j. unfold cmeas. rewrite app_length, Hl. cbn [length]. lia.
        + apply (IHj (cmeas rest next false)); [|reflexivity]. subst j. unfold cmeas. lia.
    Qed.
  End Stab.

  Lemma cnsl_nofuel stack (Hlen : (length stack <= 32)%nat) : forall sufs st, nofuel (cnsl stack sufs st).
  Proof.
    induction sufs as [|ls rest IH]; intro st; cbn [candidate_ns_loop]; [unfold nofuel, ret; discriminate|].
    destruct (from_labels ls) as [name|]; [|apply IH].
    unfold RecursiveModel.rbind.
    destruct (rlocal_cases stack (mkq name RT_NS RC_IN) st Hlen) as [[ol [E _]]|[E _]]; rewrite E; [|unfold nofuel; discriminate].
    destruct (is_nil _); [apply IH|unfold nofuel, ret; discriminate].
  Qed.

  (* C08: for every oracle, every cache, every zone set and every candidate order the
     untimed resolver stabilises: from some fuel on the result no longer changes and is
     not "out of fuel" *)
  Theorem rrn_stab (Ho : oracle_bytes_ok o) :
    forall n stack, (length stack <= 32)%nat -> (32 - length stack <= n)%nat ->
    forall q st, stab (fun f => rrn f stack q) st.
  Proof.
    induction n as [|n IH]; intros stack Hlen Hn q st.
    - assert (E : length stack = 32%nat) by lia.
      exists 1%nat, (Val (RErr ERecursionLimit), st). split; [unfold nofuel; discriminate|].
      intros f Hf. destruct f as [|f]; [lia|]. rewrite rrn_S. unfold recursive_body.
      rewrite (at_limit_true stack E). reflexivity.
    - assert (Hshift : stab (fun f => rbody (rrn f) (cloop f) stack q) st -> stab (fun f => rrn f stack q) st).
      { intros [f0 [r [Nr H]]]. exists (S f0), r. split; [exact Nr|]. intros f Hf.
        destruct f as [|f]; [lia|]. rewrite rrn_S. apply H. lia. }
      apply Hshift. clear Hshift. unfold recursive_body.
      destruct (at_recursion_limit stack) eqn:El; [stab_ret|].
      destruct (is_duplicate_question stack q); [stab_ret|].
      pose proof (stack_le_32 stack q Hlen El) as Hlen'.
      assert (Hrec : forall q' st', stab (fun f => rrn f (stack ++ [q]) q') st').
      { apply IH; [exact Hlen'|]. apply at_limit_false in El. rewrite app_length. cbn [length]. lia. }
      apply stab_bind; [apply stab_const, rlocal_nofuel, Hlen|].
      intros l st1 _. cbv zeta.
      assert (Hcont : forall (given : RM (option nameservers)) combined st2,
                 nofuel (given st2) ->
                 stab (fun f => rbind given (fun c => match c with
                                  | Some d => cloop f (stack ++ [q]) q combined (ns_match_count d) (sort_names (ns_hostnames d)) [] true
                                  | None => rret (RErr (EDeadEnd q))
                                  end)) st2).
      { intros given combined st2 Hg. apply stab_bind; [apply stab_const, Hg|].
        intros c st3 _. destruct c as [d|]; [|stab_ret].
        eapply cloop_stab; try eassumption; reflexivity. }
      destruct l as [[r|rrs|rrs soa d|rrs cq]|].
      + stab_ret.
      + apply Hcont. apply cnsl_nofuel, Hlen'.
      + apply Hcont. unfold nofuel, ret. discriminate.
      + apply rcr_stab. exact Hrec.
      + apply Hcont. apply cnsl_nofuel, Hlen'.
  Qed.

  (* the statement for resolve_recursive: an explicit threshold exists beyond which the fuel is irrelevant *)
  Theorem recursive_terminates (Ho : oracle_bytes_ok o) q st :
    exists F, fst (resolve_recursive cache cache_get cache_insert_all sort_names zs o pmode port F q st) <> OutOfFuel
              /\ forall fuel, (F <= fuel)%nat ->
                   resolve_recursive cache cache_get cache_insert_all sort_names zs o pmode port fuel q st
                   = resolve_recursive cache cache_get cache_insert_all sort_names zs o pmode port F q st.
  Proof.
    destruct (rrn_stab Ho 32 [] ltac:(cbn; lia) ltac:(cbn; lia) q st) as [f0 [r [Nr H]]].
    exists f0. unfold resolve_recursive. split.
    - rewrite (H f0) by lia. destruct r as [[[x|e]|[| |]] st']; cbn [finish fst]; try discriminate.
      exfalso. apply Nr. reflexivity.
    - intros fuel Hf. rewrite (H fuel Hf), (H f0) by lia. reflexivity.
  Qed.

  (* ====================================================================== *)
  (* 2. a generic invariant theorem: one induction over the execution        *)
  (* ====================================================================== *)

  (* the records of a validated reply that are cached and used *)
  Definition nr_rrs (nr : nsresponse) : list rr :=
    match nr with NRAnswer rrs _ => rrs | NRCname rrs _ => rrs | NRDelegation rrs _ => rrs end.
  Definition nr_soa (nr : nsresponse) : option rr :=
    match nr with NRAnswer _ s => s | _ => None end.

  Lemma result_rrs_split nr : result_rrs nr = nr_rrs nr ++ opt_list (nr_soa nr).
  Proof. destruct nr as [rrs [s|]|rrs c|rrs d]; cbn [result_rrs nr_rrs nr_soa opt_list]; rewrite ?app_nil_r; reflexivity. Qed.

  Definition rlocal_res (stack : list question) (q : question) (st : rstate) : res rerror lresult :=
    resolve_local zs (cache_get (fst st)) LOCAL_FUEL stack q.

  Section Generic.
    Variable Inv : rstate -> Prop.                (* state invariant *)
    Variable R : rstate -> rstate -> Prop.        (* how the state evolves *)
    Variable G : rstate -> rr -> Prop.            (* records that may be used in this state *)
    Variable Ab : abort -> Prop.                  (* the ways a computation may be abandoned *)
    Variable AddrOK : rstate -> ip -> Prop.       (* addresses that may be contacted *)
    Variable QOK : question -> Prop.              (* questions that may be sent upstream *)

    Hypothesis R_refl : forall st, R st st.
    Hypothesis R_trans : forall a b c, R a b -> R b c -> R a c.
    Hypothesis G_mono : forall st st' r, R st st' -> G st r -> G st' r.
    Hypothesis Ab_fuel : Ab AFuel.
    Hypothesis H_local : forall stack q st l, Inv st -> rlocal_res stack q st = Ok l ->
      Forall (G st) (lresult_rrs l) /\ Forall (G st) (opt_list (lresult_soa l)).
    Hypothesis H_local_panic : forall stack q st, Inv st -> rlocal_res stack q st = Panic -> Ab APanic.
    Hypothesis H_q : forall stack q st, Inv st ->
      at_recursion_limit stack = false -> is_duplicate_question stack q = false ->
      ((exists rrs, rlocal_res stack q st = Ok (LPartial rrs))
       \/ (exists rrs s d, rlocal_res stack q st = Ok (LDelegation rrs s d))
       \/ (exists e, rlocal_res stack q st = Err e)) -> QOK q.
    Hypothesis H_insert : forall st q resp mc nr,
      Inv st -> validate_nameserver_response q resp mc = Ok (Some nr) -> Forall (G st) (result_rrs nr) ->
      Inv (cache_insert_all (fst st) (nr_rrs nr), snd st) /\ R st (cache_insert_all (fst st) (nr_rrs nr), snd st).
    Hypothesis H_ip : forall st rrs h t a,
      Inv st -> Forall (G st) rrs -> In t (rtypes_of_mode pmode) -> get_ip rrs h t = Ok (Some a) -> AddrOK st a.
    Hypothesis H_query : forall st a q mc r st',
      Inv st -> AddrOK st a -> QOK q -> qav (a, port) q mc st = (r, st') ->
      Inv st' /\ R st st' /\ (forall nr, r = Val (Some nr) -> Forall (G st') (result_rrs nr)) /\ (forall w, r = Abort w -> Ab w).

    Definition post {A} (V : A -> rstate -> Prop) (st : rstate) (x : out A * rstate) : Prop :=
      Inv (snd x) /\ R st (snd x) /\ match fst x with Val a => V a (snd x) | Abort w => Ab w end.

    Definition good_resolved (res : resolved) (st : rstate) : Prop :=
      Forall (G st) (resolved_rrs res) /\ Forall (G st) (opt_list (resolved_soa_rr res)).
    Definition good_rres (r : rres) (st : rstate) : Prop :=
      match r with ROk res => good_resolved res st | RErr _ => True end.

    Lemma post_ret {A} (V : A -> rstate -> Prop) a st : Inv st -> V a st -> post V st (rret a st).
    Proof. intros HI HV. unfold post, ret. cbn [fst snd]. auto. Qed.

    Lemma post_bind {A B} (V1 : A -> rstate -> Prop) (V2 : B -> rstate -> Prop) (m : RM A) (k : A -> RM B) st :
      post V1 st (m st) ->
      (forall a st1, Inv st1 -> R st st1 -> V1 a st1 -> post V2 st1 (k a st1)) ->
      post V2 st (rbind m k st).
    Proof.
      intros (I1 & R1 & H1) Hk. unfold RecursiveModel.rbind. destruct (m st) as [[a|w] st1]; cbn [fst snd] in *.
      - destruct (Hk a st1 I1 R1 H1) as (I2 & R2 & H2). split; [exact I2|]. split; [eapply R_trans; eassumption|exact H2].
      - split; [exact I1|]. split; [exact R1|exact H1].
    Qed.

    Lemma post_weaken {A} (V V' : A -> rstate -> Prop) st x :
      (forall a st', Inv st' -> R st st' -> V a st' -> V' a st') -> post V st x -> post V' st x.
    Proof.
      intros HV (I1 & R1 & H1). split; [exact I1|]. split; [exact R1|].
      destruct (fst x); [apply HV; assumption|exact H1].
    Qed.

    Lemma Forall_G_mono st st' l : R st st' -> Forall (G st) l -> Forall (G st') l.
    Proof. intros HR H. eapply Forall_impl; [|exact H]. intros r. apply G_mono, HR. Qed.

    (* local *)
    Lemma post_local stack q st : Inv st ->
      post (fun ol st' => st' = st /\ match ol with
                                      | Some l => rlocal_res stack q st = Ok l
                                      | None => exists e, rlocal_res stack q st = Err e
                                      end) st (rlocal stack q st).
    Proof.
      intro HI. unfold local, post. pose proof (H_local_panic stack q st HI) as HP. unfold rlocal_res in *.
      destruct (resolve_local zs (cache_get (fst st)) LOCAL_FUEL stack q) as [l|e| |]; cbn [fst snd];
        (split; [exact HI|]); (split; [apply R_refl|]); auto. split; [reflexivity|]. exists e. reflexivity.
    Qed.

    Definition rec_ok (rec : list question -> question -> RM rres) : Prop :=
      forall stack q st, Inv st -> post good_rres st (rec stack q st).
    Definition loop_ok (combined : list rr) (loop : N -> list dname -> list dname -> bool -> RM rres) : Prop :=
      forall mc cands next locally st, Inv st -> Forall (G st) combined -> post good_rres st (loop mc cands next locally st).

    Section Combinators.
      Variable rec : list question -> question -> RM rres.
      Hypothesis Hrec : rec_ok rec.

      Lemma post_rcr stack rrs q st : Inv st -> Forall (G st) rrs -> post good_rres st (rcr rec stack rrs q st).
      Proof.
        intros HI Hr. unfold resolve_combined_recursive. eapply post_bind; [apply Hrec, HI|].
        intros r st1 I1 R1 V1. destruct r as [res|e]; (apply post_ret; [exact I1|]); [|exact I].
        destruct V1 as [V1 V2]. split; cbn [resolved_rrs resolved_soa_rr]; [|exact V2].
        apply Forall_app. split; [eapply Forall_G_mono; eassumption|exact V1].
      Qed.

      Lemma post_insert st q resp mc nr : Inv st -> validate_nameserver_response q resp mc = Ok (Some nr) ->
        Forall (G st) (result_rrs nr) -> post (fun _ _ => True) st (insert_all cache cache_insert_all (nr_rrs nr) st).
      Proof.
        intros HI Hv Hg. destruct (H_insert st q resp mc nr HI Hv Hg) as [I1 R1].
        unfold insert_all, post. cbn [fst snd]. auto.
      Qed.

      Lemma post_rwnr stack combined nr q st q0 resp mc :
        Inv st -> Forall (G st) combined -> validate_nameserver_response q0 resp mc = Ok (Some nr) ->
        Forall (G st) (result_rrs nr) ->
        post (fun r st' => match r with inl res => good_rres res st' | inr d => True end) st
             (rwnr rec stack combined nr q st).
      Proof.
        intros HI Hc Hv Hg.
        pose proof (post_insert st q0 resp mc nr HI Hv Hg) as Hins.
        assert (Hrrs : Forall (G st) (nr_rrs nr) /\ Forall (G st) (opt_list (nr_soa nr))).
        { rewrite result_rrs_split in Hg. apply Forall_app in Hg. exact Hg. }
        destruct Hrrs as [Hrrs Hsoa].
        unfold resolve_with_nameserver_response. destruct nr as [rrs soa|rrs cname|rrs d]; cbn [nr_rrs nr_soa] in *.
        - eapply post_bind; [exact Hins|]. intros _ st1 I1 R1 _. apply post_ret; [exact I1|].
          split; cbn [resolved_rrs resolved_soa_rr]; [|eapply Forall_G_mono; eassumption].
          apply Forall_merge; eapply Forall_G_mono; eassumption.
        - eapply post_bind; [exact Hins|]. intros _ st1 I1 R1 _.
          eapply post_bind; [apply post_rcr; [exact I1|]|].
          + apply Forall_merge; eapply Forall_G_mono; eassumption.
          + intros r st2 I2 R2 V2. apply post_ret; [exact I2|exact V2].
        - eapply post_bind; [exact Hins|]. intros _ st1 I1 R1 _.
          destruct (glue_answer combined rrs q) as [r|] eqn:Eg; apply post_ret; auto.
          unfold glue_answer in Eg.
          assert (Hgl : forall t, Forall (G st1) (prioritising_merge combined (get_records rrs (q_name q) t))).
          { intro t. apply Forall_merge; [eapply Forall_G_mono; eassumption|].
            unfold get_records. apply Forall_forall. intros x Hx. apply filter_In in Hx.
            eapply Forall_forall in Hrrs; [|exact (proj1 Hx)]. eapply G_mono; eassumption. }
          destruct (q_type q =? RT_A).
          + destruct (negb _); inversion Eg; subst. split; [apply Hgl|constructor].
          + destruct (q_type q =? RT_AAAA); [|discriminate].
            destruct (negb _); inversion Eg; subst. split; [apply Hgl|constructor].
      Qed.

      Definition addr_post (oa : option ip) (st' : rstate) : Prop :=
        match oa with Some a => AddrOK st' a | None => True end.

      Lemma post_get_ip st rrs h t : Inv st -> Forall (G st) rrs -> In t (rtypes_of_mode pmode) ->
        post addr_post st (lift_res cache (get_ip rrs h t) st).
      Proof.
        intros HI Hg Ht. destruct (get_ip_lift rrs h t st) as [oa [E1 E2]]. rewrite E1.
        apply post_ret; [exact HI|]. destruct oa as [a|]; [|exact I]. eapply H_ip; eassumption.
      Qed.

      Lemma post_htry stack locally h t st : Inv st -> In t (rtypes_of_mode pmode) ->
        post addr_post st (htry rec stack locally h t st).
      Proof.
        intros HI Ht. unfold hostname_try. destruct locally.
        - eapply post_bind; [apply post_local, HI|].
          intros ol st1 I1 R1 [-> Hl]. destruct ol as [[r|rrs|rrs s d|rrs cq]|]; try (apply post_ret; [exact I1|exact I]).
          apply post_get_ip; [exact I1| |exact Ht]. apply (H_local _ _ _ _ I1 Hl).
        - eapply post_bind; [apply Hrec, HI|].
          intros r st1 I1 R1 V1. destruct r as [res|e]; [|apply post_ret; [exact I1|exact I]].
          apply post_get_ip; [exact I1|exact (proj1 V1)|exact Ht].
      Qed.

      Lemma post_hloop stack locally h : forall ts st, Inv st -> incl ts (rtypes_of_mode pmode) ->
        post addr_post st (hloop rec stack locally h ts st).
      Proof.
        induction ts as [|t ts IH]; intros st HI Hin; cbn [hostname_loop].
        - apply post_ret; [exact HI|exact I].
        - eapply post_bind; [apply post_htry; [exact HI|apply Hin; left; reflexivity]|].
          intros oa st1 I1 R1 V1. destruct oa as [a|]; [apply post_ret; assumption|].
          apply IH; [exact I1|]. intros x Hx. apply Hin. right. exact Hx.
      Qed.

      Lemma post_cnsl stack : forall sufs st, Inv st -> post (fun _ _ => True) st (cnsl stack sufs st).
      Proof.
        induction sufs as [|ls rest IH]; intros st HI; cbn [candidate_ns_loop]; [apply post_ret; auto|].
        destruct (from_labels ls) as [name|]; [|apply IH, HI].
        eapply post_bind; [apply post_local, HI|].
        intros ol st1 I1 R1 [-> _]. destruct (is_nil _); [apply IH, I1|apply post_ret; auto].
      Qed.

      Lemma post_cstep loop stack q combined mc cands next locally st :
        loop_ok combined loop -> QOK q -> Inv st -> Forall (G st) combined ->
        post good_rres st (cstep rec loop stack q combined mc cands next locally st).
      Proof.
        intros Hloop Hq HI Hc. unfold candidate_step.
        destruct (pop_last cands) as [[candidate rest]|]; [|apply post_ret; [exact HI|exact I]].
        eapply post_bind; [apply post_hloop; [exact HI|apply incl_refl]|].
        intros oip st1 I1 R1 V1.
        assert (Hc1 : Forall (G st1) combined) by (eapply Forall_G_mono; eassumption).
        destruct oip as [a|].
        - unfold post. destruct (qav (a, port) q mc st1) as [r st2] eqn:Eq.
          destruct (H_query st1 a q mc r st2 I1 V1 Hq Eq) as (I2 & R2 & Hnr & Hab).
          assert (Hc2 : Forall (G st2) combined) by (eapply Forall_G_mono; eassumption).
          change (post good_rres st1 (rbind (qav (a, port) q mc) (fun onr =>
                    match onr with
                    | Some nr => rbind (rwnr rec stack combined nr q) (fun r0 =>
                                   match r0 with
                                   | inl result => rret result
                                   | inr delegation => loop (ns_match_count delegation) (sort_names (ns_hostnames delegation)) [] true
                                   end)
                    | None => rret (RErr (EDeadEnd q))
                    end) st1)).
          unfold RecursiveModel.rbind at 1. rewrite Eq.
          destruct r as [onr|w].
          + destruct onr as [nr|].
            * destruct (qav_some _ _ _ _ _ _ Eq) as [resp [Hv _]].
              assert (P2 : post good_rres st2 (rbind (rwnr rec stack combined nr q) (fun r0 =>
                                   match r0 with
                                   | inl result => rret result
                                   | inr delegation => loop (ns_match_count delegation) (sort_names (ns_hostnames delegation)) [] true
                                   end) st2)).
              { eapply post_bind; [eapply post_rwnr; [exact I2|exact Hc2|exact Hv|apply Hnr; reflexivity]|].
                intros r0 st3 I3 R3 V3. destruct r0 as [result|d]; [apply post_ret; assumption|].
                apply Hloop; [exact I3|eapply Forall_G_mono; eassumption]. }
              destruct P2 as (I3 & R3 & V3). split; [exact I3|]. split; [eapply R_trans; eassumption|exact V3].
            * unfold ret. cbn [fst snd]. split; [exact I2|]. split; [exact R2|exact I].
          + cbn [fst snd]. split; [exact I2|]. split; [exact R2|]. apply Hab. reflexivity.
        - destruct locally.
          + destruct (is_nil rest); apply Hloop; assumption.
          + apply Hloop; assumption.
      Qed.

      Lemma post_rbody (loop : list question -> question -> list rr -> N -> list dname -> list dname -> bool -> RM rres) stack q st :
        (forall stack' q' combined, QOK q' -> loop_ok combined (loop stack' q' combined)) ->
        Inv st -> post good_rres st (rbody rec loop stack q st).
      Proof.
        intros Hloop HI. unfold recursive_body.
        destruct (at_recursion_limit stack) eqn:El; [apply post_ret; [exact HI|exact I]|].
        destruct (is_duplicate_question stack q) eqn:Ed; [apply post_ret; [exact HI|exact I]|].
        eapply post_bind; [apply post_local, HI|].
        intros ol st1 I1 R1 [-> Hl]. cbv zeta.
        assert (Hcont : forall (given : RM (option nameservers)) combined,
                   QOK q -> Forall (G st) combined -> post (fun _ _ => True) st (given st) ->
                   post good_rres st (rbind given (fun c => match c with
                                    | Some d => loop (stack ++ [q]) q combined (ns_match_count d) (sort_names (ns_hostnames d)) [] true
                                    | None => rret (RErr (EDeadEnd q))
                                    end) st)).
        { intros given combined Hq Hc Hg. eapply post_bind; [exact Hg|].
          intros c st2 I2 R2 _. destruct c as [d|]; [|apply post_ret; [exact I2|exact I]].
          apply Hloop; [exact Hq|exact I2|eapply Forall_G_mono; eassumption]. }
        destruct ol as [[r|rrs|rrs s d|rrs cq]|].
        - apply post_ret; [exact I1|]. apply (H_local _ _ _ _ I1 Hl).
        - apply Hcont.
          + eapply H_q; try eassumption. left. eexists; exact Hl.
          + apply (H_local _ _ _ _ I1 Hl).
          + apply post_cnsl, I1.
        - apply Hcont.
          + eapply H_q; try eassumption. right; left. do 3 eexists; exact Hl.
          + constructor.
          + apply post_ret; auto.
        - apply post_rcr; [exact I1|]. apply (H_local _ _ _ _ I1 Hl).
        - apply Hcont.
          + eapply H_q; try eassumption. right; right. exact Hl.
          + constructor.
          + apply post_cnsl, I1.
      Qed.
    End Combinators.

    Theorem generic_invariant : forall f,
      rec_ok (rrn f) /\ (forall stack q combined, QOK q -> loop_ok combined (cloop f stack q combined)).
    Proof.
      induction f as [|f [IHr IHl]].
      - split.
        + intros stack q st HI. cbn. unfold post, stop. cbn [fst snd]. auto.
        + intros stack q combined _ mc cands next locally st HI _. cbn. unfold post, stop. cbn [fst snd]. auto.
      - split.
        + intros stack q st HI. rewrite rrn_S. apply post_rbody; assumption.
        + intros stack q combined Hq mc cands next locally st HI Hc. rewrite cloop_S.
          apply post_cstep; try assumption. apply IHl, Hq.
    Qed.
  End Generic.

  (* ====================================================================== *)
  (* 3. instances                                                            *)
  (* ====================================================================== *)

  Lemma qav_cache a q mc st : fst (snd (qav a q mc st)) = fst st.
  Proof.
    unfold query_and_validate, RecursiveModel.rbind, lift_t.
    destruct (query_nameserver o a q false (snd st)) as [[om|w] ts]; [|reflexivity]. cbn [fst snd].
    destruct om as [resp|]; [|reflexivity]. destruct (validate_nameserver_response q resp mc) as [x|e| |]; reflexivity.
  Qed.

  Lemma qav_log a q mc st : exists new, ts_rlog (snd (snd (qav a q mc st))) = new ++ ts_rlog (snd st)
                                        /\ Forall (fun x => x_addr x = a /\ x_question x = q /\ x_rd x = false) new.
  Proof.
    unfold query_and_validate, RecursiveModel.rbind, lift_t.
    destruct (query_nameserver o a q false (snd st)) as [[om|w] ts] eqn:E;
      pose proof (query_nameserver_dest _ _ _ _ _ _ _ E) as [new [E1 F1]]; cbn [fst snd].
    - destruct om as [resp|]; [|exists new; auto].
      destruct (validate_nameserver_response q resp mc) as [x|e| |]; exists new; auto.
    - exists new; auto.
  Qed.

  (* ---------- C08 no_panic ---------- *)
  Theorem rrn_no_panic (Ho : oracle_bytes_ok o) (Hz : ~ zone_panics zs) f stack q st :
    fst (rrn f stack q st) <> Abort APanic.
  Proof.
    destruct (generic_invariant (fun _ => True) (fun _ _ => True) (fun _ _ => True) (fun w => w <> APanic)
                (fun _ _ => True) (fun _ => True)) with (f := f) as [Hr _]; auto.
    - discriminate.
    - intros. split; apply Forall_forall; auto.
    - intros stack0 q0 st0 _ H. exfalso. apply Hz. eapply resolve_local_panic, H.
    - intros st0 a q0 mc r st' _ _ _ E. repeat split; auto.
      + intros. apply Forall_forall; auto.
      + intros w ->. intro. subst w. pose proof (qav_fine Ho (a, port) q0 mc st0 APanic) as Hq. rewrite E in Hq. discriminate (Hq eq_refl).
    - specialize (Hr stack q st I). destruct Hr as (_ & _ & Hr). destruct (fst (rrn f stack q st)) as [x|w]; [discriminate|].
      intro E. inversion E; subst. apply Hr. reflexivity.
  Qed.

  Theorem recursive_no_panic (Ho : oracle_bytes_ok o) (Hz : ~ zone_panics zs) f q st :
    fst (resolve_recursive cache cache_get cache_insert_all sort_names zs o pmode port f q st) <> Panic.
  Proof.
    unfold resolve_recursive. pose proof (rrn_no_panic Ho Hz f [] q st) as H.
    destruct (rrn f [] q st) as [[[x|e]|[| |]] st']; cbn [finish fst] in *; try discriminate. congruence.
  Qed.

  (* ---------- C06 only_validated_is_cached ----------
     the cache is changed by nothing but insert_all of the records of a result of
     validate_nameserver_response: every property of caches that such inserts preserve is preserved
     by a whole resolution *)
  Theorem rrn_only_validated_cached (P : cache -> Prop) :
    (forall c q resp mc nr, P c -> validate_nameserver_response q resp mc = Ok (Some nr) -> P (cache_insert_all c (nr_rrs nr))) ->
    forall f stack q st, P (fst st) -> P (fst (snd (rrn f stack q st))).
  Proof.
    intros HP f stack q st H0.
    destruct (generic_invariant (fun st => P (fst st)) (fun _ _ => True) (fun _ _ => True) (fun _ => True)
                (fun _ _ => True) (fun _ => True)) with (f := f) as [Hr _]; auto.
    - intros. split; apply Forall_forall; auto.
    - intros st0 q0 resp mc nr H1 H2 _. split; [|exact I]. cbn [fst]. eapply HP; eassumption.
    - intros st0 a q0 mc r st' H1 _ _ E. repeat split; auto.
      + pose proof (qav_cache (a, port) q0 mc st0) as Hc. rewrite E in Hc. cbn [snd] in Hc. rewrite Hc. exact H1.
      + intros. apply Forall_forall; auto.
    - specialize (Hr stack q st H0). exact (proj1 Hr).
  Qed.

  (* ---------- the log: destinations and questions (C18, C01) ---------- *)
  Section LogInvariant.
    Variable cache_content : cache -> rr -> Prop.
    Hypothesis CL_get : forall c n t r, In r (cache_get c n t) -> exists r', cache_content c r' /\ rr_sim r r'.
    Hypothesis CL_insert : forall c rrs r, cache_content (cache_insert_all c rrs) r ->
                                           cache_content c r \/ exists r', In r' rrs /\ rr_sim r r'.
    Variable PA : ip -> Prop.             (* addresses *)
    Variable PQ : question -> Prop.       (* questions *)
    Variable GT : rr -> Prop.             (* records *)
    Hypothesis GT_sim : forall a b, rr_sim a b -> GT b -> GT a.
    Hypothesis GT_wf : forall r, wf_rr r -> GT r.
    Hypothesis GT_zone : forall name qt z zr r, zones_resolve zs name qt = Some (z, Ok zr) -> In r (zresult_rrs zr) -> GT r.
    Hypothesis GT_soa : forall name qt z zr s, zones_resolve zs name qt = Some (z, zr) -> zone_soa_rr z = Some s -> GT s.
    Hypothesis PA_ip : forall rrs h t a, Forall GT rrs -> In t (rtypes_of_mode pmode) -> get_ip rrs h t = Ok (Some a) -> PA a.
    Hypothesis PQ_q : forall stack q c,
      at_recursion_limit stack = false -> is_duplicate_question stack q = false ->
      ((exists rrs, resolve_local zs (cache_get c) LOCAL_FUEL stack q = Ok (LPartial rrs))
       \/ (exists rrs s d, resolve_local zs (cache_get c) LOCAL_FUEL stack q = Ok (LDelegation rrs s d))
       \/ (exists e, resolve_local zs (cache_get c) LOCAL_FUEL stack q = Err e)) -> PQ q.
    Hypothesis Ho : oracle_bytes_ok o.

    Definition log_ok (e : exchange) : Prop :=
      PA (fst (x_addr e)) /\ snd (x_addr e) = port /\ PQ (x_question e) /\ x_rd e = false.

    Definition log_inv (st : rstate) : Prop :=
      Forall log_ok (ts_rlog (snd st)) /\ (forall r, cache_content (fst st) r -> GT r).

    Lemma validated_wf a q mc st nr st' :
      qav a q mc st = (Val (Some nr), st') -> Forall wf_rr (result_rrs nr).
    Proof.
      intro E. destruct (qav_some _ _ _ _ _ _ E) as [resp [Hv [Hq _]]].
      destruct (query_nameserver_logged _ _ _ _ _ _ _ Hq) as [new [e [_ [_ [Hl _]]]]].
      pose proof (logged_reply_wf _ _ _ _ _ _ Ho Hl) as (_ & _ & Wan & Wau & Wad).
      pose proof (filter_sound _ _ _ _ Hv) as Hall.
      eapply Forall_impl; [|exact Hall]. intros r Hr.
      assert (Hin : In r (m_answers resp) \/ In r (m_authority resp) \/ In r (m_additional resp)).
      { destruct Hr as [Ha|[Hn|[Hg|Hs]]].
        - left. exact (proj1 Ha).
        - destruct Hn as [[[H|H] _] _]; auto.
        - destruct Hg as [[H|H] _]; auto.
        - destruct Hs as (_ & _ & _ & [l1 [l2 [E2 _]]] & _). right; left. rewrite E2. apply in_or_app. right; left; reflexivity. }
      destruct Hin as [H|[H|H]];
        [exact (proj1 (Forall_forall _ _) Wan r H)|exact (proj1 (Forall_forall _ _) Wau r H)|exact (proj1 (Forall_forall _ _) Wad r H)].
    Qed.

    Theorem rrn_log_invariant f stack q st :
      log_inv st ->
      log_inv (snd (rrn f stack q st))
      /\ (exists new, ts_rlog (snd (snd (rrn f stack q st))) = new ++ ts_rlog (snd st))
      /\ (forall res, fst (rrn f stack q st) = Val (ROk res) -> Forall GT (resolved_rrs res)).
    Proof.
      intro H0.
      destruct (generic_invariant log_inv (fun st st' => exists new, ts_rlog (snd st') = new ++ ts_rlog (snd st))
                  (fun _ r => GT r) (fun _ => True) (fun _ a => PA a) PQ) with (f := f) as [Hr _]; auto.
      - intros st0. exists []. reflexivity.
      - intros a b c [n1 E1] [n2 E2]. exists (n2 ++ n1). rewrite E2, E1, app_assoc. reflexivity.
      - intros stack0 q0 st0 l [_ Hc] Hl.
        refine (local_from zs (cache_get (fst st0)) GT GT_zone GT_soa _ _ _ _ _ Hl).
        intros n t r Hr. destruct (CL_get _ _ _ _ Hr) as [r' [H1 H2]]. eapply GT_sim; [exact H2|]. apply Hc, H1.
      - intros stack0 q0 st0 _ Hl Hd Hc. eapply PQ_q; eassumption.
      - intros st0 q0 resp mc nr [Hl Hc] Hv Hg. split; [|exists []; reflexivity].
        split; [exact Hl|]. cbn [fst]. intros r Hr. destruct (CL_insert _ _ _ Hr) as [H|[r' [H1 H2]]]; [apply Hc, H|].
        eapply GT_sim; [exact H2|]. rewrite result_rrs_split in Hg. apply Forall_app in Hg. eapply Forall_forall; [exact (proj1 Hg)|exact H1].
      - intros st0 rrs h t a _ Hg Ht Hip. eapply PA_ip; eassumption.
      - intros st0 a q0 mc r st' [Hl Hc] Ha Hq E.
        pose proof (qav_cache (a, port) q0 mc st0) as Ecache. pose proof (qav_log (a, port) q0 mc st0) as [new [Elog Fnew]].
        rewrite E in Ecache, Elog. cbn [snd] in Ecache, Elog.
        split; [|split; [exists new; exact Elog|split; [|auto]]].
        + split.
          * rewrite Elog. apply Forall_app. split; [|exact Hl].
            eapply Forall_impl; [|exact Fnew]. intros x (h1 & h2 & h3). unfold log_ok. rewrite h1, h2, h3. cbn [fst snd]. auto.
          * rewrite Ecache. exact Hc.
        + intros nr ->. eapply Forall_impl; [|exact (validated_wf _ _ _ _ _ _ E)]. exact GT_wf.
      - specialize (Hr stack q st H0). destruct Hr as (H1 & H2 & H3).
        split; [exact H1|]. split; [exact H2|]. intros res E. rewrite E in H3. exact (proj1 H3).
    Qed.
  End LogInvariant.
End RP.
