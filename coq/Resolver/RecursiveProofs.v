(* Resolver/RecursiveProofs.v -- lemmas about the recursive resolver model
   (Resolver/RecursiveModel.v over Resolver/TransportModel.v) for C08 (termination
   for every oracle, no panic, provenance), C18 (whole-log theorems), C06
   (only_validated_is_cached), C01 / C10 (network-mode clauses) and C07
   (referral progress). *)
From Coq Require Import Permutation Wf_nat Arith.
From RV Require Import Base.Prelude Base.Cursor Name.NameModel Name.NameSpec Name.NameProofs
     Wire.WireTypes Wire.WireModel Wire.WireModelFacts Wire.WireGrammar Wire.WireEncodeProofs Wire.WireDecodeProofs
     Zone.ZoneModel Resolver.LocalModel Resolver.LocalSpec Resolver.LocalProofs
     Resolver.ValidateModel Resolver.ValidateSpec Resolver.ValidateProofs
     Resolver.TransportModel Resolver.RecursiveModel Resolver.ResolverFacts.
From RV Require Export Resolver.CutFacts.
Set Default Timeout 120.

(* ====================================================================== *)
(* 0. the transport: totality for every oracle                             *)
(* ====================================================================== *)

(* octets are [N]; what a peer sends are octets *)
Definition oracle_bytes_ok (o : oracle) : Prop :=
  forall n p a req bs, t_bytes (o n p a req) = Some bs -> Forall (fun b => b < 256) bs.

Definition bad_abort (w : abort) : Prop := w = APanic \/ w = AFuel.

Lemma decode_opt_fine ob :
  (forall bs, ob = Some bs -> Forall (fun b => b < 256) bs) ->
  forall w, decode_opt ob = Abort w -> False.
Proof.
  intros H w. unfold decode_opt. destruct ob as [bs|]; [|discriminate].
  destruct (decode_total bs (H bs eq_refl)) as [HP HF].
  destruct (decode bs); try discriminate; congruence.
Qed.

Lemma Some_inj {A} (a b : A) : Some a = Some b -> a = b.
Proof. intro H; inversion H; reflexivity. Qed.

Lemma Forall_firstn {A} (P : A -> Prop) n : forall l, Forall P l -> Forall P (firstn n l).
Proof.
  induction n as [|n IH]; intros [|x l] H; cbn [firstn]; try constructor.
  - inversion H; assumption.
  - apply IH. inversion H; assumption.
Qed.

Lemma udp_outcome_bytes r bs :
  (forall b, t_bytes r = Some b -> Forall (fun x => x < 256) b) ->
  snd (udp_outcome r) = Some bs -> Forall (fun x => x < 256) bs.
Proof.
  intros H. unfold udp_outcome. destruct (t_refuse r); [discriminate|].
  destruct (t_bytes r) as [b|]; [|discriminate].
  destruct (UDP_TIMEOUT_MS <? t_delay_ms r); [discriminate|].
  cbn [snd]. intro E. apply Some_inj in E. subst bs. apply Forall_firstn. apply H. reflexivity.
Qed.

Lemma tcp_outcome_bytes r bs :
  (forall b, t_bytes r = Some b -> Forall (fun x => x < 256) b) ->
  snd (tcp_outcome r) = Some bs -> Forall (fun x => x < 256) bs.
Proof.
  intros H. unfold tcp_outcome. destruct (TCP_TIMEOUT_MS <? t_delay_ms r); [discriminate|].
  remember (match t_bytes r with Some b => b | None => [] end) as stream eqn:Es.
  assert (Hs : Forall (fun x => x < 256) stream).
  { subst stream. destruct (t_bytes r) as [b|]; [apply H; reflexivity|constructor]. }
  clear Es.
  unfold read_tcp_stream. destruct stream as [|hi [|lo rest]].
  1,2: destruct (t_close r); discriminate.
  destruct (u16_be hi lo <=? llen rest).
  - cbn [snd]. intro E. apply Some_inj in E. subst bs. apply Forall_firstn.
    apply Forall_inv_tail in Hs. apply Forall_inv_tail in Hs. exact Hs.
  - destruct (t_close r); discriminate.
Qed.

Lemma llen_map_byte2 f bs : llen (map_byte2 f bs) = llen bs.
Proof. unfold map_byte2. destruct bs as [|a [|b [|c t]]]; reflexivity. Qed.
Lemma llen_clear_tc bs : llen (clear_tc bs) = llen bs.
Proof. apply llen_map_byte2. Qed.

(* what udp_exchange returns: no panic and no fuel exhaustion for a complete request *)
Lemma udp_exchange_fine o a q rd req s :
  oracle_bytes_ok o -> 12 <= llen req ->
  (forall w, fst (udp_exchange o a q rd req s) = Abort w -> w = ATimeout)
  /\ (forall om req1, fst (udp_exchange o a q rd req s) = Val (om, req1) -> llen req1 = llen req).
Proof.
  intros Ho Hlen. unfold udp_exchange.
  destruct (512 <? llen req). { cbn [fst]. split; [discriminate|]. intros om r1 E. inversion E; reflexivity. }
  destruct (llen req <? 12) eqn:E12. { apply N.ltb_lt in E12. lia. }
  pose proof (udp_outcome_bytes (o (ts_nexch s) Udp a (clear_tc req))) as Hb.
  destruct (udp_outcome _) as [cost dgram]. cbn [snd] in Hb.
  set (s1 := next_exchange _).
  unfold charge. destruct (BUDGET_MS <? ts_elapsed s1 + cost).
  - cbn [fst]. split; [intros w E; inversion E; reflexivity|discriminate].
  - destruct (decode_opt dgram) as [om|w] eqn:Ed.
    + cbn [fst]. split; [discriminate|]. intros om' r1 E. inversion E; subst. apply llen_clear_tc.
    + exfalso. eapply decode_opt_fine; [|exact Ed]. intros bs Ebs. subst dgram.
      apply (Hb bs); [|reflexivity]. intros b Hbb. eapply Ho, Hbb.
Qed.

Lemma tcp_exchange_fine o a q rd req s :
  oracle_bytes_ok o -> 12 <= llen req ->
  forall w, fst (tcp_exchange o a q rd req s) = Abort w -> w = ATimeout.
Proof.
  intros Ho Hlen w. unfold tcp_exchange.
  destruct (t_refuse _); [discriminate|].
  destruct (llen req <? 12) eqn:E12. { apply N.ltb_lt in E12. lia. }
  set (r := o _ Tcp a _).
  pose proof (tcp_outcome_bytes r) as Hb.
  destruct (tcp_outcome r) as [cost bytes]. cbn [snd] in Hb.
  set (s2 := log_call _ _ _ _ _ _ _).
  unfold charge. destruct (BUDGET_MS <? ts_elapsed s2 + cost).
  - cbn [fst]. intro E; inversion E; reflexivity.
  - destruct (decode_opt bytes) as [om|w'] eqn:Ed; [discriminate|].
    exfalso. eapply decode_opt_fine; [|exact Ed]. intros bs Ebs. subst bytes.
    apply (Hb bs); [|reflexivity]. intros b Hbb. eapply Ho, Hbb.
Qed.

(* the encoder never fails on a single-question request, and writes at least the header *)
Lemma wb_octets_memoise n b : wb_octets (memoise_name n b) = wb_octets b.
Proof.
  unfold memoise_name. destruct (_ && _); [|reflexivity]. destruct (_ && _); reflexivity.
Qed.

Lemma ext_encode_name n c b : ext b (encode_name n c b).
Proof.
  unfold encode_name. destruct (if c then _ else _).
  - apply ext_write_octets.
  - destruct (write_labels_spec (labels n) (memoise_name n b)) as [E _].
    exists (wire_labels (labels n)). rewrite E, wb_octets_memoise. reflexivity.
Qed.

Lemma encode_request_ok q rd : exists req, encode (make_request q rd) = Ok req /\ 12 <= llen req.
Proof.
  unfold encode, make_request, from_question.
  cbn [m_questions m_answers m_authority m_additional m_header h_id h_qr h_opcode h_aa h_tc h_rd h_ra h_rcode].
  change (usize_to_u16 (llen [q])) with (@Ok serr N 1).
  change (usize_to_u16 (llen (@nil rr))) with (@Ok serr N 0).
  cbn [bind encode_rrs fold_left].
  eexists. split; [reflexivity|].
  unfold encode_question, write_u16.
  rewrite !octets_write_octets.
  destruct (ext_encode_name (q_name q) true
             (write_octets (u16_bytes 0) (write_octets (u16_bytes 0) (write_octets (u16_bytes 0) (write_octets (u16_bytes 1)
                (encode_header {| h_id := REQUEST_ID; h_qr := false; h_opcode := OPCODE_Standard; h_aa := false;
                                  h_tc := false; h_rd := rd; h_ra := false; h_rcode := RCODE_NoError |} wb_empty))))))
    as [os Eos].
  rewrite Eos. unfold encode_header, write_u8, write_u16. rewrite !octets_write_octets.
  rewrite !llen_app. unfold u16_bytes, llen at 2 3 4 5 6 7 8. cbn [length N.of_nat].
  change (wb_octets wb_empty) with (@nil byte). unfold llen at 1. cbn [length N.of_nat]. lia.
Qed.

Lemma query_nameserver_fine o a q rd s :
  oracle_bytes_ok o -> forall w, fst (query_nameserver o a q rd s) = Abort w -> w = ATimeout.
Proof.
  intros Ho w. unfold query_nameserver.
  destruct (encode_request_ok q rd) as [req [Ereq Hlen]]. rewrite Ereq.
  pose proof (udp_exchange_fine o a q rd req s Ho Hlen) as [Hu1 Hu2].
  destruct (udp_exchange o a q rd req s) as [[[om req1]|w1] s1].
  - cbn [fst] in Hu2. specialize (Hu2 om req1 eq_refl).
    destruct (gate _ om); [discriminate|].
    pose proof (tcp_exchange_fine o a q rd req1 s1 Ho) as Ht. rewrite Hu2 in Ht. specialize (Ht Hlen).
    destruct (tcp_exchange o a q rd req1 s1) as [[om2|w2] s2]; [discriminate|].
    cbn [fst] in *. intro E. inversion E; subst. apply Ht. reflexivity.
  - cbn [fst] in *. intro E. inversion E; subst. apply Hu1. reflexivity.
Qed.

(* ---------- what the log says about the reply that was used ---------- *)

(* the octets an exchange delivered (after the 5 s time-out, the 512-octet receive
   buffer, the TCP length prefix) and the message they decode to *)
Definition exchange_bytes (e : exchange) : option (list byte) :=
  match x_kind e with
  | KUdp => snd (udp_outcome (x_reply e))
  | KTcp => snd (tcp_outcome (x_reply e))
  | KTcpConnect => None
  end.
Definition exchange_message (e : exchange) : option message :=
  match exchange_bytes e with
  | Some bs => match decode bs with Ok m => Some m | _ => None end
  | None => None
  end.

Lemma decode_opt_some ob m : decode_opt ob = Val (Some m) -> exists bs, ob = Some bs /\ decode bs = Ok m.
Proof.
  unfold decode_opt. destruct ob as [bs|]; [|discriminate].
  destruct (decode bs) eqn:E; try discriminate. intro H. inversion H; subst. exists bs. auto.
Qed.

Definition reply_from (o : oracle) (e : exchange) : Prop := exists n p a req, x_reply e = o n p a req.
Definition logged_reply (o : oracle) (a : addr) (q : question) (rd : bool) (m : message) (e : exchange) : Prop :=
  x_addr e = a /\ x_question e = q /\ x_rd e = rd /\ exchange_message e = Some m /\ reply_from o e.

Lemma udp_exchange_logged o a q rd req s m req1 s' :
  udp_exchange o a q rd req s = (Val (Some m, req1), s') ->
  exists e, ts_rlog s' = e :: ts_rlog s /\ logged_reply o a q rd m e.
Proof.
  unfold udp_exchange.
  destruct (512 <? llen req); [discriminate|]. destruct (llen req <? 12); [discriminate|].
  set (r := o (ts_nexch s) Udp a (clear_tc req)).
  destruct (udp_outcome r) as [cost dgram] eqn:Eo.
  unfold charge. cbn [ts_elapsed next_exchange log_call ts_rlog ts_nexch].
  destruct (BUDGET_MS <? _); [discriminate|].
  destruct (decode_opt dgram) as [om|w] eqn:Ed; [|discriminate].
  intro H. inversion H; subst. cbn [ts_rlog].
  eexists. split; [reflexivity|]. unfold logged_reply, exchange_message, exchange_bytes. cbn [x_addr x_question x_rd x_kind x_reply].
  fold r. rewrite Eo. cbn [snd]. apply decode_opt_some in Ed. destruct Ed as [bs [-> Ed]]. rewrite Ed.
  repeat split; try reflexivity. unfold reply_from. cbn [x_reply]. do 4 eexists. reflexivity.
Qed.

Lemma tcp_exchange_logged o a q rd req s m s' :
  tcp_exchange o a q rd req s = (Val (Some m), s') ->
  exists e e0, ts_rlog s' = e :: e0 :: ts_rlog s /\ logged_reply o a q rd m e /\ x_addr e0 = a /\ x_question e0 = q /\ x_rd e0 = rd.
Proof.
  unfold tcp_exchange.
  destruct (t_refuse _); [discriminate|]. destruct (llen req <? 12); [discriminate|].
  set (r := o (ts_nexch s) Tcp a (fst (tcp_request req))).
  destruct (tcp_outcome r) as [cost bytes] eqn:Eo.
  unfold charge. cbn [ts_elapsed next_exchange log_call ts_rlog ts_nexch].
  destruct (BUDGET_MS <? _); [discriminate|].
  destruct (decode_opt bytes) as [om|w] eqn:Ed; [|discriminate].
  intro H. inversion H; subst. cbn [ts_rlog].
  do 2 eexists. split; [reflexivity|]. cbn [x_addr x_question x_rd]. split; [|auto].
  unfold logged_reply, exchange_message, exchange_bytes. cbn [x_addr x_question x_rd x_kind x_reply].
  fold r. rewrite Eo. cbn [snd]. apply decode_opt_some in Ed. destruct Ed as [bs [-> Ed]]. rewrite Ed.
  repeat split; try reflexivity. unfold reply_from. cbn [x_reply]. do 4 eexists. reflexivity.
Qed.

Lemma gate_some request om m : gate request om = Some m -> om = Some m /\ response_matches_request request m = true.
Proof.
  unfold gate. destruct om as [x|]; [|discriminate].
  destruct (response_matches_request request x) eqn:E; [|discriminate]. intro H; inversion H; subst. auto.
Qed.

(* a reply query_nameserver hands on is the decoding of what a logged exchange of this very
   call delivered, and passed the header gate against the request *)
Lemma query_nameserver_logged o a q rd s m s' :
  query_nameserver o a q rd s = (Val (Some m), s') ->
  exists new e, ts_rlog s' = new ++ ts_rlog s /\ In e new /\ logged_reply o a q rd m e
                /\ response_matches_request (make_request q rd) m = true
                /\ Forall (fun x => x_addr x = a /\ x_question x = q /\ x_rd x = rd) new.
Proof.
  intro H. pose proof (query_nameserver_dest _ _ _ _ _ _ _ H) as [new0 [Enew0 Fnew0]].
  unfold query_nameserver in H.
  destruct (encode _) as [req|e| |]; try discriminate.
  destruct (udp_exchange o a q rd req s) as [[[om req1]|w] s1] eqn:Eu; [|discriminate].
  destruct (gate _ om) as [resp|] eqn:Eg.
  - inversion H; subst. apply gate_some in Eg. destruct Eg as [-> Hm].
    destruct (udp_exchange_logged _ _ _ _ _ _ _ _ _ Eu) as [e [El Hl]].
    exists [e], e. split; [exact El|]. split; [left; reflexivity|]. split; [exact Hl|]. split; [exact Hm|].
    destruct Hl as (h1 & h2 & h3 & _). repeat constructor; assumption.
  - destruct (tcp_exchange o a q rd req1 s1) as [[om2|w] s2] eqn:Et; [|discriminate].
    inversion H; subst. apply gate_some in H1. destruct H1 as [-> Hm].
    destruct (tcp_exchange_logged _ _ _ _ _ _ _ _ Et) as [e [e0 [El [Hl _]]]].
    exists new0, e. split; [exact Enew0|]. split.
    + pose proof (udp_exchange_dest _ _ _ _ _ _ _ _ Eu) as [n1 [E1 _]].
      rewrite El, E1 in Enew0.
      assert (In e (new0 ++ ts_rlog s)) as Hin by (rewrite <- Enew0; left; reflexivity).
      (* e is among the new entries: the new list is e :: e0 :: n1 *)
      assert (new0 = e :: e0 :: n1).
      { apply (app_inv_tail (ts_rlog s)). rewrite <- Enew0. reflexivity. }
      subst new0. left. reflexivity.
    + split; [exact Hl|]. split; [exact Hm|exact Fnew0].
Qed.

Lemma logged_reply_wf o a q rd m e : oracle_bytes_ok o -> logged_reply o a q rd m e -> wf_message m.
Proof.
  intros Ho (_ & _ & _ & H & [n [p [a' [req Er]]]]). unfold exchange_message in H.
  destruct (exchange_bytes e) as [bs|] eqn:Eb; [|discriminate].
  destruct (decode bs) as [m'| | |] eqn:Ed; try discriminate. inversion H; subst m'.
  eapply decode_wf; [|exact Ed].
  unfold exchange_bytes in Eb. rewrite Er in Eb. destruct (x_kind e); [| discriminate |].
  - eapply udp_outcome_bytes; [|exact Eb]. intros b Hb. eapply Ho, Hb.
  - eapply tcp_outcome_bytes; [|exact Eb]. intros b Hb. eapply Ho, Hb.
Qed.

(* ====================================================================== *)
(* 1. the recursive model                                                  *)
(* ====================================================================== *)

Lemma pop_last_length {A} : forall (l : list A) x t, pop_last l = Some (x, t) -> length l = S (length t).
Proof.
  induction l as [|y l IH]; intros x t H; cbn [pop_last] in H; [discriminate|].
  destruct (pop_last l) as [[z t']|] eqn:E.
  - inversion H; subst. cbn [length]. f_equal. eapply IH. reflexivity.
  - inversion H; subst. destruct l; [reflexivity|]. cbn [pop_last] in E. destruct (pop_last l) as [[? ?]|]; discriminate.
Qed.

Lemma pop_last_app {A} : forall (l : list A) x t, pop_last l = Some (x, t) -> l = t ++ [x].
Proof.
  induction l as [|y l IH]; intros x t H; cbn [pop_last] in H; [discriminate|].
  destruct (pop_last l) as [[z t']|] eqn:E.
  - inversion H; subst. cbn [app]. f_equal. apply IH. reflexivity.
  - inversion H; subst. destruct l; [reflexivity|]. cbn [pop_last] in E. destruct (pop_last l) as [[? ?]|]; discriminate.
Qed.

(* ---------- where the records of a local result come from ---------- *)

Definition zresult_rrs (zr : zresult) : list rr :=
  match zr with ZAnswer rrs => rrs | ZCname _ r => [r] | ZDelegation ns => ns | ZNameError => [] end.
Definition lresult_soa (l : lresult) : option rr :=
  match l with LDone r => resolved_soa_rr r | LDelegation _ s _ => s | _ => None end.
Definition opt_list {A} (o : option A) : list A := match o with Some x => [x] | None => [] end.

Lemma Forall_merge (P : rr -> Prop) a b : Forall P a -> Forall P b -> Forall P (prioritising_merge a b).
Proof.
  intros Ha Hb. unfold prioritising_merge. apply Forall_app. split; [exact Ha|].
  apply Forall_forall. intros x Hx. apply filter_In in Hx. eapply Forall_forall in Hb; [exact Hb|tauto].
Qed.

Section LocalFrom.
  Variable zs : zones.
  Variable cget : dname -> N -> list rr.
  Variable P : rr -> Prop.
  Hypothesis Hz : forall name qt z zr r, zones_resolve zs name qt = Some (z, Ok zr) -> In r (zresult_rrs zr) -> P r.
  Hypothesis Hs : forall name qt z zr s, zones_resolve zs name qt = Some (z, zr) -> zone_soa_rr z = Some s -> P s.
  Hypothesis Hc : forall n t r, In r (cget n t) -> P r.

  Definition lgood (l : lresult) : Prop := Forall P (lresult_rrs l) /\ Forall P (opt_list (lresult_soa l)).

  Lemma local_from : forall f stack q l, resolve_local zs cget f stack q = Ok l -> lgood l.
  Proof.
    induction f as [|f IH]; intros stack q l H; [discriminate|].
    rewrite resolve_local_eq in H.
    destruct (at_recursion_limit stack); [discriminate|].
    destruct (is_duplicate_question stack q); [discriminate|].
    set (sub := fun name => resolve_local zs cget f (stack ++ [q]) (subq q name)) in H.
    assert (Hsub : forall n l', sub n = Ok l' -> lgood l') by (intros n l' E; eapply IH, E).
    clearbody sub. clear IH.
    assert (Hcache : forall rz, Forall P rz -> cache_phase cget q sub rz = Ok l -> lgood l).
    { intros rz Hrz Hcp. unfold cache_phase in Hcp.
      assert (Hpart : forall rc fc, cache_part cget q sub = Ok (rc, fc) -> Forall P rc).
      { intros rc fc Ep. unfold cache_part in Ep.
        assert (Hfc : Forall P (cget (q_name q) (q_type q))) by (apply Forall_forall; intros x Hx; eapply Hc, Hx).
        destruct (is_nil (cget (q_name q) (q_type q)) && negb (q_type q =? RT_CNAME)).
        2:{ inversion Ep; subst. exact Hfc. }
        destruct (cget (q_name q) RT_CNAME) as [|cr t] eqn:Ecn. { inversion Ep; subst. exact Hfc. }
        assert (Hcr : P cr) by (eapply (Hc (q_name q) RT_CNAME); rewrite Ecn; left; reflexivity).
        destruct (if rr_type cr =? RT_CNAME then rr_data cr else RD_A 0); try discriminate.
        unfold ccombine in Ep. destruct (sub n) as [l'| | |] eqn:Es; try discriminate.
        - specialize (Hsub _ _ Es). destruct Hsub as [Hl _].
          destruct l' as [r|rrs|rrs s d|rrs cq]; inversion Ep; subst; cbn [app lresult_rrs] in *;
            try (constructor; [exact Hcr|exact Hl]); constructor; [exact Hcr|constructor].
        - inversion Ep; subst. constructor; [exact Hcr|constructor]. }
      destruct (cache_part cget q sub) as [[rc fc]| | |] eqn:Ep; try discriminate.
      specialize (Hpart rc fc eq_refl).
      pose proof (Forall_merge P rz rc Hrz Hpart) as Hm.
      destruct (is_nil (prioritising_merge rz rc)); [discriminate|].
      destruct fc as [c|].
      - inversion Hcp; subst. split; [exact Hm|constructor].
      - destruct (q_type q =? QT_Wildcard); inversion Hcp; subst; (split; [exact Hm|constructor]). }
    unfold local_step, zone_phase in H.
    destruct (zones_resolve zs (q_name q) (q_type q)) as [[z r]|] eqn:Ez; [|apply (Hcache []); [constructor|exact H]].
    destruct r as [zr|e| |]; try discriminate.
    pose proof (fun r => Hz _ _ _ _ r Ez) as Hzr.
    destruct zr as [rrs|c cr|ns|]; cbn [zresult_rrs] in Hzr.
    - assert (Hrrs : Forall P rrs) by (apply Forall_forall; exact Hzr).
      destruct (zone_soa_rr z) as [s|] eqn:Esoa.
      + inversion H; subst. split; [exact Hrrs|]. constructor; [eapply Hs; eassumption|constructor].
      + destruct (negb (q_type q =? QT_Wildcard) && negb (is_nil rrs)).
        * inversion H; subst. split; [exact Hrrs|constructor].
        * apply (Hcache rrs Hrrs H).
    - assert (Hcr : P cr) by (apply Hzr; left; reflexivity).
      unfold zcombine in H. destruct (sub c) as [l'| | |] eqn:Es; try discriminate.
      + specialize (Hsub _ _ Es). destruct Hsub as [Hl Hso].
        destruct l' as [[rrs so|so|rrs so]|rrs|rrs so d|rrs cq]; inversion H; subst;
          cbn [app lresult_rrs lresult_soa resolved_rrs resolved_soa_rr opt_list] in *;
          (split; [try (constructor; [exact Hcr|]); try exact Hl; try constructor|try exact Hso; try constructor]).
      + inversion H; subst. split; [constructor; [exact Hcr|constructor]|constructor].
    - destruct (zone_soa_rr z) as [s|] eqn:Esoa; [|apply (Hcache []); [constructor|exact H]].
      destruct ns as [|first t]; [discriminate|]. inversion H; subst.
      split; [apply Forall_forall; exact Hzr|]. constructor; [eapply Hs; eassumption|constructor].
    - destruct (zone_soa_rr z) as [s|] eqn:Esoa; [|apply (Hcache []); [constructor|exact H]].
      inversion H; subst. split; [constructor|]. constructor; [eapply Hs; eassumption|constructor].
  Qed.
End LocalFrom.

(* two records that agree in owner, type and data (the cache does not keep the class, and
   hands back the TTL that remains) *)
Definition rr_sim (a b : rr) : Prop := rr_name a = rr_name b /\ rr_type a = rr_type b /\ rr_data a = rr_data b.
Lemma rr_sim_refl a : rr_sim a a.
Proof. repeat split. Qed.
Lemma rr_sim_trans a b c : rr_sim a b -> rr_sim b c -> rr_sim a c.
Proof. intros (h1 & h2 & h3) (k1 & k2 & k3). repeat split; congruence. Qed.

(* the shape of the RDATA is the one the type code demands (RecordTypeWithData) *)
Definition rr_typed (r : rr) : Prop := shape_of_rdata (rr_data r) = shape_of_type (rr_type r).
Lemma rr_typed_sim a b : rr_sim a b -> rr_typed b -> rr_typed a.
Proof. intros (_ & h2 & h3). unfold rr_typed. rewrite h2, h3. auto. Qed.
Lemma wf_rr_typed r : wf_rr r -> rr_typed r.
Proof. intros (_ & _ & _ & _ & [H _]). exact H. Qed.

(* ---------- a zone alias is only followed for a question that does not ask for CNAME / ANY ---------- *)
Lemma zrh_cname_qt name qt recs nsd cd c r :
  zone_result_helper name qt recs nsd cd = Ok (ZCname c r) -> rtype_matches RT_CNAME qt = false.
Proof.
  unfold zone_result_helper. destruct (_ && _ && _); [discriminate|].
  destruct (rtype_matches RT_CNAME qt); [|reflexivity]. cbn [negb].
  destruct (qt =? QT_Wildcard); [discriminate|]. destruct (existsb _ _); discriminate.
Qed.

Lemma node_resolve_cname_qt name qt : forall rp nd ia c r,
  node_resolve name qt rp nd ia = Ok (ZCname c r) -> rtype_matches RT_CNAME qt = false.
Proof.
  induction rp as [|l rest IH]; intros nd ia c r; cbn [node_resolve].
  - apply zrh_cname_qt.
  - destruct (alookup leqb l (n_children nd)); [apply IH|].
    destruct (n_wild nd).
    + destruct (from_labels _); [apply zrh_cname_qt|discriminate].
    + destruct (alookup N.eqb RT_NS (n_this nd)) as [ns|]; [|discriminate]. destruct (_ || _); discriminate.
Qed.

Lemma zones_resolve_cname_qt zs name qt z c r :
  zones_resolve zs name qt = Some (z, Ok (ZCname c r)) -> rtype_matches RT_CNAME qt = false.
Proof.
  unfold zones_resolve. destruct (zones_get zs name) as [z0|]; [|discriminate].
  unfold zone_resolve. destruct (relative_rp z0 name) as [rp|]; cbn [option_map]; [|discriminate].
  intro H. inversion H. eapply node_resolve_cname_qt. eassumption.
Qed.

Lemma cname_qt_not_any qt : rtype_matches RT_CNAME qt = false -> qt <> QT_Wildcard.
Proof. intros H E. subst qt. vm_compute in H. discriminate. Qed.

(* a Partial local result only arises for QTYPE * (so for every other question the records
   "combined" with the upstream answer in resolve_recursive_notimeout are none) *)
Lemma no_partial zs cget : forall f stack q rrs,
  q_type q <> QT_Wildcard -> resolve_local zs cget f stack q <> Ok (LPartial rrs).
Proof.
  induction f as [|f IH]; intros stack q rrs Hq; [discriminate|].
  rewrite resolve_local_eq.
  destruct (at_recursion_limit stack); [discriminate|].
  destruct (is_duplicate_question stack q); [discriminate|].
  set (sub := fun name => resolve_local zs cget f (stack ++ [q]) (subq q name)).
  assert (Hsub : forall n rrs', sub n <> Ok (LPartial rrs')) by (intros n rrs'; apply IH; exact Hq).
  clearbody sub.
  assert (Hcache : forall rz, cache_phase cget q sub rz <> Ok (LPartial rrs)).
  { intro rz. unfold cache_phase. destruct (cache_part cget q sub) as [[rc fc]| | |]; try discriminate.
    destruct (is_nil _); [discriminate|]. destruct fc; [discriminate|].
    apply N.eqb_neq in Hq. rewrite Hq. discriminate. }
  unfold local_step, zone_phase.
  destruct (zones_resolve zs (q_name q) (q_type q)) as [[z r]|]; [|apply Hcache].
  destruct r as [zr|e| |]; try discriminate.
  destruct zr as [rrs0|c cr|ns|].
  - destruct (zone_soa_rr z); [discriminate|]. destruct (_ && _); [discriminate|apply Hcache].
  - unfold zcombine. specialize (Hsub c). destruct (sub c) as [[[| |]|rrs'| |]| | |]; try discriminate.
    exfalso. eapply Hsub. reflexivity.
  - destruct (zone_soa_rr z); [|apply Hcache]. destruct ns; discriminate.
  - destruct (zone_soa_rr z); [discriminate|apply Hcache].
Qed.

(* what local resolution makes of a question about a name an authoritative zone owns: an answer,
   or an alias to be followed -- never a referral, a partial answer or an error *)
Lemma owned_local_cases zs cget f stack q :
  owned_auth zs (q_name q) -> guards_pass stack q ->
  (exists r, resolve_local zs cget (S f) stack q = Ok (LDone r))
  \/ (exists rrs cq, resolve_local zs cget (S f) stack q = Ok (LCname rrs cq))
  \/ resolve_local zs cget (S f) stack q = Panic \/ resolve_local zs cget (S f) stack q = OutOfFuel.
Proof.
  intros [z Ho] Hg. destruct (auth_zone_alone zs cget f stack q z Ho Hg) as [soa [Hs [r [Hr H]]]].
  destruct r as [zr|e| |]; try contradiction; [|right; right; left; exact H].
  destruct zr as [rrs|c cr|ns|]; try contradiction.
  - left. eexists; exact H.
  - rewrite H. pose proof (cname_qt_not_any _ (zones_resolve_cname_qt _ _ _ _ _ _ Hr)) as Hq.
    pose proof (no_partial zs cget f (stack ++ [q]) (subq q c)) as Hnp. cbn [subq q_type] in Hnp.
    unfold zcombine. destruct (resolve_local zs cget f (stack ++ [q]) (subq q c)) as [[[| |]|rrs'| |]| | |];
      try (left; eexists; reflexivity); try (right; left; do 2 eexists; reflexivity); try (right; right; left; reflexivity);
      try (right; right; right; reflexivity).
    exfalso. eapply Hnp; [exact Hq|reflexivity].
  - left. eexists; exact H.
Qed.

(* what chain_ok's "no owner twice" clause implies, in a form that can be computed *)
Fixpoint dnodupb (l : list dname) : bool :=
  match l with [] => true | x :: t => negb (existsb (dname_eqb x) t) && dnodupb t end.

Lemma NoDup_dnodupb l : NoDup l -> dnodupb l = true.
Proof.
  induction 1 as [|x t Hx _ IH]; [reflexivity|]. cbn [dnodupb]. rewrite IH, andb_true_r.
  destruct (existsb (dname_eqb x) t) eqn:E; [|reflexivity].
  apply existsb_exists in E. destruct E as [y [Hy Hxy]]. apply dname_eqb_eq in Hxy. subst y. contradiction.
Qed.

Lemma chain_from_all_cname : forall cn a b, chain_from a cn = Some b -> Forall (fun r => rr_type r = RT_CNAME) cn.
Proof.
  induction cn as [|r cn IH]; intros a b H; [constructor|]. cbn [chain_from] in H.
  destruct (dname_eqb (rr_name r) a && (rr_type r =? RT_CNAME)) eqn:E; [|discriminate].
  apply andb_prop in E. destruct E as [_ E]. apply N.eqb_eq in E.
  destruct (rr_data r); try discriminate. constructor; [exact E|eapply IH, H].
Qed.

Lemma chain_ok_cname_owners qname qty rrs :
  qty <> RT_CNAME -> chain_ok qname qty rrs ->
  dnodupb (map rr_name (filter (fun r => rr_type r =? RT_CNAME) rrs)) = true.
Proof.
  intros Hq (cn & fin & last & -> & Hch & Hnd & Hfin). rewrite filter_app.
  assert (E1 : filter (fun r => rr_type r =? RT_CNAME) cn = cn).
  { pose proof (chain_from_all_cname _ _ _ Hch) as Hall. clear -Hall.
    induction cn as [|r cn IH]; [reflexivity|]. inversion Hall; subst. cbn [filter].
    replace (rr_type r =? RT_CNAME) with true by (symmetry; apply N.eqb_eq; assumption). f_equal. apply IH. assumption. }
  assert (E2 : filter (fun r => rr_type r =? RT_CNAME) fin = []).
  { clear -Hfin Hq. induction fin as [|r fin IH]; [reflexivity|]. inversion Hfin as [|? ? [_ Ht] Hf]; subst. cbn [filter].
    destruct (rr_type r =? RT_CNAME) eqn:E; [apply N.eqb_eq in E; congruence|]. apply IH. assumption. }
  rewrite E1, E2, app_nil_r. apply NoDup_dnodupb, Hnd.
Qed.

(* ---------- alias chains across the local / upstream boundary (C10) ---------- *)

(* chain_ok (Resolver/LocalSpec.v) without its "no owner twice" clause: CNAMEs first, each owner the
   previous target, starting at the question name, then only records of the asked type at the
   last target.  (With an upstream that contradicts itself the clause is false for the recursive
   resolver: see C10_recursive_owner_twice in Properties/C10.v.) *)
Definition chain_shape (qname : dname) (qty : N) (rrs : list rr) : Prop :=
  exists cn fin last, rrs = cn ++ fin /\ chain_from qname cn = Some last
    /\ Forall (fun r => rr_name r = last /\ rr_type r = qty) fin.

Lemma chain_ok_shape qname qty rrs : chain_ok qname qty rrs -> chain_shape qname qty rrs.
Proof. intros (cn & fin & last & H1 & H2 & _ & H4). exists cn, fin, last. auto. Qed.

Lemma chain_from_app : forall l1 l2 a b, chain_from a l1 = Some b -> chain_from a (l1 ++ l2) = chain_from b l2.
Proof.
  induction l1 as [|r l1 IH]; intros l2 a b H; cbn [chain_from app] in *.
  - inversion H; reflexivity.
  - destruct (dname_eqb (rr_name r) a && (rr_type r =? RT_CNAME)); [|discriminate].
    destruct (rr_data r); try discriminate. apply IH. exact H.
Qed.

Lemma chain_shape_app l1 a b qty l2 :
  chain_from a l1 = Some b -> chain_shape b qty l2 -> chain_shape a qty (l1 ++ l2).
Proof.
  intros H1 (cn & fin & last & E & H2 & H3). exists (l1 ++ cn), fin, last.
  split; [rewrite E, app_assoc; reflexivity|]. split; [|exact H3].
  rewrite (chain_from_app _ _ _ _ H1). exact H2.
Qed.

Lemma chain_shape_nil a qty : chain_shape a qty [].
Proof. exists [], [], a. repeat split; constructor. Qed.

(* an alias result of local resolution: the records are the CNAME chain from the question name to
   the name still to be resolved, and the remaining question differs in the name only *)
Section LocalAlias.
  Variable zs : zones.
  Variable cget : dname -> N -> list rr.
  Hypothesis Hzones : zones_answers_ok zs.
  Hypothesis Hcache : cget_ok cget.

  Lemma chain_from_single r a c : rr_name r = a -> rr_type r = RT_CNAME -> rr_data r = RD_Name c -> chain_from a [r] = Some c.
  Proof.
    intros Hn Ht Hd. cbn [chain_from]. rewrite Hn, Ht, Hd.
    replace (dname_eqb a a) with true by (symmetry; apply dname_eqb_eq; reflexivity). reflexivity.
  Qed.
  Lemma chain_from_cons r a c l : rr_name r = a -> rr_type r = RT_CNAME -> rr_data r = RD_Name c ->
    chain_from a (r :: l) = chain_from c l.
  Proof.
    intros Hn Ht Hd. cbn [chain_from]. rewrite Hn, Ht, Hd.
    replace (dname_eqb a a) with true by (symmetry; apply dname_eqb_eq; reflexivity). reflexivity.
  Qed.

  Lemma local_alias : forall f stack q rrs cq,
    q_type q <> QT_Wildcard ->
    resolve_local zs cget f stack q = Ok (LCname rrs cq) ->
    chain_from (q_name q) rrs = Some (q_name cq) /\ cq = subq q (q_name cq).
  Proof.
    induction f as [|f IH]; intros stack q rrs cq Hq; [discriminate|].
    rewrite resolve_local_eq.
    destruct (at_recursion_limit stack); [discriminate|].
    destruct (is_duplicate_question stack q); [discriminate|].
    set (sub := fun name => resolve_local zs cget f (stack ++ [q]) (subq q name)).
    assert (Hsub : forall n rrs' cq', sub n = Ok (LCname rrs' cq') ->
                     chain_from n rrs' = Some (q_name cq') /\ cq' = subq q (q_name cq')).
    { intros n rrs' cq' E. destruct (IH (stack ++ [q]) (subq q n) rrs' cq' Hq E) as [H1 H2]. split; [exact H1|]. rewrite H2 at 1. reflexivity. }
    clearbody sub. unfold local_step.
    destruct (zone_phase zs q sub) as [r|rz] eqn:Ez.
    - unfold zone_phase in Ez.
      destruct (zones_resolve zs (q_name q) (q_type q)) as [[z [zr| | |]]|] eqn:Er; try discriminate;
        try (inversion Ez; subst; discriminate).
      pose proof (Hzones _ _ _ _ Er) as Hz.
      destruct zr as [rr0|c cr|ns|].
      + destruct (zone_soa_rr z); [inversion Ez; subst; discriminate|].
        destruct (_ && _); [inversion Ez; subst; discriminate|discriminate].
      + inversion Ez; subst. destruct Hz as (Hn & Ht & Hdat). unfold zcombine.
        destruct (sub c) as [[[| |]|rr'|rr' s d|rr' cq']| | |] eqn:Es; try discriminate; intro H; inversion H; subst.
        * split; [apply chain_from_single; assumption|reflexivity].
        * destruct (Hsub _ _ _ Es) as [H1 H2]. split; [|exact H2]. cbn [app]. rewrite (chain_from_cons _ _ c); assumption.
        * split; [apply chain_from_single; assumption|reflexivity].
      + destruct (zone_soa_rr z); [|discriminate]. destruct ns; inversion Ez; subst; discriminate.
      + destruct (zone_soa_rr z); [|discriminate]. inversion Ez; subst. discriminate.
    - pose proof (zone_phase_continue_nil zs _ _ _ Hq Ez) as ->.
      unfold cache_phase. destruct (cache_part cget q sub) as [[rc fc]| | |] eqn:Ec; try discriminate.
      rewrite merge_nil_l. destruct (is_nil rc); [discriminate|].
      destruct fc as [c|]; [|destruct (q_type q =? QT_Wildcard); discriminate].
      intro H; inversion H; subst. cbn [subq q_name]. split; [|reflexivity].
      unfold cache_part in Ec.
      destruct (is_nil (cget (q_name q) (q_type q)) && negb (q_type q =? RT_CNAME)); [|discriminate].
      pose proof (Hcache (q_name q) RT_CNAME ltac:(discriminate)) as Hcn.
      destruct (cget (q_name q) RT_CNAME) as [|cr t]; [discriminate|].
      inversion Hcn as [|? ? [Hn Ht] _]; subst.
      rewrite Ht, N.eqb_refl in Ec.
      destruct (rr_data cr) as [|c0| | | | | |] eqn:Hdat; try discriminate.
      unfold ccombine in Ec. destruct (sub c0) as [[r'|rr'|rr' s d|rr' cq']| | |] eqn:Es; try discriminate; inversion Ec; subst.
      + apply chain_from_single; assumption.
      + destruct (Hsub _ _ _ Es) as [H1 _]. cbn [app]. rewrite (chain_from_cons _ _ c0); assumption.
      + apply chain_from_single; assumption.
  Qed.
End LocalAlias.

Section RP.
  Variable cache : Type.
  Variable cache_get : cache -> dname -> N -> list rr.
  Variable cache_insert_all : cache -> list rr -> cache.
  Variable sort_names : list dname -> list dname.
  Variable zs : zones.
  Variable o : oracle.
  Variable pmode : protocol_mode.
  Variable port : N.

  Notation RM := (RM cache).
  Notation rstate := (rstate cache).
  Notation rrn := (resolve_recursive_notimeout cache cache_get cache_insert_all sort_names zs o pmode port).
  Notation cloop := (candidate_loop cache cache_get cache_insert_all sort_names zs o pmode port).
  Notation rlocal := (local cache cache_get zs).
  Notation rbody := (recursive_body cache cache_get sort_names zs).
  Notation cstep := (candidate_step cache cache_get cache_insert_all sort_names zs o pmode port).
  Notation rcr := (resolve_combined_recursive cache).
  Notation rwnr := (resolve_with_nameserver_response cache cache_insert_all zs).
  Notation rwm := (resolve_with_response_match cache cache_insert_all).
  Notation htry := (hostname_try cache cache_get zs).
  Notation hloop := (hostname_loop cache cache_get zs).
  Notation rhi := (resolve_hostname_to_ip cache cache_get zs pmode).
  Notation qav := (query_and_validate cache o).
  Notation cns := (candidate_nameservers cache cache_get zs).
  Notation cnsl := (candidate_ns_loop cache cache_get zs).
  Notation rret := (ret cache).
  Notation rbind := (rbind cache).

  Lemma rrn_S f stack q : rrn (S f) stack q = rbody (rrn f) (cloop f) stack q.
  Proof. reflexivity. Qed.
  Lemma cloop_S f stack q combined mc cands next locally :
    cloop (S f) stack q combined mc cands next locally
    = cstep (rrn f) (cloop f stack q combined) stack q combined mc cands next locally.
  Proof. reflexivity. Qed.

  (* resolve_with_nameserver_response is the `match` on the response that
     cut_at_local_authority leaves (cut_ok: it never panics) *)
  Lemma rwnr_cut rec stack combined nr q :
    exists nr', cut_shape zs q nr nr' /\ cut_at_local_authority zs q nr = Ok nr'
                /\ rwnr rec stack combined nr q = rwm rec stack combined nr' q.
  Proof.
    destruct (cut_ok zs q nr) as (nr' & E & Hs). exists nr'. split; [exact Hs|]. split; [exact E|].
    unfold resolve_with_nameserver_response. rewrite E. reflexivity.
  Qed.

  (* ---------- the primitives ---------- *)

  Lemma stack_le_32 (stack : list question) (q : question) :
    (length stack <= 32)%nat -> at_recursion_limit stack = false -> (length (stack ++ [q]) <= 32)%nat.
  Proof.
    intros H E. apply at_limit_false in E. rewrite app_length. cbn [length]. lia.
  Qed.

  Lemma at_limit_true (stack : list question) : length stack = 32%nat -> at_recursion_limit stack = true.
  Proof. intro E. unfold at_recursion_limit, llen. rewrite E. reflexivity. Qed.

  (* local: the state is untouched; never out of fuel while the stack is within the limit *)
  Lemma rlocal_state stack q st : snd (rlocal stack q st) = st.
  Proof. unfold local. destruct (resolve_local _ _ _ _ _); reflexivity. Qed.

  Lemma rlocal_cases stack q st :
    (length stack <= 32)%nat ->
    (exists ol, rlocal stack q st = (Val ol, st)
                /\ match ol with
                   | Some l => resolve_local zs (cache_get (fst st)) LOCAL_FUEL stack q = Ok l
                   | None => exists e, resolve_local zs (cache_get (fst st)) LOCAL_FUEL stack q = Err e
                   end)
    \/ (rlocal stack q st = (Abort APanic, st) /\ resolve_local zs (cache_get (fst st)) LOCAL_FUEL stack q = Panic).
  Proof.
    intro Hl. unfold local.
    pose proof (resolve_local_no_fuel zs (cache_get (fst st)) LOCAL_FUEL stack q Hl) as Hf.
    rewrite local_fuel_value in Hf. specialize (Hf ltac:(lia)). rewrite <- (local_fuel_value) in Hf.
    destruct (resolve_local zs (cache_get (fst st)) LOCAL_FUEL stack q) as [l|e| |] eqn:E.
    - left. exists (Some l). split; reflexivity.
    - left. exists None. split; [reflexivity|]. exists e. reflexivity.
    - right. split; reflexivity.
    - congruence.
  Qed.

  (* query_and_validate: the only way it is abandoned is the 60 s budget *)
  Lemma qav_fine (Ho : oracle_bytes_ok o) a q mc st w : fst (qav a q mc st) = Abort w -> w = ATimeout.
  Proof.
    unfold query_and_validate, RecursiveModel.rbind, lift_t.
    pose proof (query_nameserver_fine o a q false (snd st) Ho) as Hq.
    destruct (query_nameserver o a q false (snd st)) as [[om|w1] ts].
    - destruct om as [response|]; [|discriminate].
      destruct (never_panics q response mc) as [x Ex]. rewrite Ex. discriminate.
    - cbn [fst] in *. intro E. inversion E; subst. apply Hq. reflexivity.
  Qed.

  Lemma qav_some a q mc st nr st' :
    qav a q mc st = (Val (Some nr), st') ->
    exists response, validate_nameserver_response q response mc = Ok (Some nr)
                     /\ query_nameserver o a q false (snd st) = (Val (Some response), snd st') /\ fst st' = fst st.
  Proof.
    unfold query_and_validate, RecursiveModel.rbind, lift_t.
    destruct (query_nameserver o a q false (snd st)) as [[om|w1] ts]; [|discriminate].
    destruct om as [response|]; [|discriminate].
    destruct (never_panics q response mc) as [x Ex]. rewrite Ex. cbn [lift_res]. unfold ret.
    intro E. inversion E; subst. exists response. auto.
  Qed.

  Lemma get_ip_lift rrs h t (st : rstate) : exists oa, lift_res cache (get_ip rrs h t) st = (Val oa, st) /\ get_ip rrs h t = Ok oa.
  Proof. destruct (get_ip_total rrs h t) as [x E]. rewrite E. exists x. split; reflexivity. Qed.

  (* ---------- stabilisation: from some fuel on the result no longer changes ---------- *)

  Definition nofuel {A} (x : out A * rstate) : Prop := fst x <> Abort AFuel.

  Definition stab {A} (m : nat -> RM A) (st : rstate) : Prop :=
    exists f0 r, nofuel r /\ forall f, (f0 <= f)%nat -> m f st = r.

  Lemma stab_const {A} (m : RM A) st : nofuel (m st) -> stab (fun _ => m) st.
  Proof. intro H. exists O, (m st). split; [exact H|reflexivity]. Qed.

  Lemma stab_bind {A B} (m : nat -> RM A) (k : nat -> A -> RM B) st :
    stab m st ->
    (forall a st1, (exists f, m f st = (Val a, st1)) -> stab (fun f => k f a) st1) ->
    stab (fun f => rbind (m f) (k f)) st.
  Proof.
    intros [f1 [r1 [N1 H1]]] Hk. destruct r1 as [[a|w] st1].
    - destruct (Hk a st1) as [f2 [r2 [N2 H2]]]. { exists f1. apply H1. lia. }
      exists (Nat.max f1 f2), r2. split; [exact N2|]. intros f Hf. unfold RecursiveModel.rbind.
      rewrite H1 by lia. apply H2. lia.
    - exists f1, (Abort w, st1). split; [unfold nofuel in *; cbn [fst] in *; congruence|]. intros f Hf. unfold RecursiveModel.rbind. rewrite H1 by lia. reflexivity.
  Qed.

  Lemma stab_ext {A} (m m' : nat -> RM A) st : (forall f, m f st = m' f st) -> stab m st -> stab m' st.
  Proof. intros E [f0 [r [N H]]]. exists f0, r. split; [exact N|]. intros f Hf. rewrite <- E. apply H, Hf. Qed.

  Ltac stab_ret := apply stab_const; unfold nofuel, ret; cbn [fst]; discriminate.

  Section Stab.
    Hypothesis Ho : oracle_bytes_ok o.
    Variable stack : list question.
    Hypothesis Hlen : (length stack <= 32)%nat.
    (* nested resolutions on this stack stabilise *)
    Hypothesis Hrec : forall q st, stab (fun f => rrn f stack q) st.

    Lemma rlocal_nofuel q st : nofuel (rlocal stack q st).
    Proof.
      destruct (rlocal_cases stack q st Hlen) as [[ol [E _]]|[E _]]; unfold nofuel; rewrite E; discriminate.
    Qed.

    Lemma rcr_stab rrs q st : stab (fun f => rcr (rrn f) stack rrs q) st.
    Proof.
      unfold resolve_combined_recursive. apply stab_bind; [apply Hrec|].
      intros r st1 _. destruct r; stab_ret.
    Qed.

    Lemma rwnr_stab combined nr q st : stab (fun f => rwnr (rrn f) stack combined nr q) st.
    Proof.
      destruct (rwnr_cut (rrn O) stack combined nr q) as (nr' & _ & Ecut & _).
      apply (stab_ext (fun f => rwm (rrn f) stack combined nr' q)).
      { intro f. unfold resolve_with_nameserver_response. rewrite Ecut. reflexivity. }
      clear Ecut nr. rename nr' into nr.
      unfold resolve_with_response_match. destruct nr as [rrs soa|rrs cname|rrs d].
      - stab_ret.
      - apply stab_bind; [stab_ret|]. intros _ st1 _.
        apply stab_bind; [apply rcr_stab|]. intros r st2 _. stab_ret.
      - apply stab_const. unfold nofuel, RecursiveModel.rbind, insert_all. destruct (glue_answer _ _ _); discriminate.
    Qed.

    Lemma htry_stab locally h t st : stab (fun f => htry (rrn f) stack locally h t) st.
    Proof.
      unfold hostname_try. destruct locally.
      - apply stab_bind; [apply stab_const, rlocal_nofuel|].
        intros l st1 _. destruct l as [[r| | |]|]; try stab_ret.
        apply stab_const. destruct (get_ip_lift (resolved_rrs r) h t st1) as [oa [E _]]. unfold nofuel. rewrite E. discriminate.
      - apply stab_bind; [apply Hrec|].
        intros r st1 _. destruct r as [r|e]; [|stab_ret].
        apply stab_const. destruct (get_ip_lift (resolved_rrs r) h t st1) as [oa [E _]]. unfold nofuel. rewrite E. discriminate.
    Qed.

    Lemma hloop_stab locally h : forall ts st, stab (fun f => hloop (rrn f) stack locally h ts) st.
    Proof.
      induction ts as [|t ts IH]; intro st; cbn [hostname_loop]; [stab_ret|].
      apply stab_bind; [apply htry_stab|]. intros a st1 _. destruct a; [stab_ret|apply IH].
    Qed.

    Lemma qav_nofuel a q mc st : nofuel (qav a q mc st).
    Proof. unfold nofuel. intro E. apply (qav_fine Ho) in E. discriminate. Qed.

    Definition cmeas (cands next : list dname) (locally : bool) : nat :=
      if locally then 2 * length cands + length next + 1 else length cands.

    Lemma rwnr_inr rec combined nr q st d st' :
      rwnr rec stack combined nr q st = (Val (inr d), st') -> exists rrs, nr = NRDelegation rrs d.
    Proof.
      destruct (rwnr_cut rec stack combined nr q) as (nr' & Hs & _ & ->).
      assert (Hd : forall rrs, nr' = NRDelegation rrs d -> nr = NRDelegation rrs d).
      { intros rrs E. destruct Hs; [exact E|discriminate]. }
      intro H. cut (exists rrs, nr' = NRDelegation rrs d). { intros [rrs E]. exists rrs. apply Hd, E. }
      revert H. clear Hd Hs nr. rename nr' into nr.
      unfold resolve_with_response_match, RecursiveModel.rbind, insert_all, ret.
      destruct nr as [rrs soa|rrs cname|rrs d0].
      - discriminate.
      - destruct (resolve_combined_recursive _ _ _ _ _ _) as [[r|w] st2]; discriminate.
      - destruct (glue_answer _ _ _); [discriminate|]. intro E. inversion E; subst. exists rrs. reflexivity.
    Qed.

    Lemma cloop_stab q combined :
      forall k mc, N.to_nat (llen (labels (q_name q)) + 1 - mc) = k ->
      forall j cands next locally, cmeas cands next locally = j ->
      forall st, stab (fun f => cloop f stack q combined mc cands next locally) st.
    Proof.
      induction k as [k IHk] using lt_wf_ind. intros mc Hk.
      induction j as [j IHj] using lt_wf_ind. intros cands next locally Hj st.
      assert (Hshift : stab (fun f => cstep (rrn f) (cloop f stack q combined) stack q combined mc cands next locally) st
                       -> stab (fun f => cloop f stack q combined mc cands next locally) st).
      { intros [f0 [r [Nr H]]]. exists (S f0), r. split; [exact Nr|]. intros f Hf.
        destruct f as [|f]; [lia|]. rewrite cloop_S. apply H. lia. }
      apply Hshift. clear Hshift. unfold candidate_step.
      destruct (pop_last cands) as [[candidate rest]|] eqn:Ep; [|stab_ret].
      pose proof (pop_last_length _ _ _ Ep) as Hl.
      apply stab_bind; [apply hloop_stab|].
      intros oip st1 _. destruct oip as [a|].
      - apply stab_bind; [apply stab_const, qav_nofuel|].
        intros onr st2 [_ Hq]. destruct onr as [nr|]; [|stab_ret].
        apply stab_bind; [apply rwnr_stab|].
        intros r st3 [f3 Hr]. destruct r as [result|d]; [stab_ret|].
        apply rwnr_inr in Hr. destruct Hr as [rrs Enr]. subst nr.
        apply qav_some in Hq. destruct Hq as [response [Hv _]].
        destruct (delegation_progress _ _ _ _ _ Hv) as [Hlt [_ [pre Hanc]]].
        assert (Hle : ns_match_count d <= llen (labels (q_name q))).
        { unfold ns_match_count, llen. rewrite Hanc, app_length. lia. }
        apply (IHk (N.to_nat (llen (labels (q_name q)) + 1 - ns_match_count d)) ltac:(lia) _ eq_refl _ _ _ _ eq_refl).
      - destruct locally.
        + destruct (is_nil rest) eqn:En.
          * apply (IHj (cmeas (next ++ [candidate]) [] false)); [|reflexivity].
            destruct rest; [|discriminate]. subst j. unfold cmeas. rewrite app_length, Hl. cbn [length]. lia.
          * apply (IHj (cmeas rest (next ++ [candidate]) true)); [|reflexivity].
            subst j. unfold cmeas. rewrite app_length, Hl. cbn [length]. lia.
        + apply (IHj (cmeas rest next false)); [|reflexivity]. subst j. unfold cmeas. lia.
    Qed.
  End Stab.

  Lemma cnsl_nofuel stack (Hlen : (length stack <= 32)%nat) : forall sufs st, nofuel (cnsl stack sufs st).
  Proof.
    induction sufs as [|ls rest IH]; intro st; cbn [candidate_ns_loop]; [unfold nofuel, ret; discriminate|].
    destruct (from_labels ls) as [name|]; [|apply IH].
    unfold RecursiveModel.rbind.
    destruct (rlocal_cases stack (mkq name RT_NS RC_IN) st Hlen) as [[ol [E _]]|[E _]]; rewrite E; [|unfold nofuel; discriminate].
    destruct (is_nil _); [apply IH|unfold nofuel, ret; discriminate].
  Qed.

  (* C08: for every oracle, every cache, every zone set and every candidate order the
     untimed resolver stabilises: from some fuel on the result no longer changes and is
     not "out of fuel" *)
  Theorem rrn_stab (Ho : oracle_bytes_ok o) :
    forall n stack, (length stack <= 32)%nat -> (32 - length stack <= n)%nat ->
    forall q st, stab (fun f => rrn f stack q) st.
  Proof.
    induction n as [|n IH]; intros stack Hlen Hn q st.
    - assert (E : length stack = 32%nat) by lia.
      exists 1%nat, (Val (RErr ERecursionLimit), st). split; [unfold nofuel; discriminate|].
      intros f Hf. destruct f as [|f]; [lia|]. rewrite rrn_S. unfold recursive_body.
      rewrite (at_limit_true stack E). reflexivity.
    - assert (Hshift : stab (fun f => rbody (rrn f) (cloop f) stack q) st -> stab (fun f => rrn f stack q) st).
      { intros [f0 [r [Nr H]]]. exists (S f0), r. split; [exact Nr|]. intros f Hf.
        destruct f as [|f]; [lia|]. rewrite rrn_S. apply H. lia. }
      apply Hshift. clear Hshift. unfold recursive_body.
      destruct (at_recursion_limit stack) eqn:El; [stab_ret|].
      destruct (is_duplicate_question stack q); [stab_ret|].
      pose proof (stack_le_32 stack q Hlen El) as Hlen'.
      assert (Hrec : forall q' st', stab (fun f => rrn f (stack ++ [q]) q') st').
      { apply IH; [exact Hlen'|]. apply at_limit_false in El. rewrite app_length. cbn [length]. lia. }
      apply stab_bind; [apply stab_const, rlocal_nofuel, Hlen|].
      intros l st1 _. cbv zeta.
      assert (Hcont : forall (given : RM (option nameservers)) combined st2,
                 nofuel (given st2) ->
                 stab (fun f => rbind given (fun c => match c with
                                  | Some d => cloop f (stack ++ [q]) q combined (ns_match_count d) (sort_names (ns_hostnames d)) [] true
                                  | None => rret (RErr (EDeadEnd q))
                                  end)) st2).
      { intros given combined st2 Hg. apply stab_bind; [apply stab_const, Hg|].
        intros c st3 _. destruct c as [d|]; [|stab_ret].
        eapply cloop_stab; try eassumption; reflexivity. }
      destruct l as [[r|rrs|rrs soa d|rrs cq]|].
      + stab_ret.
      + apply Hcont. apply cnsl_nofuel, Hlen'.
      + apply Hcont. unfold nofuel, ret. discriminate.
      + apply rcr_stab. exact Hrec.
      + apply Hcont. apply cnsl_nofuel, Hlen'.
  Qed.

  (* the statement for resolve_recursive: an explicit threshold exists beyond which the fuel is irrelevant *)
  Theorem recursive_terminates (Ho : oracle_bytes_ok o) q st :
    exists F, fst (resolve_recursive cache cache_get cache_insert_all sort_names zs o pmode port F q st) <> OutOfFuel
              /\ forall fuel, (F <= fuel)%nat ->
                   resolve_recursive cache cache_get cache_insert_all sort_names zs o pmode port fuel q st
                   = resolve_recursive cache cache_get cache_insert_all sort_names zs o pmode port F q st.
  Proof.
    destruct (rrn_stab Ho 32 [] ltac:(cbn; lia) ltac:(cbn; lia) q st) as [f0 [r [Nr H]]].
    exists f0. unfold resolve_recursive. split.
    - rewrite (H f0) by lia. destruct r as [[[x|e]|[| |]] st']; cbn [finish fst]; try discriminate.
      exfalso. apply Nr. reflexivity.
    - intros fuel Hf. rewrite (H fuel Hf), (H f0) by lia. reflexivity.
  Qed.

  (* ====================================================================== *)
  (* 2. a generic invariant theorem: one induction over the execution        *)
  (* ====================================================================== *)

  (* the records of a validated reply that are cached and used: nr_rrs, nr_soa (CutFacts.v);
     what is cached is a prefix of them (all of them unless cut_at_local_authority cuts) *)

  Lemma result_rrs_split nr : result_rrs nr = nr_rrs nr ++ opt_list (nr_soa nr).
  Proof. destruct nr as [rrs [s|]|rrs c|rrs d]; cbn [result_rrs nr_rrs nr_soa opt_list]; rewrite ?app_nil_r; reflexivity. Qed.

  Definition rlocal_res (stack : list question) (q : question) (st : rstate) : res rerror lresult :=
    resolve_local zs (cache_get (fst st)) LOCAL_FUEL stack q.

  Section Generic.
    Variable Inv : rstate -> Prop.                (* state invariant *)
    Variable R : rstate -> rstate -> Prop.        (* how the state evolves *)
    Variable G : rstate -> rr -> Prop.            (* records that may be used in this state *)
    Variable Ab : abort -> Prop.                  (* the ways a computation may be abandoned *)
    Variable AddrOK : rstate -> ip -> Prop.       (* addresses that may be contacted *)
    Variable QOK : question -> Prop.              (* questions that may be sent upstream *)

    Hypothesis R_refl : forall st, R st st.
    Hypothesis R_trans : forall a b c, R a b -> R b c -> R a c.
    Hypothesis G_mono : forall st st' r, R st st' -> G st r -> G st' r.
    Hypothesis Ab_fuel : Ab AFuel.
    Hypothesis H_local : forall stack q st l, Inv st -> rlocal_res stack q st = Ok l ->
      Forall (G st) (lresult_rrs l) /\ Forall (G st) (opt_list (lresult_soa l)).
    Hypothesis H_local_panic : forall stack q st, Inv st -> rlocal_res stack q st = Panic -> Ab APanic.
    Hypothesis H_q : forall stack q st, Inv st ->
      at_recursion_limit stack = false -> is_duplicate_question stack q = false ->
      ((exists rrs, rlocal_res stack q st = Ok (LPartial rrs))
       \/ (exists rrs s d, rlocal_res stack q st = Ok (LDelegation rrs s d))
       \/ (exists e, rlocal_res stack q st = Err e)) -> QOK q.
    Hypothesis H_insert : forall st q resp mc nr i,
      Inv st -> validate_nameserver_response q resp mc = Ok (Some nr) -> Forall (G st) (result_rrs nr) ->
      ((exists x y, nr = NRDelegation x y) \/ forall r, In r (firstn i (nr_rrs nr)) -> owned_elsewhere zs q r = false) ->
      Inv (cache_insert_all (fst st) (firstn i (nr_rrs nr)), snd st)
      /\ R st (cache_insert_all (fst st) (firstn i (nr_rrs nr)), snd st).
    Hypothesis H_ip : forall st rrs h t a,
      Inv st -> Forall (G st) rrs -> In t (rtypes_of_mode pmode) -> get_ip rrs h t = Ok (Some a) -> AddrOK st a.
    Hypothesis H_query : forall st a q mc r st',
      Inv st -> AddrOK st a -> QOK q -> qav (a, port) q mc st = (r, st') ->
      Inv st' /\ R st st' /\ (forall nr, r = Val (Some nr) -> Forall (G st') (result_rrs nr)) /\ (forall w, r = Abort w -> Ab w).

    Definition post {A} (V : A -> rstate -> Prop) (st : rstate) (x : out A * rstate) : Prop :=
      Inv (snd x) /\ R st (snd x) /\ match fst x with Val a => V a (snd x) | Abort w => Ab w end.

    Definition good_resolved (res : resolved) (st : rstate) : Prop :=
      Forall (G st) (resolved_rrs res) /\ Forall (G st) (opt_list (resolved_soa_rr res)).
    Definition good_rres (r : rres) (st : rstate) : Prop :=
      match r with ROk res => good_resolved res st | RErr _ => True end.

    Lemma post_ret {A} (V : A -> rstate -> Prop) a st : Inv st -> V a st -> post V st (rret a st).
    Proof. intros HI HV. unfold post, ret. cbn [fst snd]. auto. Qed.

    Lemma post_bind {A B} (V1 : A -> rstate -> Prop) (V2 : B -> rstate -> Prop) (m : RM A) (k : A -> RM B) st :
      post V1 st (m st) ->
      (forall a st1, Inv st1 -> R st st1 -> V1 a st1 -> post V2 st1 (k a st1)) ->
      post V2 st (rbind m k st).
    Proof.
      intros (I1 & R1 & H1) Hk. unfold RecursiveModel.rbind. destruct (m st) as [[a|w] st1]; cbn [fst snd] in *.
      - destruct (Hk a st1 I1 R1 H1) as (I2 & R2 & H2). split; [exact I2|]. split; [eapply R_trans; eassumption|exact H2].
      - split; [exact I1|]. split; [exact R1|exact H1].
    Qed.

    Lemma post_weaken {A} (V V' : A -> rstate -> Prop) st x :
      (forall a st', Inv st' -> R st st' -> V a st' -> V' a st') -> post V st x -> post V' st x.
    Proof.
      intros HV (I1 & R1 & H1). split; [exact I1|]. split; [exact R1|].
      destruct (fst x); [apply HV; assumption|exact H1].
    Qed.

    Lemma Forall_G_mono st st' l : R st st' -> Forall (G st) l -> Forall (G st') l.
    Proof. intros HR H. eapply Forall_impl; [|exact H]. intros r. apply G_mono, HR. Qed.

    (* local *)
    Lemma post_local stack q st : Inv st ->
      post (fun ol st' => st' = st /\ match ol with
                                      | Some l => rlocal_res stack q st = Ok l
                                      | None => exists e, rlocal_res stack q st = Err e
                                      end) st (rlocal stack q st).
    Proof.
      intro HI. unfold local, post. pose proof (H_local_panic stack q st HI) as HP. unfold rlocal_res in *.
      destruct (resolve_local zs (cache_get (fst st)) LOCAL_FUEL stack q) as [l|e| |]; cbn [fst snd];
        (split; [exact HI|]); (split; [apply R_refl|]); auto. split; [reflexivity|]. exists e. reflexivity.
    Qed.

    Definition rec_ok (rec : list question -> question -> RM rres) : Prop :=
      forall stack q st, Inv st -> post good_rres st (rec stack q st).
    Definition loop_ok (combined : list rr) (loop : N -> list dname -> list dname -> bool -> RM rres) : Prop :=
      forall mc cands next locally st, Inv st -> Forall (G st) combined -> post good_rres st (loop mc cands next locally st).

    Section Combinators.
      Variable rec : list question -> question -> RM rres.
      Hypothesis Hrec : rec_ok rec.

      Lemma post_rcr stack rrs q st : Inv st -> Forall (G st) rrs -> post good_rres st (rcr rec stack rrs q st).
      Proof.
        intros HI Hr. unfold resolve_combined_recursive. eapply post_bind; [apply Hrec, HI|].
        intros r st1 I1 R1 V1. destruct r as [res|e]; (apply post_ret; [exact I1|]); [|exact I].
        destruct V1 as [V1 V2]. split; cbn [resolved_rrs resolved_soa_rr]; [|exact V2].
        apply Forall_app. split; [eapply Forall_G_mono; eassumption|exact V1].
      Qed.

      Lemma post_insert st q resp mc nr i : Inv st -> validate_nameserver_response q resp mc = Ok (Some nr) ->
        Forall (G st) (result_rrs nr) ->
        ((exists x y, nr = NRDelegation x y) \/ forall r, In r (firstn i (nr_rrs nr)) -> owned_elsewhere zs q r = false) ->
        post (fun _ _ => True) st (insert_all cache cache_insert_all (firstn i (nr_rrs nr)) st).
      Proof.
        intros HI Hv Hg Hcut. destruct (H_insert st q resp mc nr i HI Hv Hg Hcut) as [I1 R1].
        unfold insert_all, post. cbn [fst snd]. auto.
      Qed.

      Lemma post_rwnr stack combined nr q st resp mc :
        Inv st -> Forall (G st) combined -> validate_nameserver_response q resp mc = Ok (Some nr) ->
        Forall (G st) (result_rrs nr) ->
        post (fun r st' => match r with inl res => good_rres res st' | inr d => True end) st
             (rwnr rec stack combined nr q st).
      Proof.
        intros HI Hc Hv Hg.
        destruct (rwnr_cut rec stack combined nr q) as (nr' & Hs & _ & ->).
        assert (Hins : post (fun _ _ => True) st (insert_all cache cache_insert_all (nr_rrs nr') st)).
        { destruct (cut_shape_insert _ _ _ _ Hs) as (i & -> & Hcut). exact (post_insert st q resp mc nr i HI Hv Hg Hcut). }
        assert (Hrrs : Forall (G st) (nr_rrs nr') /\ Forall (G st) (opt_list (nr_soa nr'))).
        { rewrite result_rrs_split in Hg. apply Forall_app in Hg. destruct Hg as [Hg1 Hg2]. split.
          - apply Forall_forall. intros x Hx. eapply Forall_forall; [exact Hg1|]. eapply cut_shape_incl; eassumption.
          - destruct (cut_shape_soa _ _ _ _ Hs) as [->| ->]; [exact Hg2|constructor]. }
        destruct Hrrs as [Hrrs Hsoa]. clear Hs Hg Hv. clear nr. rename nr' into nr.
        unfold resolve_with_response_match. destruct nr as [rrs soa|rrs cname|rrs d]; cbn [nr_rrs nr_soa] in *.
        - eapply post_bind; [exact Hins|]. intros _ st1 I1 R1 _. apply post_ret; [exact I1|].
          split; cbn [resolved_rrs resolved_soa_rr]; [|eapply Forall_G_mono; eassumption].
          apply Forall_merge; eapply Forall_G_mono; eassumption.
        - eapply post_bind; [exact Hins|]. intros _ st1 I1 R1 _.
          eapply post_bind; [apply post_rcr; [exact I1|]|].
          + apply Forall_merge; eapply Forall_G_mono; eassumption.
          + intros r st2 I2 R2 V2. apply post_ret; [exact I2|exact V2].
        - eapply post_bind; [exact Hins|]. intros _ st1 I1 R1 _.
          destruct (glue_answer combined rrs q) as [r|] eqn:Eg; apply post_ret; auto.
          unfold glue_answer in Eg.
          assert (Hgl : forall t, Forall (G st1) (prioritising_merge combined (get_records rrs (q_name q) t))).
          { intro t. apply Forall_merge; [eapply Forall_G_mono; eassumption|].
            unfold get_records. apply Forall_forall. intros x Hx. apply filter_In in Hx.
            eapply Forall_forall in Hrrs; [|exact (proj1 Hx)]. eapply G_mono; eassumption. }
          destruct (q_type q =? RT_A).
          + destruct (negb _); inversion Eg; subst. split; [apply Hgl|constructor].
          + destruct (q_type q =? RT_AAAA); [|discriminate].
            destruct (negb _); inversion Eg; subst. split; [apply Hgl|constructor].
      Qed.

      Definition addr_post (oa : option ip) (st' : rstate) : Prop :=
        match oa with Some a => AddrOK st' a | None => True end.

      Lemma post_get_ip st rrs h t : Inv st -> Forall (G st) rrs -> In t (rtypes_of_mode pmode) ->
        post addr_post st (lift_res cache (get_ip rrs h t) st).
      Proof.
        intros HI Hg Ht. destruct (get_ip_lift rrs h t st) as [oa [E1 E2]]. rewrite E1.
        apply post_ret; [exact HI|]. destruct oa as [a|]; [|exact I]. eapply H_ip; eassumption.
      Qed.

      Lemma post_htry stack locally h t st : Inv st -> In t (rtypes_of_mode pmode) ->
        post addr_post st (htry rec stack locally h t st).
      Proof.
        intros HI Ht. unfold hostname_try. destruct locally.
        - eapply post_bind; [apply post_local, HI|].
          intros ol st1 I1 R1 [-> Hl]. destruct ol as [[r|rrs|rrs s d|rrs cq]|]; try (apply post_ret; [exact I1|exact I]).
          apply post_get_ip; [exact I1| |exact Ht]. apply (H_local _ _ _ _ I1 Hl).
        - eapply post_bind; [apply Hrec, HI|].
          intros r st1 I1 R1 V1. destruct r as [res|e]; [|apply post_ret; [exact I1|exact I]].
          apply post_get_ip; [exact I1|exact (proj1 V1)|exact Ht].
      Qed.

      Lemma post_hloop stack locally h : forall ts st, Inv st -> incl ts (rtypes_of_mode pmode) ->
        post addr_post st (hloop rec stack locally h ts st).
      Proof.
        induction ts as [|t ts IH]; intros st HI Hin; cbn [hostname_loop].
        - apply post_ret; [exact HI|exact I].
        - eapply post_bind; [apply post_htry; [exact HI|apply Hin; left; reflexivity]|].
          intros oa st1 I1 R1 V1. destruct oa as [a|]; [apply post_ret; assumption|].
          apply IH; [exact I1|]. intros x Hx. apply Hin. right. exact Hx.
      Qed.

      Lemma post_cnsl stack : forall sufs st, Inv st -> post (fun _ _ => True) st (cnsl stack sufs st).
      Proof.
        induction sufs as [|ls rest IH]; intros st HI; cbn [candidate_ns_loop]; [apply post_ret; auto|].
        destruct (from_labels ls) as [name|]; [|apply IH, HI].
        eapply post_bind; [apply post_local, HI|].
        intros ol st1 I1 R1 [-> _]. destruct (is_nil _); [apply IH, I1|apply post_ret; auto].
      Qed.

      Lemma post_cstep loop stack q combined mc cands next locally st :
        loop_ok combined loop -> QOK q -> Inv st -> Forall (G st) combined ->
        post good_rres st (cstep rec loop stack q combined mc cands next locally st).
      Proof.
        intros Hloop Hq HI Hc. unfold candidate_step.
        destruct (pop_last cands) as [[candidate rest]|]; [|apply post_ret; [exact HI|exact I]].
        eapply post_bind; [apply post_hloop; [exact HI|apply incl_refl]|].
        intros oip st1 I1 R1 V1.
        assert (Hc1 : Forall (G st1) combined) by (eapply Forall_G_mono; eassumption).
        destruct oip as [a|].
        - unfold post. destruct (qav (a, port) q mc st1) as [r st2] eqn:Eq.
          destruct (H_query st1 a q mc r st2 I1 V1 Hq Eq) as (I2 & R2 & Hnr & Hab).
          assert (Hc2 : Forall (G st2) combined) by (eapply Forall_G_mono; eassumption).
          change (post good_rres st1 (rbind (qav (a, port) q mc) (fun onr =>
                    match onr with
                    | Some nr => rbind (rwnr rec stack combined nr q) (fun r0 =>
                                   match r0 with
                                   | inl result => rret result
                                   | inr delegation => loop (ns_match_count delegation) (sort_names (ns_hostnames delegation)) [] true
                                   end)
                    | None => rret (RErr (EDeadEnd q))
                    end) st1)).
          unfold RecursiveModel.rbind at 1. rewrite Eq.
          destruct r as [onr|w].
          + destruct onr as [nr|].
            * destruct (qav_some _ _ _ _ _ _ Eq) as [resp [Hv _]].
              assert (P2 : post good_rres st2 (rbind (rwnr rec stack combined nr q) (fun r0 =>
                                   match r0 with
                                   | inl result => rret result
                                   | inr delegation => loop (ns_match_count delegation) (sort_names (ns_hostnames delegation)) [] true
                                   end) st2)).
              { eapply post_bind; [eapply post_rwnr; [exact I2|exact Hc2|exact Hv|apply Hnr; reflexivity]|].
                intros r0 st3 I3 R3 V3. destruct r0 as [result|d]; [apply post_ret; assumption|].
                apply Hloop; [exact I3|eapply Forall_G_mono; eassumption]. }
              destruct P2 as (I3 & R3 & V3). split; [exact I3|]. split; [eapply R_trans; eassumption|exact V3].
            * unfold ret. cbn [fst snd]. split; [exact I2|]. split; [exact R2|exact I].
          + cbn [fst snd]. split; [exact I2|]. split; [exact R2|]. apply Hab. reflexivity.
        - destruct locally.
          + destruct (is_nil rest); apply Hloop; assumption.
          + apply Hloop; assumption.
      Qed.

      Lemma post_rbody (loop : list question -> question -> list rr -> N -> list dname -> list dname -> bool -> RM rres) stack q st :
        (forall stack' q' combined, QOK q' -> loop_ok combined (loop stack' q' combined)) ->
        Inv st -> post good_rres st (rbody rec loop stack q st).
      Proof.
        intros Hloop HI. unfold recursive_body.
        destruct (at_recursion_limit stack) eqn:El; [apply post_ret; [exact HI|exact I]|].
        destruct (is_duplicate_question stack q) eqn:Ed; [apply post_ret; [exact HI|exact I]|].
        eapply post_bind; [apply post_local, HI|].
        intros ol st1 I1 R1 [-> Hl]. cbv zeta.
        assert (Hcont : forall (given : RM (option nameservers)) combined,
                   QOK q -> Forall (G st) combined -> post (fun _ _ => True) st (given st) ->
                   post good_rres st (rbind given (fun c => match c with
                                    | Some d => loop (stack ++ [q]) q combined (ns_match_count d) (sort_names (ns_hostnames d)) [] true
                                    | None => rret (RErr (EDeadEnd q))
                                    end) st)).
        { intros given combined Hq Hc Hg. eapply post_bind; [exact Hg|].
          intros c st2 I2 R2 _. destruct c as [d|]; [|apply post_ret; [exact I2|exact I]].
          apply Hloop; [exact Hq|exact I2|eapply Forall_G_mono; eassumption]. }
        destruct ol as [[r|rrs|rrs s d|rrs cq]|].
        - apply post_ret; [exact I1|]. apply (H_local _ _ _ _ I1 Hl).
        - apply Hcont.
          + eapply H_q; try eassumption. left. eexists; exact Hl.
          + apply (H_local _ _ _ _ I1 Hl).
          + apply post_cnsl, I1.
        - apply Hcont.
          + eapply H_q; try eassumption. right; left. do 3 eexists; exact Hl.
          + constructor.
          + apply post_ret; auto.
        - apply post_rcr; [exact I1|]. apply (H_local _ _ _ _ I1 Hl).
        - apply Hcont.
          + eapply H_q; try eassumption. right; right. exact Hl.
          + constructor.
          + apply post_cnsl, I1.
      Qed.
    End Combinators.

    Theorem generic_invariant : forall f,
      rec_ok (rrn f) /\ (forall stack q combined, QOK q -> loop_ok combined (cloop f stack q combined)).
    Proof.
      induction f as [|f [IHr IHl]].
      - split.
        + intros stack q st HI. cbn. unfold post, stop. cbn [fst snd]. auto.
        + intros stack q combined _ mc cands next locally st HI _. cbn. unfold post, stop. cbn [fst snd]. auto.
      - split.
        + intros stack q st HI. rewrite rrn_S. apply post_rbody; assumption.
        + intros stack q combined Hq mc cands next locally st HI Hc. rewrite cloop_S.
          apply post_cstep; try assumption. apply IHl, Hq.
    Qed.
  End Generic.

  (* ====================================================================== *)
  (* 3. instances                                                            *)
  (* ====================================================================== *)

  Lemma qav_cache a q mc st : fst (snd (qav a q mc st)) = fst st.
  Proof.
    unfold query_and_validate, RecursiveModel.rbind, lift_t.
    destruct (query_nameserver o a q false (snd st)) as [[om|w] ts]; [|reflexivity]. cbn [fst snd].
    destruct om as [resp|]; [|reflexivity]. destruct (validate_nameserver_response q resp mc) as [x|e| |]; reflexivity.
  Qed.

  Lemma qav_log a q mc st : exists new, ts_rlog (snd (snd (qav a q mc st))) = new ++ ts_rlog (snd st)
                                        /\ Forall (fun x => x_addr x = a /\ x_question x = q /\ x_rd x = false) new.
  Proof.
    unfold query_and_validate, RecursiveModel.rbind, lift_t.
    destruct (query_nameserver o a q false (snd st)) as [[om|w] ts] eqn:E;
      pose proof (query_nameserver_dest _ _ _ _ _ _ _ E) as [new [E1 F1]]; cbn [fst snd].
    - destruct om as [resp|]; [|exists new; auto].
      destruct (validate_nameserver_response q resp mc) as [x|e| |]; exists new; auto.
    - exists new; auto.
  Qed.

  (* ---------- C08 no_panic ---------- *)
  Theorem rrn_no_panic (Ho : oracle_bytes_ok o) (Hz : ~ zone_panics zs) f stack q st :
    fst (rrn f stack q st) <> Abort APanic.
  Proof.
    destruct (generic_invariant (fun _ => True) (fun _ _ => True) (fun _ _ => True) (fun w => w <> APanic)
                (fun _ _ => True) (fun _ => True)) with (f := f) as [Hr _]; auto.
    - discriminate.
    - intros. split; apply Forall_forall; auto.
    - intros stack0 q0 st0 _ H. exfalso. apply Hz. eapply resolve_local_panic, H.
    - intros st0 a q0 mc r st' _ _ _ E. repeat split; auto.
      + intros. apply Forall_forall; auto.
      + intros w ->. intro. subst w. pose proof (qav_fine Ho (a, port) q0 mc st0 APanic) as Hq. rewrite E in Hq. discriminate (Hq eq_refl).
    - specialize (Hr stack q st I). destruct Hr as (_ & _ & Hr). destruct (fst (rrn f stack q st)) as [x|w]; [discriminate|].
      intro E. inversion E; subst. apply Hr. reflexivity.
  Qed.

  Theorem recursive_no_panic (Ho : oracle_bytes_ok o) (Hz : ~ zone_panics zs) f q st :
    fst (resolve_recursive cache cache_get cache_insert_all sort_names zs o pmode port f q st) <> Panic.
  Proof.
    unfold resolve_recursive. pose proof (rrn_no_panic Ho Hz f [] q st) as H.
    destruct (rrn f [] q st) as [[[x|e]|[| |]] st']; cbn [finish fst] in *; try discriminate. congruence.
  Qed.

  (* ---------- C06 only_validated_is_cached ----------
     the cache is changed by nothing but insert_all of the records of a result of
     validate_nameserver_response: every property of caches that such inserts preserve is preserved
     by a whole resolution *)
  Theorem rrn_cached_cut (P : cache -> Prop) :
    (forall c q resp mc nr i, P c -> validate_nameserver_response q resp mc = Ok (Some nr) ->
        ((exists x y, nr = NRDelegation x y) \/ forall r, In r (firstn i (nr_rrs nr)) -> owned_elsewhere zs q r = false) ->
        P (cache_insert_all c (firstn i (nr_rrs nr)))) ->
    forall f stack q st, P (fst st) -> P (fst (snd (rrn f stack q st))).
  Proof.
    intros HP f stack q st H0.
    destruct (generic_invariant (fun st => P (fst st)) (fun _ _ => True) (fun _ _ => True) (fun _ => True)
                (fun _ _ => True) (fun _ => True)) with (f := f) as [Hr _]; auto.
    - intros. split; apply Forall_forall; auto.
    - intros st0 q0 resp mc nr i H1 H2 _ H3. split; [|exact I]. cbn [fst]. eapply HP; eassumption.
    - intros st0 a q0 mc r st' H1 _ _ E. repeat split; auto.
      + pose proof (qav_cache (a, port) q0 mc st0) as Hc. rewrite E in Hc. cbn [snd] in Hc. rewrite Hc. exact H1.
      + intros. apply Forall_forall; auto.
    - specialize (Hr stack q st H0). exact (proj1 Hr).
  Qed.

  Theorem rrn_only_validated_cached (P : cache -> Prop) :
    (forall c q resp mc nr i, P c -> validate_nameserver_response q resp mc = Ok (Some nr) ->
                              P (cache_insert_all c (firstn i (nr_rrs nr)))) ->
    forall f stack q st, P (fst st) -> P (fst (snd (rrn f stack q st))).
  Proof. intros HP. apply rrn_cached_cut. intros c q resp mc nr i H1 H2 _. eapply HP; eassumption. Qed.

  (* ---------- the log: destinations and questions (C18, C01) ---------- *)

  (* what passes the filter was decoded from octets the oracle sent: it is well formed *)
  Lemma validated_wf (Ho : oracle_bytes_ok o) a q mc st nr st' :
    qav a q mc st = (Val (Some nr), st') -> Forall wf_rr (result_rrs nr).
  Proof.
    intro E. destruct (qav_some _ _ _ _ _ _ E) as [resp [Hv [Hq _]]].
    destruct (query_nameserver_logged _ _ _ _ _ _ _ Hq) as [new [e [_ [_ [Hl _]]]]].
    pose proof (logged_reply_wf _ _ _ _ _ _ Ho Hl) as (_ & _ & Wan & Wau & Wad).
    pose proof (filter_sound _ _ _ _ Hv) as Hall.
    eapply Forall_impl; [|exact Hall]. intros r Hr.
    assert (Hin : In r (m_answers resp) \/ In r (m_authority resp) \/ In r (m_additional resp)).
    { destruct Hr as [Ha|[Hn|[Hg|Hs]]].
      - left. exact (proj1 Ha).
      - destruct Hn as [[[H|H] _] _]; auto.
      - destruct Hg as [[H|H] _]; auto.
      - destruct Hs as (_ & _ & _ & [l1 [l2 [E2 _]]] & _). right; left. rewrite E2. apply in_or_app. right; left; reflexivity. }
    destruct Hin as [H|[H|H]];
      [exact (proj1 (Forall_forall _ _) Wan r H)|exact (proj1 (Forall_forall _ _) Wau r H)|exact (proj1 (Forall_forall _ _) Wad r H)].
  Qed.

  Section LogInvariant.
    Variable cache_content : cache -> rr -> Prop.
    Hypothesis CL_get : forall c n t r, In r (cache_get c n t) -> exists r', cache_content c r' /\ rr_sim r r'.
    Hypothesis CL_insert : forall c rrs r, cache_content (cache_insert_all c rrs) r ->
                                           cache_content c r \/ exists r', In r' rrs /\ rr_sim r r'.
    Variable PA : ip -> Prop.             (* addresses *)
    Variable PQ : question -> Prop.       (* questions *)
    Variable GT : rr -> Prop.             (* records *)
    Hypothesis GT_sim : forall a b, rr_sim a b -> GT b -> GT a.
    Hypothesis GT_up : forall a q mc st nr st', qav a q mc st = (Val (Some nr), st') -> Forall GT (result_rrs nr).
    Hypothesis GT_zone : forall name qt z zr r, zones_resolve zs name qt = Some (z, Ok zr) -> In r (zresult_rrs zr) -> GT r.
    Hypothesis GT_soa : forall name qt z zr s, zones_resolve zs name qt = Some (z, zr) -> zone_soa_rr z = Some s -> GT s.
    Hypothesis PA_ip : forall rrs h t a, Forall GT rrs -> In t (rtypes_of_mode pmode) -> get_ip rrs h t = Ok (Some a) -> PA a.
    Hypothesis PQ_q : forall stack q c,
      at_recursion_limit stack = false -> is_duplicate_question stack q = false ->
      ((exists rrs, resolve_local zs (cache_get c) LOCAL_FUEL stack q = Ok (LPartial rrs))
       \/ (exists rrs s d, resolve_local zs (cache_get c) LOCAL_FUEL stack q = Ok (LDelegation rrs s d))
       \/ (exists e, resolve_local zs (cache_get c) LOCAL_FUEL stack q = Err e)) -> PQ q.
    Variable base : list exchange.        (* the log before the resolution *)

    Definition log_ok (e : exchange) : Prop :=
      PA (fst (x_addr e)) /\ snd (x_addr e) = port /\ PQ (x_question e) /\ x_rd e = false.

    Definition log_inv (st : rstate) : Prop :=
      (exists new, ts_rlog (snd st) = new ++ base /\ Forall log_ok new) /\ (forall r, cache_content (fst st) r -> GT r).

    Theorem rrn_log_invariant f stack q st :
      log_inv st ->
      log_inv (snd (rrn f stack q st))
      /\ (forall res, fst (rrn f stack q st) = Val (ROk res) ->
            Forall GT (resolved_rrs res) /\ Forall GT (opt_list (resolved_soa_rr res))).
    Proof.
      intro H0.
      destruct (generic_invariant log_inv (fun _ _ => True) (fun _ r => GT r) (fun _ => True) (fun _ a => PA a) PQ)
        with (f := f) as [Hr _]; auto.
      - intros stack0 q0 st0 l [_ Hc] Hl.
        refine (local_from zs (cache_get (fst st0)) GT GT_zone GT_soa _ _ _ _ _ Hl).
        intros n t r Hr. destruct (CL_get _ _ _ _ Hr) as [r' [H1 H2]]. eapply GT_sim; [exact H2|]. apply Hc, H1.
      - intros stack0 q0 st0 _ Hl Hd Hc. eapply PQ_q; eassumption.
      - intros st0 q0 resp mc nr i [Hl Hc] Hv Hg _. split; [|exact I].
        split; [exact Hl|]. cbn [fst]. intros r Hr. destruct (CL_insert _ _ _ Hr) as [H|[r' [H1 H2]]]; [apply Hc, H|].
        eapply GT_sim; [exact H2|]. rewrite result_rrs_split in Hg. apply Forall_app in Hg.
        eapply Forall_forall; [exact (proj1 Hg)|]. eapply firstn_incl, H1.
      - intros st0 rrs h t a _ Hg Ht Hip. eapply PA_ip; eassumption.
      - intros st0 a q0 mc r st' [[new0 [El0 Fl0]] Hc] Ha Hq E.
        pose proof (qav_cache (a, port) q0 mc st0) as Ecache. pose proof (qav_log (a, port) q0 mc st0) as [new [Elog Fnew]].
        rewrite E in Ecache, Elog. cbn [snd] in Ecache, Elog.
        split; [|split; [exact I|split; [|auto]]].
        + split.
          * exists (new ++ new0). rewrite Elog, El0, app_assoc. split; [reflexivity|]. apply Forall_app. split; [|exact Fl0].
            eapply Forall_impl; [|exact Fnew]. intros x (h1 & h2 & h3). unfold log_ok. rewrite h1, h2, h3. cbn [fst snd]. auto.
          * rewrite Ecache. exact Hc.
        + intros nr ->. eapply GT_up, E.
      - specialize (Hr stack q st H0). destruct Hr as (H1 & _ & H3).
        split; [exact H1|]. intros res E. rewrite E in H3. exact H3.
    Qed.
  End LogInvariant.

  (* C18 port_fixed: every exchange of a resolution goes to the configured port and asks without RD *)
  Theorem rrn_port_fixed f stack q st :
    exists new, ts_rlog (snd (snd (rrn f stack q st))) = new ++ ts_rlog (snd st)
                /\ Forall (fun e => snd (x_addr e) = port /\ x_rd e = false) new.
  Proof.
    destruct (rrn_log_invariant (fun _ _ => True)) with (PA := fun _ : ip => True) (PQ := fun _ : question => True)
      (GT := fun _ : rr => True) (base := ts_rlog (snd st)) (f := f) (stack := stack) (q := q) (st := st)
      as [[[new [E F]] _] _]; auto.
    - intros c n t r _. exists r. split; [exact I|apply rr_sim_refl].
    - intros. apply Forall_forall. auto.
    - split; [|auto]. exists []. split; [reflexivity|constructor].
    - exists new. split; [exact E|]. eapply Forall_impl; [|exact F]. intros e (_ & h & _ & h'). auto.
  Qed.

  (* the address get_ip yields has the family of the record type asked for *)
  Lemma get_ip_family rrs h t a : Forall rr_typed rrs -> get_ip rrs h t = Ok (Some a) ->
    (t = RT_A -> ip_is_v4 a = true) /\ (t = RT_AAAA -> ip_is_v4 a = false).
  Proof.
    intros Ht. unfold get_ip. destruct (follow_cnames rrs h QT_Wildcard) as [[[fin m]|]| | |]; try discriminate.
    destruct (get_record rrs fin t) as [r|] eqn:Er; [|discriminate].
    unfold get_record in Er. apply find_some in Er. destruct Er as [Hin Hb]. apply andb_prop in Hb. destruct Hb as [Hty _].
    apply N.eqb_eq in Hty. eapply Forall_forall in Ht; [|exact Hin]. unfold rr_typed in Ht.
    revert Ht. destruct (rr_data r); intros Ht E; inversion E; subst a; cbn [ip_is_v4]; split; intro Et;
      try reflexivity; exfalso; rewrite Et in Hty; rewrite Hty in Ht; vm_compute in Ht; discriminate.
  Qed.

  Definition zones_rrs_ok (P : rr -> Prop) : Prop :=
    (forall name qt z zr r, zones_resolve zs name qt = Some (z, Ok zr) -> In r (zresult_rrs zr) -> P r)
    /\ (forall name qt z zr s, zones_resolve zs name qt = Some (z, zr) -> zone_soa_rr z = Some s -> P s).

  Section Family.
    Variable cache_content : cache -> rr -> Prop.
    Hypothesis CL_get : forall c n t r, In r (cache_get c n t) -> exists r', cache_content c r' /\ rr_sim r r'.
    Hypothesis CL_insert : forall c rrs r, cache_content (cache_insert_all c rrs) r ->
                                           cache_content c r \/ exists r', In r' rrs /\ rr_sim r r'.
    Hypothesis Ho : oracle_bytes_ok o.
    Hypothesis Hzt : zones_rrs_ok rr_typed.

    (* C18 only_v4 / only_v6: every destination of a resolution has the configured family *)
    Theorem rrn_only_family (v4 : bool) f stack q st :
      pmode = (if v4 then OnlyV4 else OnlyV6) ->
      (forall r, cache_content (fst st) r -> rr_typed r) ->
      exists new, ts_rlog (snd (snd (rrn f stack q st))) = new ++ ts_rlog (snd st)
                  /\ Forall (fun e => ip_is_v4 (fst (x_addr e)) = v4) new.
    Proof.
      intros Hm Hc0.
      destruct (rrn_log_invariant cache_content CL_get CL_insert) with (PA := fun a : ip => ip_is_v4 a = v4) (PQ := fun _ : question => True)
        (GT := rr_typed) (base := ts_rlog (snd st)) (f := f) (stack := stack) (q := q) (st := st)
        as [[[new [E F]] _] _]; auto.
      - exact rr_typed_sim.
      - intros a q0 mc st0 nr st' E. eapply Forall_impl; [|exact (validated_wf Ho _ _ _ _ _ _ E)]. exact wf_rr_typed.
      - exact (proj1 Hzt).
      - exact (proj2 Hzt).
      - intros rrs h t a Ht Hin Hip. destruct (get_ip_family _ _ _ _ Ht Hip) as [H4 H6].
        rewrite Hm in Hin. destruct v4; cbn [rtypes_of_mode] in Hin; destruct Hin as [<-|[]]; auto.
      - split; [|exact Hc0]. exists []. split; [reflexivity|constructor].
      - exists new. split; [exact E|]. eapply Forall_impl; [|exact F]. intros e (h & _). exact h.
    Qed.

    (* with typed sources every record the resolver returns is typed, and the cache stays typed *)
    Lemma rrn_typed f stack q st :
      (forall r, cache_content (fst st) r -> rr_typed r) ->
      (forall r, cache_content (fst (snd (rrn f stack q st))) r -> rr_typed r)
      /\ (forall res, fst (rrn f stack q st) = Val (ROk res) -> Forall rr_typed (resolved_rrs res)).
    Proof.
      intros Hc0.
      destruct (rrn_log_invariant cache_content CL_get CL_insert) with (PA := fun _ : ip => True) (PQ := fun _ : question => True)
        (GT := rr_typed) (base := ts_rlog (snd st)) (f := f) (stack := stack) (q := q) (st := st)
        as [[_ Hc] Hres]; auto.
      - exact rr_typed_sim.
      - intros a q0 mc st0 nr st' E. eapply Forall_impl; [|exact (validated_wf Ho _ _ _ _ _ _ E)]. exact wf_rr_typed.
      - exact (proj1 Hzt).
      - exact (proj2 Hzt).
      - split; [|exact Hc0]. exists []. split; [reflexivity|constructor].
      - split; [exact Hc|]. intros res E. exact (proj1 (Hres res E)).
    Qed.

    (* the address a hostname lookup yields has the family of the record type asked for *)
    Lemma htry_family f stack locally h t st a st' :
      (forall r, cache_content (fst st) r -> rr_typed r) ->
      htry (rrn f) stack locally h t st = (Val (Some a), st') ->
      (t = RT_A -> ip_is_v4 a = true) /\ (t = RT_AAAA -> ip_is_v4 a = false).
    Proof.
      intros Hc0. unfold hostname_try. destruct locally.
      - unfold RecursiveModel.rbind, local.
        destruct (resolve_local zs (cache_get (fst st)) LOCAL_FUEL stack (mkq h t RC_IN)) as [l|e| |] eqn:El; try discriminate.
        destruct l as [r|rrs|rrs s d|rrs cq]; try discriminate.
        destruct (get_ip_lift (resolved_rrs r) h t st) as [oa [E1 E2]]. rewrite E1. intro E. inversion E; subst.
        eapply get_ip_family; [|exact E2].
        refine (proj1 (local_from zs (cache_get (fst st')) rr_typed (proj1 Hzt) (proj2 Hzt) _ _ _ _ _ El)).
        intros n t0 r0 Hr. destruct (CL_get _ _ _ _ Hr) as [r' [H1 H2]]. eapply rr_typed_sim; [exact H2|]. apply Hc0, H1.
      - unfold RecursiveModel.rbind.
        destruct (rrn_typed f stack (mkq h t RC_IN) st Hc0) as [_ Hres].
        destruct (rrn f stack (mkq h t RC_IN) st) as [[[res|e]|w] st1]; try discriminate.
        specialize (Hres res eq_refl).
        destruct (get_ip_lift (resolved_rrs res) h t st1) as [oa [E1 E2]]. rewrite E1. intro E. inversion E; subst.
        eapply get_ip_family; eassumption.
    Qed.
  End Family.

  (* the loop of resolve_hostname_to_ip over two record types: the second is asked only when the
     first yielded no address *)
  Lemma hloop_two rec stack locally h t1 t2 st a st' :
    hloop rec stack locally h [t1; t2] st = (Val (Some a), st') ->
    htry rec stack locally h t1 st = (Val (Some a), st')
    \/ exists st1, htry rec stack locally h t1 st = (Val None, st1) /\ htry rec stack locally h t2 st1 = (Val (Some a), st').
  Proof.
    cbn [hostname_loop]. unfold RecursiveModel.rbind, ret.
    destruct (htry rec stack locally h t1 st) as [[[x|]|w] st1] eqn:E1; try discriminate.
    - intro E. inversion E; subst. left. reflexivity.
    - destruct (htry rec stack locally h t2 st1) as [[[y|]|w] st2] eqn:E2; try discriminate.
      intro E. inversion E; subst. right. exists st1. split; [reflexivity|exact E2].
  Qed.

  Section Prefer.
    Variable cache_content : cache -> rr -> Prop.
    Hypothesis CL_get : forall c n t r, In r (cache_get c n t) -> exists r', cache_content c r' /\ rr_sim r r'.
    Hypothesis CL_insert : forall c rrs r, cache_content (cache_insert_all c rrs) r ->
                                           cache_content c r \/ exists r', In r' rrs /\ rr_sim r r'.
    Hypothesis Ho : oracle_bytes_ok o.
    Hypothesis Hzt : zones_rrs_ok rr_typed.

    (* C18 prefer_family: an address of the other family is used for a host only after the question
       for the preferred family was asked (locally, or upstream when the host is looked up
       recursively) and yielded no address *)
    Theorem rhi_prefer_family (v4 : bool) f stack locally h st a st' :
      pmode = (if v4 then PreferV4 else PreferV6) ->
      (forall r, cache_content (fst st) r -> rr_typed r) ->
      rhi (rrn f) stack locally h st = (Val (Some a), st') ->
      ip_is_v4 a = negb v4 ->
      exists st1, htry (rrn f) stack locally h (if v4 then RT_A else RT_AAAA) st = (Val None, st1)
                  /\ htry (rrn f) stack locally h (if v4 then RT_AAAA else RT_A) st1 = (Val (Some a), st').
    Proof.
      intros Hm Hc0 E Hfam. unfold resolve_hostname_to_ip in E.
      assert (Hrt : rtypes_of_mode pmode = if v4 then [RT_A; RT_AAAA] else [RT_AAAA; RT_A]) by (rewrite Hm; destruct v4; reflexivity).
      rewrite Hrt in E. clear Hrt.
      destruct v4; apply hloop_two in E; destruct E as [E|E]; try exact E; exfalso;
        destruct (htry_family cache_content CL_get CL_insert Ho Hzt f stack locally h _ st a st' Hc0 E) as [H4 H6].
      - rewrite (H4 eq_refl) in Hfam. discriminate.
      - rewrite (H6 eq_refl) in Hfam. discriminate.
    Qed.
  End Prefer.

  (* ---------- C08 / C07 answer_provenance ---------- *)
  Section Provenance.
    Variable cache_content : cache -> rr -> Prop.
    Hypothesis CL_get : forall c n t r, In r (cache_get c n t) -> exists r', cache_content c r' /\ rr_sim r r'.
    Hypothesis CL_insert : forall c rrs r, cache_content (cache_insert_all c rrs) r ->
                                           cache_content c r \/ exists r', In r' rrs /\ rr_sim r r'.
    Variable c0 : cache.                  (* the cache before the resolution *)

    (* local data: a record (or the SOA) of a configured zone *)
    Definition zone_src (r : rr) : Prop :=
      (exists name qt z zr, zones_resolve zs name qt = Some (z, Ok zr) /\ In r (zresult_rrs zr))
      \/ (exists name qt z zr, zones_resolve zs name qt = Some (z, zr) /\ zone_soa_rr z = Some r).
    (* a record of a message the oracle sent (a logged exchange delivered octets that decode to it)
       which passed the header gate against the request of that exchange and which the filter
       allows for the question of that exchange *)
    Definition upstream_src (log : list exchange) (r : rr) : Prop :=
      exists e resp mc, In e log /\ reply_from o e /\ exchange_message e = Some resp
        /\ response_matches_request (make_request (x_question e) (x_rd e)) resp = true
        /\ allowed (x_question e) mc resp r.
    Definition prov (log : list exchange) (r : rr) : Prop :=
      exists r0, rr_sim r r0 /\ (zone_src r0 \/ cache_content c0 r0 \/ upstream_src log r0).

    Lemma prov_sim log a b : rr_sim a b -> prov log b -> prov log a.
    Proof. intros Hs [r0 [H1 H2]]. exists r0. split; [eapply rr_sim_trans; eassumption|exact H2]. Qed.
    Lemma prov_mono log new r : prov log r -> prov (new ++ log) r.
    Proof.
      intros [r0 [H1 [H|[H|(e & resp & mc & Hin & H)]]]]; exists r0; (split; [exact H1|]); auto.
      right; right. exists e, resp, mc. split; [apply in_or_app; right; exact Hin|exact H].
    Qed.

    Definition prov_inv (st : rstate) : Prop := forall r, cache_content (fst st) r -> prov (ts_rlog (snd st)) r.

    Theorem rrn_provenance f stack q st :
      prov_inv st ->
      prov_inv (snd (rrn f stack q st))
      /\ (forall res, fst (rrn f stack q st) = Val (ROk res) ->
            Forall (prov (ts_rlog (snd (snd (rrn f stack q st))))) (resolved_rrs res ++ opt_list (resolved_soa_rr res))).
    Proof.
      intro H0.
      destruct (generic_invariant prov_inv (fun st st' => exists new, ts_rlog (snd st') = new ++ ts_rlog (snd st))
                  (fun st r => prov (ts_rlog (snd st)) r) (fun _ => True) (fun _ _ => True) (fun _ => True))
        with (f := f) as [Hr _]; auto.
      - intros st0. exists []. reflexivity.
      - intros a b c [n1 E1] [n2 E2]. exists (n2 ++ n1). rewrite E2, E1, app_assoc. reflexivity.
      - intros st0 st' r [new E]. rewrite E. apply prov_mono.
      - intros stack0 q0 st0 l Hc Hl.
        refine (local_from zs (cache_get (fst st0)) (prov (ts_rlog (snd st0))) _ _ _ _ _ _ _ Hl).
        + intros name qt z zr r Hz Hin. exists r. split; [apply rr_sim_refl|]. left. left. exists name, qt, z, zr. auto.
        + intros name qt z zr s Hz Hs. exists s. split; [apply rr_sim_refl|]. left. right. exists name, qt, z, zr. auto.
        + intros n t r Hr. destruct (CL_get _ _ _ _ Hr) as [r' [H1 H2]]. eapply prov_sim; [exact H2|]. apply Hc, H1.
      - intros st0 q0 resp mc nr i Hc Hv Hg _. split; [|exists []; reflexivity].
        intros r Hr. cbn [fst snd] in *. destruct (CL_insert _ _ _ Hr) as [H|[r' [H1 H2]]]; [apply Hc, H|].
        eapply prov_sim; [exact H2|]. rewrite result_rrs_split in Hg. apply Forall_app in Hg.
        eapply Forall_forall; [exact (proj1 Hg)|]. eapply firstn_incl, H1.
      - intros st0 a q0 mc r st' Hc _ _ E.
        pose proof (qav_cache (a, port) q0 mc st0) as Ecache. pose proof (qav_log (a, port) q0 mc st0) as [new [Elog _]].
        rewrite E in Ecache, Elog. cbn [snd] in Ecache, Elog.
        split; [|split; [exists new; exact Elog|split; [|auto]]].
        + intros r0 Hr0. rewrite Ecache in Hr0. rewrite Elog. apply prov_mono, Hc, Hr0.
        + intros nr ->. destruct (qav_some _ _ _ _ _ _ E) as [resp [Hv [Hq _]]].
          destruct (query_nameserver_logged _ _ _ _ _ _ _ Hq) as [new' [e [El [Hin [(h1 & h2 & h3 & h4 & h5) [Hm _]]]]]].
          eapply Forall_impl; [|exact (filter_sound _ _ _ _ Hv)]. intros r0 Hall.
          exists r0. split; [apply rr_sim_refl|]. right; right. exists e, resp, mc.
          split; [rewrite El; apply in_or_app; left; exact Hin|]. split; [exact h5|]. split; [exact h4|].
          rewrite h2, h3. split; [exact Hm|exact Hall].
      - specialize (Hr stack q st H0). destruct Hr as (H1 & _ & H3).
        split; [exact H1|]. intros res E. rewrite E in H3. apply Forall_app. exact H3.
    Qed.
  End Provenance.

  (* ---------- C01, network part ---------- *)

  (* done_means_no_upstream: a question local data answers is answered without touching the
     cache, the clock or the log *)
  Theorem rrn_done_no_upstream f stack q st r :
    at_recursion_limit stack = false -> is_duplicate_question stack q = false ->
    resolve_local zs (cache_get (fst st)) LOCAL_FUEL stack q = Ok (LDone r) ->
    rrn (S f) stack q st = (Val (ROk r), st).
  Proof.
    intros H1 H2 Hl. rewrite rrn_S. unfold recursive_body. rewrite H1, H2.
    unfold RecursiveModel.rbind, local. rewrite Hl. reflexivity.
  Qed.

  (* log_names_not_owned: no question sent upstream is about a name an authoritative zone owns *)
  Theorem rrn_log_names_not_owned f stack q st :
    exists new, ts_rlog (snd (snd (rrn f stack q st))) = new ++ ts_rlog (snd st)
                /\ Forall (fun e => ~ owned_auth zs (q_name (x_question e))) new.
  Proof.
    destruct (rrn_log_invariant (fun _ _ => True)) with (PA := fun _ : ip => True) (PQ := fun q : question => ~ owned_auth zs (q_name q))
      (GT := fun _ : rr => True) (base := ts_rlog (snd st)) (f := f) (stack := stack) (q := q) (st := st)
      as [[[new [E F]] _] _]; auto.
    - intros c n t r _. exists r. split; [exact I|apply rr_sim_refl].
    - intros. apply Forall_forall. auto.
    - intros stack0 q0 c Hl Hd Hcases Hown.
      destruct (owned_local_cases zs (cache_get c) (N.to_nat (RECURSION_LIMIT + 1)) stack0 q0 Hown (conj Hl Hd)) as [[r H]|[[rrs [cq H]]|[H|H]]];
        change (S (N.to_nat (RECURSION_LIMIT + 1))) with LOCAL_FUEL in H;
        destruct Hcases as [[x Hx]|[[x [y [z Hx]]]|[x Hx]]]; rewrite H in Hx; discriminate.
    - split; [|auto]. exists []. split; [reflexivity|constructor].
    - exists new. split; [exact E|]. eapply Forall_impl; [|exact F]. intros e (_ & _ & h & _). exact h.
  Qed.

  (* nxdomain_only_from_auth_zone: the recursive resolver reports a name error only when local
     resolution did (nothing an upstream server says becomes AuthoritativeNameError) *)
  Lemma rcr_not_ane rec stack rrs q st s st' : rcr rec stack rrs q st <> (Val (ROk (AuthoritativeNameError s)), st').
  Proof.
    unfold resolve_combined_recursive, RecursiveModel.rbind, ret.
    destruct (rec stack q st) as [[[r|e]|w] st1]; discriminate.
  Qed.

  Lemma rwnr_not_ane rec stack combined nr q st s st' :
    rwnr rec stack combined nr q st <> (Val (inl (ROk (AuthoritativeNameError s))), st').
  Proof.
    destruct (rwnr_cut rec stack combined nr q) as (nr' & _ & _ & ->). clear nr. rename nr' into nr.
    unfold resolve_with_response_match, RecursiveModel.rbind, insert_all, ret.
    destruct nr as [rrs soa|rrs cname|rrs d]; [discriminate| |].
    - destruct (resolve_combined_recursive _ _ _ _ _ _) as [[r|w] st1] eqn:E; [|discriminate].
      intro H. inversion H; subst. eapply rcr_not_ane. exact E.
    - unfold glue_answer. destruct (q_type q =? RT_A).
      + destruct (negb _); discriminate.
      + destruct (q_type q =? RT_AAAA); [|discriminate]. destruct (negb _); discriminate.
  Qed.

  Lemma cloop_not_ane : forall f stack q combined mc cands next locally st s st',
    cloop f stack q combined mc cands next locally st <> (Val (ROk (AuthoritativeNameError s)), st').
  Proof.
    induction f as [|f IH]; intros stack q combined mc cands next locally st s st'; [discriminate|].
    rewrite cloop_S. unfold candidate_step.
    destruct (pop_last cands) as [[candidate rest]|]; [|discriminate].
    unfold RecursiveModel.rbind at 1.
    destruct (rhi (rrn f) stack locally candidate st) as [[oip|w] st1]; [|discriminate].
    destruct oip as [a|].
    - unfold RecursiveModel.rbind at 1. destruct (qav (a, port) q mc st1) as [[onr|w] st2]; [|discriminate].
      destruct onr as [nr|]; [|discriminate].
      unfold RecursiveModel.rbind at 1. destruct (rwnr (rrn f) stack combined nr q st2) as [[r|w] st3] eqn:Er; [|discriminate].
      destruct r as [result|d]; [|apply IH].
      unfold ret. intro H. inversion H; subst. eapply rwnr_not_ane. exact Er.
    - destruct locally; [destruct (is_nil rest)|]; apply IH.
  Qed.

  Theorem rrn_nxdomain_only_local f stack q st s st' :
    rrn f stack q st = (Val (ROk (AuthoritativeNameError s)), st') ->
    resolve_local zs (cache_get (fst st)) LOCAL_FUEL stack q = Ok (LDone (AuthoritativeNameError s)) /\ st' = st.
  Proof.
    destruct f as [|f]; [discriminate|]. rewrite rrn_S. unfold recursive_body.
    destruct (at_recursion_limit stack); [discriminate|]. destruct (is_duplicate_question stack q); [discriminate|].
    unfold RecursiveModel.rbind at 1. unfold local at 1.
    destruct (resolve_local zs (cache_get (fst st)) LOCAL_FUEL stack q) as [l|e| |]; try discriminate.
    - cbv zeta. destruct l as [r|rrs|rrs so d|rrs cq].
      + unfold ret. intro H. inversion H; subst. auto.
      + unfold RecursiveModel.rbind. destruct (cns _ _ _) as [[c|w] st1]; [|discriminate].
        destruct c as [d|]; [|discriminate]. intro H. exfalso. eapply cloop_not_ane. exact H.
      + unfold RecursiveModel.rbind, ret. intro H. exfalso. eapply cloop_not_ane. exact H.
      + intro H. exfalso. eapply rcr_not_ane. exact H.
    - cbv zeta. unfold RecursiveModel.rbind. destruct (cns _ _ _) as [[c|w] st1]; [|discriminate].
      destruct c as [d|]; [|discriminate]. intro H. exfalso. eapply cloop_not_ane. exact H.
  Qed.

  (* ---------- C10, network part ---------- *)
  Section Chain.
    Hypothesis Hzones : zones_answers_ok zs.
    Hypothesis Hcache : forall c, cget_ok (cache_get c).

    Lemma get_records_fin rrs name t : Forall (fun r => rr_name r = name /\ rr_type r = t) (get_records rrs name t).
    Proof.
      unfold get_records. apply Forall_forall. intros r Hr. apply filter_In in Hr. destruct Hr as [_ Hb].
      apply andb_prop in Hb. destruct Hb as [H1 H2]. apply N.eqb_eq in H1. apply dname_eqb_eq in H2. auto.
    Qed.

    Definition chain_res (q : question) (r : rres) : Prop :=
      match r with ROk res => chain_shape (q_name q) (q_type q) (resolved_rrs res) | RErr _ => True end.

    Lemma rcr_chain rec stack rrs q0 q st r st' :
      (forall st1 r1 st2, rec stack q st1 = (Val r1, st2) -> chain_res q r1) ->
      chain_from (q_name q0) rrs = Some (q_name q) -> q_type q = q_type q0 ->
      rcr rec stack rrs q st = (Val r, st') -> chain_res q0 r.
    Proof.
      intros Hrec Hch Hty. unfold resolve_combined_recursive, RecursiveModel.rbind, ret.
      destruct (rec stack q st) as [[[res|e]|w] st1] eqn:E; try discriminate; intro H; inversion H; subst; [|exact I].
      cbn [chain_res resolved_rrs]. eapply chain_shape_app; [exact Hch|]. rewrite <- Hty. exact (Hrec _ _ _ E).
    Qed.

    Lemma rwnr_chain rec stack nr q st r st' resp mc :
      q_type q <> RT_CNAME -> q_type q <> QT_Wildcard ->
      (forall q' st1 r1 st2, q_type q' = q_type q -> rec stack q' st1 = (Val r1, st2) -> chain_res q' r1) ->
      validate_nameserver_response q resp mc = Ok (Some nr) ->
      rwnr rec stack [] nr q st = (Val (inl r), st') -> chain_res q r.
    Proof.
      intros Hq1 Hq2 Hrec Hv. pose proof (filter_chain_ok _ _ _ _ Hv) as Hch.
      destruct (rwnr_cut rec stack [] nr q) as (nr' & Hs & _ & ->).
      destruct Hs as [_|i r0 Hnd Hn Ho Hp].
      2: { (* cut: the prefix is the chain from the question name to the owner of the first record cut *)
        assert (Hcf : chain_from (q_name q) (firstn i (nr_rrs nr)) = Some (rr_name r0)).
        { destruct nr as [rrs [s0|]|rrs c|rrs d]; cbn [nr_rrs] in *.
          - subst rrs. destruct i; discriminate.
          - destruct Hch as (cn & fin & last & -> & _ & Hvc). destruct Hvc as (H1 & _ & H3 & _).
            eapply cut_chain; try eassumption. eapply Forall_impl; [|exact H3]. cbn beta. tauto.
          - destruct Hch as [_ (H1 & _)].
            pose proof (cut_chain zs q (q_name q) rrs [] c i r0 H1 (Forall_nil _)) as Hcc.
            rewrite app_nil_r in Hcc. apply Hcc; assumption.
          - exfalso. eapply Hnd. reflexivity. }
        unfold resolve_with_response_match. unfold RecursiveModel.rbind at 1 2. unfold insert_all at 1.
        destruct (resolve_combined_recursive _ _ _ _ _ _) as [[r1|w] st1] eqn:E; [|discriminate].
        unfold ret. intro H. inversion H; subst. rewrite merge_nil_l in E.
        eapply rcr_chain; [| | |exact E].
        + intros st2 r2 st3 E2. eapply Hrec; [|exact E2]. reflexivity.
        + cbn [mkq q_name]. exact Hcf.
        + reflexivity. }
      unfold resolve_with_response_match. destruct nr as [rrs soa|rrs cname|rrs d].
      - unfold RecursiveModel.rbind, insert_all, ret. intro H. inversion H; subst. cbn [chain_res resolved_rrs].
        rewrite merge_nil_l. destruct soa as [s|].
        + subst rrs. apply chain_shape_nil.
        + destruct Hch as (cn & fin & last & -> & _ & Hvc). apply chain_ok_shape. eapply vchain_chain_ok; eassumption.
      - destruct Hch as [_ Hvc]. unfold RecursiveModel.rbind at 1 2. unfold insert_all at 1.
        destruct (resolve_combined_recursive _ _ _ _ _ _) as [[r1|w] st1] eqn:E; [|discriminate].
        unfold ret. intro H. inversion H; subst. rewrite merge_nil_l in E.
        eapply rcr_chain; [| | |exact E].
        + intros st2 r2 st3 E2. eapply Hrec; [|exact E2]. reflexivity.
        + cbn [mkq q_name]. exact (proj1 Hvc).
        + reflexivity.
      - unfold RecursiveModel.rbind, insert_all, ret. unfold glue_answer. rewrite !merge_nil_l.
        destruct (q_type q =? RT_A) eqn:EA.
        + apply N.eqb_eq in EA. destruct (negb _); intro H; inversion H; subst. cbn [chain_res resolved_rrs].
          exists [], (get_records rrs (q_name q) RT_A), (q_name q). split; [reflexivity|]. split; [reflexivity|].
          rewrite EA. apply get_records_fin.
        + destruct (q_type q =? RT_AAAA) eqn:E6; [|discriminate].
          apply N.eqb_eq in E6. destruct (negb _); intro H; inversion H; subst. cbn [chain_res resolved_rrs].
          exists [], (get_records rrs (q_name q) RT_AAAA), (q_name q). split; [reflexivity|]. split; [reflexivity|].
          rewrite E6. apply get_records_fin.
    Qed.

    Theorem rrn_chain_shape : forall f,
      (forall stack q st r st', q_type q <> RT_CNAME -> q_type q <> QT_Wildcard ->
         rrn f stack q st = (Val r, st') -> chain_res q r)
      /\ (forall stack q mc cands next locally st r st', q_type q <> RT_CNAME -> q_type q <> QT_Wildcard ->
         cloop f stack q [] mc cands next locally st = (Val r, st') -> chain_res q r).
    Proof.
      induction f as [|f [IHr IHl]]; [split; intros; discriminate|]. split.
      - intros stack q st r st' Hq1 Hq2. rewrite rrn_S. unfold recursive_body.
        destruct (at_recursion_limit stack); [unfold ret; intro H; inversion H; exact I|].
        destruct (is_duplicate_question stack q); [unfold ret; intro H; inversion H; exact I|].
        unfold RecursiveModel.rbind at 1. unfold local at 1.
        destruct (resolve_local zs (cache_get (fst st)) LOCAL_FUEL stack q) as [l|e| |] eqn:El; try discriminate.
        + cbv zeta. destruct l as [res|rrs|rrs so d|rrs cq].
          * unfold ret. intro H. inversion H; subst. cbn [chain_res]. apply chain_ok_shape.
            apply (local_chain_ok zs (cache_get (fst st')) Hzones (Hcache _) _ _ _ _ Hq1 Hq2 El). intros [].
          * exfalso. eapply no_partial; [exact Hq2|exact El].
          * unfold RecursiveModel.rbind, ret. apply IHl; assumption.
          * destruct (local_alias zs (cache_get (fst st)) Hzones (Hcache _) _ _ _ _ _ Hq2 El) as [H1 H2].
            intro H. eapply rcr_chain; [| | |exact H].
            -- intros st1 r1 st2 E1. eapply IHr; [| |exact E1]; rewrite H2; cbn [subq q_type]; assumption.
            -- exact H1.
            -- rewrite H2. reflexivity.
        + cbv zeta. unfold RecursiveModel.rbind. destruct (cns _ _ _) as [[c|w] st1]; [|discriminate].
          destruct c as [d|]; [apply IHl; assumption|]. unfold ret. intro H. inversion H; exact I.
      - intros stack q mc cands next locally st r st' Hq1 Hq2. rewrite cloop_S. unfold candidate_step.
        destruct (pop_last cands) as [[candidate rest]|]; [|unfold ret; intro H; inversion H; exact I].
        unfold RecursiveModel.rbind at 1.
        destruct (rhi (rrn f) stack locally candidate st) as [[oip|w] st1]; [|discriminate].
        destruct oip as [a|].
        + unfold RecursiveModel.rbind at 1. destruct (qav (a, port) q mc st1) as [[onr|w] st2] eqn:Eq; [|discriminate].
          destruct onr as [nr|]; [|unfold ret; intro H; inversion H; exact I].
          destruct (qav_some _ _ _ _ _ _ Eq) as [resp [Hv _]].
          unfold RecursiveModel.rbind at 1. destruct (rwnr (rrn f) stack [] nr q st2) as [[r0|w] st3] eqn:Er; [|discriminate].
          destruct r0 as [result|d]; [|apply IHl; assumption].
          unfold ret. intro H. inversion H; subst.
          eapply rwnr_chain; [exact Hq1|exact Hq2| |exact Hv|exact Er].
          intros q' st4 r1 st5 Hty E. eapply IHr; [| |exact E]; rewrite Hty; assumption.
        + destruct locally; [destruct (is_nil rest)|]; apply IHl; assumption.
    Qed.
  End Chain.

  (* ---------- C07 referral_progress ----------
     the only way the candidate loop changes the delegation in use: a validated referral, which is
     strictly deeper than the delegation in use (its match count exceeds the current one), encloses
     the question name (so the count never exceeds the number of labels of the question name) and
     names at least one host; the loop then continues with exactly that delegation *)
  Theorem referral_progress rec loop stack q combined mc cands next locally st candidate rest a st1 nr st2 d st3 :
    pop_last cands = Some (candidate, rest) ->
    rhi rec stack locally candidate st = (Val (Some a), st1) ->
    qav (a, port) q mc st1 = (Val (Some nr), st2) ->
    rwnr rec stack combined nr q st2 = (Val (inr d), st3) ->
    cstep rec loop stack q combined mc cands next locally st
    = loop (ns_match_count d) (sort_names (ns_hostnames d)) [] true st3
    /\ mc < ns_match_count d
    /\ is_subdomain_of (q_name q) (ns_name d) = true
    /\ ns_match_count d <= llen (labels (q_name q))
    /\ ns_hostnames d <> [].
  Proof.
    intros Ep Eh Eq Er. split.
    - unfold candidate_step. rewrite Ep. unfold RecursiveModel.rbind. rewrite Eh, Eq, Er. reflexivity.
    - destruct (rwnr_inr stack rec combined nr q st2 d st3 Er) as [rrs ->].
      destruct (qav_some _ _ _ _ _ _ Eq) as [resp [Hv _]].
      destruct (delegation_progress _ _ _ _ _ Hv) as [Hlt [Hsub [pre Hanc]]].
      split; [exact Hlt|]. split; [exact Hsub|]. split.
      + unfold ns_match_count, llen. rewrite Hanc, app_length. lia.
      + eapply delegation_hostnames_nonempty. exact Hv.
  Qed.

  (* when no referral is involved the delegation in use stays the same *)
  Theorem no_referral_same_delegation rec loop stack q combined mc cands next locally st candidate rest st1 :
    pop_last cands = Some (candidate, rest) ->
    rhi rec stack locally candidate st = (Val None, st1) ->
    exists cands' next' locally',
      cstep rec loop stack q combined mc cands next locally st = loop mc cands' next' locally' st1.
  Proof.
    intros Ep Eh. unfold candidate_step. rewrite Ep. unfold RecursiveModel.rbind. rewrite Eh.
    destruct locally; [destruct (is_nil rest)|]; do 3 eexists; reflexivity.
  Qed.

  (* ====================================================================== *)
  (* 4. the same for resolve_recursive (the 60 s wrapper, empty question stack) *)
  (* ====================================================================== *)
  Notation rr_top := (resolve_recursive cache cache_get cache_insert_all sort_names zs o pmode port).

  Lemma finish_ok (x : out rres * rstate) res st' : finish cache x = (Ok res, st') -> x = (Val (ROk res), st').
  Proof. destruct x as [[[r|e]|[| |]] st1]; cbn [finish]; intro H; inversion H; reflexivity. Qed.
  Lemma finish_snd (x : out rres * rstate) : snd (finish cache x) = snd x.
  Proof. destruct x as [[[r|e]|[| |]] st1]; reflexivity. Qed.

  Theorem recursive_only_validated_cached (P : cache -> Prop) :
    (forall c q resp mc nr i, P c -> validate_nameserver_response q resp mc = Ok (Some nr) ->
                              P (cache_insert_all c (firstn i (nr_rrs nr)))) ->
    forall f q st, P (fst st) -> P (fst (snd (rr_top f q st))).
  Proof. intros HP f q st H. unfold resolve_recursive. rewrite finish_snd. apply rrn_only_validated_cached; assumption. Qed.

  Theorem recursive_cached_cut (P : cache -> Prop) :
    (forall c q resp mc nr i, P c -> validate_nameserver_response q resp mc = Ok (Some nr) ->
        ((exists x y, nr = NRDelegation x y) \/ forall r, In r (firstn i (nr_rrs nr)) -> owned_elsewhere zs q r = false) ->
        P (cache_insert_all c (firstn i (nr_rrs nr)))) ->
    forall f q st, P (fst st) -> P (fst (snd (rr_top f q st))).
  Proof. intros HP f q st H. unfold resolve_recursive. rewrite finish_snd. apply rrn_cached_cut; assumption. Qed.

  Theorem recursive_port_fixed f q st :
    exists new, ts_rlog (snd (snd (rr_top f q st))) = new ++ ts_rlog (snd st)
                /\ Forall (fun e => snd (x_addr e) = port /\ x_rd e = false) new.
  Proof. unfold resolve_recursive. rewrite finish_snd. apply rrn_port_fixed. Qed.

  Theorem recursive_log_names_not_owned f q st :
    exists new, ts_rlog (snd (snd (rr_top f q st))) = new ++ ts_rlog (snd st)
                /\ Forall (fun e => ~ owned_auth zs (q_name (x_question e))) new.
  Proof. unfold resolve_recursive. rewrite finish_snd. apply rrn_log_names_not_owned. Qed.

  Theorem recursive_done_no_upstream f q st r :
    resolve_local zs (cache_get (fst st)) LOCAL_FUEL [] q = Ok (LDone r) -> rr_top (S f) q st = (Ok r, st).
  Proof.
    intro Hl. unfold resolve_recursive. rewrite (rrn_done_no_upstream f [] q st r); [reflexivity|reflexivity|reflexivity|exact Hl].
  Qed.

  Theorem recursive_nxdomain_only_local f q st s st' :
    rr_top f q st = (Ok (AuthoritativeNameError s), st') ->
    resolve_local zs (cache_get (fst st)) LOCAL_FUEL [] q = Ok (LDone (AuthoritativeNameError s)) /\ st' = st.
  Proof. intro H. apply finish_ok in H. eapply rrn_nxdomain_only_local, H. Qed.

  Theorem recursive_chain_shape :
    zones_answers_ok zs -> (forall c, cget_ok (cache_get c)) ->
    forall f q st res st', q_type q <> RT_CNAME -> q_type q <> QT_Wildcard ->
      rr_top f q st = (Ok res, st') -> chain_shape (q_name q) (q_type q) (resolved_rrs res).
  Proof.
    intros Hz Hc f q st res st' H1 H2 H. apply finish_ok in H.
    exact (proj1 (rrn_chain_shape Hz Hc f) [] q st (ROk res) st' H1 H2 H).
  Qed.

  Section TopWithCache.
    Variable cache_content : cache -> rr -> Prop.
    Hypothesis CL_get : forall c n t r, In r (cache_get c n t) -> exists r', cache_content c r' /\ rr_sim r r'.
    Hypothesis CL_insert : forall c rrs r, cache_content (cache_insert_all c rrs) r ->
                                           cache_content c r \/ exists r', In r' rrs /\ rr_sim r r'.

    Theorem recursive_only_family (v4 : bool) :
      oracle_bytes_ok o -> zones_rrs_ok rr_typed -> pmode = (if v4 then OnlyV4 else OnlyV6) ->
      forall f q st, (forall r, cache_content (fst st) r -> rr_typed r) ->
      exists new, ts_rlog (snd (snd (rr_top f q st))) = new ++ ts_rlog (snd st)
                  /\ Forall (fun e => ip_is_v4 (fst (x_addr e)) = v4) new.
    Proof.
      intros Ho Hz Hm f q st Hc. unfold resolve_recursive. rewrite finish_snd.
      eapply rrn_only_family; eassumption.
    Qed.

    Theorem recursive_provenance f q st res st' :
      rr_top f q st = (Ok res, st') ->
      forall r, In r (resolved_rrs res ++ opt_list (resolved_soa_rr res)) ->
      exists r0, rr_sim r r0 /\
        (zone_src r0 \/ cache_content (fst st) r0 \/ upstream_src (ts_rlog (snd st')) r0).
    Proof.
      intros H r Hr. apply finish_ok in H.
      destruct (rrn_provenance cache_content CL_get CL_insert (fst st) f [] q st) as [_ Hres].
      { intros x Hx. exists x. split; [apply rr_sim_refl|]. right; left. exact Hx. }
      rewrite H in Hres. cbn [fst snd] in Hres. specialize (Hres res eq_refl).
      eapply Forall_forall in Hres; [|exact Hr]. exact Hres.
    Qed.
  End TopWithCache.
End RP.
